/-
Capstone of C01 (area SecInt): `eval_correct` — on every expression tree over the secure-integer operations
(all constructors of `SecInt.Expr` except the gcd family `gop`), the PROTOCOL evaluation `evalProto`
(`MpycV.Model.SecIntEval`: one `sgn`/`lsb`/`_mod`/… model per node, each node with its own named randomness)
equals the Python-integer meaning `evalSpec`, for ALL randomness in the declared ranges, provided every
intermediate value is an `l`-bit number.  Composition of the per-operation theorems of `MpycV.Props.C01`.

Contents: Option plumbing; per-operator lemmas (`ltP_correct`, `eqP_correct`, `lsbP_correct`, `modP_correct`,
`protoUn_correct`, `protoBin_correct`, `protoDiv_correct`); n-ary and matrix lemmas (`protoN_*`,
`protoMat_correct`, incl. degenerate shapes); `eval_correct` / `evalL_correct` by mutual structural recursion;
a concrete non-vacuity instance (p = 1009, l = 3, k = 4).
-/
import MpycV.Model.SecIntEval
import MpycV.Props.C01

namespace MpycV.SecInt
open MpycV.Fxp (pmod norm rsh bitsVal IsBits Fits)

/-! ### Option plumbing -/

theorem bind_some_elim {α β : Type} {o : Option α} {f : α → Option β} {v : β}
    (h : (o >>= f) = some v) : ∃ x, o = some x ∧ f x = some v := by
  cases o with
  | none => cases h
  | some x => exact ⟨x, rfl, h⟩

theorem map_some_elim {α β : Type} {o : Option α} {f : α → β} {v : β}
    (h : o.map f = some v) : ∃ x, o = some x ∧ f x = v := by
  cases o with
  | none => cases h
  | some x => exact ⟨x, rfl, Option.some.inj h⟩

theorem b2i_decide (P : Prop) [Decidable P] : b2i (decide P) = if P then 1 else 0 := by
  unfold b2i
  by_cases h : P
  · rw [if_pos h, if_pos (decide_eq_true h)]
  · rw [if_neg h, if_neg (by rw [decide_eq_false h]; exact Bool.false_ne_true)]

/-! ### sizes -/

section ops
variable {c : Cfg} {r : Rnd}

theorem good_rz (h : Good c r) : ¬ (c.p : Int) ∣ r.rz := fun hd => h.rzNZ (Int.emod_eq_zero_of_dvd hd)

theorem two_pow_l_lt_p (hbig : (2 : Int) ^ (c.l + c.k + 1) < (c.p : Int)) : (2 : Int) ^ c.l < (c.p : Int) :=
  lt_of_le_of_lt (pow_le_pow_right₀ (by norm_num) (by omega)) hbig

/-- an `l`-bit number (even `|v| ≤ 2^(l-1)`) is represented faithfully in GF(p) -/
theorem fits_of_range (hl : 0 < c.l) (hbig : (2 : Int) ^ (c.l + c.k + 1) < (c.p : Int)) {v : Int}
    (h0 : -(2 : Int) ^ (c.l - 1) ≤ v) (h1 : v ≤ (2 : Int) ^ (c.l - 1)) : Fits c.p v := by
  unfold Fits
  have h2 := two_pow_pred hl
  have h3 := two_pow_l_lt_p hbig
  have h4 : |v| ≤ (2 : Int) ^ (c.l - 1) := abs_le.mpr ⟨h0, h1⟩
  linarith

/-! ### the randomised protocols, for ALL randomness in range -/

section
variable (hp : c.p.Prime) (hl : 0 < c.l) (hk : 0 < c.k) (hbig : (2 : Int) ^ (c.l + c.k + 1) < (c.p : Int))
  (hr : Good c r)
include hp hl hk hbig hr

theorem ltP_correct {a b : Int} (ha : RangeOk c.l a) (hb : RangeOk c.l b) :
    ltP c r a b = if a < b then 1 else 0 := by
  obtain ⟨h0, h1⟩ := C01.cmp_range hl ha.1 ha.2 hb.1 hb.2
  unfold ltP
  rw [C01.sgn_lt hp hl hk hbig h0.le h1 hr.bits01 hr.bitsLen hr.rdiv0 hr.rdiv1 hr.sign (good_rz hr)]
  by_cases h : a < b
  · rw [if_pos h, if_pos (by omega)]
  · rw [if_neg h, if_neg (by omega)]

omit hp in
theorem eqP_correct {a b : Int} (ha : RangeOk c.l a) (hb : RangeOk c.l b) :
    eqP c r a b = if a = b then 1 else 0 := by
  obtain ⟨h0, h1⟩ := C01.cmp_range hl ha.1 ha.2 hb.1 hb.2
  unfold eqP
  rw [C01.sgn_eq hl hk hbig h0 h1 hr.bits01 hr.bitsLen hr.rdiv0 hr.rdiv1]
  by_cases h : a = b
  · rw [if_pos h, if_pos (by omega)]
  · rw [if_neg h, if_neg (by omega)]

omit hp in
theorem lsbP_correct {a : Int} (ha : RangeOk c.l a) : lsbP c r a = a % 2 := by
  obtain ⟨h0, h1⟩ := wide_of_narrow hl ha.1 ha.2
  unfold lsbP
  exact (C01.lsb_correct hl hk hbig h0.le h1 hr.b01 hr.r0 hr.r1).1

theorem modP_correct {a b : Int} (ha : RangeOk c.l a) (hb0 : 0 < b) (hb1 : b < (2 : Int) ^ c.l) :
    modP c r a b = a % b := by
  unfold modP
  by_cases h2 : b = 2
  · rw [if_pos h2, h2]; exact lsbP_correct hl hk hbig hr ha
  · rw [if_neg h2]
    obtain ⟨m1, m2, m3, m4, m5, m6⟩ := hr.modRnd b hb0 hb1
    have hd0 : 0 ≤ r.mdiv b := by omega
    exact (C01.mod_correct hp hl hk hbig ha.1 ha.2 hb0 hb1 m1 m2 m3 m4 hd0 m6 hr.sign (good_rz hr)
      (C01.mod_nowrap_ok hl ha.1 hb0 m2 hd0 (Or.inl m5))).1

theorem protoUn_correct (op : UnOp) {a : Int} (ha : RangeOk c.l a) : protoUn c r op a = evalUn op a := by
  obtain ⟨h0, h1⟩ := wide_of_narrow hl ha.1 ha.2
  cases op with
  | neg => rfl
  | pos => rfl
  | not => rfl
  | lsb => exact lsbP_correct hl hk hbig hr ha
  | abs =>
    show absModel a (sgnModel c.p c.l a r.bits r.rdiv r.s r.rz .lt).z = evalUn .abs a
    rw [C01.sgn_lt hp hl hk hbig h0.le h1 hr.bits01 hr.bitsLen hr.rdiv0 hr.rdiv1 hr.sign (good_rz hr)]
    exact abs_eq_evalUn a
  | sgn =>
    show (sgnModel c.p c.l a r.bits r.rdiv r.s r.rz .full).z = sgnI a
    rw [C01.sgn_sign hp hl hk hbig h0 h1 hr.bits01 hr.bitsLen hr.rdiv0 hr.rdiv1 hr.sign (good_rz hr)]
    rfl

theorem protoBin_correct (op : BinOp) {a b : Int} (ha : RangeOk c.l a) (hb : RangeOk c.l b) :
    protoBin c r op a b = evalBin op a b := by
  have hlt := ltP_correct hp hl hk hbig hr ha hb
  have hgt := ltP_correct hp hl hk hbig hr hb ha
  have heq := eqP_correct hl hk hbig hr ha hb
  cases op with
  | add => rfl
  | sub => rfl
  | mul => rfl
  | and => rfl
  | or => rfl
  | xor => rfl
  | lt => show ltP c r a b = b2i (decide (a < b)); rw [hlt, b2i_decide]
  | gt =>
    show ltP c r b a = b2i (decide (a > b)); rw [hgt, b2i_decide]
  | eq => show eqP c r a b = b2i (decide (a = b)); rw [heq, b2i_decide]
  | le =>
    show 1 - ltP c r b a = b2i (decide (a ≤ b)); rw [hgt, b2i_decide]
    by_cases h : b < a
    · rw [if_pos h, if_neg (by omega)]; rfl
    · rw [if_neg h, if_pos (by omega)]; rfl
  | ge =>
    show 1 - ltP c r a b = b2i (decide (a ≥ b)); rw [hlt, b2i_decide]
    by_cases h : a < b
    · rw [if_pos h, if_neg (by omega)]; rfl
    · rw [if_neg h, if_pos (by omega)]; rfl
  | ne =>
    show 1 - eqP c r a b = b2i (decide (a ≠ b)); rw [heq, b2i_decide]
    by_cases h : a = b
    · rw [if_pos h, if_neg (by omega)]; rfl
    · rw [if_neg h, if_pos h]; rfl

theorem protoDiv_correct (op : DivOp) {a b : Int} (ha : RangeOk c.l a) (hb0 : 0 < b)
    (hb1 : b < (2 : Int) ^ c.l) :
    protoDiv c r op a b = (match op with | .floordiv => a / b | .mod => a % b) := by
  have hm := modP_correct hp hl hk hbig hr ha hb0 hb1
  cases op with
  | mod => exact hm
  | floordiv =>
    show (divmodModel c.p a b (modP c r a b)).1 = a / b
    have hM : (0 : Int) ≤ (2 : Int) ^ (c.l - 1) := (Fxp.two_pow_pos _).le
    have hq0 : -(2 : Int) ^ (c.l - 1) ≤ a / b := by
      rw [Int.le_ediv_iff_mul_le hb0]
      nlinarith [mul_nonneg hM (show (0 : Int) ≤ b - 1 by omega), ha.1]
    have hq1 : a / b ≤ (2 : Int) ^ (c.l - 1) := by
      apply le_of_lt
      rw [Int.ediv_lt_iff_lt_mul hb0]
      nlinarith [mul_nonneg hM (show (0 : Int) ≤ b - 1 by omega), ha.2]
    rw [hm, C01.divmod_correct hp hb0 (lt_trans hb1 (two_pow_l_lt_p hbig)) (fits_of_range hl hbig hq0 hq1)]
end
end ops

/-! ### n-ary operations -/

theorem b2i_all (vs : List Int) : b2i (vs.all (· == 1)) = if ∀ x ∈ vs, x = 1 then 1 else 0 := by
  unfold b2i
  have hiff : (vs.all (· == 1) = true) ↔ ∀ x ∈ vs, x = 1 := by
    rw [List.all_eq_true]
    exact forall_congr' fun x => imp_congr_right fun _ => beq_iff_eq
  by_cases h : ∀ x ∈ vs, x = 1
  · rw [if_pos h, if_pos (hiff.2 h)]
  · rw [if_neg h, if_neg (fun h' => h (hiff.1 h'))]

theorem b2i_any (vs : List Int) : b2i (vs.any (· == 1)) = if ∃ x ∈ vs, x = 1 then 1 else 0 := by
  unfold b2i
  have hiff : (vs.any (· == 1) = true) ↔ ∃ x ∈ vs, x = 1 := by
    rw [List.any_eq_true]
    exact exists_congr fun x => and_congr_right fun _ => beq_iff_eq
  by_cases h : ∃ x ∈ vs, x = 1
  · rw [if_pos h, if_pos (hiff.2 h)]
  · rw [if_neg h, if_neg (fun h' => h (hiff.1 h'))]

theorem minmax0_eq (vs : List Int) : (minMaxModel vs).map (fun ab => ab.1) = vs.min? := by
  cases vs with
  | nil => rw [minMax_nil]; rfl
  | cons x xs =>
    obtain ⟨a, b, hm, ha, hb, hab⟩ := minMax_correct (x :: xs) (List.cons_ne_nil _ _)
    rw [hm, List.min?_eq_some_iff.mpr ⟨ha, fun y hy => (hab y hy).1⟩]; rfl

theorem minmax1_eq (vs : List Int) : (minMaxModel vs).map (fun ab => ab.2) = vs.max? := by
  cases vs with
  | nil => rw [minMax_nil]; rfl
  | cons x xs =>
    obtain ⟨a, b, hm, ha, hb, hab⟩ := minMax_correct (x :: xs) (List.cons_ne_nil _ _)
    rw [hm, List.max?_eq_some_iff.mpr ⟨hb, fun y hy => (hab y hy).2⟩]; rfl

/-! ### matrix product on flat row-major matrices -/

theorem rowsOf_length : ∀ (r n : Nat) (xs : List Int), (rowsOf r n xs).length = r
  | 0, _, _ => rfl
  | r + 1, n, xs => by rw [rowsOf, List.length_cons, rowsOf_length r n _]

theorem rowsOf_row_len : ∀ (r n : Nat) (xs : List Int), ∀ row ∈ rowsOf r n xs, row.length ≤ (xs.take n).length
  | 0, _, _ => by intro row h; cases h
  | r + 1, n, xs => by
    intro row h
    rw [rowsOf, List.mem_cons] at h
    rcases h with rfl | h
    · exact le_refl _
    · have h1 := rowsOf_row_len r n _ row h
      rw [List.length_take, List.length_drop] at h1
      rw [List.length_take]; omega

theorem rowsOf_row_le_head (r n : Nat) (xs : List Int) :
    ∀ row ∈ rowsOf r n xs, row.length ≤ ((rowsOf r n xs).headD []).length := by
  cases r with
  | zero => intro row h; cases h
  | succ r => exact rowsOf_row_len (r + 1) n xs

theorem getD_of_length_le {α : Type} (l : List α) (j : Nat) (d : α) (h : l.length ≤ j) : l.getD j d = d := by
  rw [List.getD_eq_getElem?_getD, List.getElem?_eq_none h]; rfl

theorem getD_mem {α : Type} (l : List α) (i : Nat) (d : α) (h : i < l.length) : l.getD i d ∈ l := by
  rw [List.getD_eq_getElem?_getD, List.getElem?_eq_getElem h]
  exact List.getElem_mem h

theorem dot_zero_right (xs ys : List Int) (h : ∀ y ∈ ys, y = 0) : dot xs ys = 0 := by
  induction xs generalizing ys with
  | nil => cases ys <;> rfl
  | cons x xs ih =>
    cases ys with
    | nil => rfl
    | cons y ys =>
      rw [dot, h y List.mem_cons_self, ih ys (fun z hz => h z (List.mem_cons_of_mem _ hz)),
        Int.mul_zero, Int.add_zero]

theorem colOf_zero (B : List (List Int)) (j : Nat) (h : ∀ row ∈ B, row.length ≤ j) : ∀ y ∈ colOf B j, y = 0 := by
  intro y hy
  unfold colOf at hy
  obtain ⟨row, hrow, rfl⟩ := List.mem_map.mp hy
  exact getD_of_length_le row j 0 (h row hrow)

/-- general case without `tr`, also for degenerate shapes (short `B`): entry `(i, j)` is row·column -/
theorem matrixProd_entry_notr (A : List (List Int)) (r n : Nat) (xs : List Int) (i j : Nat) (hi : i < A.length) :
    ((matrixProd A (rowsOf r n xs) false).getD i []).getD j 0 = dot (A.getD i []) (colOf (rowsOf r n xs) j) := by
  by_cases hj : j < ((rowsOf r n xs).headD []).length
  · exact matrixProd_entry A (rowsOf r n xs) false i j hi hj
  · have hlen := matrixProd_shape A (rowsOf r n xs) false
    have hmem := getD_mem (matrixProd A (rowsOf r n xs) false) i [] (by rw [hlen.1]; exact hi)
    have hrow : ((matrixProd A (rowsOf r n xs) false).getD i []).length = ((rowsOf r n xs).headD []).length :=
      hlen.2 _ hmem
    rw [getD_of_length_le _ j 0 (by rw [hrow]; omega)]
    symm
    apply dot_zero_right
    apply colOf_zero
    intro row hr
    have := rowsOf_row_le_head r n xs row hr
    omega

theorem protoMat_correct (av bv : List Int) (n1 n n2 : Nat) (tr sym : Bool) (i j : Nat) (hi : i < n1)
    (hj : j < (if sym then n1 else n2)) :
    protoMat av bv n1 n n2 tr sym i j =
      dot ((rowsOf n1 n av).getD i [])
        (if (tr || sym) = true then
          (if sym = true then rowsOf n1 n av else if tr = true then rowsOf n2 n bv else rowsOf n n2 bv).getD j []
         else colOf (if sym = true then rowsOf n1 n av else if tr = true then rowsOf n2 n bv else rowsOf n n2 bv) j) := by
  have hi' : i < (rowsOf n1 n av).length := by rw [rowsOf_length]; exact hi
  cases sym with
  | true =>
    have hj' : j < (rowsOf n1 n av).length := by rw [rowsOf_length]; exact hj
    cases tr <;> exact matrixProd_symmetric_index (rowsOf n1 n av) i j hi' hj'
  | false =>
    have hj2 : j < n2 := hj
    cases tr with
    | true =>
      exact matrixProd_entry (rowsOf n1 n av) (rowsOf n2 n bv) true i j hi'
        (by rw [if_pos rfl, rowsOf_length]; exact hj2)
    | false => exact matrixProd_entry_notr (rowsOf n1 n av) n n2 bv i j hi'

/-! ### n-ary -/

theorem protoN_sum (vs : List Int) : protoN .sum vs = some vs.sum := by
  show some (sumI vs) = _; rw [sumI_eq]
theorem protoN_prod (vs : List Int) : protoN .prod vs = some vs.prod := by
  show some (prodTree vs) = _; rw [prodTree_eq_prod]
theorem protoN_all (vs : List Int) (h : ∀ x ∈ vs, x = 0 ∨ x = 1) :
    protoN .all vs = some (b2i (vs.all (· == 1))) := by
  show some (allTree vs) = _; rw [allTree_eq vs h, b2i_all]
theorem protoN_any (vs : List Int) (h : ∀ x ∈ vs, x = 0 ∨ x = 1) :
    protoN .any vs = some (b2i (vs.any (· == 1))) := by
  show some (anyModel vs) = _; rw [anyModel_eq vs h, b2i_any]
theorem protoN_min (vs : List Int) : protoN .min vs = vs.min? := minModel_eq_min? vs
theorem protoN_max (vs : List Int) : protoN .max vs = vs.max? := maxModel_eq_max? vs
theorem protoN_minmax0 (vs : List Int) : protoN .minmax0 vs = vs.min? := minmax0_eq vs
theorem protoN_minmax1 (vs : List Int) : protoN .minmax1 vs = vs.max? := minmax1_eq vs

theorem InRange.valOk {l : Nat} {env : List Int} : ∀ {e : Expr}, InRange l env e → ValOk l env e := by
  intro e h
  cases e <;> first | exact h | exact h.1

/-! ### the capstone -/

section main
variable (c : Cfg) (hp : c.p.Prime) (hl : 0 < c.l) (hk : 0 < c.k)
  (hbig : (2 : Int) ^ (c.l + c.k + 1) < (c.p : Int))
  (ρ : List Nat → Rnd) (hρ : ∀ π, Good c (ρ π)) (env : List Int)
include hp hl hk hbig hρ

-- (`evalL_correct` uses the hypotheses only through its mutual partner, which the linter does not see)
set_option linter.unusedSectionVars false

mutual
/-- **eval_correct** (capstone of C01).  Let `p` be prime with `2^(l+k+1) < p`, `l, k ≥ 1`, and let `ρ` assign
to every node of the expression tree random values in the ranges the code draws them from (`Good`).  For every
expression `e` without a `gop` node (`Supported`) all of whose subterms have `l`-bit values, whose public
divisors satisfy `0 < b < 2^l` and whose `all`/`any` arguments are bits (`InRange`): if the Python-integer
meaning `evalSpec env e` is `v`, then the PROTOCOL evaluation `evalProto` — running `sgn` / `lsb` / `_mod` /
field division / the multiplication trees at every node, with the node's own randomness — is `v` as well.

Covered (everything except `gop`): `var`, `const`; `un` neg, pos, abs, sgn, lsb, not; `bin` add, sub, mul, lt,
le, eq, ne, ge, gt, and, or, xor; `pdiv` mod, floordiv (public divisor; `b = 2` via `lsb`); `pow`; `ifelse`;
`ifswap`; `nary` sum, prod, all, any, min, max, minmax0, minmax1; `inprod`; `matprod` (general, `tr`, and the
symmetric triangle).  NOT covered: `gop` (gcd, lcm, inverse, gcdext: `evalProto` is `none` there; see
`C01.gcd_partial` etc.); `==` via the probabilistic `_is_zero` (used by the code only when `l/2 > k`). -/
theorem eval_correct : ∀ (e : Expr) (π : List Nat) (v : Int), Supported e → InRange c.l env e →
    evalSpec env e = some v → evalProto c ρ env π e = some v
  | .var i, π, v, _, _, h => by
    rw [evalSpec] at h; rw [evalProto]; exact h
  | .const n, π, v, _, _, h => by
    rw [evalSpec] at h; rw [evalProto]; exact h
  | .un op e, π, v, hs, hin, h => by
    rw [evalSpec] at h
    obtain ⟨x, hx, rfl⟩ := map_some_elim h
    obtain ⟨_, hie⟩ := hin
    rw [evalProto, eval_correct e (0 :: π) x hs hie hx]
    show some (protoUn c (ρ π) op x) = _
    rw [protoUn_correct hp hl hk hbig (hρ π) op (hie.valOk x hx)]
  | .bin op a b, π, v, hs, hin, h => by
    rw [evalSpec] at h
    obtain ⟨x, hx, h⟩ := bind_some_elim h
    obtain ⟨y, hy, h⟩ := bind_some_elim h
    obtain rfl : evalBin op x y = v := Option.some.inj h
    obtain ⟨_, hia, hib⟩ := hin
    rw [evalProto, eval_correct a (0 :: π) x hs.1 hia hx, eval_correct b (1 :: π) y hs.2 hib hy]
    show some (protoBin c (ρ π) op x y) = _
    rw [protoBin_correct hp hl hk hbig (hρ π) op (hia.valOk x hx) (hib.valOk y hy)]
  | .pdiv op a b, π, v, hs, hin, h => by
    rw [evalSpec] at h
    obtain ⟨x, hx, h⟩ := bind_some_elim h
    obtain ⟨_, hia, hb0, hb1⟩ := hin
    rw [if_neg (by omega)] at h
    rw [evalProto, eval_correct a (0 :: π) x hs hia hx]
    show (if b ≤ 0 then none else some (protoDiv c (ρ π) op x b)) = _
    rw [if_neg (by omega), protoDiv_correct hp hl hk hbig (hρ π) op (hia.valOk x hx) hb0 hb1]
    exact h
  | .pow a n, π, v, hs, hin, h => by
    rw [evalSpec] at h
    obtain ⟨x, hx, rfl⟩ := map_some_elim h
    obtain ⟨_, hia⟩ := hin
    rw [evalProto, eval_correct a (0 :: π) x hs hia hx]
    show some (powModel x n) = _
    rw [pow_correct]
  | .ifelse cc x y, π, v, hs, hin, h => by
    rw [evalSpec] at h
    obtain ⟨cv, hc, h⟩ := bind_some_elim h
    obtain ⟨xv, hx, h⟩ := bind_some_elim h
    obtain ⟨yv, hy, h⟩ := bind_some_elim h
    obtain ⟨_, hic, hix, hiy⟩ := hin
    rw [evalProto, eval_correct cc (0 :: π) cv hs.1 hic hc, eval_correct x (1 :: π) xv hs.2.1 hix hx,
      eval_correct y (2 :: π) yv hs.2.2 hiy hy]
    show some (ifElse cv xv yv) = _
    by_cases h1 : cv = 1
    · rw [if_pos h1] at h; rw [h1, (ifElse_correct xv yv).1]; exact h
    · rw [if_neg h1] at h
      by_cases h0 : cv = 0
      · rw [if_pos h0] at h; rw [h0, (ifElse_correct xv yv).2]; exact h
      · rw [if_neg h0] at h; cases h
  | .ifswap second cc x y, π, v, hs, hin, h => by
    rw [evalSpec] at h
    obtain ⟨cv, hc, h⟩ := bind_some_elim h
    obtain ⟨xv, hx, h⟩ := bind_some_elim h
    obtain ⟨yv, hy, h⟩ := bind_some_elim h
    obtain ⟨_, hic, hix, hiy⟩ := hin
    rw [evalProto, eval_correct cc (0 :: π) cv hs.1 hic hc, eval_correct x (1 :: π) xv hs.2.1 hix hx,
      eval_correct y (2 :: π) yv hs.2.2 hiy hy]
    show some (if second = true then (ifSwap cv xv yv).2 else (ifSwap cv xv yv).1) = _
    by_cases h1 : cv = 1
    · rw [if_pos h1] at h; rw [h1, (ifSwap_correct xv yv).1]; exact h
    · rw [if_neg h1] at h
      by_cases h0 : cv = 0
      · rw [if_pos h0] at h; rw [h0, (ifSwap_correct xv yv).2]; exact h
      · rw [if_neg h0] at h; cases h
  | .nary op xs, π, v, hs, hin, h => by
    rw [evalSpec] at h
    obtain ⟨vs, hvs, h⟩ := bind_some_elim h
    obtain ⟨_, hixs, hbits⟩ := hin
    rw [evalProto, evalL_correct xs π 0 vs hs hixs hvs]
    show protoN op vs = _
    cases op with
    | sum => rw [protoN_sum]; exact h
    | prod => rw [protoN_prod]; exact h
    | all => rw [protoN_all vs (hbits (Or.inl rfl) vs hvs)]; exact h
    | any => rw [protoN_any vs (hbits (Or.inr rfl) vs hvs)]; exact h
    | min => rw [protoN_min]; exact h
    | max => rw [protoN_max]; exact h
    | minmax0 => rw [protoN_minmax0]; exact h
    | minmax1 => rw [protoN_minmax1]; exact h
  | .inprod xs ys, π, v, hs, hin, h => by
    rw [evalSpec] at h
    obtain ⟨us, hus, h⟩ := bind_some_elim h
    obtain ⟨vs, hvs, h⟩ := bind_some_elim h
    obtain ⟨_, hixs, hiys⟩ := hin
    rw [evalProto, evalL_correct xs (0 :: π) 0 us hs.1 hixs hus, evalL_correct ys (1 :: π) 0 vs hs.2 hiys hvs]
    exact h
  | .matprod A B n1 n n2 tr sym i j, π, v, hs, hin, h => by
    rw [evalSpec] at h
    obtain ⟨av, hav, h⟩ := bind_some_elim h
    obtain ⟨bv, hbv, h⟩ := bind_some_elim h
    obtain ⟨_, hiA, hiB⟩ := hin
    rw [evalProto, evalL_correct A (0 :: π) 0 av hs.1 hiA hav, evalL_correct B (1 :: π) 0 bv hs.2 hiB hbv]
    show (if i < n1 ∧ j < (if sym = true then n1 else n2) then some (protoMat av bv n1 n n2 tr sym i j)
      else none) = _
    by_cases hij : i < n1 ∧ j < (if sym = true then n1 else n2)
    · rw [if_pos hij, protoMat_correct av bv n1 n n2 tr sym i j hij.1 hij.2]
      rw [if_pos hij] at h
      exact h
    · rw [if_neg hij] at h; cases h
  | .gop _ _ _, _, _, hs, _, _ => by cases hs
theorem evalL_correct : ∀ (es : ExprL) (π : List Nat) (k : Nat) (vs : List Int), SupportedL es →
    InRangeL c.l env es → evalSpecL env es = some vs → evalProtoL c ρ env π k es = some vs
  | .nil, π, k, vs, _, _, h => by
    rw [evalSpecL] at h; rw [evalProtoL]; exact h
  | .cons e es, π, k, vs, hs, hin, h => by
    rw [evalSpecL] at h
    obtain ⟨w, hw, h⟩ := bind_some_elim h
    obtain ⟨ws, hws, h⟩ := bind_some_elim h
    rw [evalProtoL, eval_correct e (k :: π) w hs.1 hin.1 hw, evalL_correct es π (k + 1) ws hs.2 hin.2 hws]
    exact h
end
end main

/-! ### non-vacuity: a concrete configuration (p = 1009, l = 3, k = 4), randomness and program -/

def cfg0 : Cfg := ⟨1009, 3, 4⟩

/-- one record of random values; `mbits d` has `(d-1).bit_length()` bits, as in the code -/
def rnd0 : Rnd where
  bits := [1, 0, 1]
  rdiv := 5
  s := 1
  rz := 7
  b := 1
  r := 20
  mbits := fun d => if 4 < d then [0, 0, 1] else if 2 < d then [0, 1] else if 1 < d then [1] else []
  mdiv := fun _ => 3

theorem good_rnd0 : Good cfg0 rnd0 where
  bits01 := by decide
  bitsLen := by decide
  rdiv0 := by decide
  rdiv1 := by decide
  sign := by decide
  rzNZ := by decide
  b01 := by decide
  r0 := by decide
  r1 := by decide
  modRnd := by
    intro d h0 h1
    have h8 : d < 8 := h1
    obtain rfl | rfl | rfl | rfl | rfl | rfl | rfl :
        d = 1 ∨ d = 2 ∨ d = 3 ∨ d = 4 ∨ d = 5 ∨ d = 6 ∨ d = 7 := by omega
    all_goals decide

/-- `((x0 - x1 < 2) * |x0|) % 3` -/
def e0 : Expr :=
  .pdiv .mod (.bin .mul (.bin .lt (.bin .sub (.var 0) (.var 1)) (.const 2)) (.un .abs (.var 0))) 3

/-- `sum([x0, x1, -1]) // 3 + (x0 % 2)` -/
def e1 : Expr :=
  .bin .add (.pdiv .floordiv (.nary .sum (.cons (.var 0) (.cons (.var 1) (.cons (.const (-1)) .nil)))) 3)
    (.pdiv .mod (.var 0) 2)

set_option maxRecDepth 8192 in
example : evalSpec [-2, 1] e0 = some 2 ∧ evalProto cfg0 (fun _ => rnd0) [-2, 1] [] e0 = some 2 := by decide

set_option maxRecDepth 8192 in
example : evalSpec [-3, 2] e1 = some 0 ∧ evalProto cfg0 (fun _ => rnd0) [-3, 2] [] e1 = some 0 := by decide

theorem valOk_of_all {l : Nat} {env : List Int} {e : Expr}
    (h : (evalSpec env e).all (fun w => decide (RangeOk l w)) = true) : ValOk l env e := by
  intro v hv
  rw [hv] at h
  exact of_decide_eq_true h

theorem supported_e0 : Supported e0 := ⟨⟨⟨trivial, trivial⟩, trivial⟩, trivial⟩

theorem inRange_e0 : InRange 3 [-2, 1] e0 := by
  refine ⟨?_, ⟨?_, ⟨?_, ⟨?_, ?_, ?_⟩, ?_⟩, ⟨?_, ?_⟩⟩, ?_, ?_⟩
  all_goals first | exact valOk_of_all (by decide) | decide

/-- the hypotheses of `eval_correct` are satisfiable: for EVERY good randomness the protocols compute 2 -/
example (ρ : List Nat → Rnd) (hρ : ∀ π, Good cfg0 (ρ π)) : evalProto cfg0 ρ [-2, 1] [] e0 = some 2 :=
  eval_correct cfg0 C01.P_prime (by decide) (by decide) (by decide) ρ hρ [-2, 1] e0 [] 2 supported_e0
    inRange_e0 (by decide)

end MpycV.SecInt
