/-
C18 — the opening sites of runtime.py: which modulus splits the opened value into a perfectly masked low part and
an additively masked high part, which bound the code requests for the high mask, over which span the
secret-dependent high part varies, and the resulting distance constant.

Every site opens   c = u + M·r   with
  u = (secret-dependent part) ± (low mask, uniform on [0,M)),   r = high mask drawn through `_random(s)(bound)`.
By `opened_split`  c mod M = u mod M  (perfectly masked: `low_bits_perfect` / `low_sub_perfect`) and
c div M = u div M + r, where u div M lies in an interval of length `span`.
-/
import MpycV.Lemmas.Mask

namespace MpycV.Mask

open MpycV.Share MpycV.Thresha

/-- parameters of a call: security parameter `k`, bit length `l` of the secure type (for secfxp: of the
scaled integer), `f` = number of truncated bits (trunc), public modulus `b` (_mod), `n` = number of extracted
bits (to_bits, trailing_zeros) -/
structure Params where
  k : ℕ
  l : ℕ
  f : ℕ
  b : ℕ
  n : ℕ

/-- one opening site -/
structure Site where
  name : String
  anchor : String
  /-- modulus `M` separating low and high part of the opened value -/
  modulus : Params → ℕ
  /-- the `bound` argument of `_random`/`_randoms` (before the division by d and rounding) -/
  bound : Params → ℕ
  /-- length of the interval in which the secret-dependent high part `u div M` varies -/
  span : Params → ℕ
  /-- distance constant: the opening contributes less than `c · d · 2^-k` -/
  c : ℕ
  /-- side conditions under which the code is used -/
  valid : Params → Prop

def sgnSite : Site :=
  { name := "sgn", anchor := "runtime.py:1522-1535  c = a + 2^l + r_modl + (r_divl << l), r_divl <- _random(1<<k)"
    modulus := fun P => 2 ^ P.l, bound := fun P => 2 ^ P.k, span := fun _ => 2, c := 4
    valid := fun _ => True }

def truncSite : Site :=
  { name := "trunc", anchor := "runtime.py:816-832  c = a + r_modf + 2^(l-1) + (r_divf << f), r_divf <- _randoms(1<<k+l-f)"
    modulus := fun P => 2 ^ P.f, bound := fun P => 2 ^ (P.k + P.l - P.f), span := fun P => 2 ^ (P.l - P.f), c := 2
    valid := fun P => P.f ≤ P.l }

def lsbSite : Site :=
  { name := "lsb", anchor := "runtime.py:1788-1797  c = a + 2^l + (r << 1) + b, r <- _random(1<<(l+k-1))"
    modulus := fun _ => 2, bound := fun P => 2 ^ (P.l + P.k - 1), span := fun P => 2 ^ P.l, c := 4
    valid := fun P => 1 ≤ P.l + P.k }

def modSite : Site :=
  { name := "_mod", anchor := "runtime.py:1852-1865  c = a + 2^l - (2^l % b) + b*r_divb - r_modb, r_divb <- _random((1<<k+l)//b)"
    modulus := fun P => P.b, bound := fun P => 2 ^ (P.k + P.l) / P.b, span := fun P => 2 ^ (P.l + 1) / P.b + 1, c := 8
    valid := fun P => 0 < P.b ∧ P.b ≤ 2 ^ P.l }

def toBitsSite : Site :=
  { name := "to_bits", anchor := "runtime.py:4367-4396  c = a + 2^l + (r_divl << n) - r_modl, r_divl <- _random(1<<(l+k-n))"
    modulus := fun P => 2 ^ P.n, bound := fun P => 2 ^ (P.l + P.k - P.n), span := fun P => 2 ^ (P.l + 1 - P.n) + 1, c := 6
    valid := fun P => P.n ≤ P.l }

def trailingZerosSite : Site :=
  { name := "trailing_zeros", anchor := "runtime.py:1895-1907  c = a + 2^l + (r_divl << n) + r_modl, r_divl <- _random(1<<(l+k-n))"
    modulus := fun P => 2 ^ P.n, bound := fun P => 2 ^ (P.l + P.k - P.n), span := fun P => 2 ^ (P.l + 2 - P.n), c := 8
    valid := fun P => P.n ≤ P.l }

/-- the sites whose high mask comes from `_random(s)` (rounded bound `maskBound`); `_convert` uses an unrounded
bound and is treated by `convert_distance` -/
def sites : List Site := [sgnSite, truncSite, lsbSite, modSite, toBitsSite, trailingZerosSite]

lemma two_mul_div_le (X b : ℕ) (hb : 0 < b) : 2 * X / b ≤ 2 * (X / b) + 1 := by
  have h1 : X < (X / b + 1) * b := by
    have := Nat.lt_succ_iff.2 (le_refl (X / b))
    rwa [Nat.div_lt_iff_lt_mul hb] at this
  have h2 : 2 * X / b < 2 * (X / b) + 2 := by
    rw [Nat.div_lt_iff_lt_mul hb]; nlinarith
  omega

lemma div_mul_le_mul_div' (x b y : ℕ) (hb : 0 < b) : x / b * y ≤ x * y / b := by
  rw [Nat.le_div_iff_mul_le hb]
  calc x / b * y * b = x / b * b * y := by ring
    _ ≤ x * y := Nat.mul_le_mul_right y (Nat.div_mul_le_self x b)

/-- ★ the table: for every listed site and all valid parameters, `2 · span · 2^k ≤ c · bound` -/
theorem sites_table : ∀ s ∈ sites, ∀ P : Params, s.valid P → 2 * s.span P * 2 ^ P.k ≤ s.c * s.bound P := by
  intro s hs P hv
  simp only [sites, List.mem_cons, List.not_mem_nil, or_false] at hs
  rcases hs with rfl | rfl | rfl | rfl | rfl | rfl
  · simp only [sgnSite]; omega
  · simp only [truncSite] at hv ⊢
    rw [show P.k + P.l - P.f = P.l - P.f + P.k by omega, pow_add]
    nlinarith [Nat.pos_of_ne_zero (pow_ne_zero (P.l - P.f) (two_ne_zero)),
      Nat.pos_of_ne_zero (pow_ne_zero P.k (two_ne_zero))]
  · simp only [lsbSite] at hv ⊢
    have : 2 ^ (P.l + P.k) = 2 * 2 ^ (P.l + P.k - 1) := by
      rw [← pow_succ']; congr 1; omega
    rw [pow_add] at this
    nlinarith
  · simp only [modSite] at hv ⊢
    obtain ⟨hb, hbl⟩ := hv
    set Q := 2 ^ (P.k + P.l) / P.b with hQ
    have hQk : 2 ^ P.k ≤ Q := by
      rw [hQ, Nat.le_div_iff_mul_le hb, pow_add]
      exact Nat.mul_le_mul_left _ hbl
    have h1 : 2 ^ (P.l + 1) / P.b * 2 ^ P.k ≤ 2 ^ (P.l + 1) * 2 ^ P.k / P.b :=
      div_mul_le_mul_div' _ _ _ hb
    have h2 : 2 ^ (P.l + 1) * 2 ^ P.k = 2 * 2 ^ (P.k + P.l) := by
      rw [pow_succ, pow_add]; ring
    rw [h2] at h1
    have h3 := two_mul_div_le (2 ^ (P.k + P.l)) P.b hb
    have hk1 : 1 ≤ 2 ^ P.k := Nat.one_le_two_pow
    nlinarith
  · simp only [toBitsSite] at hv ⊢
    have e1 : 2 ^ (P.l + 1 - P.n) = 2 * 2 ^ (P.l - P.n) := by
      rw [show P.l + 1 - P.n = P.l - P.n + 1 by omega, pow_succ]; ring
    have e2 : 2 ^ (P.l + P.k - P.n) = 2 ^ (P.l - P.n) * 2 ^ P.k := by
      rw [show P.l + P.k - P.n = P.l - P.n + P.k by omega, pow_add]
    rw [e1, e2]
    have : 1 ≤ 2 ^ (P.l - P.n) := Nat.one_le_two_pow
    nlinarith [Nat.one_le_two_pow (n := P.k)]
  · simp only [trailingZerosSite] at hv ⊢
    have e1 : 2 ^ (P.l + 2 - P.n) = 4 * 2 ^ (P.l - P.n) := by
      rw [show P.l + 2 - P.n = P.l - P.n + 2 by omega, pow_add]; ring
    have e2 : 2 ^ (P.l + P.k - P.n) = 2 ^ (P.l - P.n) * 2 ^ P.k := by
      rw [show P.l + P.k - P.n = P.l - P.n + P.k by omega, pow_add]
    rw [e1, e2]
    nlinarith

/-- ★ per-site distance: for every listed site, valid parameters and any configuration (m, t, PRSS or not) with
`d ≤ bound`: `span · 2^k < c · d · B` where `B = maskBound bound m t noPrss` is the range of the uniform
component — by `mask_sd` the opening's statistical distance, given everything else, is `< c · d · 2^-k`. -/
theorem site_distance (s : Site) (hs : s ∈ sites) (P : Params) (hv : s.valid P) {m t : ℕ} {np : Bool}
    (hd : 0 < maskDiv m t np) (hb : maskDiv m t np ≤ s.bound P) (hc : 0 < s.c) :
    s.span P * 2 ^ P.k < s.c * maskDiv m t np * maskBound (s.bound P) m t np :=
  opening_distance hd hb (sites_table s hs P hv) hc

/-! ### the spans: range of the secret-dependent high part at each site
(`ao` = `a + 2^(l-1)` ∈ [0, 2^l) is the secret shifted into the naturals, `r` the low mask) -/

/-- sgn: `u = a + 2^l + r_modl = ao + 2^(l-1) + r_modl`, so `u div 2^l ∈ {0,1,2}` -/
theorem sgn_span (l ao r : ℕ) (hl : 1 ≤ l) (ha : ao < 2 ^ l) (hr : r < 2 ^ l) :
    (ao + 2 ^ (l - 1) + r) / 2 ^ l ≤ 2 := by
  have : 2 ^ l = 2 * 2 ^ (l - 1) := by rw [← pow_succ']; congr 1; omega
  rw [← Nat.lt_succ_iff, Nat.div_lt_iff_lt_mul (by positivity)]
  omega

/-- trunc: `u = a + 2^(l-1) + r_modf = ao + r_modf`, so `u div 2^f ≤ 2^(l-f)` -/
theorem trunc_span (l f ao r : ℕ) (hf : f ≤ l) (ha : ao < 2 ^ l) (hr : r < 2 ^ f) :
    (ao + r) / 2 ^ f ≤ 2 ^ (l - f) := by
  have e : 2 ^ l = 2 ^ (l - f) * 2 ^ f := by rw [← pow_add]; congr 1; omega
  rw [← Nat.lt_succ_iff, Nat.div_lt_iff_lt_mul (by positivity)]
  nlinarith

/-- lsb: `u = a + 2^l + b = ao + 2^(l-1) + b`, `b ≤ 1`: `u div 2 < 2^l` -/
theorem lsb_span (l ao b : ℕ) (hl : 1 ≤ l) (ha : ao < 2 ^ l) (hb : b ≤ 1) :
    (ao + 2 ^ (l - 1) + b) / 2 < 2 ^ l := by
  have : 2 ^ l = 2 * 2 ^ (l - 1) := by rw [← pow_succ']; congr 1; omega
  rw [Nat.div_lt_iff_lt_mul (by norm_num)]
  omega

/-- _mod: `u = a + 2^l - (2^l % b) - r_modb < 2^(l+1)`, so `u div b ≤ 2^(l+1) div b` -/
theorem mod_span (l b u : ℕ) (hu : u < 2 ^ (l + 1)) : u / b ≤ 2 ^ (l + 1) / b :=
  Nat.div_le_div_right hu.le

/-- to_bits / trailing_zeros: `u < 2^(l+1)` resp. `2^(l+2)`: `u div 2^n ≤ 2^(l+1-n)` resp. `2^(l+2-n)` -/
theorem bits_span (j n u : ℕ) (hn : n ≤ j) (hu : u < 2 ^ j) : u / 2 ^ n < 2 ^ (j - n) := by
  rw [Nat.div_lt_iff_lt_mul (by positivity), ← pow_add]
  rwa [show j - n + n = j by omega]

/-! ### `_convert` (integer source): unrounded bound `(1 << (k+l)) // d + 1` per PRSS term / sender -/

/-- the opened `x + offset + s_r` has secret part in `[0, 2^l)`; every term of `s_r` is uniform below
`B = convertBound (k+l)`, and `2^l · 2^k < d · B`: distance `< d · 2^-k`. -/
theorem convert_distance (k l m t : ℕ) (np : Bool) (hd : 0 < maskDiv m t np) :
    2 ^ l * 2 ^ k < maskDiv m t np * convertBound (k + l) m t np := by
  unfold convertBound
  rw [Nat.shiftLeft_eq, one_mul, ← pow_add, Nat.add_comm l k]
  have := Nat.lt_succ_iff.2 (le_refl (2 ^ (k + l) / maskDiv m t np))
  rw [Nat.div_lt_iff_lt_mul hd] at this
  rw [Nat.mul_comm]; exact this

/-! ### the `_mod` mask before the fix (repo commit 4d82624 replaced `1 << k` by `(1 << k + l) // b`) -/

/-- with the OLD parameter `_random(Zp, 1 << k)` the requested bound does not grow with `l`: for
`l = 32, k = 30, b = 3, m = 3, t = 1` (PRSS, d = 3) every possible opened value for `a = -2147483646` is smaller
than every possible opened value for `a' = 2147483646` although `a % 3 = a' % 3` (equal outputs):
the supports are disjoint, the statistical distance is 1 instead of ≈ 2^-30.
(`A = a + 2^32`, `A' = a' + 2^32`; `r, r'` = any total masks, i.e. sums of d values below the old bound;
`q, q'` = any values of r_modb.) -/
theorem mod_old_mask_insufficient :
    let B := maskBound (2 ^ 30) 3 1 false
    let A := 2147483650
    let A' := 6442450942
    A % 3 = A' % 3 ∧
    ∀ r r' q q' : ℕ, r ≤ 3 * (B - 1) → q' < 3 →
      A - 2 ^ 32 % 3 + 3 * r - q < A' - 2 ^ 32 % 3 + 3 * r' - q' := by
  intro B A A'
  refine ⟨by decide, ?_⟩
  intro r r' q q' hr hq'
  have hB : maskBound (2 ^ 30) 3 1 false * maskDiv 3 1 false ≤ 2 ^ 30 :=
    (maskBound_bounds (bound := 2 ^ 30) (m := 3) (t := 1) (np := false) (by decide) (by decide)).1
  have hd : maskDiv 3 1 false = 3 := by decide
  rw [hd] at hB
  have hr' : r ≤ 3 * (maskBound (2 ^ 30) 3 1 false - 1) := hr
  generalize maskBound (2 ^ 30) 3 1 false = Bv at hB hr'
  have h32 : (2 : ℕ) ^ 32 % 3 = 1 := by decide
  have h30 : (2 : ℕ) ^ 30 = 1073741824 := by norm_num
  simp only [A, A', h32]
  omega

/-- the same parameters after the fix: the per-opening bound of the table applies (c = 8, d = 3):
`span · 2^30 < 8 · 3 · B_new` -/
theorem mod_new_mask_sufficient :
    modSite.span ⟨30, 32, 0, 3, 0⟩ * 2 ^ 30
      < 8 * 3 * maskBound (modSite.bound ⟨30, 32, 0, 3, 0⟩) 3 1 false := by
  have := site_distance modSite (by simp [sites]) ⟨30, 32, 0, 3, 0⟩ (by simp [modSite]) (m := 3) (t := 1)
    (np := false) (by decide) (by
      simp only [modSite, maskDiv, Share.choose]
      norm_num) (by decide)
  simpa [modSite, maskDiv, Share.choose] using this

end MpycV.Mask
