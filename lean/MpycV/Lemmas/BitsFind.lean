/-
Lemmas for C30, find: the halving recursion `cl` returns the not-found bit and `f` at the index of the
first zero (`cl_spec`); `find_spec'` for every mode / e / f / cs_f combination.
-/
import MpycV.Lemmas.BitsAdd

namespace MpycV.Bits

/-! ### find -/

/-- index of the first 0 (length if there is none) -/
def fz : List Int → Nat
  | [] => 0
  | b :: t => if b = 0 then 0 else 1 + fz t

theorem fz_le : ∀ z : List Int, fz z ≤ z.length
  | [] => Nat.le_refl 0
  | b :: t => by
      have := fz_le t
      simp only [fz, List.length_cons]; split <;> omega

theorem fz_append : ∀ (L R : List Int), fz (L ++ R) = if fz L < L.length then fz L else L.length + fz R
  | [], R => by simp [fz]
  | b :: L, R => by
      have ih := fz_append L R
      have := fz_le L
      simp only [List.cons_append, fz, List.length_cons]
      by_cases hb : b = 0
      · simp [hb]
      · simp only [hb, if_false, ih]
        split <;> (split <;> omega)

theorem ifElseList_zero (x y : List Int) (h : y.length ≤ x.length) : ifElseList 0 x y = y := by
  unfold ifElseList
  induction y generalizing x with
  | nil => simp
  | cons b y ih =>
    cases x with
    | nil => simp at h
    | cons a x => simp only [List.zipWith_cons_cons, List.length_cons] at h ⊢; rw [ih x (by omega)]; simp

theorem ifElseList_one (x y : List Int) (h : x.length ≤ y.length) : ifElseList 1 x y = x := by
  unfold ifElseList
  induction x generalizing y with
  | nil => simp
  | cons a x ih =>
    cases y with
    | nil => simp at h
    | cons b y => simp only [List.zipWith_cons_cons, List.length_cons] at h ⊢; rw [ih y (by omega)]; simp

/-- `cs_f` is the conditional-step function of `f` (docstring (*)) at the indices i ≥ 0 it is called with and all values of `f` have the same
number of components -/
def Consistent (fs : FSpec) : Prop :=
  (∀ (i b : Int), 0 ≤ i → (b = 0 ∨ b = 1) → fs.cs b i = fs.f (i + b)) ∧
    ∀ i j : Int, (fs.f i).length = (fs.f j).length

theorem consistent_default : Consistent .default :=
  ⟨fun _ _ _ _ => rfl, fun _ _ => rfl⟩

theorem consistent_givenF (f : Int → List Int) (hlen : ∀ i j, (f i).length = (f j).length) :
    Consistent (.givenF f) := by
  refine ⟨?_, hlen⟩
  intro i b _ hb
  simp only [FSpec.cs, FSpec.f]
  rcases hb with rfl | rfl
  · have := ifElseList_zero (f (i + 1)) (f i) (by rw [hlen])
    simp only [add_zero]
    unfold ifElseList at this
    rw [List.zipWith_comm] at this
    simpa using this
  · have := ifElseList_one (f (i + 1)) (f i) (by rw [hlen])
    unfold ifElseList at this
    rw [List.zipWith_comm] at this
    simpa using this

theorem cl_spec (fs : FSpec) (hc : Consistent fs) (i : Nat) (seg : List Int) (hne : seg ≠ []) (hb : IsBits seg) :
    cl fs.cs i seg = (if fz seg < seg.length then 0 else 1) :: fs.f ((i : Int) + (fz seg : Nat)) := by
  induction i, seg using cl.induct (cs := fs.cs) with
  | case1 i b hlen =>
    rw [cl.eq_def]
    simp only [List.length_singleton, Nat.one_lt_ofNat, if_true]
    rcases hb b (by simp) with rfl | rfl
    · simp [fz, hc.1 i 0 (Int.natCast_nonneg i) (Or.inl rfl)]
    · simp [fz, hc.1 i 1 (Int.natCast_nonneg i) (Or.inr rfl)]
  | case2 i seg hlen hnb =>
    match seg, hlen, hnb with
    | [], _, _ => exact absurd rfl hne
    | [b], _, hnb => exact absurd rfl (hnb b)
    | _ :: _ :: _, hlen, _ => simp only [List.length_cons] at hlen; omega
  | case3 i seg hlen ihl ihr =>
    obtain ⟨hLne, hRne⟩ := split_half' seg hlen
    have hs : seg = seg.take (seg.length / 2) ++ seg.drop (seg.length / 2) := (List.take_append_drop _ _).symm
    have hLlen : (seg.take (seg.length / 2)).length = seg.length / 2 := by rw [List.length_take]; omega
    rw [cl.eq_def]
    simp only [hlen, if_false]
    rw [ihl hLne (fun b hb' => hb b (List.mem_of_mem_take hb')),
      ihr hRne (fun b hb' => hb b (List.mem_of_mem_drop hb'))]
    generalize hL : seg.take (seg.length / 2) = Ls at *
    generalize hR : seg.drop (seg.length / 2) = Rs at *
    have hfa := fz_append Ls Rs
    have hfl := fz_le Ls
    have hfr := fz_le Rs
    conv => rhs; rw [hs]
    rw [List.length_append, hfa]
    by_cases hfound : fz Ls < Ls.length
    · simp only [hfound, if_true, List.headD_cons]
      rw [ifElseList_zero _ _ (by simp [hc.2 _ ((i : Int) + (fz Ls : Nat))])]
      have : fz Ls < Ls.length + Rs.length := by omega
      simp [this]
    · simp only [hfound, if_false, List.headD_cons]
      rw [ifElseList_one _ _ (by simp [hc.2 _ ((i : Int) + (fz Ls : Nat))])]
      have e : ((i + seg.length / 2 : Nat) : Int) + (fz Rs : Nat) = (i : Int) + ((Ls.length + fz Rs : Nat) : Int) := by
        rw [← hLlen]; push_cast; ring
      rw [e]
      by_cases hr : fz Rs < Rs.length
      · have : Ls.length + fz Rs < Ls.length + Rs.length := by omega
        simp [hr, this]
      · have : ¬ Ls.length + fz Rs < Ls.length + Rs.length := by omega
        simp [hr, this]


/-- indicator list of `find`: 0 where `x[k] = a`, 1 elsewhere -/
def neqInd (a : Int) (x : List Int) : List Int := x.map (fun b => if b = a then 0 else 1)

theorem fz_neqInd (a : Int) : ∀ x : List Int, fz (neqInd a x) = x.idxOf a
  | [] => by simp [neqInd, fz]
  | b :: t => by
      have ih := fz_neqInd a t
      unfold neqInd at ih ⊢
      simp only [List.map_cons, fz, List.idxOf_cons]
      by_cases hb : b = a
      · simp [hb]
      · simp only [hb, if_false, ih]
        have : (b == a) = false := by simpa using hb
        simp [this]; omega

theorem isBits_neqInd (a : Int) (x : List Int) : IsBits (neqInd a x) := by
  intro b hb
  simp only [neqInd, List.mem_map] at hb
  obtain ⟨c, _, rfl⟩ := hb
  split <;> simp

/-- when is the reduction step of `find` applicable: bits for `bits=True`, anything for `bits=False` -/
def ModeOk (mode : AMode) (a : Int) (x : List Int) : Prop :=
  match mode with
  | .pubBit => (a = 0 ∨ a = 1) ∧ IsBits x
  | .secBit => (a = 0 ∨ a = 1) ∧ IsBits x
  | .general => True

theorem reduce_eq_neqInd (mode : AMode) (a : Int) (x : List Int) (h : ModeOk mode a x) :
    reduceToZeroSearch mode a x = neqInd a x := by
  unfold reduceToZeroSearch neqInd
  cases mode with
  | pubBit =>
    obtain ⟨ha, hx⟩ := h
    rcases ha with rfl | rfl
    · simp only [zero_ne_one, if_false]
      conv => lhs; rw [← List.map_id x]
      apply List.map_congr_left
      intro b hb
      rcases hx b hb with rfl | rfl <;> simp
    · simp only [if_true]
      apply List.map_congr_left
      intro b hb
      rcases hx b hb with rfl | rfl <;> simp
  | secBit =>
    obtain ⟨ha, hx⟩ := h
    apply List.map_congr_left
    intro b hb
    rcases ha with rfl | rfl <;> rcases hx b hb with rfl | rfl <;> simp
  | general =>
    apply List.map_congr_left
    intro b _
    by_cases hb : b = a <;> simp [hb]

/-- `find`: index of the first occurrence of `a` (Python `list.index`, `len(x)` if absent), the
not-found bit, the replacement `e`, and `f` applied to the index — every parameter combination. -/
theorem find_spec' (mode : AMode) (a : Int) (x : List Int) (e : Option Int) (fs : FSpec)
    (hm : ModeOk mode a x) (hc : Consistent fs) :
    find mode a x e fs =
      match e with
      | none => (some (if x.idxOf a < x.length then 0 else 1), fs.f (x.idxOf a : Nat))
      | some E => (none, fs.f (if x.idxOf a < x.length then (x.idxOf a : Nat) else E)) := by
  unfold find
  rw [reduce_eq_neqInd mode a x hm]
  cases x with
  | nil => cases e <;> simp [neqInd]
  | cons b t =>
    have hne : neqInd a (b :: t) ≠ [] := by simp [neqInd]
    have hcl := cl_spec fs hc 0 (neqInd a (b :: t)) hne (isBits_neqInd a _)
    have hlen : (neqInd a (b :: t)).length = (b :: t).length := by simp [neqInd]
    rw [fz_neqInd, hlen] at hcl
    have hz : neqInd a (b :: t) = (if b = a then 0 else 1) :: neqInd a t := by simp [neqInd]
    rw [hz] at hcl ⊢
    simp only [hcl, List.headD_cons, List.tail_cons, Nat.cast_zero, zero_add]
    cases e with
    | none => rfl
    | some E =>
      simp only
      by_cases hf : List.idxOf a (b :: t) < (b :: t).length
      · simp only [hf, if_true]
        rw [ifElseList_zero _ _ (by rw [hc.2])]
      · simp only [hf, if_false]
        rw [ifElseList_one _ _ (by rw [hc.2])]

end MpycV.Bits
