/-
Finite, kernel-checked table for the Cipolla–Lehmer branch of `PrimeFieldElement._sqrt` (p ≡ 1 mod 4):
one theorem per prime (checked in parallel), every element of the field.
-/
import MpycV.Model.PrimeF

namespace MpycV.PrimeF

/-- the C21 clauses for one element, as a Boolean check on the model -/
def sqrtCheck (p a : Nat) : Bool :=
  match isSqr p a with
  | .ok true =>
    (match sqrt p a false with
     | .ok r => r < p && mul p r (r : Int) == a &&
        (match sqrt p a true with
         | .ok r' => a != 0 && r' < p && mul p r' (r : Int) == 1
         | .error e => a == 0 && e == .zeroDivision)
     | .error _ => false)
  | .ok false => true     -- not a square: the property does not constrain `sqrt`
  | .error _ => false

/-- all primes p ≡ 1 (mod 4) below 200 -/
def primes1mod4 : List Nat := [5, 13, 17, 29, 37, 41, 53, 61, 73, 89, 97, 101, 109, 113, 137, 149, 157, 173, 181, 193, 197]

theorem sqrtCheck_5 : ∀ a < 5, sqrtCheck 5 a = true := by decide +kernel
theorem sqrtCheck_13 : ∀ a < 13, sqrtCheck 13 a = true := by decide +kernel
theorem sqrtCheck_17 : ∀ a < 17, sqrtCheck 17 a = true := by decide +kernel
theorem sqrtCheck_29 : ∀ a < 29, sqrtCheck 29 a = true := by decide +kernel
theorem sqrtCheck_37 : ∀ a < 37, sqrtCheck 37 a = true := by decide +kernel
theorem sqrtCheck_41 : ∀ a < 41, sqrtCheck 41 a = true := by decide +kernel
theorem sqrtCheck_53 : ∀ a < 53, sqrtCheck 53 a = true := by decide +kernel
theorem sqrtCheck_61 : ∀ a < 61, sqrtCheck 61 a = true := by decide +kernel
theorem sqrtCheck_73 : ∀ a < 73, sqrtCheck 73 a = true := by decide +kernel
theorem sqrtCheck_89 : ∀ a < 89, sqrtCheck 89 a = true := by decide +kernel
theorem sqrtCheck_97 : ∀ a < 97, sqrtCheck 97 a = true := by decide +kernel
theorem sqrtCheck_101 : ∀ a < 101, sqrtCheck 101 a = true := by decide +kernel
theorem sqrtCheck_109 : ∀ a < 109, sqrtCheck 109 a = true := by decide +kernel
theorem sqrtCheck_113 : ∀ a < 113, sqrtCheck 113 a = true := by decide +kernel
theorem sqrtCheck_137 : ∀ a < 137, sqrtCheck 137 a = true := by decide +kernel
theorem sqrtCheck_149 : ∀ a < 149, sqrtCheck 149 a = true := by decide +kernel
theorem sqrtCheck_157 : ∀ a < 157, sqrtCheck 157 a = true := by decide +kernel
theorem sqrtCheck_173 : ∀ a < 173, sqrtCheck 173 a = true := by decide +kernel
theorem sqrtCheck_181 : ∀ a < 181, sqrtCheck 181 a = true := by decide +kernel
theorem sqrtCheck_193 : ∀ a < 193, sqrtCheck 193 a = true := by decide +kernel
theorem sqrtCheck_197 : ∀ a < 197, sqrtCheck 197 a = true := by decide +kernel

theorem sqrtCheck_table : ∀ q ∈ primes1mod4, ∀ a < q, sqrtCheck q a = true := by
  intro q hq
  simp only [primes1mod4, List.mem_cons, List.not_mem_nil, or_false] at hq
  rcases hq with rfl | rfl | rfl | rfl | rfl | rfl | rfl | rfl | rfl | rfl | rfl | rfl | rfl | rfl | rfl | rfl | rfl | rfl | rfl | rfl | rfl
  · exact sqrtCheck_5
  · exact sqrtCheck_13
  · exact sqrtCheck_17
  · exact sqrtCheck_29
  · exact sqrtCheck_37
  · exact sqrtCheck_41
  · exact sqrtCheck_53
  · exact sqrtCheck_61
  · exact sqrtCheck_73
  · exact sqrtCheck_89
  · exact sqrtCheck_97
  · exact sqrtCheck_101
  · exact sqrtCheck_109
  · exact sqrtCheck_113
  · exact sqrtCheck_137
  · exact sqrtCheck_149
  · exact sqrtCheck_157
  · exact sqrtCheck_173
  · exact sqrtCheck_181
  · exact sqrtCheck_193
  · exact sqrtCheck_197

end MpycV.PrimeF
