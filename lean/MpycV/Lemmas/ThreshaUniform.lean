/-
Perfect privacy of Shamir sharing as produced by the Horner loop of `random_split`:
counting the coefficient vectors that explain a coalition's view.
-/
import MpycV.Lemmas.ThreshaShare
import Mathlib.Data.Fintype.BigOperators
import Mathlib.SetTheory.Cardinal.Finite

open Polynomial Finset

namespace MpycV.Thresha

variable {F : Type} [Field F]

/-- right-to-left version of `hornerPoly` (head = last coefficient processed) -/
noncomputable def hornerPolyR (c : List F) : F[X] := c.foldr (fun cj y => (y + C cj) * X) 0

lemma hornerPoly_eq_R (c : List F) : hornerPoly c = hornerPolyR c.reverse := by
  simp [hornerPoly, hornerPolyR, List.foldr_reverse]

lemma hornerPolyR_eval_zero (c : List F) : (hornerPolyR c).eval 0 = 0 := by
  cases c <;> simp [hornerPolyR]

lemma hornerPolyR_inj : ∀ (c c' : List F), c.length = c'.length → hornerPolyR c = hornerPolyR c' → c = c'
  | [], [], _, _ => rfl
  | [], _ :: _, h, _ => by simp at h
  | _ :: _, [], h, _ => by simp at h
  | a :: c, a' :: c', hl, h => by
    have h1 : (hornerPolyR c + C a) * X = (hornerPolyR c' + C a') * X := by
      simpa [hornerPolyR] using h
    have h2 : hornerPolyR c + C a = hornerPolyR c' + C a' := mul_right_cancel₀ X_ne_zero h1
    have h3 := congrArg (eval 0) h2
    simp only [eval_add, hornerPolyR_eval_zero, eval_C, zero_add] at h3
    subst h3
    have h4 : hornerPolyR c = hornerPolyR c' := add_right_cancel h2
    rw [hornerPolyR_inj c c' (by simpa using hl) h4]

/-- the Horner polynomial determines the coefficient list (for a given number of coefficients) -/
lemma hornerPoly_inj {c c' : List F} (hl : c.length = c'.length) (h : hornerPoly c = hornerPoly c') :
    c = c' := by
  rw [hornerPoly_eq_R, hornerPoly_eq_R] at h
  exact List.reverse_injective (hornerPolyR_inj _ _ (by simpa using hl) h)

/-- the view of a set of points: the shares the sharing polynomial gives at these points -/
noncomputable def view {ι : Type} (t : ℕ) (pt : ι → F) (s : F) (c : Fin t → F) : ι → F :=
  fun x => (sharePoly s (List.ofFn c)).eval (pt x)

/-- two coefficient vectors giving the same shares at `t` distinct non-zero points are equal
(Lagrange uniqueness on the points together with 0, where both polynomials take the value `s`) -/
theorem view_injective {ι : Type} [Fintype ι] [DecidableEq ι] (t : ℕ) (pt : ι → F)
    (hinj : Function.Injective pt) (hne : ∀ x, pt x ≠ 0) (hcard : Fintype.card ι = t) (s : F) :
    Function.Injective (view t pt s) := by
  intro c c' h
  have hdeg : ∀ c : Fin t → F, (sharePoly s (List.ofFn c)).degree
      < ((univ : Finset (Option ι)).card : WithBot ℕ) := by
    intro c
    refine degree_sharePoly_lt s _ ?_
    simp [hcard]
  have hinj' : Set.InjOn (fun o : Option ι => o.elim 0 pt) (univ : Finset (Option ι)) := by
    intro a _ b _ hab
    cases a <;> cases b
    · rfl
    · exact absurd hab.symm (hne _)
    · exact absurd hab (hne _)
    · simp only [Option.elim] at hab; rw [hinj hab]
  have hp := Polynomial.eq_of_degrees_lt_of_eval_index_eq (univ : Finset (Option ι)) hinj' (hdeg c)
    (hdeg c') (by
      intro o _
      cases o with
      | none => simp
      | some x => exact congrFun h x)
  have hh : hornerPoly (List.ofFn c) = hornerPoly (List.ofFn c') := by
    unfold sharePoly at hp; exact add_right_cancel hp
  exact List.ofFn_injective (hornerPoly_inj (by simp) hh)

variable [Fintype F]

theorem view_bijective {ι : Type} [Fintype ι] [DecidableEq ι] (t : ℕ) (pt : ι → F)
    (hinj : Function.Injective pt) (hne : ∀ x, pt x ≠ 0) (hcard : Fintype.card ι = t) (s : F) :
    Function.Bijective (view t pt s) := by
  classical
  rw [Fintype.bijective_iff_injective_and_card]
  exact ⟨view_injective t pt hinj hne hcard s, by simp [hcard]⟩

/-- counting: with `t` coefficients and distinct non-zero points split into the coalition's points `ι` and
`|κ| = t - |ι|` further points, exactly `|F|^|κ|` coefficient vectors produce a given view `y` on `ι`. -/
theorem card_coeffs_of_view {ι κ : Type} [Fintype ι] [Fintype κ] [DecidableEq ι] [DecidableEq κ]
    (t : ℕ) (pt : ι ⊕ κ → F) (hinj : Function.Injective pt) (hne : ∀ x, pt x ≠ 0)
    (hcard : Fintype.card ι + Fintype.card κ = t) (s : F) (y : ι → F) :
    Nat.card {c : Fin t → F // view t (fun i => pt (.inl i)) s c = y}
      = Fintype.card F ^ Fintype.card κ := by
  classical
  have hb := view_bijective t pt hinj hne (by simpa using hcard) s
  let e : (Fin t → F) ≃ (ι → F) × (κ → F) :=
    (Equiv.ofBijective _ hb).trans (Equiv.sumArrowEquivProdArrow ι κ F)
  have e1 : {c : Fin t → F // view t (fun i => pt (.inl i)) s c = y}
      ≃ {p : (ι → F) × (κ → F) // p.1 = y} :=
    e.subtypeEquiv (fun c => by
      constructor <;> intro h <;> (funext i; exact congrFun h i))
  have e2 : {p : (ι → F) × (κ → F) // p.1 = y} ≃ (κ → F) :=
    { toFun := fun p => p.1.2
      invFun := fun w => ⟨(y, w), rfl⟩
      left_inv := by rintro ⟨⟨a, b⟩, h⟩; simp only at h; subst h; rfl
      right_inv := fun w => rfl }
  rw [Nat.card_congr (e1.trans e2), Nat.card_eq_fintype_card, Fintype.card_fun]

/-! ### party level: coalitions of parties holding shares produced by the model's `shareAt` -/

omit [Fintype F] in
lemma emb_succ_ne_zero {emb : ℕ → F} (h0 : emb 0 = 0) {m : ℕ} (hemb : Set.InjOn emb (Set.Iic m))
    {i : ℕ} (hi : i < m) : emb (i + 1) ≠ 0 := by
  intro h
  have := hemb (show i + 1 ∈ Set.Iic m from by simpa using hi) (show 0 ∈ Set.Iic m from by simp)
    (h.trans h0.symm)
  omega

omit [Field F] [Fintype F] in
lemma emb_succ_inj {emb : ℕ → F} {m : ℕ} (hemb : Set.InjOn emb (Set.Iic m))
    {i j : ℕ} (hi : i < m) (hj : j < m) (h : emb (i + 1) = emb (j + 1)) : i = j := by
  have := hemb (show i + 1 ∈ Set.Iic m from by simpa using hi)
    (show j + 1 ∈ Set.Iic m from by simpa using hj) h
  omega

/-- a coalition `A` of exactly `t` parties: every view is explained by exactly one coefficient vector -/
theorem coalition_view_unique (emb : ℕ → F) (h0 : emb 0 = 0) {m : ℕ} (hemb : Set.InjOn emb (Set.Iic m))
    (t : ℕ) (A : Finset ℕ) (hA : ∀ i ∈ A, i < m) (hAt : A.card = t) (s : F) (y : ℕ → F) :
    ∃! c : Fin t → F, ∀ i ∈ A, shareAt (fieldOps F emb) s (List.ofFn c) (i + 1) = y i := by
  have hb := view_bijective (ι := A) t (fun x => emb (x.1 + 1))
    (fun a b h => Subtype.ext (emb_succ_inj hemb (hA _ a.2) (hA _ b.2) h))
    (fun x => emb_succ_ne_zero h0 hemb (hA _ x.2)) (by simpa using hAt) s
  obtain ⟨c, hc, huniq⟩ := hb.existsUnique (fun x : A => y x.1)
  refine ⟨c, ?_, ?_⟩
  · intro i hi
    rw [shareAt_eq_eval]
    exact congrFun hc ⟨i, hi⟩
  · intro c' hc'
    apply huniq
    funext x
    have := hc' x.1 x.2
    rwa [shareAt_eq_eval] at this

/-- a coalition `A` of at most `t` parties (`t < m`): the number of coefficient vectors explaining a view
is `|F|^(t-|A|)` — it depends neither on the secret nor on the view. -/
theorem coalition_view_card (emb : ℕ → F) (h0 : emb 0 = 0) {m : ℕ} (hemb : Set.InjOn emb (Set.Iic m))
    (t : ℕ) (htm : t < m) (A : Finset ℕ) (hA : ∀ i ∈ A, i < m) (hAt : A.card ≤ t) (s : F)
    (y : ℕ → F) :
    Nat.card {c : Fin t → F // ∀ i ∈ A, shareAt (fieldOps F emb) s (List.ofFn c) (i + 1) = y i}
      = Fintype.card F ^ (t - A.card) := by
  classical
  obtain ⟨B, hAB, hBm, hBt⟩ := exists_subsuperset_card_eq (s := A) (t := range m) (n := t)
    (fun i hi => by simpa using hA i hi) hAt (by simpa using htm.le)
  have hB : ∀ i ∈ B, i < m := fun i hi => by simpa using hBm hi
  let pt : (A ⊕ (B \ A : Finset ℕ)) → F := fun x => emb (Sum.elim (fun a => a.1) (fun b => b.1) x + 1)
  have hmem : ∀ x : (A ⊕ (B \ A : Finset ℕ)), Sum.elim (fun a => a.1) (fun b => b.1) x < m := by
    rintro (a | b)
    · exact hA _ a.2
    · exact hB _ (mem_sdiff.1 b.2).1
  have hinj : Function.Injective pt := by
    intro x x' h
    have := emb_succ_inj hemb (hmem x) (hmem x') h
    rcases x with a | b <;> rcases x' with a' | b'
    · exact congrArg _ (Subtype.ext this)
    · exact absurd a.2 (by simp only [Sum.elim_inl, Sum.elim_inr] at this; rw [this]; exact (mem_sdiff.1 b'.2).2)
    · exact absurd a'.2 (by simp only [Sum.elim_inl, Sum.elim_inr] at this; rw [← this]; exact (mem_sdiff.1 b.2).2)
    · exact congrArg _ (Subtype.ext this)
  have hcard : Fintype.card A + Fintype.card (B \ A : Finset ℕ) = t := by
    rw [Fintype.card_coe, Fintype.card_coe, card_sdiff_of_subset hAB, hBt]
    omega
  have key := card_coeffs_of_view t pt hinj (fun x => emb_succ_ne_zero h0 hemb (hmem x)) hcard s
    (fun x : A => y x.1)
  rw [Fintype.card_coe, card_sdiff_of_subset hAB, hBt] at key
  rw [← key]
  apply Nat.card_congr
  apply Equiv.subtypeEquivRight
  intro c
  constructor
  · intro h
    funext x
    have := h x.1 x.2
    rwa [shareAt_eq_eval] at this
  · intro h i hi
    rw [shareAt_eq_eval]
    exact congrFun h ⟨i, hi⟩

end MpycV.Thresha
