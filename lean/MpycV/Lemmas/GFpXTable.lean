/-
Reference definitions for the kernel-evaluated tables of C23/C24 (core Lean only): enumeration of all
polynomials of bounded degree and irreducibility by exhaustive trial division in the model.
-/
import MpycV.Model.GFpX

namespace MpycV.GFpX

/-- all polynomials over GF(p) with integer value `< p^k`, i.e. of degree `< k` (including 0) -/
def polys (p k : Nat) : List Poly := (List.range (p ^ k)).map (digits p)

/-- all binary polynomials (bitmasks) of degree `< k` -/
def binPolys (k : Nat) : List Nat := List.range (2 ^ k)

/-- all monic polynomials of degree exactly `j` -/
def monicsOfDegree (p j : Nat) : List Poly :=
  (List.range (p ^ j)).map fun k =>
    let d := digits p k
    d ++ List.replicate (j - d.length) 0 ++ [1]

/-- some monic polynomial of degree `1 … ⌊deg a / 2⌋` divides `a` (remainder of `_mod` is zero) -/
def hasFactor (p : Nat) (a : Poly) : Bool :=
  (List.range ((a.length - 1) / 2)).any fun j0 =>
    (monicsOfDegree p (j0 + 1)).any fun b => modCore p a b = []

/-- irreducible by definition: degree ≥ 1 and no factor of degree `1 … ⌊deg/2⌋` (exhaustive search) -/
def trialIrr (p : Nat) (a : Poly) : Bool := decide (2 ≤ a.length) && !hasFactor p a

end MpycV.GFpX
