/-
Lemmas on `isort` (value of `runtime.sorted`) for C34: permutation, sortedness, uniqueness
(so `(isort x)[k]` is "the k-th smallest element of x"), and the partition lemma used by quickselect.
Core Lean only.
-/
import MpycV.Lemmas.StatsBase
namespace MpycV.Stats

/-! ### A. `isort` is the unique sorted permutation -/

theorem insertSorted_perm (a : Int) (l : List Int) : (insertSorted a l).Perm (a :: l) := by
  induction l with
  | nil => exact List.Perm.refl _
  | cons b l ih =>
    unfold insertSorted
    split
    · exact List.Perm.refl _
    · exact (List.Perm.cons b ih).trans (List.Perm.swap a b l)

theorem mem_insertSorted {a b : Int} {l : List Int} : b ∈ insertSorted a l ↔ b = a ∨ b ∈ l := by
  rw [(insertSorted_perm a l).mem_iff, List.mem_cons]

theorem insertSorted_sorted (a : Int) (l : List Int) (h : l.Pairwise (· ≤ ·)) :
    (insertSorted a l).Pairwise (· ≤ ·) := by
  induction l with
  | nil => simp [insertSorted]
  | cons b l ih =>
    unfold insertSorted
    rw [List.pairwise_cons] at h
    split
    · rename_i hab
      refine List.pairwise_cons.2 ⟨?_, List.pairwise_cons.2 h⟩
      intro c hc
      rcases List.mem_cons.1 hc with rfl | hc
      · exact hab
      · exact Int.le_trans hab (h.1 c hc)
    · rename_i hab
      refine List.pairwise_cons.2 ⟨?_, ih h.2⟩
      intro c hc
      rcases mem_insertSorted.1 hc with rfl | hc
      · omega
      · exact h.1 c hc

theorem isort_perm (x : List Int) : (isort x).Perm x := by
  induction x with
  | nil => exact List.Perm.refl _
  | cons a l ih => exact (insertSorted_perm a (isort l)).trans (List.Perm.cons a ih)

theorem isort_sorted (x : List Int) : (isort x).Pairwise (· ≤ ·) := by
  induction x with
  | nil => exact List.Pairwise.nil
  | cons a l ih => exact insertSorted_sorted a (isort l) ih

@[simp] theorem length_isort (x : List Int) : (isort x).length = x.length :=
  (isort_perm x).length_eq

theorem mem_isort {a : Int} {x : List Int} : a ∈ isort x ↔ a ∈ x := (isort_perm x).mem_iff

/-- two sorted permutations of each other are equal -/
theorem eq_of_perm_of_sorted {l₁ l₂ : List Int} (hp : l₁.Perm l₂)
    (h₁ : l₁.Pairwise (· ≤ ·)) (h₂ : l₂.Pairwise (· ≤ ·)) : l₁ = l₂ :=
  List.Perm.eq_of_pairwise (le := (· ≤ ·)) (fun _ _ _ _ hab hba => Int.le_antisymm hab hba) h₁ h₂ hp

/-- uniqueness: any sorted rearrangement of `x` is `isort x` -/
theorem eq_isort_of_perm_sorted {l x : List Int} (hp : l.Perm x) (hs : l.Pairwise (· ≤ ·)) :
    l = isort x :=
  eq_of_perm_of_sorted (hp.trans (isort_perm x).symm) hs (isort_sorted x)

theorem isort_congr {x y : List Int} (h : x.Perm y) : isort x = isort y :=
  eq_isort_of_perm_sorted ((isort_perm x).trans h) (isort_sorted x)

theorem isort_eq_self {x : List Int} (h : x.Pairwise (· ≤ ·)) : isort x = x :=
  (eq_isort_of_perm_sorted (List.Perm.refl x) h).symm

/-! ### B. partition lemma -/

theorem isort_append_of_le {l r : List Int} (h : ∀ a ∈ l, ∀ b ∈ r, a ≤ b) :
    isort (l ++ r) = isort l ++ isort r := by
  symm
  apply eq_isort_of_perm_sorted
  · exact List.Perm.append (isort_perm l) (isort_perm r)
  · rw [List.pairwise_append]
    exact ⟨isort_sorted l, isort_sorted r, fun a ha b hb => h a (mem_isort.1 ha) b (mem_isort.1 hb)⟩

theorem isort_eq_append_of_perm {x l r : List Int} (hp : x.Perm (l ++ r))
    (h : ∀ a ∈ l, ∀ b ∈ r, a ≤ b) : isort x = isort l ++ isort r := by
  rw [isort_congr hp, isort_append_of_le h]

theorem isort_getD_left {x l r : List Int} (hp : x.Perm (l ++ r))
    (h : ∀ a ∈ l, ∀ b ∈ r, a ≤ b) {k : Nat} (hk : k < l.length) :
    (isort x).getD k 0 = (isort l).getD k 0 := by
  rw [isort_eq_append_of_perm hp h]
  simp only [List.getD_eq_getElem?_getD]
  rw [List.getElem?_append_left (by simpa using hk)]

theorem isort_getD_right {x l r : List Int} (hp : x.Perm (l ++ r))
    (h : ∀ a ∈ l, ∀ b ∈ r, a ≤ b) {k : Nat} (hk : l.length ≤ k) :
    (isort x).getD k 0 = (isort r).getD (k - l.length) 0 := by
  rw [isort_eq_append_of_perm hp h]
  simp only [List.getD_eq_getElem?_getD]
  rw [List.getElem?_append_right (by simpa using hk), length_isort]

/-- `(isort x)[k]` really is the k-th smallest: at most `k` elements are strictly smaller and
at least `k+1` elements are `≤` it (stated via `countP`). -/
theorem isort_getD_rank {x : List Int} {k : Nat} (hk : k < x.length) :
    x.countP (· < (isort x).getD k 0) ≤ k ∧ k + 1 ≤ x.countP (· ≤ (isort x).getD k 0) := by
  have hp := isort_perm x
  rw [← hp.countP_eq, ← hp.countP_eq]
  have hs := isort_sorted x
  have hk' : k < (isort x).length := by simpa using hk
  generalize isort x = s at hs hk' ⊢
  have hsplit : s = s.take k ++ s[k] :: s.drop (k + 1) := by
    rw [List.getElem_cons_drop]; exact (List.take_append_drop k s).symm
  have hget : s.getD k 0 = s[k] := by simp [List.getD_eq_getElem?_getD, hk']
  rw [hget]
  have htl : (s.take k).length = k := by simp only [List.length_take]; omega
  generalize s[k] = v at hsplit ⊢
  generalize s.take k = t at hsplit htl
  generalize s.drop (k + 1) = d at hsplit
  subst hsplit
  rw [List.pairwise_append, List.pairwise_cons] at hs
  obtain ⟨_, ⟨hright, _⟩, hleft⟩ := hs
  constructor
  · -- nothing from position k on is strictly smaller
    rw [List.countP_append]
    have h0 : (v :: d).countP (· < v) = 0 := by
      rw [List.countP_eq_zero]
      intro a ha
      rcases List.mem_cons.1 ha with rfl | ha
      · simp
      · have := hright a ha; simp; omega
    rw [h0]
    have := List.countP_le_length (p := (· < v)) (l := t)
    omega
  · -- everything up to position k is ≤
    rw [List.countP_append, List.countP_cons]
    have h1 : t.countP (· ≤ v) = t.length := by
      rw [List.countP_eq_length]
      intro a ha
      have := hleft a ha v List.mem_cons_self
      simpa using this
    rw [h1]
    simp only [Int.le_refl, decide_true, if_true]
    omega

example : isort [5, 3, 8, 1] = [1, 3, 5, 8] := by decide
example : isort ([3, 1] ++ [8, 5]) = isort [3, 1] ++ isort [8, 5] :=
  isort_append_of_le (by decide)

end MpycV.Stats
