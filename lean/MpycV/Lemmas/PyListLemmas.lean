/-
Generic lemmas about the combinators of Model/PyList.lean used by the bridge proofs of translated list code.
-/
import MpycV.Model.PyList
import Mathlib.Data.List.Basic
import Mathlib.Tactic.Ring
import Mathlib.Tactic.Linarith

namespace MpycV.PyList

variable {α β σ ε : Type}

@[simp] lemma pyFor_nil (s : σ) (body : α → σ → Except ε σ) : pyFor [] s body = .ok s := rfl

lemma pyFor_cons (a : α) (l : List α) (s : σ) (body : α → σ → Except ε σ) :
    pyFor (a :: l) s body = match body a s with | .error e => .error e | .ok s' => pyFor l s' body := rfl

lemma pyFor_cons_ok {a : α} {l : List α} {s s' : σ} {body : α → σ → Except ε σ} (h : body a s = .ok s') :
    pyFor (a :: l) s body = pyFor l s' body := by rw [pyFor_cons, h]

lemma pyFor_append (l₁ l₂ : List α) (s : σ) (body : α → σ → Except ε σ) :
    pyFor (l₁ ++ l₂) s body = match pyFor l₁ s body with | .error e => .error e | .ok s' => pyFor l₂ s' body := by
  induction l₁ generalizing s with
  | nil => rfl
  | cons a l ih =>
    rw [List.cons_append, pyFor_cons, pyFor_cons]
    cases body a s with
    | error e => rfl
    | ok s' => exact ih s'

lemma pyFor_map (g : β → α) (l : List β) (s : σ) (body : α → σ → Except ε σ) :
    pyFor (l.map g) s body = pyFor l s (fun b => body (g b)) := by
  induction l generalizing s with
  | nil => rfl
  | cons a l ih =>
    rw [List.map_cons, pyFor_cons, pyFor_cons]
    cases body (g a) s with
    | error e => rfl
    | ok s' => exact ih s'

/-- a body that never raises: the loop is a left fold -/
lemma pyFor_ok (l : List α) (s : σ) (body : α → σ → Except ε σ) (f : σ → α → σ)
    (h : ∀ a ∈ l, ∀ s, body a s = .ok (f s a)) : pyFor l s body = .ok (l.foldl f s) := by
  induction l generalizing s with
  | nil => rfl
  | cons a l ih =>
    rw [pyFor_cons_ok (h a (by simp) s), List.foldl_cons]
    exact ih (f s a) (fun b hb => h b (List.mem_cons_of_mem _ hb))

/-- loop invariant by a sequence of states: if step `k` takes state `S k` to `S (k+1)`, the loop over the list ends
in `S l.length` -/
lemma pyFor_states (l : List α) (body : α → σ → Except ε σ) (S : ℕ → σ)
    (h : ∀ k (hk : k < l.length), body l[k] (S k) = .ok (S (k + 1))) :
    pyFor l (S 0) body = .ok (S l.length) := by
  induction l generalizing S with
  | nil => rfl
  | cons a l ih =>
    have h0 : body a (S 0) = .ok (S 1) := h 0 (by simp)
    rw [pyFor_cons_ok h0]
    have := ih (fun k => S (k + 1)) (fun k hk => by
      have := h (k + 1) (by simpa using hk)
      simpa using this)
    simpa using this

lemma length_pyRange (a b : Int) : (pyRange a b).length = (b - a).toNat := by simp [pyRange]

lemma getElem_pyRange (a b : Int) (k : ℕ) (hk : k < (pyRange a b).length) : (pyRange a b)[k] = a + k := by
  simp [pyRange]

lemma length_pyEnum (l : List α) : (pyEnum l).length = l.length := by simp [pyEnum]

lemma getElem_pyEnum (l : List α) (k : ℕ) (hk : k < (pyEnum l).length) :
    (pyEnum l)[k] = ((k : Int), l[k]'(by simpa [length_pyEnum] using hk)) := by
  simp [pyEnum]

/-- `for k in range(a, a+n)` with states `S 0 … S n` -/
lemma pyFor_range_states (a : Int) (n : ℕ) (body : Int → σ → Except ε σ) (S : ℕ → σ)
    (h : ∀ k < n, body (a + k) (S k) = .ok (S (k + 1))) :
    pyFor (pyRange a (a + n)) (S 0) body = .ok (S n) := by
  have hl : (pyRange a (a + n)).length = n := by simp [length_pyRange]
  have := pyFor_states (pyRange a (a + n)) body S (fun k hk => by
    rw [getElem_pyRange]; exact h k (by omega))
  rwa [hl] at this

/-- `for k in range(a, b)` with `n = (b - a).toNat` iterations and states `S 0 … S n` -/
lemma pyFor_range_states' (a b : Int) (n : ℕ) (hn : (b - a).toNat = n) (body : Int → σ → Except ε σ) (S : ℕ → σ)
    (h : ∀ k < n, body (a + k) (S k) = .ok (S (k + 1))) :
    pyFor (pyRange a b) (S 0) body = .ok (S n) := by
  have hl : (pyRange a b).length = n := by rw [length_pyRange, hn]
  have := pyFor_states (pyRange a b) body S (fun k hk => by
    rw [getElem_pyRange]; exact h k (by omega))
  rwa [hl] at this

/-- `for k, x in enumerate(l)` with states `S 0 … S (len l)` -/
lemma pyFor_enum_states (l : List α) (body : Int × α → σ → Except ε σ) (S : ℕ → σ)
    (h : ∀ k (hk : k < l.length), body ((k : Int), l[k]) (S k) = .ok (S (k + 1))) :
    pyFor (pyEnum l) (S 0) body = .ok (S l.length) := by
  have := pyFor_states (pyEnum l) body S (fun k hk => by
    rw [getElem_pyEnum]; exact h k (by simpa [length_pyEnum] using hk))
  rwa [length_pyEnum] at this

/-! ### pyMapM -/

@[simp] lemma pyMapM_nil (f : α → Except ε β) : pyMapM [] f = .ok [] := rfl

lemma pyMapM_cons (a : α) (l : List α) (f : α → Except ε β) :
    pyMapM (a :: l) f = match f a with
      | .error e => .error e
      | .ok b => match pyMapM l f with
        | .error e => .error e
        | .ok bs => .ok (b :: bs) := rfl

lemma pyMapM_ok (l : List α) (f : α → Except ε β) (g : α → β) (h : ∀ a ∈ l, f a = .ok (g a)) :
    pyMapM l f = .ok (l.map g) := by
  induction l with
  | nil => rfl
  | cons a l ih =>
    rw [pyMapM_cons, h a (by simp), ih (fun b hb => h b (List.mem_cons_of_mem _ hb))]
    rfl

/-- every element either succeeds with `g a` or fails with the same error `E` -/
lemma pyMapM_ok_or (l : List α) (f : α → Except ε β) (g : α → β) (E : ε) (bad : α → Prop) [DecidablePred bad]
    (h : ∀ a ∈ l, (¬ bad a → f a = .ok (g a)) ∧ (bad a → f a = .error E)) :
    pyMapM l f = if ∃ a ∈ l, bad a then .error E else .ok (l.map g) := by
  induction l with
  | nil => simp
  | cons a l ih =>
    have ih' := ih (fun b hb => h b (List.mem_cons_of_mem _ hb))
    rw [pyMapM_cons]
    by_cases hb : bad a
    · rw [(h a (by simp)).2 hb, if_pos ⟨a, by simp, hb⟩]
    · rw [(h a (by simp)).1 hb, ih']
      by_cases hx : ∃ b ∈ l, bad b
      · obtain ⟨b, hbl, hbb⟩ := hx
        rw [if_pos ⟨b, hbl, hbb⟩, if_pos ⟨b, List.mem_cons_of_mem _ hbl, hbb⟩]
      · rw [if_neg hx, if_neg]
        · rfl
        · rintro ⟨b, hbl, hbb⟩
          rcases List.mem_cons.1 hbl with rfl | hbl
          · exact hb hbb
          · exact hx ⟨b, hbl, hbb⟩

/-- a loop that appends one computed element per iteration is a `pyMapM` -/
lemma pyFor_append_eq_mapM (l : List α) (acc : List β) (f : α → Except ε β) (body : α → List β → Except ε (List β))
    (h : ∀ a ∈ l, ∀ acc, body a acc = match f a with | .error e => .error e | .ok v => .ok (acc ++ [v])) :
    pyFor l acc body = match pyMapM l f with | .error e => .error e | .ok vs => .ok (acc ++ vs) := by
  induction l generalizing acc with
  | nil => simp
  | cons a l ih =>
    rw [pyFor_cons, h a (by simp) acc, pyMapM_cons]
    cases f a with
    | error e => rfl
    | ok v =>
      simp only []
      rw [ih (acc ++ [v]) (fun b hb => h b (List.mem_cons_of_mem _ hb))]
      cases pyMapM l f with
      | error e => rfl
      | ok vs => simp

/-! ### indexing -/

lemma pyIdxOk_nat {len k : ℕ} (h : k < len) : pyIdxOk len (k : Int) = true := by
  simp [pyIdxOk]; omega

lemma pyIdx_nat (len k : ℕ) : pyIdx len (k : Int) = k := by
  simp [pyIdx]

lemma pyGet_nat [Inhabited α] (l : List α) {k : ℕ} (h : k < l.length) : pyGet l (k : Int) = l[k] := by
  simp [pyGet, pyIdx_nat, List.getD_eq_getElem?_getD, List.getElem?_eq_getElem h]

lemma pySet_nat (l : List α) (k : ℕ) (v : α) : pySet l (k : Int) v = l.set k v := by
  simp [pySet, pyIdx_nat]

/-- matrix given by its entries -/
def mat (R C : ℕ) (f : ℕ → ℕ → β) : List (List β) :=
  (List.range R).map fun r => (List.range C).map fun c => f r c

lemma length_mat (R C : ℕ) (f : ℕ → ℕ → β) : (mat R C f).length = R := by simp [mat]

lemma getElem_mat (R C : ℕ) (f : ℕ → ℕ → β) {r : ℕ} (hr : r < (mat R C f).length) :
    (mat R C f)[r] = (List.range C).map fun c => f r c := by simp [mat]

/-- setting one entry of a matrix -/
lemma mat_set [Inhabited β] (R C : ℕ) (f : ℕ → ℕ → β) {r c : ℕ} (hr : r < R) (_hc : c < C) (v : β) :
    pySet (mat R C f) (r : Int) (pySet (pyGet (mat R C f) (r : Int)) (c : Int) v)
      = mat R C (fun r' c' => if r' = r ∧ c' = c then v else f r' c') := by
  have hr' : r < (mat R C f).length := by rwa [length_mat]
  rw [pyGet_nat _ hr', getElem_mat, pySet_nat, pySet_nat]
  apply List.ext_getElem
  · simp [mat]
  · intro i h1 h2
    have hi : i < R := by simpa [mat] using h2
    rw [List.getElem_set]
    by_cases hir : r = i
    · subst hir
      simp only [↓reduceIte, mat, List.getElem_map, List.getElem_range]
      apply List.ext_getElem
      · simp
      · intro j h3 h4
        have hj : j < C := by simpa using h4
        rw [List.getElem_set]
        by_cases hjc : c = j
        · subst hjc; simp
        · simp [hjc, Ne.symm hjc]
    · simp only [hir, ↓reduceIte, mat, List.getElem_map, List.getElem_range]
      apply List.map_congr_left
      intro j _
      simp [Ne.symm hir]

lemma mat_guard (R C : ℕ) (f : ℕ → ℕ → β) [Inhabited β] {r c : ℕ} (hr : r < R) (hc : c < C) :
    pyIdxOk (mat R C f).length (r : Int) = true ∧ pyIdxOk (pyGet (mat R C f) (r : Int)).length (c : Int) = true := by
  have hr' : r < (mat R C f).length := by rwa [length_mat]
  refine ⟨pyIdxOk_nat hr', ?_⟩
  rw [pyGet_nat _ hr', getElem_mat]
  exact pyIdxOk_nat (by simpa using hc)

lemma mat_get [Inhabited β] (R C : ℕ) (f : ℕ → ℕ → β) {r c : ℕ} (hr : r < R) (hc : c < C) :
    pyGet (pyGet (mat R C f) (r : Int)) (c : Int) = f r c := by
  have hr' : r < (mat R C f).length := by rwa [length_mat]
  rw [pyGet_nat _ hr', getElem_mat, pyGet_nat _ (by simpa using hc)]
  simp

lemma mat_congr (R C : ℕ) (f g : ℕ → ℕ → β) (h : ∀ r < R, ∀ c < C, f r c = g r c) : mat R C f = mat R C g := by
  unfold mat
  apply List.map_congr_left
  intro r hr
  apply List.map_congr_left
  intro c hc
  exact h r (by simpa using hr) c (by simpa using hc)

end MpycV.PyList
