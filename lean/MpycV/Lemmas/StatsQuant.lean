/-
C34 `quantiles` on secure integers (statistics.py:351-441), value level:
 (d) each cut point is the linear interpolation CPython's `statistics.quantiles` computes,
     `(data[j]*(n-delta) + data[j+1]*delta) / n` resp. `(data[j-1]*(n-delta) + data[j]*delta) / n`,
     rounded half up (`cut_point_int_inclusive`, `cut_point_int_exclusive`);
 the error branches of `quantilesInt`, and `quantilesInt_ok`: looking the selected order statistics up
 through the dict `dict(zip(data, points))` is indexing the sorted data directly.
Index/key facts (a)-(c) are in `StatsQuantKeys.lean` (core Lean only).
-/
import MpycV.Lemmas.StatsQuantKeys
import MpycV.Lemmas.StatsRound
namespace MpycV.Stats

/-! ### `div_n` -/

theorem divN_zero (n : Nat) (hn : 1 ≤ n) : divN n 0 = 0 := by
  unfold divN
  rw [Int.zero_add]
  exact Int.ediv_eq_zero_of_lt (by omega) (by omega)

theorem divN_mul_self (n : Nat) (hn : 1 ≤ n) (a : Int) : divN n (a * n) = a := by
  unfold divN
  rw [Int.add_comm, Int.add_mul_ediv_right _ _ (by omega),
    Int.ediv_eq_zero_of_lt (by omega) (by omega)]
  omega

/-- `div_n(a) = (a + n//2) // n` is `a / n` rounded half up -/
theorem divN_eq_floor (n : Nat) (hn : 1 ≤ n) (a : Int) :
    divN n a = ⌊(a : ℚ) / (n : ℚ) + 1 / 2⌋ := by
  unfold divN
  rw [div_round_half_up a (n : Int) (by omega)]
  push_cast
  rfl

/-! ### uniform form of the second loop: the special cases are instances of the general formula -/

theorem cutPoint_inclusive_eq (ld n : Nat) (data : Nat → Int) (i : Nat) (hn : 1 ≤ n)
    {j : Nat} {delta : Int} (h : cutIndex ld n .inclusive i = (j, delta)) :
    cutPoint ld n .inclusive data i = data j + divN n ((data (j + 1) - data j) * delta) := by
  simp only [cutPoint, h]
  split
  · rfl
  · rename_i hd
    have hd' : delta = 0 := Decidable.not_not.1 hd
    rw [hd', Int.mul_zero, divN_zero n hn, Int.add_zero]

theorem cutPoint_exclusive_eq (ld n : Nat) (data : Nat → Int) (i : Nat) (hn : 1 ≤ n)
    {j : Nat} {delta : Int} (h : cutIndex ld n .exclusive i = (j, delta)) :
    cutPoint ld n .exclusive data i = data (j - 1) + divN n ((data j - data (j - 1)) * delta) := by
  simp only [cutPoint, h]
  split
  · rename_i hd
    rw [hd, Int.mul_zero, divN_zero n hn, Int.add_zero]
  · split
    · rename_i hd
      rw [hd, divN_mul_self n hn]
      omega
    · rfl

/-! ### (d) the cut points are the rounded linear interpolations -/

theorem interp_floor (n : Nat) (hn : 1 ≤ n) (a b delta : Int) :
    a + divN n ((b - a) * delta) =
      ⌊((a : ℚ) * ((n : ℚ) - (delta : ℚ)) + (b : ℚ) * (delta : ℚ)) / (n : ℚ) + 1 / 2⌋ := by
  rw [divN_eq_floor n hn, ← Int.floor_intCast_add]
  congr 1
  have hn' : (n : ℚ) ≠ 0 := by
    have : (0 : ℚ) < n := by exact_mod_cast hn
    exact ne_of_gt this
  push_cast
  field_simp
  ring

/-- inclusive: `interpolated = (data[j] * (n - delta) + data[j + 1] * delta) / n`, rounded half up,
with `j, delta = divmod(i*(ld-1), n)` -/
theorem cut_point_int_inclusive (ld n : Nat) (data : Nat → Int) (i : Nat) (hn : 1 ≤ n)
    {j : Nat} {delta : Int} (h : cutIndex ld n .inclusive i = (j, delta)) :
    cutPoint ld n .inclusive data i =
      ⌊((data j : ℚ) * ((n : ℚ) - (delta : ℚ)) + (data (j + 1) : ℚ) * (delta : ℚ)) / (n : ℚ) + 1 / 2⌋ := by
  rw [cutPoint_inclusive_eq ld n data i hn h, interp_floor n hn]

/-- exclusive: `interpolated = (data[j - 1] * (n - delta) + data[j] * delta) / n`, rounded half up,
with `j = i*(ld+1) // n` clamped to `1 .. ld-1`, `delta = i*(ld+1) - j*n` -/
theorem cut_point_int_exclusive (ld n : Nat) (data : Nat → Int) (i : Nat) (hn : 1 ≤ n)
    {j : Nat} {delta : Int} (h : cutIndex ld n .exclusive i = (j, delta)) :
    cutPoint ld n .exclusive data i =
      ⌊((data (j - 1) : ℚ) * ((n : ℚ) - (delta : ℚ)) + (data j : ℚ) * (delta : ℚ)) / (n : ℚ) + 1 / 2⌋ := by
  rw [cutPoint_exclusive_eq ld n data i hn h, interp_floor n hn]

/-! ### `quantilesInt` -/

/-- `if n < 1: raise StatisticsError` -/
theorem quantilesInt_error_n (x : List Int) (n : Nat) (method : Method) (rounds : List Round)
    (hn : n < 1) : quantilesInt x n method rounds = .error "StatisticsError" := by
  unfold quantilesInt; rw [if_pos hn]

/-- `if ld < 2: raise StatisticsError` -/
theorem quantilesInt_error_len (x : List Int) (n : Nat) (method : Method) (rounds : List Round)
    (hld : x.length < 2) : quantilesInt x n method rounds = .error "StatisticsError" := by
  unfold quantilesInt
  split
  · rfl
  · simp only []; rw [if_pos hld]

/-- with the guards passed, an error of `_quickselect` is the only error -/
theorem quantilesInt_error_of_quickselect (x : List Int) (n : Nat) (method : Method)
    (rounds : List Round) (hn : 1 ≤ n) (hld : 2 ≤ x.length) (e : String)
    (h : quickselect x.length x (quantileKs x.length n method) rounds = .error e) :
    quantilesInt x n method rounds = .error e := by
  unfold quantilesInt
  rw [if_neg (by omega)]
  simp only []
  rw [if_neg (by omega), h]

/-- the dict lookups of the second loop index the sorted data directly: if `_quickselect` returns the
requested order statistics `sorted(x)[k]` (C34 quickselect theorem), the result is the list of cut
points computed from `sorted(x)` -/
theorem quantilesInt_ok (x : List Int) (n : Nat) (method : Method) (rounds rest : List Round)
    (hn : 1 ≤ n) (hld : 2 ≤ x.length)
    (h : quickselect x.length x (quantileKs x.length n method) rounds =
      .ok ((quantileKs x.length n method).map (fun k => (isort x).getD k 0), rest)) :
    quantilesInt x n method rounds =
      .ok ((List.range (n - 1)).map
        (fun i0 => cutPoint x.length n method (fun k => (isort x).getD k 0) (i0 + 1)), rest) := by
  unfold quantilesInt
  rw [if_neg (by omega)]
  simp only []
  rw [if_neg (by omega), h]
  simp only []
  congr 2
  apply List.map_congr_left
  intro i0 hi0
  have hi0' : i0 < n - 1 := List.mem_range.1 hi0
  apply cutPoint_congr
  intro k hk
  have hmem := (quantile_keys_cover x.length n method (i0 + 1) hld (by omega) (by omega) k hk).1
  exact lookup_map _ _ k hmem

/-! ### sanity checks -/

example : quantilesInt [5, 1, 4, 2, 3] 4 .exclusive [] = .ok ([2, 3, 5], []) := by decide
example : quantilesInt [5, 1, 4, 2, 3] 4 .inclusive [] = .ok ([2, 3, 4], []) := by decide
example : quantilesInt [10, -7, 3, 8] 4 .inclusive [] = .ok ([1, 6, 9], []) := by decide
example : quantilesInt [5, 1] 0 .exclusive [] = .error "StatisticsError" := by decide
example : quantilesInt [5] 4 .exclusive [] = .error "StatisticsError" := by decide
example : cutIndex 5 4 .exclusive 3 = (4, 2) := by decide
example : cutIndex 2 10 .exclusive 1 = (1, -7) := by decide
example : readKeys 5 4 .exclusive 2 = [2] := by decide

end MpycV.Stats
