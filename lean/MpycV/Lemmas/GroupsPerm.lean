import MpycV.Model.Groups
import MpycV.Lemmas.GroupsRepeat
import Mathlib.Data.List.Perm.Subperm
import Mathlib.Data.List.Range
import Mathlib.Data.List.Nodup
import Mathlib.Data.List.GetD

/-! Symmetric groups: the permutation lists of `fingroups.SymmetricGroupElement` form a group. -/
namespace MpycV.Groups

theorem permValid_iff (n : Nat) (p : List Nat) :
    permValid n p = true ↔ p.length = n ∧ (∀ j ∈ p, j < n) ∧ (∀ j, j < n → j ∈ p) := by
  simp [permValid, and_assoc]

structure PermOK (n : Nat) (p : List Nat) : Prop where
  len : p.length = n
  lt : ∀ j ∈ p, j < n
  mem : ∀ j, j < n → j ∈ p

theorem permValid_ok {n : Nat} {p : List Nat} : permValid n p = true ↔ PermOK n p := by
  rw [permValid_iff]; exact ⟨fun ⟨a, b, c⟩ => ⟨a, b, c⟩, fun ⟨a, b, c⟩ => ⟨a, b, c⟩⟩

theorem PermOK.perm {n : Nat} {p : List Nat} (h : PermOK n p) : (List.range n).Perm p := by
  have hs : (List.range n).Subperm p :=
    List.subperm_of_subset List.nodup_range (fun j hj => h.mem j (List.mem_range.1 hj))
  exact hs.perm_of_length_le (by simp [h.len])

theorem PermOK.nodup {n : Nat} {p : List Nat} (h : PermOK n p) : p.Nodup :=
  h.perm.nodup_iff.1 List.nodup_range

theorem PermOK.getD_lt {n : Nat} {p : List Nat} (h : PermOK n p) {i : Nat} (hi : i < n) :
    p.getD i 0 < n := by
  have hi' : i < p.length := by rw [h.len]; exact hi
  rw [List.getD_eq_getElem _ _ hi']
  exact h.lt _ (List.getElem_mem hi')

theorem PermOK.exists_idx {n : Nat} {p : List Nat} (h : PermOK n p) {j : Nat} (hj : j < n) :
    ∃ i, i < n ∧ p.getD i 0 = j := by
  obtain ⟨i, hi, e⟩ := List.getElem_of_mem (h.mem j hj)
  exact ⟨i, h.len ▸ hi, by rw [List.getD_eq_getElem _ _ hi]; exact e⟩

theorem PermOK.getD_inj {n : Nat} {p : List Nat} (h : PermOK n p) {i k : Nat} (hi : i < n)
    (hk : k < n) (e : p.getD i 0 = p.getD k 0) : i = k := by
  have hi' : i < p.length := by rw [h.len]; exact hi
  have hk' : k < p.length := by rw [h.len]; exact hk
  rw [List.getD_eq_getElem _ _ hi', List.getD_eq_getElem _ _ hk'] at e
  exact (List.Nodup.getElem_inj_iff h.nodup).1 e

theorem permId_ok (n : Nat) : PermOK n (permId n) :=
  ⟨by simp [permId], fun j hj => by simpa [permId] using hj, fun j hj => by simpa [permId] using hj⟩

theorem permOp_length (p q : List Nat) : (permOp p q).length = p.length := by simp [permOp]

theorem permOp_getD {p q : List Nat} {i : Nat} (hi : i < p.length) :
    (permOp p q).getD i 0 = q.getD (p.getD i 0) 0 := by
  rw [List.getD_eq_getElem _ _ (by simpa [permOp] using hi), List.getD_eq_getElem _ _ hi]
  simp [permOp]

theorem permOp_ok {n : Nat} {p q : List Nat} (hp : PermOK n p) (hq : PermOK n q) :
    PermOK n (permOp p q) := by
  refine ⟨by rw [permOp_length, hp.len], ?_, ?_⟩
  · intro j hj
    simp only [permOp, List.mem_map] at hj
    obtain ⟨k, hk, rfl⟩ := hj
    exact hq.getD_lt (hp.lt k hk)
  · intro j hj
    obtain ⟨k, hk, e⟩ := hq.exists_idx hj
    simp only [permOp, List.mem_map]
    exact ⟨k, hp.mem k hk, e⟩

/-- associativity needs only that the entries of `p` index into `q` -/
theorem permOp_assoc (p q r : List Nat) (h : ∀ j ∈ p, j < q.length) :
    permOp (permOp p q) r = permOp p (permOp q r) := by
  simp only [permOp, List.map_map]
  apply List.map_congr_left
  intro j hj
  have := h j hj
  simp only [Function.comp]
  rw [List.getD_eq_getElem (List.map _ q) _ (by simpa using this), List.getD_eq_getElem q _ this]
  simp

theorem permOp_id_left {n : Nat} {p : List Nat} (hp : p.length = n) : permOp (permId n) p = p := by
  apply List.ext_getElem
  · simp [permOp, permId, hp]
  · intro i h1 h2
    simp only [permOp, permId, List.getElem_map, List.getElem_range]
    rw [List.getD_eq_getElem _ _ h2]

theorem permOp_id_right {n : Nat} {p : List Nat} (hp : ∀ j ∈ p, j < n) : permOp p (permId n) = p := by
  simp only [permOp, permId]
  conv_rhs => rw [← List.map_id p]
  apply List.map_congr_left
  intro j hj
  rw [List.getD_eq_getElem _ _ (by simpa using hp j hj)]
  simp

/-! inversion: the loop `for i in range(n): q[p[i]] = i` -/

def invFold (p : List Nat) (k : Nat) : List Nat :=
  (List.range k).foldl (fun q i => q.set (p.getD i 0) i) (List.replicate p.length 0)

theorem invFold_succ (p : List Nat) (k : Nat) :
    invFold p (k + 1) = (invFold p k).set (p.getD k 0) k := by
  simp [invFold, List.range_succ, List.foldl_append]

theorem invFold_length (p : List Nat) (k : Nat) : (invFold p k).length = p.length := by
  induction k with
  | zero => simp [invFold]
  | succ k ih => rw [invFold_succ, List.length_set, ih]

theorem invFold_getD {n : Nat} {p : List Nat} (hp : PermOK n p) :
    ∀ k, k ≤ n → ∀ i, i < k → (invFold p k).getD (p.getD i 0) 0 = i := by
  intro k
  induction k with
  | zero => intro _ i hi; omega
  | succ k ih =>
    intro hk i hi
    rw [invFold_succ]
    by_cases e : i = k
    · subst e
      have : p.getD i 0 < (invFold p i).length := by
        rw [invFold_length, hp.len]; exact hp.getD_lt (by omega)
      rw [List.getD_eq_getElem _ _ (by simpa using this)]
      simp
    · have hne : p.getD k 0 ≠ p.getD i 0 := fun h =>
        e (hp.getD_inj (by omega) (by omega) h.symm)
      rw [List.getD_eq_getElem?_getD, List.getElem?_set_ne hne, ← List.getD_eq_getElem?_getD]
      exact ih (by omega) i (by omega)

theorem permInv_eq (p : List Nat) : permInv p = invFold p p.length := rfl

theorem permInv_length (p : List Nat) : (permInv p).length = p.length := by
  rw [permInv_eq, invFold_length]

theorem permInv_getD {n : Nat} {p : List Nat} (hp : PermOK n p) {i : Nat} (hi : i < n) :
    (permInv p).getD (p.getD i 0) 0 = i := by
  rw [permInv_eq]
  exact invFold_getD hp p.length (by rw [hp.len]) i (by rw [hp.len]; exact hi)

theorem permInv_getD' {n : Nat} {p : List Nat} (hp : PermOK n p) {j : Nat} (hj : j < n) :
    p.getD ((permInv p).getD j 0) 0 = j ∧ (permInv p).getD j 0 < n := by
  obtain ⟨i, hi, e⟩ := hp.exists_idx hj
  rw [← e, permInv_getD hp hi]
  exact ⟨rfl, hi⟩

theorem permInv_ok {n : Nat} {p : List Nat} (hp : PermOK n p) : PermOK n (permInv p) := by
  have hl : (permInv p).length = n := by rw [permInv_length, hp.len]
  refine ⟨hl, ?_, ?_⟩
  · intro j hj
    obtain ⟨i, hi, e⟩ := List.getElem_of_mem hj
    have hi' : i < n := hl ▸ hi
    have := (permInv_getD' hp hi').2
    rw [List.getD_eq_getElem _ _ hi] at this
    rwa [← e]
  · intro i hi
    have h1 := permInv_getD hp hi
    have h2 : p.getD i 0 < (permInv p).length := by rw [hl]; exact hp.getD_lt hi
    rw [List.getD_eq_getElem _ _ h2] at h1
    rw [← h1]
    exact List.getElem_mem h2

theorem permOp_inv_right {n : Nat} {p : List Nat} (hp : PermOK n p) :
    permOp p (permInv p) = permId n := by
  apply List.ext_getElem
  · simp [permOp, permId, hp.len]
  · intro i h1 h2
    have hi : i < n := by simpa [permId] using h2
    have hi' : i < p.length := by rw [hp.len]; exact hi
    have := permInv_getD hp hi
    rw [List.getD_eq_getElem p _ hi'] at this
    simp only [permOp, permId, List.getElem_map, List.getElem_range]
    exact this

theorem permOp_inv_left {n : Nat} {p : List Nat} (hp : PermOK n p) :
    permOp (permInv p) p = permId n := by
  have hl : (permInv p).length = n := by rw [permInv_length, hp.len]
  apply List.ext_getElem
  · simp [permOp, permId, hl]
  · intro i h1 h2
    have hi : i < n := by simpa [permId] using h2
    have hi' : i < (permInv p).length := by rw [hl]; exact hi
    have := (permInv_getD' hp hi).1
    rw [List.getD_eq_getElem (permInv p) _ hi'] at this
    simp only [permOp, permId, List.getElem_map, List.getElem_range]
    exact this

/-! the group of valid permutation lists -/

/-- permutation tuples accepted by `SymmetricGroupElement.__init__(check=True)` -/
def VPerm (n : Nat) : Type := { p : List Nat // PermOK n p }

instance (n : Nat) : Group (VPerm n) where
  mul p q := ⟨permOp p.1 q.1, permOp_ok p.2 q.2⟩
  one := ⟨permId n, permId_ok n⟩
  inv p := ⟨permInv p.1, permInv_ok p.2⟩
  mul_assoc p q r := Subtype.ext (permOp_assoc p.1 q.1 r.1 (fun j hj => by rw [q.2.len]; exact p.2.lt j hj))
  one_mul p := Subtype.ext (permOp_id_left p.2.len)
  mul_one p := Subtype.ext (permOp_id_right p.2.lt)
  inv_mul_cancel p := Subtype.ext (permOp_inv_left p.2)

theorem VPerm.mul_val {n : Nat} (p q : VPerm n) : (p * q).1 = permOp p.1 q.1 := rfl
theorem VPerm.inv_val {n : Nat} (p : VPerm n) : (p⁻¹).1 = permInv p.1 := rfl
theorem VPerm.one_val {n : Nat} : (1 : VPerm n).1 = permId n := rfl

/-- the generic algorithm commutes with any map that commutes with the four operations -/
theorem repeat_map {α β : Type} (G : GroupOps α) (H : GroupOps β) (f : α → β)
    (hop : ∀ a b, f (G.op a b) = H.op (f a) (f b)) (hop2 : ∀ a, f (G.op2 a) = H.op2 (f a))
    (hinv : ∀ a, f (G.inv a) = H.inv (f a)) (hid : f G.id = H.id) (a : α) (n : Int) :
    f («repeat» G a n) = «repeat» H (f a) n := by
  have key : ∀ (a : α) (m : Nat), f (repeatNat G a m) = repeatNat H (f a) m := by
    intro a m
    unfold repeatNat
    generalize (List.range (bitLength m - 1)).reverse = l
    suffices ∀ c, f (List.foldl (ladderStep G a m) c l) = List.foldl (ladderStep H (f a) m) (f c) l from
      this a
    induction l with
    | nil => intro c; rfl
    | cons i l ih =>
      intro c
      rw [List.foldl_cons, List.foldl_cons, ih]
      congr 1
      simp only [ladderStep]
      split <;> simp [hop, hop2]
  unfold «repeat»
  split
  · exact hid
  · split
    · rw [key, hinv]
    · rw [key]

/-- `repeat` on permutation tuples = n-th power in the group of valid permutations -/
theorem perm_repeat {n : Nat} (p : VPerm n) (k : Int) :
    «repeat» (permOps n) p.1 k = (p ^ k).1 := by
  rw [← repeat_spec' (GroupOps.ofGroup (VPerm n)) (ofGroup_lawful _) p k]
  exact (repeat_map (GroupOps.ofGroup (VPerm n)) (permOps n) Subtype.val
    (fun _ _ => rfl) (fun _ => rfl) (fun _ => rfl) rfl p k).symm

end MpycV.Groups
