/-
Lemmas for C34 (statistics): mean / variance / covariance on secure integers are the round-half-up
values of the exact rational statistics Python's `statistics` module computes.
-/
import MpycV.Lemmas.StatsRound
namespace MpycV.Stats

/-! ### sums over ℚ -/

theorem cast_sum (x : List Int) : ((x.sum : Int) : ℚ) = (x.map (fun (a : Int) => (a : ℚ))).sum := by
  induction x with
  | nil => simp
  | cons a l ih => simp only [List.sum_cons, List.map_cons]; push_cast; rw [ih]

theorem cast_inProd_map (f g : Int → Int) (x : List Int) :
    ((inProd (x.map f) (x.map g) : Int) : ℚ) = (x.map (fun (a : Int) => (f a : ℚ) * (g a : ℚ))).sum := by
  induction x with
  | nil => simp
  | cons a l ih => simp only [List.map_cons, inProd_cons, List.sum_cons]; push_cast; rw [ih]

theorem cast_inProd_map₂ (f g : Int → Int) (x y : List Int) :
    ((inProd (x.map f) (y.map g) : Int) : ℚ) =
      (List.zipWith (fun (a b : Int) => (f a : ℚ) * (g b : ℚ)) x y).sum := by
  induction x generalizing y with
  | nil => simp
  | cons a l ih =>
    cases y with
    | nil => simp
    | cons b m => simp only [List.map_cons, inProd_cons, List.zipWith_cons_cons, List.sum_cons]; push_cast; rw [ih]

/-- `Σ (n aᵢ - s)² = n² Σ (aᵢ - s/n)²` -/
theorem sum_sq_scale (x : List Int) (n s : ℚ) (hn : n ≠ 0) :
    (x.map (fun (a : Int) => ((a : ℚ) * n - s) * ((a : ℚ) * n - s))).sum =
      n ^ 2 * (x.map (fun (a : Int) => ((a : ℚ) - s / n) ^ 2)).sum := by
  induction x with
  | nil => simp
  | cons a l ih =>
    simp only [List.map_cons, List.sum_cons, ih]
    field_simp

/-- `Σ (n aᵢ - s)(n bᵢ - t) = n² Σ (aᵢ - s/n)(bᵢ - t/n)` -/
theorem sum_prod_scale (x y : List Int) (n s t : ℚ) (hn : n ≠ 0) :
    (List.zipWith (fun (a b : Int) => ((a : ℚ) * n - s) * ((b : ℚ) * n - t)) x y).sum =
      n ^ 2 * (List.zipWith (fun (a b : Int) => ((a : ℚ) - s / n) * ((b : ℚ) - t / n)) x y).sum := by
  induction x generalizing y with
  | nil => simp
  | cons a l ih =>
    cases y with
    | nil => simp
    | cons b m =>
      simp only [List.zipWith_cons_cons, List.sum_cons, ih]
      field_simp

/-! ### mean -/

theorem meanInt_eq (x : List Int) (hx : x ≠ []) :
    meanInt x = .ok ((x.sum + (x.length : Int) / 2) / (x.length : Int)) := by
  have : x.length ≠ 0 := by simpa using hx
  simp [meanInt, this, isum_eq_sum]

/-! ### variance -/

theorem varInt_none_eq (x : List Int) (c : Nat) (hn : 1 + c ≤ x.length) :
    varInt x none c = .ok
      ((inProd (x.map fun a => a * (x.length : Int) - x.sum) (x.map fun a => a * (x.length : Int) - x.sum)
        + (x.length : Int) ^ 2 * ((x.length : Int) - c) / 2) / ((x.length : Int) ^ 2 * ((x.length : Int) - c))) := by
  have : ¬ x.length < 1 + c := by omega
  simp only [varInt, this, if_false, isum_eq_sum]

theorem varInt_some_eq (x : List Int) (μ : Int) (c : Nat) (hn : 1 + c ≤ x.length) :
    varInt x (some μ) c = .ok
      ((inProd (x.map fun a => a - μ) (x.map fun a => a - μ) + ((x.length : Int) - c) / 2) / ((x.length : Int) - c)) := by
  have : ¬ x.length < 1 + c := by omega
  simp only [varInt, this, if_false]

theorem varInt_error (x : List Int) (m : Option Int) (c : Nat) (hn : x.length < 1 + c) :
    varInt x m c = .error "StatisticsError" := by
  simp only [varInt, hn, if_true]

theorem inProd_self_nonneg (y : List Int) : 0 ≤ inProd y y := by
  induction y with
  | nil => simp
  | cons a l ih => rw [inProd_cons]; have := mul_self_nonneg a; omega

theorem div_round_nonneg (N d : Int) (hN : 0 ≤ N) (hd : 0 < d) : 0 ≤ (N + d / 2) / d := by
  apply Int.ediv_nonneg <;> omega

/-- the variance value is nonnegative -/
theorem varInt_nonneg (x : List Int) (m : Option Int) (c : Nat) {v : Int} (h : varInt x m c = .ok v) : 0 ≤ v := by
  by_cases hn : x.length < 1 + c
  · rw [varInt_error x m c hn] at h; cases h
  · have hn' : 1 + c ≤ x.length := by omega
    have hd : (0 : Int) < (x.length : Int) - c := by omega
    cases m with
    | none =>
      rw [varInt_none_eq x c hn'] at h
      injection h with h; subst h
      apply div_round_nonneg _ _ (inProd_self_nonneg _)
      have h0 : (0 : Int) < (x.length : Int) := by omega
      have : (0 : Int) < (x.length : Int) ^ 2 := by positivity
      exact Int.mul_pos this hd
    | some μ =>
      rw [varInt_some_eq x μ c hn'] at h
      injection h with h; subst h
      exact div_round_nonneg _ _ (inProd_self_nonneg _) hd

/-! ### covariance -/

theorem covInt_eq (x y : List Int) (hlen : y.length = x.length) (hn : 2 ≤ x.length) :
    covInt x y = .ok
      ((inProd (x.map fun a => a * (x.length : Int) - x.sum) (y.map fun b => b * (x.length : Int) - y.sum)
        + (x.length : Int) ^ 2 * ((x.length : Int) - 1) / 2) / ((x.length : Int) ^ 2 * ((x.length : Int) - 1))) := by
  have : ¬ x.length < 2 := by omega
  simp only [covInt, hlen, this, if_false, isum_eq_sum, ne_eq, not_true_eq_false]

/-! ### median -/

/-- CPython: `data[n//2]` for odd n; `data[n//2 - 1]` (low), `data[n//2]` (high), both (median) for even n -/
theorem medKs_eq' (n : Nat) (med : Med) :
    medKs n med = if n % 2 = 1 then [n / 2] else
      match med with
      | .low => [n / 2 - 1]
      | .high => [n / 2]
      | .mid => [n / 2 - 1, n / 2] := by
  unfold medKs
  have h1 : n % 2 = 1 → (n - 1) / 2 = n / 2 := by omega
  have h2 : (n - 2) / 2 = n / 2 - 1 := by omega
  split
  · rename_i h; rw [h1 h]
  · cases med <;> simp only [h2]

theorem medInt_of_quickselect (x : List Int) (med : Med) (rounds rest : List Round) (w : List Int)
    (hx : x ≠ []) (h : quickselect x.length x (medKs x.length med) rounds = .ok (w, rest)) :
    medInt x med rounds = .ok
      (if x.length % 2 = 1 then w.getD 0 0 else
        match med with
        | .low => w.getD 0 0
        | .high => w.getD 0 0
        | .mid => isum w / 2, rest) := by
  have hn : x.length ≠ 0 := by simpa using hx
  unfold medInt
  simp only [hn, if_false, h]
  split
  · rfl
  · cases med <;> rfl

end MpycV.Stats
