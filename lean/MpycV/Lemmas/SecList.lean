/-
Lemmas for the seclist model, part 1: unit vectors, step functions and the secret-index
read / write / delete / insert / pop constructions.
-/
import MpycV.Model.SecList

namespace MpycV.SecList
open Py

/-! ### unit vectors and step functions: cons recursion -/

/-- the step function `[0]*p + [1]*(n-p)` -/
def stepVec (p n : Nat) : List Int := (List.range n).map (fun j => if p ≤ j then 1 else 0)

theorem unitVec_zero_len (p : Nat) : unitVec p 0 = [] := rfl

theorem unitVec_zero_succ (n : Nat) : unitVec 0 (n + 1) = 1 :: List.replicate n 0 := by
  simp only [unitVec, List.range_succ_eq_map, List.map_cons, List.map_map]
  simp only [if_true, List.cons.injEq, true_and]
  rw [List.eq_replicate_iff]
  simp

theorem unitVec_succ_succ (p n : Nat) : unitVec (p + 1) (n + 1) = 0 :: unitVec p n := by
  simp only [unitVec, List.range_succ_eq_map, List.map_cons, List.map_map]
  simp only [Nat.zero_ne_add_one, if_false, List.cons.injEq, true_and]
  apply List.map_congr_left
  intro j _
  simp

theorem unitVec_length (p n : Nat) : (unitVec p n).length = n := by simp [unitVec]

theorem stepVec_length (p n : Nat) : (stepVec p n).length = n := by simp [stepVec]

theorem stepVec_zero (n : Nat) : stepVec 0 n = List.replicate n 1 := by
  simp only [stepVec, Nat.zero_le, if_true]
  rw [List.eq_replicate_iff]
  simp

theorem stepVec_succ_succ (p n : Nat) : stepVec (p + 1) (n + 1) = 0 :: stepVec p n := by
  simp only [stepVec, List.range_succ_eq_map, List.map_cons, List.map_map]
  simp only [Nat.le_zero_eq, Nat.add_one_ne_zero, if_false, List.cons.injEq, true_and]
  apply List.map_congr_left
  intro j _
  simp

/-- dropping the last entry of a unit vector (if the `1` was last, the zero vector remains) -/
theorem unitVec_dropLast (p n : Nat) : (unitVec p (n + 1)).dropLast = unitVec p n := by
  simp [unitVec, List.range_succ]

theorem unitVec_of_le {p n : Nat} (h : n ≤ p) : unitVec p n = List.replicate n 0 := by
  simp only [unitVec]
  rw [List.eq_replicate_iff]
  refine ⟨by simp, ?_⟩
  intro b hb
  simp only [List.mem_map, List.mem_range] at hb
  obtain ⟨j, hj, rfl⟩ := hb
  have : j ≠ p := by omega
  simp [this]

/-! ### prefix sums of a unit vector are the step function -/

theorem prefixFrom_one_zeros (n : Nat) : prefixFrom 1 (List.replicate n 0) = List.replicate n 1 := by
  induction n with
  | zero => rfl
  | succ n ih => simp [List.replicate_succ, prefixFrom, ih]

theorem prefixFrom_zero_zeros (n : Nat) : prefixFrom 0 (List.replicate n 0) = List.replicate n 0 := by
  induction n with
  | zero => rfl
  | succ n ih => simp [List.replicate_succ, prefixFrom, ih]

theorem prefixSums_unitVec (p n : Nat) : prefixSums (unitVec p n) = stepVec p n := by
  unfold prefixSums
  induction n generalizing p with
  | zero => rfl
  | succ n ih =>
    cases p with
    | zero =>
      rw [unitVec_zero_succ, stepVec_zero]
      simp [prefixFrom, prefixFrom_one_zeros, List.replicate_succ]
    | succ p =>
      rw [unitVec_succ_succ, stepVec_succ_succ]
      simp [prefixFrom, ih]

/-! ### secret read -/

theorem inProd_zeros (x : List Int) (n : Nat) : inProd x (List.replicate n 0) = 0 := by
  induction x generalizing n with
  | nil => cases n <;> simp [inProd, List.replicate_succ]
  | cons a x ih =>
    cases n with
    | zero => simp [inProd]
    | succ n => simp [List.replicate_succ, inProd, ih]

/-- `in_prod(x, e_p) = x[p]` (and `0` for the zero vector `p ≥ len`) -/
theorem inProd_unitVec (x : List Int) (p : Nat) : inProd x (unitVec p x.length) = x.getD p 0 := by
  induction x generalizing p with
  | nil => simp [unitVec, inProd]
  | cons a x ih =>
    cases p with
    | zero => simp [unitVec_zero_succ, inProd, inProd_zeros]
    | succ p => simp [unitVec_succ_succ, inProd, ih]

/-! ### secret write -/

theorem zipAdd_zeros (x : List Int) : List.zipWith (fun a b => a + b) x (List.replicate x.length 0) = x := by
  induction x with
  | nil => rfl
  | cons a x ih => simp [List.replicate_succ, ih]

theorem vectorAdd_scalarMul_zeros (x : List Int) (c : Int) :
    vectorAdd x (scalarMul c (List.replicate x.length 0)) = x := by
  simp only [vectorAdd, scalarMul, List.map_replicate, Int.mul_zero]
  exact zipAdd_zeros x

/-- `x + c * e_p` adds `c` at position `p` -/
theorem vectorAdd_scalarMul_unitVec (x : List Int) (c : Int) (p : Nat) :
    vectorAdd x (scalarMul c (unitVec p x.length)) = x.set p (x.getD p 0 + c) := by
  induction x generalizing p with
  | nil => simp [unitVec, vectorAdd, scalarMul]
  | cons a x ih =>
    cases p with
    | zero =>
      have := vectorAdd_scalarMul_zeros x c
      simp only [vectorAdd, scalarMul, List.map_replicate, Int.mul_zero] at this ⊢
      simp [unitVec_zero_succ, this]
    | succ p =>
      have := ih p
      simp only [vectorAdd, scalarMul] at this ⊢
      simp [unitVec_succ_succ, this]

theorem setVec_unitVec (x : List Int) (p : Nat) (v : Int) :
    setVec x (unitVec p x.length) v = .ok (x.set p v) := by
  unfold setVec
  simp only [unitVec_length, ne_eq, not_true_eq_false, if_false]
  rw [inProd_unitVec, vectorAdd_scalarMul_unitVec]
  congr 2
  omega

theorem getVec_unitVec (x : List Int) (p : Nat) :
    getVec x (unitVec p x.length) = .ok (x.getD p 0) := by
  unfold getVec
  simp [unitVec_length, inProd_unitVec]

/-! ### secret delete: blend of the list with its left shift along a step function -/

theorem blend_ones (x0 x1 : List Int) (h : x0.length = x1.length) :
    vectorAdd x0 (schurProd (List.replicate x0.length 1) (vectorSub x1 x0)) = x1 := by
  induction x0 generalizing x1 with
  | nil => cases x1 with
    | nil => rfl
    | cons _ _ => simp at h
  | cons a x0 ih =>
    cases x1 with
    | nil => simp at h
    | cons b x1 =>
      have := ih x1 (by simpa using h)
      simp only [vectorAdd, schurProd, vectorSub] at this ⊢
      simp only [List.length_cons, List.replicate_succ, List.zipWith_cons_cons, this, List.cons.injEq, and_true]
      omega

/-- `x0 + step_p * (x[1:] - x0)` with `x0 = x[:-1]` deletes position `p` -/
theorem delete_blend (x : List Int) (p : Nat) (hp : p < x.length) :
    vectorAdd x.dropLast (schurProd (stepVec p (x.length - 1)) (vectorSub (x.drop 1) x.dropLast))
      = x.eraseIdx p := by
  induction x generalizing p with
  | nil => simp at hp
  | cons a x ih =>
    cases x with
    | nil =>
      have : p = 0 := by simpa using hp
      subst this
      simp [vectorAdd, stepVec, schurProd]
    | cons b r =>
      cases p with
      | zero =>
        have h := blend_ones ((a :: b :: r).dropLast) (b :: r) (by simp)
        simp only [List.length_cons, Nat.add_sub_cancel, stepVec_zero, List.drop_one, List.tail_cons,
          List.eraseIdx_zero]
        simpa using h
      | succ p =>
        have h := ih p (by simpa using hp)
        simp only [List.length_cons, Nat.add_sub_cancel, List.drop_one, List.tail_cons] at h ⊢
        rw [List.dropLast_cons_cons, stepVec_succ_succ]
        simp only [vectorAdd, schurProd, vectorSub] at h ⊢
        simp only [List.zipWith_cons_cons, List.eraseIdx_cons_succ, List.cons.injEq]
        refine ⟨by omega, ?_⟩
        simpa using h

theorem delVec_unitVec (x : List Int) (p : Nat) (hp : p < x.length) :
    delVec x (unitVec p x.length) = .ok (x.eraseIdx p) := by
  obtain ⟨n, hn⟩ : ∃ n, x.length = n + 1 := ⟨x.length - 1, by omega⟩
  unfold delVec
  have hne : unitVec p x.length ≠ [] := by
    intro h
    have := congrArg List.length h
    rw [unitVec_length, List.length_nil] at this
    omega
  simp only [hne, if_false]
  rw [hn, unitVec_dropLast, unitVec_length]
  simp only [ne_eq, not_true_eq_false, if_false, prefixSums_unitVec]
  have := delete_blend x p hp
  rw [hn] at this
  simpa using this

/-! ### secret insert -/

/-- core of `insert`: `x' + step_p * (y - x')` with `y = (z :: x)[p ↦ v]`, `x' = x ++ [w]` -/
theorem insert_blend (x : List Int) (p : Nat) (z w v : Int) (hp : p ≤ x.length) :
    vectorAdd (x ++ [w]) (schurProd (stepVec p (x.length + 1)) (vectorSub ((z :: x).set p v) (x ++ [w])))
      = x.insertIdx p v := by
  induction x generalizing p z with
  | nil =>
    have : p = 0 := by simpa using hp
    subst this
    simp only [vectorAdd, schurProd, vectorSub, stepVec, List.length_nil, Nat.zero_add, List.range_one, List.map_cons,
      List.map_nil, Nat.le_refl, if_true, List.set_cons_zero, List.nil_append, List.zipWith_cons_cons, List.zipWith_nil_left,
      List.insertIdx_zero, List.cons.injEq, and_true]
    omega
  | cons a r ih =>
    cases p with
    | zero =>
      have h := blend_ones ((a :: r) ++ [w]) ((z :: a :: r).set 0 v) (by simp)
      rw [stepVec_zero]
      simpa using h
    | succ p =>
      have h := ih p a (by simpa using hp)
      rw [List.length_cons, stepVec_succ_succ]
      simp only [vectorAdd, schurProd, vectorSub] at h ⊢
      simp only [List.set_cons_succ, List.cons_append, List.zipWith_cons_cons, List.insertIdx_succ_cons,
        List.cons.injEq]
      exact ⟨by omega, h⟩

theorem insVec_unitVec (x : List Int) (p : Nat) (v : Int) (hp : p ≤ x.length) :
    insVec x (unitVec p (x.length + 1)) v = .ok (x.insertIdx p v) := by
  unfold insVec
  simp only [unitVec_length, ne_eq, not_true_eq_false, if_false, prefixSums_unitVec]
  have h1 := inProd_unitVec (0 :: x) p
  have h2 := vectorAdd_scalarMul_unitVec (0 :: x) (v - (0 :: x).getD p 0) p
  simp only [List.length_cons] at h1 h2
  rw [h1, h2]
  have h3 : (0 :: x).getD p 0 + (v - (0 :: x).getD p 0) = v := by omega
  rw [h3, insert_blend x p 0 0 v hp]

/-! ### secret pop -/

theorem popVec_unitVec (x : List Int) (p : Nat) (hp : p < x.length) :
    popVec x (unitVec p x.length) = .ok (x.getD p 0, x.eraseIdx p) := by
  unfold popVec
  simp only [unitVec_length, ne_eq, not_true_eq_false, if_false]
  rw [delVec_unitVec x p hp, inProd_unitVec]

end MpycV.SecList
