/-
`runtime.mod` / `runtime._mod` (secure modulo reduction by a public `b`, a la [GMS10]) and
`sectypes.__divmod__` / `__floordiv__` for secure integers: the value computed by the model
`modModel` is Python's `a % b` for EVERY randomness in range (`mod_correct`), the quotient obtained by
the field division `(a - r) / b` is `a // b` (`divmod_correct`), Lean's `/`, `%` on `Int` are Python's
floor division and modulus for a positive divisor (`divmod_python`).

Hypotheses of `mod_correct` (what the code guarantees): `p` prime with `p > 2^(l+k+1)`, `k ≥ 1`
(`options.sec_param`; needed so that the masked value stays below `p`), `a` an `l`-bit signed integer,
public `0 < b < 2^l`, `rBits` the bits of `r_modb < b` (`len = (b-1).bit_length()`, so `b ≤ 2^len`),
`0 ≤ r_divb`, `b * r_divb < 2^(k+l)` (the code draws `r_divb` below `(1 << k+l) // b`), random sign,
nonzero random factor of the public zero test, and `hnw`: the masked value `a + 2^l - 2^l % b +
b*r_divb - r_modb` is not negative (`mod_nowrap_ok`: automatic unless `r_divb ≤ 1` and `2b > 2^(l-1) + 2`).
-/
import MpycV.Lemmas.SecIntToft
import MpycV.Lemmas.PrimeF
import Mathlib.Data.Rat.Floor

namespace MpycV.SecInt
open MpycV.Fxp (pmod norm rsh bitsVal IsBits Fits norm_of_fits norm_congr pmod_of_range pmod_pmod
  rsh_of_dvd_fits bitsVal_range two_pow_pos)

/-! ### bits of a public integer -/

theorem bitAt_zero' (d : Int) : bitAt d 0 = d % 2 := by
  unfold bitAt; rw [pow_zero, Int.ediv_one]

theorem bitAt_succ' (d : Int) (i : Nat) : bitAt d (i + 1) = bitAt (d / 2) i := by
  unfold bitAt
  rw [pow_succ', Int.ediv_ediv_of_nonneg (by omega : (0 : Int) ≤ 2)]

theorem bitsLE_zero' (d : Int) : bitsLE d 0 = [] := rfl

theorem bitsLE_succ' (d : Int) (n : Nat) : bitsLE d (n + 1) = d % 2 :: bitsLE (d / 2) n := by
  unfold bitsLE
  rw [List.range_succ_eq_map, List.map_cons, List.map_map, bitAt_zero']
  congr 1
  apply List.map_congr_left
  intro i _
  exact bitAt_succ' d i

theorem length_bitsLE' (d : Int) (n : Nat) : (bitsLE d n).length = n := by
  unfold bitsLE; rw [List.length_map, List.length_range]

theorem isBits_bitsLE' (d : Int) (n : Nat) : IsBits (bitsLE d n) := by
  intro x hx
  unfold bitsLE at hx
  obtain ⟨i, _, rfl⟩ := List.mem_map.1 hx
  unfold bitAt
  exact Int.emod_two_eq _

theorem bitsVal_bitsLE' : ∀ (n : Nat) (d : Int), 0 ≤ d → d < (2 : Int) ^ n → bitsVal (bitsLE d n) = d
  | 0, d, h0, h1 => by
    rw [pow_zero] at h1
    rw [bitsLE_zero']; unfold bitsVal; omega
  | n + 1, d, h0, h1 => by
    rw [pow_succ] at h1
    rw [bitsLE_succ']; unfold bitsVal
    rw [bitsVal_bitsLE' n (d / 2) (by omega) (by omega)]
    omega

/-! ### halving 0 and 2 in GF(p) -/

theorem rsh_one_zero {p : Nat} (hodd : p % 2 = 1) : rsh p 1 0 = 0 := by
  have h := rsh_of_dvd_fits (p := p) (n := 1) (x := 0) hodd (Dvd.intro 0 (by ring))
    (by unfold Fits; simp; omega)
  simpa using h

theorem rsh_one_two {p : Nat} (hodd : p % 2 = 1) (h2 : 2 < p) : rsh p 1 2 = 1 := by
  have h := rsh_of_dvd_fits (p := p) (n := 1) (x := 2) hodd (Dvd.intro 1 (by ring))
    (by unfold Fits; norm_num; omega)
  simpa using h

/-! ### remainders -/

/-- uniqueness of the remainder -/
theorem emod_unique' {a b r : Int} (h0 : 0 ≤ r) (h1 : r < b) (hd : b ∣ a - r) : r = a % b := by
  obtain ⟨k, hk⟩ := hd
  have : a = r + b * k := by omega
  rw [this, Int.add_mul_emod_self_left, Int.emod_eq_of_lt h0 h1]


/-- the last step of `_mod`: `c + r - [r ≥ b - c]·b` is the remainder -/
theorem mod_core {a b c R : Int} (hc1 : 1 ≤ c) (hc2 : c ≤ b) (hR0 : 0 ≤ R) (hR1 : R < b)
    (hd : b ∣ a - (c + R)) : c + R - (if b - c ≤ R then 1 else 0) * b = a % b := by
  obtain ⟨k, hk⟩ := hd
  split
  · exact emod_unique' (by omega) (by omega) ⟨k + 1, by linarith⟩
  · exact emod_unique' (by omega) (by omega) ⟨k, by linarith⟩

/-- the comparison bit from the public zero test -/
theorem z_eq {p : Nat} (hodd : p % 2 = 1) (h2 : 2 < p) {s d R : Int} {g : Bool} (hs : s = 1 ∨ s = -1)
    (hg : g = true ↔ ((s = 1 ∧ R < d) ∨ (s = -1 ∧ d < R) ∨ (R = d ∧ s = -1))) :
    rsh p 1 (if g = true then 1 - s else 1 + s) = if d ≤ R then 1 else 0 := by
  have e0 : (1 : Int) - 1 = 0 := by norm_num
  have e2 : (1 : Int) + 1 = 2 := by norm_num
  have e0' : (1 : Int) + -1 = 0 := by norm_num
  have e2' : (1 : Int) - -1 = 2 := by norm_num
  rcases hs with rfl | rfl
  · by_cases hdr : d ≤ R
    · have hgf : ¬ g = true := fun h => by have := hg.1 h; omega
      rw [if_neg hgf, if_pos hdr, e2, rsh_one_two hodd h2]
    · have hgt : g = true := hg.2 (by omega)
      rw [if_pos hgt, if_neg hdr, e0, rsh_one_zero hodd]
  · by_cases hdr : d ≤ R
    · have hgt : g = true := hg.2 (by omega)
      rw [if_pos hgt, if_pos hdr, e2', rsh_one_two hodd h2]
    · have hgf : ¬ g = true := fun h => by have := hg.1 h; omega
      rw [if_neg hgf, if_neg hdr, e0', rsh_one_zero hodd]

/-- `_mod` after the opening: everything that follows `c = output(…)`, for any opened value `S` congruent
to `a - r_modb` modulo `b` -/
theorem mod_core2 {p : Nat} (hp : p.Prime) (h2 : 2 < p) {a b S sSign rz : Int} {rBits : List Int}
    (hb0 : 0 < b) (hbits : IsBits rBits) (hR : bitsVal rBits < b) (hn : b ≤ (2 : Int) ^ rBits.length)
    (h3 : 3 * rBits.length + 3 < p) (hs : sSign = 1 ∨ sSign = -1) (hrz : ¬ (p : Int) ∣ rz)
    (hSb : b ∣ S - (a - bitsVal rBits)) :
    rsh p 1 (if (isZeroPublic p (prodTree (toftE sSign 1 rBits
        (bitsLE (b - (if S % b = 0 then b else S % b)) rBits.length))) rz).2 = true
        then 1 - sSign else 1 + sSign)
      = (if b - (if S % b = 0 then b else S % b) ≤ bitsVal rBits then 1 else 0) ∧
    (if S % b = 0 then b else S % b) + bitsVal rBits -
      (if b - (if S % b = 0 then b else S % b) ≤ bitsVal rBits then 1 else 0) * b = a % b := by
  have hodd : p % 2 = 1 := by rcases hp.eq_two_or_odd with h | h <;> omega
  obtain ⟨hR0, hRn⟩ := bitsVal_range rBits hbits
  have hc0 := Int.emod_nonneg S hb0.ne'
  have hc1 := Int.emod_lt_of_pos S hb0
  obtain ⟨k2, hk2⟩ : b ∣ S - S % b := ⟨S / b, by linarith [Int.mul_ediv_add_emod S b]⟩
  generalize hcdef : (if S % b = 0 then b else S % b) = c
  have hcr : 1 ≤ c ∧ c ≤ b ∧ b ∣ a - (c + bitsVal rBits) := by
    rw [← hcdef]
    obtain ⟨k1, hk1⟩ := hSb
    split
    · rename_i h
      rw [h] at hk2
      exact ⟨by omega, le_refl _, ⟨-k1 + k2 - 1, by linarith⟩⟩
    · rename_i h
      exact ⟨by omega, by omega, ⟨-k1 + k2, by linarith⟩⟩
  obtain ⟨hc1', hc2', hcd⟩ := hcr
  have hd0 : 0 ≤ b - c := by omega
  have hdn : b - c < (2 : Int) ^ rBits.length := by omega
  have hcsv := bitsVal_bitsLE' rBits.length (b - c) hd0 hdn
  have htoft := toft_spec hp sSign 1 rBits (bitsLE (b - c) rBits.length) (length_bitsLE' _ _).symm hbits
    (isBits_bitsLE' _ _) hs (Or.inl rfl) h3
  rw [hcsv] at htoft
  have hz := (isZeroPublic_correct hp (prodTree (toftE sSign 1 rBits (bitsLE (b - c) rBits.length))) rz hrz).1
  rw [Int.dvd_iff_emod_eq_zero, htoft] at hz
  generalize (isZeroPublic p (prodTree (toftE sSign 1 rBits (bitsLE (b - c) rBits.length))) rz).2 = g at hz ⊢
  rw [z_eq hodd h2 hs hz]
  exact ⟨rfl, mod_core hc1' hc2' hR0 hR hcd⟩


/-! ### `_mod` -/

theorem mod_correct {p l k : Nat} {a b rDivb sSign rz : Int} {rBits : List Int}
    (hp : p.Prime) (hl : 0 < l) (hk : 1 ≤ k) (hbig : (2 : Int) ^ (l + k + 1) < (p : Int))
    (ha0 : -(2 : Int) ^ (l - 1) ≤ a) (ha1 : a < (2 : Int) ^ (l - 1))
    (hb0 : 0 < b) (hb1 : b < (2 : Int) ^ l)
    (hbits : IsBits rBits) (hR : bitsVal rBits < b) (hn : b ≤ (2 : Int) ^ rBits.length)
    (h3 : 3 * rBits.length + 3 < p)
    (hd0 : 0 ≤ rDivb) (hd1 : b * rDivb < (2 : Int) ^ (k + l))
    (hs : sSign = 1 ∨ sSign = -1) (hrz : ¬ (p : Int) ∣ rz)
    (hnw : 0 ≤ a + ((2 : Int) ^ l - (2 : Int) ^ l % b + b * rDivb - bitsVal rBits)) :
    (modModel p l b a rBits rDivb sSign rz).r = a % b ∧
    (modModel p l b a rBits rDivb sSign rz).c
      = a + ((2 : Int) ^ l - (2 : Int) ^ l % b + b * rDivb - bitsVal rBits) ∧
    (modModel p l b a rBits rDivb sSign rz).z
      = if b - (if (modModel p l b a rBits rDivb sSign rz).c % b = 0 then b
                else (modModel p l b a rBits rDivb sSign rz).c % b) ≤ bitsVal rBits then 1 else 0 := by
  have _ := ha0  -- (implied by `hnw`; kept so that the statement lists the full input domain)
  have _ := hd0
  have h4 : (2 : Int) ^ 2 ≤ (2 : Int) ^ (l + k + 1) := pow_le_pow_right₀ (by norm_num) (by omega)
  have hp2 : 2 < p := by norm_num at h4; omega
  obtain ⟨hR0, _⟩ := bitsVal_range rBits hbits
  have hm0 := Int.emod_nonneg ((2 : Int) ^ l) hb0.ne'
  have hl2 : (2 : Int) ^ l = 2 * (2 : Int) ^ (l - 1) := by rw [← pow_succ']; congr 1; omega
  have hK : (2 : Int) ^ (l + 1) ≤ (2 : Int) ^ (k + l) := pow_le_pow_right₀ (by norm_num) (by omega)
  have hl1 : (2 : Int) ^ (l + 1) = 2 * (2 : Int) ^ l := pow_succ' _ _
  have hK2 : (2 : Int) ^ (l + k + 1) = 2 * (2 : Int) ^ (k + l) := by rw [← pow_succ']; congr 1; omega
  have hpos := two_pow_pos (l - 1)
  have hS1 : a + ((2 : Int) ^ l - (2 : Int) ^ l % b + b * rDivb - bitsVal rBits) < p := by linarith
  have hc := pmod_of_range hnw hS1
  have hSb : b ∣ (a + ((2 : Int) ^ l - (2 : Int) ^ l % b + b * rDivb - bitsVal rBits)) - (a - bitsVal rBits) :=
    ⟨(2 : Int) ^ l / b + rDivb, by linarith [Int.mul_ediv_add_emod ((2 : Int) ^ l) b]⟩
  have core := mod_core2 hp hp2 hb0 hbits hR hn h3 hs hrz hSb
  have hfit : Fits p (a % b) := by
    unfold Fits
    rw [abs_of_nonneg (Int.emod_nonneg a hb0.ne')]
    have := Int.emod_lt_of_pos a hb0
    linarith
  unfold modModel
  simp only []
  rw [hc]
  refine ⟨?_, rfl, core.1⟩
  rw [core.1, core.2]
  exact norm_of_fits hfit

/-- the result of `_mod` is the remainder in `[0, b)`, congruent to `a` -/
theorem mod_range {p l k : Nat} {a b rDivb sSign rz : Int} {rBits : List Int}
    (hp : p.Prime) (hl : 0 < l) (hk : 1 ≤ k) (hbig : (2 : Int) ^ (l + k + 1) < (p : Int))
    (ha0 : -(2 : Int) ^ (l - 1) ≤ a) (ha1 : a < (2 : Int) ^ (l - 1))
    (hb0 : 0 < b) (hb1 : b < (2 : Int) ^ l)
    (hbits : IsBits rBits) (hR : bitsVal rBits < b) (hn : b ≤ (2 : Int) ^ rBits.length)
    (h3 : 3 * rBits.length + 3 < p)
    (hd0 : 0 ≤ rDivb) (hd1 : b * rDivb < (2 : Int) ^ (k + l))
    (hs : sSign = 1 ∨ sSign = -1) (hrz : ¬ (p : Int) ∣ rz)
    (hnw : 0 ≤ a + ((2 : Int) ^ l - (2 : Int) ^ l % b + b * rDivb - bitsVal rBits)) :
    0 ≤ (modModel p l b a rBits rDivb sSign rz).r ∧ (modModel p l b a rBits rDivb sSign rz).r < b ∧
    (modModel p l b a rBits rDivb sSign rz).r ≡ a [ZMOD b] := by
  rw [(mod_correct hp hl hk hbig ha0 ha1 hb0 hb1 hbits hR hn h3 hd0 hd1 hs hrz hnw).1]
  exact ⟨Int.emod_nonneg a hb0.ne', Int.emod_lt_of_pos a hb0, Int.mod_modEq a b⟩

/-- non-vacuity: a negative `a`, `b = 3` (not a power of two) -/
example : (modModel 1009 3 3 (-4) [0, 1] 5 (-1) 7).r = 2 := by decide

/-- non-vacuity: `b = 1` (no random bits, `e = [s_sign + 1]`) and a power of two -/
example : (modModel 1009 3 1 (-4) [] 5 1 7).r = 0 ∧ (modModel 1009 3 4 (-3) [0, 1] 5 1 7).r = 1 := by decide

/-- **mod_nowrap_ok**: the masked value cannot wrap below zero unless `r_divb ≤ 1` and `b` is large
(`2b > 2^(l-1) + 2`): the excluded event has probability about `2b / 2^(k+l)` -/
theorem mod_nowrap_ok {l : Nat} {a b rDivb : Int} {rBits : List Int} (hl : 0 < l)
    (ha0 : -(2 : Int) ^ (l - 1) ≤ a) (hb0 : 0 < b) (hR : bitsVal rBits < b)
    (hd0 : 0 ≤ rDivb) (h : 2 ≤ rDivb ∨ 2 * b ≤ (2 : Int) ^ (l - 1) + 2) :
    0 ≤ a + ((2 : Int) ^ l - (2 : Int) ^ l % b + b * rDivb - bitsVal rBits) := by
  have hm1 := Int.emod_lt_of_pos ((2 : Int) ^ l) hb0
  have hl2 : (2 : Int) ^ l = 2 * (2 : Int) ^ (l - 1) := by rw [← pow_succ']; congr 1; omega
  have hpos := two_pow_pos (l - 1)
  rcases h with h | h
  · have : b * 2 ≤ b * rDivb := mul_le_mul_of_nonneg_left h hb0.le
    linarith
  · have : 0 ≤ b * rDivb := mul_nonneg hb0.le hd0
    linarith

/-! ### why `if c == 0: c = b` is there -/

/-- `modModel` without the branch `if c == 0: c = b` -/
def modModelNoFix (p l : Nat) (b : Int) (a : Int) (rBits : List Int) (rDivb sSign rz : Int) : ModOut :=
  let rModb := bitsVal rBits
  let cOpen := pmod (a + ((2 : Int) ^ l - (2 : Int) ^ l % b + b * rDivb - rModb)) p
  let c0 := cOpen % b
  let c := c0
  let e := toftE sSign 1 rBits (bitsLE (b - c) rBits.length)
  let zp := isZeroPublic p (prodTree e) rz
  let z := rsh p 1 (if zp.2 then 1 - sSign else 1 + sSign)
  ⟨cOpen, zp.1, zp.2, z, norm p (c + rModb - z * b)⟩

/-- for `b = 4` (a power of two), `a = 1`, `r_modb = 1`: the opened value is `0` modulo `b`; without the
branch `b - c = 4` has the two low bits `0,0`, the comparison says `r_modb ≥ 0`, and the result is
`0 + 1 - 4 = -3`; with the branch it is `4 + 1 - 4 = 1 = a % b` -/
theorem mod_needs_c_eq_b :
    (1 - bitsVal [1, 0]) % 4 = 0 ∧
    (modModelNoFix 1009 3 4 1 [1, 0] 5 1 7).r = -3 ∧
    (modModelNoFix 1009 3 4 1 [1, 0] 5 1 7).r ≠ 1 % 4 ∧
    (modModel 1009 3 4 1 [1, 0] 5 1 7).r = 1 % 4 := by decide

/-! ### field division, `divmod` -/

theorem finv_spec {p : Nat} (hp : p.Prime) {b : Int} (hb : ¬ (p : Int) ∣ b) :
    ((finv p b : Int) : ZMod p) * (b : ZMod p) = 1 := by
  have hb' : (b : ZMod p) ≠ 0 := by rwa [Ne, ZMod.intCast_zmod_eq_zero_iff_dvd]
  obtain ⟨r, hr1, hr2⟩ := PrimeF.invert_ok hp b hb'
  unfold finv
  rw [hr1]
  exact hr2

/-- **fdiv_exact**: field division of a multiple of `b` by `b` gives the integer quotient -/
theorem fdiv_exact {p : Nat} (hp : p.Prime) {b : Int} (q : Int) (hb : ¬ (p : Int) ∣ b) :
    fdiv p (q * b) b = norm p q := by
  unfold fdiv
  apply norm_congr
  unfold pmod
  rw [← ZMod.intCast_eq_intCast_iff', Int.cast_mul, ZMod.intCast_mod, Int.cast_mul, mul_assoc,
    mul_comm (b : ZMod p), finv_spec hp hb, mul_one]

theorem fdiv_exact_fits {p : Nat} (hp : p.Prime) {b : Int} (q : Int) (hb : ¬ (p : Int) ∣ b)
    (hq : Fits p q) : fdiv p (q * b) b = q := by
  rw [fdiv_exact hp q hb, norm_of_fits hq]

/-- **divmod_correct**: `__divmod__` given the remainder -/
theorem divmod_correct {p : Nat} (hp : p.Prime) {a b : Int} (hb0 : 0 < b) (hbp : b < (p : Int))
    (hq : Fits p (a / b)) : divmodModel p a b (a % b) = (a / b, a % b) := by
  have hb : ¬ (p : Int) ∣ b := fun h => by have := Int.le_of_dvd hb0 h; omega
  have e : a - a % b = a / b * b := by linarith [Int.emod_add_ediv_mul a b]
  unfold divmodModel
  rw [e, fdiv_exact_fits hp _ hb hq]

/-! ### Lean's `/`, `%` on `Int` for a positive divisor are Python's `//`, `%` -/

theorem divmod_python {a b : Int} (hb : 0 < b) :
    (a = b * (a / b) + a % b ∧ 0 ≤ a % b ∧ a % b < b) ∧
    (∀ q r : Int, a = b * q + r → 0 ≤ r → r < b → q = a / b ∧ r = a % b) ∧
    (a / b : Int) = ⌊(a : ℚ) / (b : ℚ)⌋ ∧
    pyMod a b = a % b ∧ pyDiv a b = a / b := by
  refine ⟨⟨(Int.mul_ediv_add_emod a b).symm, Int.emod_nonneg a hb.ne', Int.emod_lt_of_pos a hb⟩, ?_, ?_, ?_, ?_⟩
  · intro q r h h0 h1
    have := (Int.ediv_emod_unique (a := a) (q := q) (r := r) hb).2 ⟨by linarith, h0, h1⟩
    exact ⟨this.1.symm, this.2.symm⟩
  · obtain ⟨d, rfl⟩ := Int.eq_ofNat_of_zero_le hb.le
    rw [Int.cast_natCast]
    exact (Rat.floor_intCast_div_natCast a d).symm
  · unfold pyMod; rw [if_pos hb]
  · unfold pyDiv; rw [if_pos hb]

end MpycV.SecInt
