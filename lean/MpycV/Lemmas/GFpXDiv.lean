/-
Division algorithm of the list model (`divmodCore`, `modCore` ≙ gfpx.py `_divmod`, `_mod`):
`a = q*b + r`, `deg r < deg b`, results well-formed, `mod = (divmod).2`, and identification with
Mathlib's `/` and `%` on `(ZMod p)[X]`.  Also `invModP` (≙ `gmpy2.invert`) is the field inverse.
-/
import MpycV.Lemmas.GFpXRing
import Mathlib.FieldTheory.Finite.Basic

open Polynomial

namespace MpycV.GFpX

variable {p : ℕ}

/-! ### modular exponentiation / inverse mod p -/

theorem powModAux_eq (m : ℕ) : ∀ (fuel b e : ℕ), e ≤ fuel → powModAux m fuel b e = b ^ e % m := by
  intro fuel
  induction fuel with
  | zero =>
    intro b e he
    have : e = 0 := by omega
    subst this
    simp [powModAux]
  | succ f ih =>
    intro b e he
    rw [powModAux]
    split
    · rename_i h0; subst h0; simp
    · rename_i h0
      have hlt : e / 2 ≤ f := by omega
      rw [ih b (e / 2) hlt]
      have hsplit : b ^ e = b ^ (e / 2) * b ^ (e / 2) * b ^ (e % 2) := by
        rw [← pow_add, ← pow_add]
        congr 1
        omega
      simp only
      split
      · rename_i h1
        rw [hsplit, h1, pow_one]
        conv_rhs => rw [Nat.mul_mod, Nat.mul_mod (b ^ (e / 2))]
        conv_lhs => rw [Nat.mul_mod, Nat.mod_mod]
      · rename_i h1
        have h2 : e % 2 = 0 := by omega
        rw [hsplit, h2, pow_zero, mul_one]
        conv_rhs => rw [Nat.mul_mod]

theorem powMod_eq (b e m : ℕ) : powMod b e m = b ^ e % m := powModAux_eq m e b e le_rfl

theorem invModP_lt (hp : 0 < p) (x : ℕ) : invModP p x < p := by
  rw [invModP, powMod_eq]; exact Nat.mod_lt _ hp

/-- `invModP p x` is the inverse of `x` in the field `ZMod p` (for `x ≢ 0`) -/
theorem invModP_cast [Fact p.Prime] {x : ℕ} (hx : (x : ZMod p) ≠ 0) :
    ((invModP p x : ℕ) : ZMod p) = (x : ZMod p)⁻¹ := by
  rw [invModP, powMod_eq, ZMod.natCast_mod, Nat.cast_pow]
  have h1 := ZMod.pow_card_sub_one_eq_one hx
  have h2 : 2 ≤ p := (Fact.out : p.Prime).two_le
  have : (x : ZMod p) ^ (p - 2) * (x : ZMod p) = 1 := by
    rw [← pow_succ]
    have : p - 2 + 1 = p - 1 := by omega
    rw [this, h1]
  exact eq_inv_of_mul_eq_one_left this

/-! ### one elimination step -/

theorem subMulMod_cast (hp : 0 < p) (q x y : ℕ) :
    ((subMulMod p q x y : ℕ) : ZMod p) = (x : ZMod p) - (q : ZMod p) * (y : ZMod p) := by
  unfold subMulMod
  have hnn : 0 ≤ ((x : ℤ) - (q : ℤ) * (y : ℤ)) % (p : ℤ) := Int.emod_nonneg _ (by omega)
  rw [← Int.cast_natCast (R := ZMod p), Int.toNat_of_nonneg hnn, ZMod.intCast_mod]
  push_cast
  ring

theorem subMulMod_lt (hp : 0 < p) (q x y : ℕ) : subMulMod p q x y < p := by
  unfold subMulMod
  have hnn : 0 ≤ ((x : ℤ) - (q : ℤ) * (y : ℤ)) % (p : ℤ) := Int.emod_nonneg _ (by omega)
  have hlt : ((x : ℤ) - (q : ℤ) * (y : ℤ)) % (p : ℤ) < (p : ℤ) := Int.emod_lt_of_pos _ (by omega)
  omega

theorem toPoly_subScaled (hp : 0 < p) (q : ℕ) : ∀ (r b : Poly), b.length ≤ r.length →
    toPoly p (subScaled p q r b) = toPoly p r - C (q : ZMod p) * toPoly p b := by
  intro r b
  induction b generalizing r with
  | nil => intro _; cases r <;> simp [subScaled]
  | cons y b ih =>
    intro h
    cases r with
    | nil => simp at h
    | cons x r =>
      simp only [List.length_cons, Nat.add_le_add_iff_right] at h
      simp only [subScaled, toPoly_cons, ih r h, subMulMod_cast hp, C_sub, C_mul]
      ring

theorem length_subScaled (q : ℕ) : ∀ (r b : Poly), b.length ≤ r.length →
    (subScaled p q r b).length = r.length := by
  intro r b
  induction b generalizing r with
  | nil => intro _; cases r <;> simp [subScaled]
  | cons y b ih =>
    intro h
    cases r with
    | nil => simp at h
    | cons x r =>
      simp only [List.length_cons, Nat.add_le_add_iff_right] at h
      simp [subScaled, ih r h]

theorem reduced_subScaled (hp : 0 < p) (q : ℕ) : ∀ (r b : Poly), Reduced p r →
    Reduced p (subScaled p q r b) := by
  intro r b
  induction b generalizing r with
  | nil => intro h; cases r <;> simp [subScaled, h]
  | cons y b ih =>
    intro h
    cases r with
    | nil => simp [subScaled]
    | cons x r =>
      rw [reduced_cons] at h
      simp only [subScaled, reduced_cons]
      exact ⟨subMulMod_lt hp _ _ _, ih r h.2⟩

theorem toPoly_subScaledAt (hp : 0 < p) (q : ℕ) : ∀ (i : ℕ) (r b : Poly), i + b.length ≤ r.length →
    toPoly p (subScaledAt p q i r b) = toPoly p r - C (q : ZMod p) * X ^ i * toPoly p b := by
  intro i
  induction i with
  | zero =>
    intro r b h
    simp only [subScaledAt, pow_zero, mul_one]
    exact toPoly_subScaled hp q r b (by omega)
  | succ i ih =>
    intro r b h
    cases r with
    | nil => simp at h
    | cons x r =>
      simp only [List.length_cons] at h
      simp only [subScaledAt, toPoly_cons, ih r b (by omega)]
      ring

theorem length_subScaledAt (q : ℕ) : ∀ (i : ℕ) (r b : Poly), i + b.length ≤ r.length →
    (subScaledAt p q i r b).length = r.length := by
  intro i
  induction i with
  | zero => intro r b h; exact length_subScaled q r b (by omega)
  | succ i ih =>
    intro r b h
    cases r with
    | nil => simp at h
    | cons x r =>
      simp only [List.length_cons] at h
      simp [subScaledAt, ih r b (by omega)]

theorem reduced_subScaledAt (hp : 0 < p) (q : ℕ) : ∀ (i : ℕ) (r b : Poly), Reduced p r →
    Reduced p (subScaledAt p q i r b) := by
  intro i
  induction i with
  | zero => intro r b h; exact reduced_subScaled hp q r b h
  | succ i ih =>
    intro r b h
    cases r with
    | nil => simp [subScaledAt]
    | cons x r =>
      rw [reduced_cons] at h
      simp only [subScaledAt, reduced_cons]
      exact ⟨h.1, ih r b h.2⟩

/-- one iteration of the division loop: cancels the coefficient of `X^(i+n-1)` -/
theorem divStep_spec [Fact p.Prime] {b : Poly} (hb : WF p b) (hbne : b ≠ []) {b1 : ℕ}
    (hb1 : (b1 : ZMod p) = (toPoly p b).leadingCoeff⁻¹) (i : ℕ) {r : Poly} (hr : WF p r)
    (hlen : r.length ≤ i + b.length) :
    toPoly p r = C ((divStep p b b1 i r).1 : ZMod p) * X ^ i * toPoly p b
        + toPoly p (divStep p b b1 i r).2 ∧
      WF p (divStep p b b1 i r).2 ∧ (divStep p b b1 i r).2.length + 1 ≤ i + b.length ∧
      (divStep p b b1 i r).1 < p := by
  have hp : 0 < p := (Fact.out : p.Prime).pos
  have hbl := List.length_pos_of_ne_nil hbne
  unfold divStep
  split
  · rename_i hge
    have hrl : r.length = i + b.length := by omega
    have hrne : r ≠ [] := by
      intro h0; rw [h0] at hrl; simp at hrl; omega
    set qi := r.getLastD 0 * b1 % p with hqi
    set R := toPoly p r with hR
    set B := toPoly p b with hB
    have hBne : B ≠ 0 := toPoly_ne_zero hb hbne
    have hRne : R ≠ 0 := toPoly_ne_zero hr hrne
    have hlcB : B.leadingCoeff ≠ 0 := leadingCoeff_ne_zero.mpr hBne
    have hlcR : R.leadingCoeff ≠ 0 := leadingCoeff_ne_zero.mpr hRne
    have hqic : (qi : ZMod p) = R.leadingCoeff * B.leadingCoeff⁻¹ := by
      rw [hqi, ZMod.natCast_mod, Nat.cast_mul, hb1, hR, leadingCoeff_toPoly hr hrne]
    have hqine : (qi : ZMod p) ≠ 0 := by
      rw [hqic]; exact mul_ne_zero hlcR (inv_ne_zero hlcB)
    have hsub : toPoly p (norm (subScaledAt p qi i r b)) = R - C (qi : ZMod p) * X ^ i * B := by
      rw [toPoly_norm, toPoly_subScaledAt hp qi i r b (by omega)]
    have hwf : WF p (norm (subScaledAt p qi i r b)) :=
      wf_norm (reduced_subScaledAt hp qi i r b hr.1)
    refine ⟨?_, hwf, ?_, Nat.mod_lt _ hp⟩
    · simp only
      rw [hsub]; ring
    · simp only
      by_cases hne : norm (subScaledAt p qi i r b) = []
      · rw [hne]; simp; omega
      · have hnd := natDegree_toPoly hwf hne
        rw [hsub] at hnd
        have hdeg : R.degree = (C (qi : ZMod p) * X ^ i * B).degree := by
          rw [degree_mul, degree_C_mul_X_pow i hqine, hR, hB, degree_toPoly hr hrne,
            degree_toPoly hb hbne, ← Nat.cast_add]
          congr 1
          omega
        have hlc : R.leadingCoeff = (C (qi : ZMod p) * X ^ i * B).leadingCoeff := by
          rw [leadingCoeff_mul, leadingCoeff_C_mul_X_pow, hqic, mul_assoc,
            inv_mul_cancel₀ hlcB, mul_one]
        have hlt := degree_sub_lt_left hdeg hRne hlc
        have hne0 : R - C (qi : ZMod p) * X ^ i * B ≠ 0 := by
          rw [← hsub]; exact toPoly_ne_zero hwf hne
        have := natDegree_lt_natDegree hne0 hlt
        rw [hnd, hR, natDegree_toPoly hr hrne] at this
        have := List.length_pos_of_ne_nil hne
        omega
  · rename_i hlt
    refine ⟨by simp, hr, by simp only; omega, hp⟩

/-! ### the loops -/

theorem divmodLoop_spec [Fact p.Prime] {b : Poly} (hb : WF p b) (hbne : b ≠ []) {b1 : ℕ}
    (hb1 : (b1 : ZMod p) = (toPoly p b).leadingCoeff⁻¹) :
    ∀ (k : ℕ) (q r : Poly), WF p r → r.length + 1 ≤ k + b.length → Reduced p q →
      toPoly p (divmodLoop p b b1 k q r).1 * toPoly p b + toPoly p (divmodLoop p b b1 k q r).2
          = X ^ k * toPoly p q * toPoly p b + toPoly p r ∧
        WF p (divmodLoop p b b1 k q r).2 ∧ (divmodLoop p b b1 k q r).2.length < b.length ∧
        Reduced p (divmodLoop p b b1 k q r).1 ∧
        (divmodLoop p b b1 k q r).1.length = q.length + k := by
  intro k
  induction k with
  | zero =>
    intro q r hr hlen hq
    simp only [divmodLoop, pow_zero, one_mul, true_and]
    exact ⟨hr, by omega, hq, by simp⟩
  | succ i ih =>
    intro q r hr hlen hq
    obtain ⟨h1, h2, h3, h4⟩ := divStep_spec hb hbne hb1 i hr (by omega)
    have hq' : Reduced p ((divStep p b b1 i r).1 :: q) := reduced_cons.mpr ⟨h4, hq⟩
    obtain ⟨g1, g2, g3, g4, g5⟩ := ih ((divStep p b b1 i r).1 :: q) (divStep p b b1 i r).2 h2 h3 hq'
    simp only [divmodLoop]
    refine ⟨?_, g2, g3, g4, ?_⟩
    · rw [g1, toPoly_cons]
      conv_rhs => rw [h1]
      ring
    · rw [g5]; simp; omega

theorem modLoop_eq (b : Poly) (b1 : ℕ) : ∀ (k : ℕ) (q r : Poly),
    modLoop p b b1 k r = (divmodLoop p b b1 k q r).2 := by
  intro k
  induction k with
  | zero => intro q r; rfl
  | succ i ih => intro q r; simp only [modLoop, divmodLoop]; exact ih _ _

/-- `_mod` computes the remainder of `_divmod` -/
theorem modCore_eq_divmodCore_snd (a b : Poly) : modCore p a b = (divmodCore p a b).2 := by
  unfold modCore divmodCore
  split
  · rfl
  · exact modLoop_eq b _ _ [] a

theorem lc_inv_cast [Fact p.Prime] {b : Poly} (hb : WF p b) (hbne : b ≠ []) :
    ((invModP p (b.getLastD 0) : ℕ) : ZMod p) = (toPoly p b).leadingCoeff⁻¹ := by
  have h := coeff_last_ne_zero hb hbne
  rw [coeff_toPoly_last] at h
  rw [invModP_cast h, leadingCoeff_toPoly hb hbne]

/-- **division algorithm**: `a = q*b + r`, `deg r < deg b`, both results well-formed -/
theorem divmodCore_spec [Fact p.Prime] {a b : Poly} (ha : WF p a) (hb : WF p b) (hbne : b ≠ []) :
    toPoly p a = toPoly p (divmodCore p a b).1 * toPoly p b + toPoly p (divmodCore p a b).2 ∧
      (toPoly p (divmodCore p a b).2).degree < (toPoly p b).degree ∧
      WF p (divmodCore p a b).1 ∧ WF p (divmodCore p a b).2 ∧
      (divmodCore p a b).2.length < b.length := by
  have hB := toPoly_ne_zero hb hbne
  have hbl := List.length_pos_of_ne_nil hbne
  have hdeg : ∀ r : Poly, r.length < b.length → (toPoly p r).degree < (toPoly p b).degree := by
    intro r hr
    rw [degree_toPoly hb hbne]
    refine lt_of_lt_of_le (degree_toPoly_lt r) ?_
    have : r.length ≤ b.length - 1 := by omega
    exact_mod_cast this
  unfold divmodCore
  split
  · rename_i hlt
    exact ⟨by simp, hdeg a hlt, wf_nil, ha, hlt⟩
  · rename_i hge
    obtain ⟨g1, g2, g3, g4, g5⟩ := divmodLoop_spec hb hbne (lc_inv_cast hb hbne)
      (a.length - b.length + 1) [] a ha (by omega) reduced_nil
    set res := divmodLoop p b (invModP p (b.getLastD 0)) (a.length - b.length + 1) [] a with hres
    simp only [toPoly_nil, mul_zero, zero_mul, zero_add] at g1
    refine ⟨g1.symm, hdeg _ g3, ⟨g4, ?_⟩, g2, g3⟩
    -- the quotient has its top coefficient nonzero: compare degrees
    have hane : a ≠ [] := List.ne_nil_of_length_pos (by omega)
    have hA := toPoly_ne_zero ha hane
    have hQne : toPoly p res.1 ≠ 0 := by
      intro h0
      rw [h0, zero_mul, zero_add] at g1
      have h1 := degree_toPoly_lt (p := p) res.2
      have h2 := degree_toPoly ha hane
      rw [g1, h2] at h1
      have : a.length - 1 < res.2.length := by exact_mod_cast h1
      omega
    apply normalised_of_coeff_ne_zero (p := p)
    have hnd : (toPoly p res.1).natDegree = res.1.length - 1 := by
      have hd1 : (toPoly p res.1 * toPoly p b + toPoly p res.2).natDegree
          = (toPoly p res.1).natDegree + (toPoly p b).natDegree := by
        rw [natDegree_add_eq_left_of_degree_lt, natDegree_mul hQne hB]
        rw [degree_mul]
        refine lt_of_lt_of_le (hdeg _ g3) ?_
        rw [degree_eq_natDegree hQne, degree_eq_natDegree hB, ← Nat.cast_add]
        exact_mod_cast Nat.le_add_left _ _
      rw [g1, natDegree_toPoly ha hane, natDegree_toPoly hb hbne] at hd1
      rw [g5]
      simp only [List.length_nil, zero_add]
      omega
    rw [← hnd]
    exact leadingCoeff_ne_zero.mpr hQne

/-- `_mod` is Mathlib's `%` on `(ZMod p)[X]` -/
theorem toPoly_modCore [Fact p.Prime] {a b : Poly} (ha : WF p a) (hb : WF p b) (hbne : b ≠ []) :
    toPoly p (modCore p a b) = toPoly p a % toPoly p b := by
  obtain ⟨h1, h2, _, _, _⟩ := divmodCore_spec ha hb hbne
  have hB := toPoly_ne_zero hb hbne
  rw [modCore_eq_divmodCore_snd]
  conv_rhs => rw [h1, add_mod, EuclideanDomain.mod_eq_zero.mpr (dvd_mul_left _ _), zero_add,
    (mod_eq_self_iff hB).mpr h2]

/-- the quotient of `_divmod` is Mathlib's `/` on `(ZMod p)[X]` -/
theorem toPoly_divCore [Fact p.Prime] {a b : Poly} (ha : WF p a) (hb : WF p b) (hbne : b ≠ []) :
    toPoly p (divmodCore p a b).1 = toPoly p a / toPoly p b := by
  obtain ⟨h1, _, _, _, _⟩ := divmodCore_spec ha hb hbne
  have hB := toPoly_ne_zero hb hbne
  have hm := toPoly_modCore ha hb hbne
  rw [modCore_eq_divmodCore_snd] at hm
  have h3 := EuclideanDomain.div_add_mod (toPoly p a) (toPoly p b)
  rw [← hm] at h3
  have h4 : toPoly p b * (toPoly p a / toPoly p b) = toPoly p b * toPoly p (divmodCore p a b).1 := by
    have : toPoly p b * (toPoly p a / toPoly p b) + toPoly p (divmodCore p a b).2
        = toPoly p b * toPoly p (divmodCore p a b).1 + toPoly p (divmodCore p a b).2 := by
      rw [h3]; conv_lhs => rw [h1]
      ring
    exact add_right_cancel this
  exact (mul_left_cancel₀ hB h4).symm

theorem wf_modCore [Fact p.Prime] {a b : Poly} (ha : WF p a) (hb : WF p b) (hbne : b ≠ []) :
    WF p (modCore p a b) := by
  rw [modCore_eq_divmodCore_snd]; exact (divmodCore_spec ha hb hbne).2.2.2.1

theorem length_modCore_lt [Fact p.Prime] {a b : Poly} (ha : WF p a) (hb : WF p b) (hbne : b ≠ []) :
    (modCore p a b).length < b.length := by
  rw [modCore_eq_divmodCore_snd]; exact (divmodCore_spec ha hb hbne).2.2.2.2

end MpycV.GFpX
