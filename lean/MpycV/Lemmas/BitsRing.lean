/-
`add_bits` over an arbitrary commutative ring (Model/BitsRing.lean):
  * the instance for `Int` is the model `MpycV.Bits.addBits` the C30 theorems are about;
  * the network commutes with every ring homomorphism;
  hence for bit vectors (entries 0/1 of ANY commutative ring, e.g. a binary field) it computes the bits of the integer sum.
-/
import MpycV.Model.BitsRing
import MpycV.Lemmas.BitsAdd
import Mathlib.Algebra.Ring.Hom.Defs
import Mathlib.Algebra.Ring.Int.Defs
import Mathlib.Tactic.Ring

namespace MpycV.BitsRing

/-! ### the integer instance -/

theorem carries_int (high : Bool) (seg : List (Int × Int)) :
    carries (0 : Int) high seg = Bits.carries high seg := by
  induction high, seg using Bits.carries.induct with
  | case1 high a b hlen =>
    rw [carries.eq_def, Bits.carries.eq_def]
    have : a + b - (a * b + a * b) = a + b - a * b * 2 := by ring
    simp [this]
  | case2 high seg hlen hne =>
    match seg, hlen, hne with
    | [], _, _ => rw [carries.eq_def, Bits.carries.eq_def]; rfl
    | [(a, b)], _, hne => exact absurd rfl (hne a b)
    | _ :: _ :: _, hlen, _ => simp only [List.length_cons] at hlen; omega
  | case3 high seg hlen ihl ihr =>
    rw [carries.eq_def, Bits.carries.eq_def]
    simp only [hlen, if_false]
    rw [ihl, ihr]

theorem sumBits_int : ∀ (cin : Int) (seg : List (Int × Int)) (cs : List Int),
    sumBitsWith (fun c => c + c) cin seg cs = Bits.sumBits cin seg cs := by
  intro cin seg
  induction seg generalizing cin with
  | nil => intro cs; cases cs <;> rfl
  | cons ab seg ih =>
    intro cs
    obtain ⟨a, b⟩ := ab
    cases cs with
    | nil => rfl
    | cons c cs =>
      simp only [sumBitsWith, Bits.sumBits]
      rw [ih]
      have : a + b - (c + c) + cin = a + b - c * 2 + cin := by ring
      rw [this]

/-- the ring-polymorphic network specialises to the integer model of C30 -/
theorem addBits_int (x y : List Int) : addBits (0 : Int) x y = Bits.addBits x y := by
  unfold addBits Bits.addBits
  simp only
  rw [carries_int, sumBits_int]

/-! ### ring homomorphisms -/

variable {R S : Type} [CommRing R] [CommRing S]

private theorem getLastD_map (f : R →+* S) (l : List R) : (l.map f).getLastD 0 = f (l.getLastD 0) := by
  induction l with
  | nil => simp
  | cons a l ih =>
    cases l with
    | nil => simp
    | cons b l => simpa [List.getLastD] using ih

private theorem map_zipWith_add_mul (f : R →+* S) (c : R) (l1 l2 : List R) :
    (List.zipWith (fun x1 x2 => x1 + x2) l1 (l2.map (fun x => c * x))).map f =
      List.zipWith (fun x1 x2 => x1 + x2) (l1.map f) ((l2.map f).map (fun x => f c * x)) := by
  induction l1 generalizing l2 with
  | nil => simp
  | cons a l1 ih =>
    cases l2 with
    | nil => simp
    | cons b l2 => simp [map_add, map_mul, ih]

theorem carries_map (f : R →+* S) (high : Bool) (seg : List (R × R)) :
    carries (0 : S) high (seg.map (Prod.map f f)) =
      ((carries (0 : R) high seg).1.map f, (carries (0 : R) high seg).2.map f) := by
  induction high, seg using carries.induct (zero := (0 : R)) with
  | case1 high a b hlen =>
    rw [carries.eq_def, carries.eq_def (zero := (0 : R))]
    cases high <;> simp [Prod.map, map_add, map_sub, map_mul]
  | case2 high seg hlen hne =>
    match seg, hlen, hne with
    | [], _, _ => rw [List.map_nil, carries.eq_def, carries.eq_def (zero := (0 : R))]; rfl
    | [(a, b)], _, hne => exact absurd rfl (hne a b)
    | _ :: _ :: _, hlen, _ => simp only [List.length_cons] at hlen; omega
  | case3 high seg hlen ihl ihr =>
    have hlen' : ¬ (seg.map (Prod.map f f)).length < 2 := by simpa using hlen
    rw [carries.eq_def, carries.eq_def (zero := (0 : R))]
    simp only [hlen, hlen', if_false, List.length_map, ← List.map_take, ← List.map_drop]
    rw [ihl, ihr]
    simp only [getLastD_map]
    refine Prod.ext ?_ ?_
    · simp only [List.map_append, map_zipWith_add_mul]
    · cases high <;> simp [List.map_append, List.map_map, Function.comp_def, map_mul]

theorem sumBits_map (f : R →+* S) : ∀ (cin : R) (seg : List (R × R)) (cs : List R),
    sumBitsWith (fun c => c + c) (f cin) (seg.map (Prod.map f f)) (cs.map f) =
      (sumBitsWith (fun c => c + c) cin seg cs).map f := by
  intro cin seg
  induction seg generalizing cin with
  | nil => intro cs; cases cs <;> rfl
  | cons ab seg ih =>
    intro cs
    obtain ⟨a, b⟩ := ab
    cases cs with
    | nil => rfl
    | cons c cs =>
      simp only [List.map_cons, Prod.map, sumBitsWith]
      rw [ih]
      simp [map_add, map_sub]

/-- `add_bits` commutes with every ring homomorphism -/
theorem addBits_map (f : R →+* S) (x y : List R) :
    addBits (0 : S) (x.map f) (y.map f) = (addBits (0 : R) x y).map f := by
  unfold addBits
  simp only
  have hz : (x.map f).zip (y.map f) = (x.zip y).map (Prod.map f f) := by
    rw [List.zip_map]
  rw [hz, carries_map]
  simp only
  have := sumBits_map f 0 (x.zip y) (carries (0 : R) false (x.zip y)).1
  rw [map_zero] at this
  exact this

/-- **add_bits over any commutative ring**: for bit vectors x, y of equal length, given as the elements 0/1 of `R`
(the images of integer bits), the network returns the images of the n low bits of `value x + value y` -/
theorem addBits_ring (x y : List Int) (hx : Bits.IsBits x) (hy : Bits.IsBits y) (hlen : x.length = y.length) :
    addBits (0 : R) (x.map (Int.cast : Int → R)) (y.map (Int.cast : Int → R)) =
      (Bits.bitsOf (Bits.fromBits x + Bits.fromBits y) x.length).map (Int.cast : Int → R) := by
  have h := addBits_map (Int.castRingHom R) x y
  simp only [Int.coe_castRingHom] at h
  rw [h, addBits_int]
  obtain ⟨_, _, _, hv⟩ := Bits.addBits_spec' x y hx hy hlen
  rw [hv]

end MpycV.BitsRing
