/- MIRROR of the translator output (harness/py2lean_thresha.py on mpyc/thresha.py as pinned in /repo), kept by hand: the
bridge lemmas (Lemmas/ThreshaSrcBridge*.lean) prove these definitions equal to the model MpycV.Model.Thresha;
PropsGen/C12Src.lean proves the freshly generated MpycV.ThreshaSrc definitions equal to these by `rfl`.  Regenerate with
  python -c "import py2lean_thresha as T; print(T.translate_source(open('/repo/mpyc/thresha.py').read(), ns='MpycV.ThreshaMirror')[0])"
(then re-prove the bridge) when /repo legitimately changes.
mpyc/thresha.py over a prime field GF(p), translated statement by statement (rules: docstring of the translator). -/
import MpycV.Model.PyList
namespace MpycV.ThreshaMirror
open MpycV.PyList
set_option linter.unusedVariables false


-- ≙ thresha.py:74 `_recombination_vector`
def recombination_vector (p : Int) (xs : List Int) (x_r : Int) : Except TErr (List Int) :=
  let xs := (List.map (fun (x : Int) => (x % p)) xs)
  let x_r := (x_r % p)
  let vector := ([] : List Int)
  match pyFor (ε := TErr) (σ := List Int) (pyEnum xs) vector (fun it_ st_ => match it_, st_ with
      | (i, x_i), vector =>
        let coefficient_n := (1 % p)
        let coefficient_d := (1 % p)
        match pyFor (ε := TErr) (σ := Int × Int) (pyEnum xs) (coefficient_n, coefficient_d) (fun it_ st_ => match it_, st_ with
            | (j, x_j), (coefficient_n, coefficient_d) =>
              let (coefficient_n, coefficient_d) :=
                if i ≠ j then
                  let coefficient_n := ((coefficient_n * (x_r - x_j)) % p)
                  let coefficient_d := ((coefficient_d * (x_i - x_j)) % p)
                  (coefficient_n, coefficient_d)
                else
                  (coefficient_n, coefficient_d)
              .ok (coefficient_n, coefficient_d)) with
        | .error exc_ => .error exc_
        | .ok (coefficient_n, coefficient_d) =>
          match fdiv p coefficient_n coefficient_d with
          | .error exc_ => .error exc_
          | .ok v1 =>
            let vector := vector ++ [v1]
            .ok vector) with
  | .error exc_ => .error exc_
  | .ok vector =>
    .ok (vector)

-- ≙ thresha.py:94 `recombine`
def recombine_list (p : Int) (isField : Bool) (points : List ((Int × List Int))) (x_rs : List Int) : Except TErr (List (List Int)) :=
  if points = [] then .error .valueError else
  let xs := List.map Prod.fst points
  let shares := List.map Prod.snd points
  let width := (x_rs.length : Int)
  match pyMapM x_rs (fun (x_r : Int) =>
      match recombination_vector p xs x_r with
      | .error exc_ => .error exc_
      | .ok v1 =>
        .ok (v1)) with
  | .error exc_ => .error exc_
  | .ok v2 =>
    let vector := v2
    if pyIdxOk shares.length 0 = false then .error .indexError else
    let n := ((pyGet shares 0).length : Int)
    let sums := (List.map (fun (i_ : Int) => (List.replicate (n).toNat 0)) (pyRange 0 width))
    if ((n > 0) ∧ (pyIdxOk shares.length 0 = false)) then .error .indexError else
    if ((n > 0) ∧ (pyIdxOk (pyGet shares 0).length 0 = false)) then .error .indexError else
    let T_is_field := decide ((n > 0 ∧ isField = true))
    match pyFor (ε := TErr) (σ := List (List Int)) (pyEnum shares) sums (fun it_ st_ => match it_, st_ with
        | (i, share_i), sums =>
          match pyFor (ε := TErr) (σ := List (List Int)) (pyRange 0 n) sums (fun it_ st_ => match it_, st_ with
              | h, sums =>
                if pyIdxOk share_i.length h = false then .error .indexError else
                let s := (pyGet share_i h)
                let s :=
                  if T_is_field = true then
                    let s := s
                    (s)
                  else
                    (s)
                match pyFor (ε := TErr) (σ := List (List Int)) (pyRange 0 width) sums (fun it_ st_ => match it_, st_ with
                    | r, sums =>
                      if pyIdxOk sums.length r = false then .error .indexError else
                      if pyIdxOk (pyGet sums r).length h = false then .error .indexError else
                      if pyIdxOk vector.length r = false then .error .indexError else
                      if pyIdxOk (pyGet vector r).length i = false then .error .indexError else
                      let sums := pySet sums r (pySet (pyGet sums r) h ((pyGet (pyGet sums r) h) + (s * (pyGet (pyGet vector r) i))))
                      .ok sums) with
                | .error exc_ => .error exc_
                | .ok sums =>
                  .ok sums) with
          | .error exc_ => .error exc_
          | .ok sums =>
            .ok sums) with
    | .error exc_ => .error exc_
    | .ok sums =>
      match (show Except TErr (List (List Int)) from
        if T_is_field = true then
          match pyFor (ε := TErr) (σ := List (List Int)) (pyRange 0 width) sums (fun it_ st_ => match it_, st_ with
              | r, sums =>
                match pyFor (ε := TErr) (σ := List (List Int)) (pyRange 0 n) sums (fun it_ st_ => match it_, st_ with
                    | h, sums =>
                      if pyIdxOk sums.length r = false then .error .indexError else
                      if pyIdxOk (pyGet sums r).length h = false then .error .indexError else
                      if pyIdxOk sums.length r = false then .error .indexError else
                      if pyIdxOk (pyGet sums r).length h = false then .error .indexError else
                      let sums := pySet sums r (pySet (pyGet sums r) h ((pyGet (pyGet sums r) h) % p))
                      .ok sums) with
                | .error exc_ => .error exc_
                | .ok sums =>
                  .ok sums) with
          | .error exc_ => .error exc_
          | .ok sums =>
            .ok (sums)
        else
          .ok (sums)) with
      | .error exc_ => .error exc_
      | .ok sums =>
        .ok (sums)

-- ≙ thresha.py:94 `recombine`
def recombine_one (p : Int) (isField : Bool) (points : List ((Int × List Int))) (x_rs : Int) : Except TErr (List Int) :=
  if points = [] then .error .valueError else
  let xs := List.map Prod.fst points
  let shares := List.map Prod.snd points
  let x_rs := [x_rs]
  let width := (x_rs.length : Int)
  match pyMapM x_rs (fun (x_r : Int) =>
      match recombination_vector p xs x_r with
      | .error exc_ => .error exc_
      | .ok v1 =>
        .ok (v1)) with
  | .error exc_ => .error exc_
  | .ok v2 =>
    let vector := v2
    if pyIdxOk shares.length 0 = false then .error .indexError else
    let n := ((pyGet shares 0).length : Int)
    let sums := (List.map (fun (i_ : Int) => (List.replicate (n).toNat 0)) (pyRange 0 width))
    if ((n > 0) ∧ (pyIdxOk shares.length 0 = false)) then .error .indexError else
    if ((n > 0) ∧ (pyIdxOk (pyGet shares 0).length 0 = false)) then .error .indexError else
    let T_is_field := decide ((n > 0 ∧ isField = true))
    match pyFor (ε := TErr) (σ := List (List Int)) (pyEnum shares) sums (fun it_ st_ => match it_, st_ with
        | (i, share_i), sums =>
          match pyFor (ε := TErr) (σ := List (List Int)) (pyRange 0 n) sums (fun it_ st_ => match it_, st_ with
              | h, sums =>
                if pyIdxOk share_i.length h = false then .error .indexError else
                let s := (pyGet share_i h)
                let s :=
                  if T_is_field = true then
                    let s := s
                    (s)
                  else
                    (s)
                match pyFor (ε := TErr) (σ := List (List Int)) (pyRange 0 width) sums (fun it_ st_ => match it_, st_ with
                    | r, sums =>
                      if pyIdxOk sums.length r = false then .error .indexError else
                      if pyIdxOk (pyGet sums r).length h = false then .error .indexError else
                      if pyIdxOk vector.length r = false then .error .indexError else
                      if pyIdxOk (pyGet vector r).length i = false then .error .indexError else
                      let sums := pySet sums r (pySet (pyGet sums r) h ((pyGet (pyGet sums r) h) + (s * (pyGet (pyGet vector r) i))))
                      .ok sums) with
                | .error exc_ => .error exc_
                | .ok sums =>
                  .ok sums) with
          | .error exc_ => .error exc_
          | .ok sums =>
            .ok sums) with
    | .error exc_ => .error exc_
    | .ok sums =>
      match (show Except TErr (List (List Int)) from
        if T_is_field = true then
          match pyFor (ε := TErr) (σ := List (List Int)) (pyRange 0 width) sums (fun it_ st_ => match it_, st_ with
              | r, sums =>
                match pyFor (ε := TErr) (σ := List (List Int)) (pyRange 0 n) sums (fun it_ st_ => match it_, st_ with
                    | h, sums =>
                      if pyIdxOk sums.length r = false then .error .indexError else
                      if pyIdxOk (pyGet sums r).length h = false then .error .indexError else
                      if pyIdxOk sums.length r = false then .error .indexError else
                      if pyIdxOk (pyGet sums r).length h = false then .error .indexError else
                      let sums := pySet sums r (pySet (pyGet sums r) h ((pyGet (pyGet sums r) h) % p))
                      .ok sums) with
                | .error exc_ => .error exc_
                | .ok sums =>
                  .ok sums) with
          | .error exc_ => .error exc_
          | .ok sums =>
            .ok (sums)
        else
          .ok (sums)) with
      | .error exc_ => .error exc_
      | .ok sums =>
        if pyIdxOk sums.length 0 = false then .error .indexError else
        let sums := (pyGet sums 0)
        .ok (sums)

-- ≙ thresha.py:23 `random_split`
def random_split (p : Int) (isField : Bool) (s : List Int) (t : Int) (m : Int) (stream : List Int) : Except TErr (List (List Int)) :=
  let p := p
  let order := p
  if (t ≠ 0 ∧ m ≥ order) then .error .valueError else
  let _0 := 0
  let shares := (List.map (fun (i_ : Int) => (List.replicate ((s.length : Int)).toNat 0)) (pyRange 0 m))
  if (((s.length : Int) > 0) ∧ (pyIdxOk s.length 0 = false)) then .error .indexError else
  let T_is_field := decide (((s.length : Int) > 0 ∧ isField = true))
  match pyFor (ε := TErr) (σ := List Int × List (List Int)) (pyEnum s) (stream, shares) (fun it_ st_ => match it_, st_ with
      | (h, s_h), (stream, shares) =>
        let s_h :=
          if T_is_field = true then
            let s_h := s_h
            (s_h)
          else
            (s_h)
        match pyDraw order t stream with
        | .error exc_ => .error exc_
        | .ok (c, stream) =>
          match pyFor (ε := TErr) (σ := List (List Int)) (pyRange 1 (m + 1)) shares (fun it_ st_ => match it_, st_ with
              | i1, shares =>
                let y := _0
                match pyFor (ε := TErr) (σ := Int) c y (fun it_ st_ => match it_, st_ with
                    | c_j, y =>
                      let y := ((y + c_j) * i1)
                      .ok y) with
                | .error exc_ => .error exc_
                | .ok y =>
                  if pyIdxOk shares.length (i1 - 1) = false then .error .indexError else
                  if pyIdxOk (pyGet shares (i1 - 1)).length h = false then .error .indexError else
                  let shares := pySet shares (i1 - 1) (pySet (pyGet shares (i1 - 1)) h ((y + s_h) % p))
                  .ok shares) with
          | .error exc_ => .error exc_
          | .ok shares =>
            .ok (stream, shares)) with
  | .error exc_ => .error exc_
  | .ok (stream, shares) =>
    .ok (shares)

-- ≙ thresha.py:142 `_f_S_i`
def f_S_i (p : Int) (m : Int) (i : Int) (S : List Int) : Except TErr (Int) :=
  let points := ([(0, [1])] ++ (List.map (fun (x : Int) => ((x + 1), [0])) (List.filter (fun (x : Int) => decide (¬ (x ∈ S))) (pyRange 0 m))))
  match recombine_one p false points (i + 1) with
  | .error exc_ => .error exc_
  | .ok v1 =>
    if pyIdxOk v1.length 0 = false then .error .indexError else
    .ok ((pyGet v1 0))

-- ≙ thresha.py:150 `pseudorandom_share`
def pseudorandom_share (p : Int) (m : Int) (i : Int) (prfs : List ((List Int × List Int))) (n : Int) : Except TErr (List Int) :=
  let sums := (List.replicate (n).toNat 0)
  match pyFor (ε := TErr) (σ := List Int) prfs sums (fun it_ st_ => match it_, st_ with
      | (S, prf_S), sums =>
        match f_S_i p m i S with
        | .error exc_ => .error exc_
        | .ok v1 =>
          let f_S_i := v1
          let prl := (List.take (n).toNat prf_S)
          match pyFor (ε := TErr) (σ := List Int) (pyRange 0 n) sums (fun it_ st_ => match it_, st_ with
              | h, sums =>
                if pyIdxOk sums.length h = false then .error .indexError else
                if pyIdxOk prl.length h = false then .error .indexError else
                let sums := pySet sums h ((pyGet sums h) + ((pyGet prl h) * f_S_i))
                .ok sums) with
          | .error exc_ => .error exc_
          | .ok sums =>
            .ok sums) with
  | .error exc_ => .error exc_
  | .ok sums =>
    match pyFor (ε := TErr) (σ := List Int) (pyRange 0 n) sums (fun it_ st_ => match it_, st_ with
        | h, sums =>
          if pyIdxOk sums.length h = false then .error .indexError else
          if pyIdxOk sums.length h = false then .error .indexError else
          let sums := pySet sums h ((pyGet sums h) % p)
          .ok sums) with
    | .error exc_ => .error exc_
    | .ok sums =>
      .ok (sums)

-- ≙ thresha.py:182 `pseudorandom_share_zero`
def pseudorandom_share_zero (p : Int) (m : Int) (i : Int) (prfs : List ((List Int × List Int))) (n : Int) : Except TErr (List Int) :=
  let _0 := 0
  let i1 := (i + 1)
  let sums := (List.replicate (n).toNat 0)
  match pyFor (ε := TErr) (σ := List Int) prfs sums (fun it_ st_ => match it_, st_ with
      | (S, prf_S), sums =>
        match f_S_i p m i S with
        | .error exc_ => .error exc_
        | .ok v1 =>
          let f_S_i := v1
          let d := (m - (S.length : Int))
          let prl := (List.take ((n * d)).toNat prf_S)
          match pyFor (ε := TErr) (σ := List Int) (pyRange 0 n) sums (fun it_ st_ => match it_, st_ with
              | h, sums =>
                let y := _0
                match pyFor (ε := TErr) (σ := Int) (pyRange 0 d) y (fun it_ st_ => match it_, st_ with
                    | j, y =>
                      if pyIdxOk prl.length ((h * d) + j) = false then .error .indexError else
                      let y := ((y + (pyGet prl ((h * d) + j))) * i1)
                      .ok y) with
                | .error exc_ => .error exc_
                | .ok y =>
                  if pyIdxOk sums.length h = false then .error .indexError else
                  let sums := pySet sums h ((pyGet sums h) + (y * f_S_i))
                  .ok sums) with
          | .error exc_ => .error exc_
          | .ok sums =>
            .ok sums) with
  | .error exc_ => .error exc_
  | .ok sums =>
    match pyFor (ε := TErr) (σ := List Int) (pyRange 0 n) sums (fun it_ st_ => match it_, st_ with
        | h, sums =>
          if pyIdxOk sums.length h = false then .error .indexError else
          if pyIdxOk sums.length h = false then .error .indexError else
          let sums := pySet sums h ((pyGet sums h) % p)
          .ok sums) with
    | .error exc_ => .error exc_
    | .ok sums =>
      .ok (sums)

end MpycV.ThreshaMirror
