/-
Bridge, part: the translated `_gcd`, `_gcdext`, `_invert` equal the model `GFpX.gcd`, `gcdext`, `invert`
(loops through `PyLoop.loop`: induction on the fuel, which is the model's fuel).
-/
import MpycV.Lemmas.GfpxSrcMirror
import MpycV.Lemmas.GfpxSrcLoops
import MpycV.Lemmas.GfpxSrcBridgeRing
import MpycV.Lemmas.GfpxSrcBridgeMul
import MpycV.Lemmas.GfpxSrcBridgeDiv
import MpycV.Lemmas.GFpXGcd

namespace MpycV.GfpxBridge
open MpycV.PyList MpycV.PyLoop MpycV.PyPoly MpycV.GFpX


variable {p : ℕ}

/-! ### gcd -/

theorem gcd_loop [Fact p.Prime] (body : List Int × List Int → Except TErr (Ctl (List Int × List Int) Empty))
    (hb1 : ∀ a b, b ≠ [] → body (a, b) = match GfpxMirror.mod (p : Int) a b with
      | .error exc_ => .error exc_
      | .ok v1 => .ok (.next (b, v1)))
    (hb2 : ∀ a, body (a, []) = .ok (.brk (a, []))) :
    ∀ (f : ℕ) (a b : List ℕ), WF p a → WF p b → b.length < f →
      loop TErr.fuel body f (up a, up b) = .ok (.done (up (gcdLoop p f a b), [])) := by
  intro f
  induction f with
  | zero => intro a b _ _ h; omega
  | succ f ih =>
    intro a b ha hb hlen
    rw [loop, gcdLoop]
    by_cases hb0 : b = []
    · subst hb0; simp [hb2]
    · have hne : up b ≠ [] := fun h => hb0 (up_eq_nil.mp h)
      rw [hb1 _ _ hne, mod_eq p a hb]
      simp only [GFpX.mod, hb0, if_false, liftE]
      exact ih b (modCore p a b) hb (wf_modCore ha hb hb0) (by have := length_modCore_lt ha hb hb0; omega)

theorem gcd_eq [Fact p.Prime] {a b : List ℕ} (ha : WF p a) (hb : WF p b) :
    GfpxMirror.gcd (p : Int) (up a) (up b) = .ok (up (GFpX.gcd p a b)) := by
  unfold GfpxMirror.gcd GFpX.gcd
  rw [up_length, gcd_loop (p := p) _ (fun a b h => by simp only [h, ne_eq, not_false_eq_true, if_true]; cases GfpxMirror.mod (p : Int) a b <;> rfl)
    (fun a => by simp) (b.length + 1) a b ha hb (by omega)]
  have hw := (gcdLoop_spec (b.length + 1) a b ha hb (by omega)).1
  simp only [onLoop, monic_eq p hw]

/-! ### scaling loop `for i in range(len(s)): s[i] *= a1; s[i] %= p` -/

theorem up_map_scale (p c : ℕ) (s : List ℕ) :
    (up s).map (fun x => x * (c : Int) % (p : Int)) = up (scale p c s) := by
  simp only [up, scale, List.map_map]
  apply List.map_congr_left
  intro x _
  simp only [Function.comp]
  push_cast
  rfl

theorem scale_loop (p a1 : ℕ) (body : Int → List Int → Except TErr (List Int))
    (hb : ∀ (i : ℕ) (s : List Int), i < s.length →
      body (i : Int) s = .ok (s.set i ((s.getD i 0 * (a1 : Int)) % (p : Int)))) (s : List ℕ) :
    pyFor (pyRange 0 ((up s).length : Int)) (up s) body = .ok (up (scale p a1 s)) := by
  have key := pyFor_eq_foldl (ε := TErr) (fun (c : List Int) => c.length = s.length)
    (fun c (i : Int) => c.set i.toNat ((c.getD i.toNat 0 * (a1 : Int)) % (p : Int))) body
    (pyRange 0 ((up s).length : Int)) (up s) (by simp) (by
      intro c x hx hc
      rw [pyRange_zero_nat] at hx
      simp only [List.mem_map, List.mem_range] at hx
      obtain ⟨i, hi, rfl⟩ := hx
      refine ⟨?_, by simp [hc]⟩
      rw [hb i c (by rw [hc]; simpa using hi)]
      simp)
  rw [key.1, pyRange_zero_nat, List.foldl_map]
  simp only [Int.toNat_natCast]
  rw [foldl_range_set (fun x => x * (a1 : Int) % (p : Int)) (up s).length (up s) le_rfl, mapFirst_length,
    up_map_scale]

/-- the two-statement body of the scaling loops, with its index guards -/
theorem scale_body (p a1 : Int) (i : ℕ) (s : List Int) (h : i < s.length) :
    (if pyIdxOk s.length (i : Int) = false then (.error .indexError : Except TErr (List Int)) else
      let s := pySet s i ((pyGet s i) * a1)
      if pyIdxOk s.length (i : Int) = false then .error .indexError else
      let s := pySet s i ((pyGet s i) % p)
      .ok s) = .ok (s.set i ((s.getD i 0 * a1) % p)) := by
  have hok : pyIdxOk s.length (i : Int) = true := pyIdxOk_nat h
  have hok2 : ∀ w, pyIdxOk (s.set i w).length (i : Int) = true := fun w => by rw [List.length_set]; exact hok
  simp only [hok, hok2, pyGet_nat, pySet_nat, Bool.true_eq_false, if_false, List.getD_eq_getElem?_getD,
    List.getElem?_set_self h, Option.getD_some, List.set_set]

/-! ### gcdext -/

abbrev St6 := List Int × List Int × List Int × List Int × List Int × List Int

theorem gcdext_loop [Fact p.Prime] {α : Type} (body : St6 → Except TErr (Ctl St6 Empty))
    (hb1 : ∀ a b s s1 t t1, b ≠ [] → body (a, b, s, s1, t, t1) =
      match GfpxMirror.divmod (p : Int) a b with
      | .error exc_ => .error exc_
      | .ok (v1, v2) =>
        match GfpxMirror.mul (p : Int) false v1 s1 with
        | .error exc_ => .error exc_
        | .ok v3 =>
          match GfpxMirror.sub (p : Int) s v3 with
          | .error exc_ => .error exc_
          | .ok v4 =>
            match GfpxMirror.mul (p : Int) false v1 t1 with
            | .error exc_ => .error exc_
            | .ok v5 =>
              match GfpxMirror.sub (p : Int) t v5 with
              | .error exc_ => .error exc_
              | .ok v6 => .ok (.next (b, v2, s1, v4, t1, v6)))
    (hb2 : ∀ a s s1 t t1, body (a, [], s, s1, t, t1) = .ok (.brk (a, [], s, s1, t, t1)))
    (k : St6 → Except TErr α) (hk : ∀ a b s s1 t t1, k (a, b, s, s1, t, t1) = k (a, [], s, [], t, [])) :
    ∀ (f : ℕ) (a b s s1 t t1 : List ℕ), WF p a → WF p b → b.length < f →
      onLoop (loop TErr.fuel body f (up a, up b, up s, up s1, up t, up t1)) (fun r => nomatch r) k =
        k (up (gcdextLoop p f a b s s1 t t1).1, [], up (gcdextLoop p f a b s s1 t t1).2.1, [],
           up (gcdextLoop p f a b s s1 t t1).2.2, []) := by
  have hp : 0 < p := (Fact.out : p.Prime).pos
  intro f
  induction f with
  | zero => intro a b _ _ _ _ _ _ h; omega
  | succ f ih =>
    intro a b s s1 t t1 ha hb hlen
    rw [loop, gcdextLoop]
    by_cases hb0 : b = []
    · subst hb0
      simp only [up_nil, hb2, onLoop, if_true]
      exact hk _ _ _ _ _ _
    · have hne : up b ≠ [] := fun h => hb0 (up_eq_nil.mp h)
      obtain ⟨_, _, _, wr, lr⟩ := divmodCore_spec ha hb hb0
      rw [hb1 _ _ _ _ _ _ hne, divmod_eq p a hb]
      simp only [GFpX.divmod, hb0, if_false, liftE, mul_eq, sub_eq p _ (reduced_mul hp _ _)]
      exact ih b (divmodCore p a b).2 s1 _ t1 _ hb wr (by omega)

theorem gcdext_eq [Fact p.Prime] {a b : List ℕ} (ha : WF p a) (hb : WF p b) :
    GfpxMirror.gcdext (p : Int) (up a) (up b) =
      .ok (up (GFpX.gcdext p a b).1, up (GFpX.gcdext p a b).2.1, up (GFpX.gcdext p a b).2.2) := by
  unfold GfpxMirror.gcdext
  dsimp only
  rw [up_length]
  have e1 : ([1] : List Int) = up [1] := rfl
  have e0 : ([] : List Int) = up [] := rfl
  have hloop := fun body hb1 hb2 k hk => gcdext_loop (p := p) (α := List Int × List Int × List Int) body hb1 hb2 k hk
    (b.length + 1) a b [1] [] [] [1] ha hb (by simp)
  rw [← e1, ← e0] at hloop
  refine Eq.trans (hloop _
    (fun a b s s1 t t1 h => by
      simp only [h, ne_eq, not_false_eq_true, if_true]
      rfl)
    (fun a s s1 t t1 => by simp) _ (fun _ _ _ _ _ _ => rfl)) ?_
  have hfst := gcdextLoop_fst (p := p) (b.length + 1) a b [1] [] [] [1]
  have hw : WF p (gcdextLoop p (b.length + 1) a b [1] [] [] [1]).1 := by
    rw [hfst]; exact (gcdLoop_spec (b.length + 1) a b ha hb (by omega)).1
  unfold GFpX.gcdext
  set r := gcdextLoop p (b.length + 1) a b [1] [] [] [1] with hr
  simp only [monic_lc_eq p hw]
  by_cases h2 : (monicInv p r.1).2 ≥ 2
  · have h2' : ((monicInv p r.1).2 : Int) ≥ 2 := by exact_mod_cast h2
    simp only [h2', ge_iff_le, if_true, h2]
    rw [scale_loop p (monicInv p r.1).2 _ (fun i s h => scale_body _ _ i s h) r.2.1]
    dsimp only
    rw [scale_loop p (monicInv p r.1).2 _ (fun i s h => scale_body _ _ i s h) r.2.2]
  · have h2' : ¬ ((monicInv p r.1).2 : Int) ≥ 2 := by
      intro h'; exact h2 (by exact_mod_cast h')
    simp only [h2', ge_iff_le, if_false, h2]

/-! ### invert -/

abbrev St4 := List Int × List Int × List Int × List Int

theorem invert_loop [Fact p.Prime] {α : Type} (body : St4 → Except TErr (Ctl St4 Empty))
    (hb1 : ∀ a b s s1, b ≠ [] → body (a, b, s, s1) =
      match GfpxMirror.divmod (p : Int) a b with
      | .error exc_ => .error exc_
      | .ok (v1, v2) =>
        match GfpxMirror.mul (p : Int) false v1 s1 with
        | .error exc_ => .error exc_
        | .ok v3 =>
          match GfpxMirror.sub (p : Int) s v3 with
          | .error exc_ => .error exc_
          | .ok v4 => .ok (.next (b, v2, s1, v4)))
    (hb2 : ∀ a s s1, body (a, [], s, s1) = .ok (.brk (a, [], s, s1)))
    (k : St4 → Except TErr α) (hk : ∀ a b s s1, k (a, b, s, s1) = k (a, [], s, [])) :
    ∀ (f : ℕ) (a b s s1 : List ℕ), WF p a → WF p b → b.length < f →
      onLoop (loop TErr.fuel body f (up a, up b, up s, up s1)) (fun r => nomatch r) k =
        k (up (invertLoop p f a b s s1).1, [], up (invertLoop p f a b s s1).2, []) := by
  have hp : 0 < p := (Fact.out : p.Prime).pos
  intro f
  induction f with
  | zero => intro a b _ _ _ _ h; omega
  | succ f ih =>
    intro a b s s1 ha hb hlen
    rw [loop, invertLoop]
    by_cases hb0 : b = []
    · subst hb0
      simp only [up_nil, hb2, onLoop, if_true]
      exact hk _ _ _ _
    · have hne : up b ≠ [] := fun h => hb0 (up_eq_nil.mp h)
      obtain ⟨_, _, _, wr, lr⟩ := divmodCore_spec ha hb hb0
      rw [hb1 _ _ _ _ hne, divmod_eq p a hb]
      simp only [GFpX.divmod, hb0, if_false, liftE, mul_eq, sub_eq p _ (reduced_mul hp _ _)]
      exact ih b (divmodCore p a b).2 s1 _ hb wr (by omega)

theorem invert_eq [Fact p.Prime] {a b : List ℕ} (ha : WF p a) (hb : WF p b) :
    GfpxMirror.invert (p : Int) (up a) (up b) = liftE up (GFpX.invert p a b) := by
  unfold GfpxMirror.invert GFpX.invert
  by_cases hb0 : b = []
  · subst hb0; simp [liftE]
  have hne : up b ≠ [] := fun h => hb0 (up_eq_nil.mp h)
  simp only [hne, hb0, if_false]
  rw [up_length]
  have e1 : ([1] : List Int) = up [1] := rfl
  have e0 : ([] : List Int) = up [] := rfl
  have hloop := fun body hb1 hb2 k hk => invert_loop (p := p) (α := List Int) body hb1 hb2 k hk
    (b.length + 1) a b [1] [] ha hb (by simp)
  rw [← e1, ← e0] at hloop
  refine Eq.trans (hloop _
    (fun a b s s1 h => by
      simp only [h, ne_eq, not_false_eq_true, if_true]
      rfl)
    (fun a s s1 => by simp) _ (fun _ _ _ _ => rfl)) ?_
  have hinv := invertLoop_eq_gcdextLoop (p := p) (b.length + 1) a b [1] [] [] [1]
  have hfst := gcdextLoop_fst (p := p) (b.length + 1) a b [1] [] [] [1]
  have hw : WF p (invertLoop p (b.length + 1) a b [1] []).1 := by
    rw [hinv]; simp only; rw [hfst]; exact (gcdLoop_spec (b.length + 1) a b ha hb (by omega)).1
  set r := invertLoop p (b.length + 1) a b [1] [] with hr
  rcases hr1 : r.1 with _ | ⟨c, _ | ⟨c2, l⟩⟩
  · simp [liftE]
  · rw [hr1] at hw
    have hc0 : 0 < c := by
      have := hw.2; simp [Normalised] at this; omega
    have hcp : c < p := hw.1 c (by simp)
    simp only [up_cons, up_nil, List.length_cons, List.length_nil, zero_add, Nat.cast_one, ne_eq, not_true_eq_false,
      if_false, liftE]
    have hok : pyIdxOk 1 (0 : Int) = true := by decide
    have hget : pyGet [(c : Int)] 0 = (c : Int) := rfl
    simp only [hok, Bool.true_eq_false, if_false, hget, invertE_eq p hc0 hcp]
    rw [scale_loop p (invModP p c) _ (fun i s h => scale_body _ _ i s h) r.2]
  · simp only [up_cons, List.length_cons, liftE]
    have hlen : ((((up l).length + 1 + 1 : ℕ)) : Int) ≠ 1 := by push_cast; omega
    simp only [ne_eq, hlen, not_false_eq_true, if_true]

end MpycV.GfpxBridge
