/-
Post-processing of the SHAKE-128 digest in `PRF.__call__` (thresha.py:220-266): lengths, ranges,
prefix consistency, byte_length rule.
-/
import MpycV.Model.Thresha
import Mathlib.Tactic.Ring
import Mathlib.Tactic.Linarith
import Mathlib.Data.List.Basic

namespace MpycV.Thresha

/-! ### lengths and ranges -/

theorem length_prfPost (bound keyLen : ℕ) (digest : List ℕ) (n : ℕ) :
    (prfPost bound keyLen digest n).length = n := by
  unfold prfPost
  by_cases hn : n = 0
  · simp [hn]
  · by_cases hl : byteLength bound keyLen = 0 <;> simp [hn, hl]

theorem prfPost_lt (bound keyLen : ℕ) (digest : List ℕ) (n : ℕ) (hb : 1 ≤ bound) :
    ∀ x ∈ prfPost bound keyLen digest n, x < bound := by
  intro x hx
  unfold prfPost at hx
  by_cases hn : n = 0
  · simp [hn] at hx
  · by_cases hl : byteLength bound keyLen = 0
    · simp only [hn, hl, ↓reduceIte, List.mem_replicate] at hx
      omega
    · simp only [hn, hl, ↓reduceIte, List.mem_map] at hx
      obtain ⟨k, _, rfl⟩ := hx
      exact Nat.mod_lt _ (by omega)

theorem prfCallE_ok (bound keyLen : ℕ) (xof : ℕ → List ℕ) (n : Option ℕ) (hb : 1 ≤ bound) :
    prfCallE bound keyLen xof n
      = .ok (prfPost bound keyLen (xof (n.getD 1 * byteLength bound keyLen)) (n.getD 1)) := by
  unfold prfCallE
  have : ¬ (bound = 0 ∧ n.getD 1 ≠ 0) := by omega
  simp [this]

/-! ### prefix consistency -/

lemma take_drop_take {α : Type} (L : List α) (a l b : ℕ) (h : a + l ≤ b) :
    ((L.take b).drop a).take l = (L.drop a).take l := by
  rw [List.drop_take, List.take_take]
  congr 1
  omega

/-- the XOF prefix property assumed of `shake_128(...).digest` -/
def XofPrefix (xof : ℕ → List ℕ) : Prop := ∀ a b, a ≤ b → xof a = (xof b).take a

/-- requesting fewer values gives a prefix of the longer answer -/
theorem prfPost_prefix (bound keyLen : ℕ) (xof : ℕ → List ℕ) (hx : XofPrefix xof) {n' n : ℕ}
    (hn : n' ≤ n) :
    prfPost bound keyLen (xof (n' * byteLength bound keyLen)) n'
      = (prfPost bound keyLen (xof (n * byteLength bound keyLen)) n).take n' := by
  unfold prfPost
  by_cases hn' : n' = 0
  · simp [hn']
  · have hn0 : n ≠ 0 := by omega
    by_cases hl : byteLength bound keyLen = 0
    · simp only [hn', hn0, hl, ↓reduceIte, List.take_replicate]
      congr 1; omega
    · simp only [hn', hn0, hl, ↓reduceIte]
      rw [← List.map_take, List.take_range, Nat.min_eq_left hn]
      apply List.map_congr_left
      intro k hk
      have hk' : k < n' := by simpa using hk
      rw [hx (n' * byteLength bound keyLen) (n * byteLength bound keyLen) (Nat.mul_le_mul_right _ hn),
        take_drop_take]
      calc k * byteLength bound keyLen + byteLength bound keyLen
          = (k + 1) * byteLength bound keyLen := by ring
        _ ≤ n' * byteLength bound keyLen := Nat.mul_le_mul_right _ hk'

/-! ### byte_length rule -/

lemma bitLength_lt (n : ℕ) : n < 2 ^ bitLength n := by
  unfold bitLength
  by_cases h : n = 0
  · simp [h]
  · simp only [h, ↓reduceIte]; exact Nat.lt_log2_self

lemma bitLength_two_pow_sub_one (e : ℕ) : bitLength (2 ^ e - 1) = e := by
  unfold bitLength
  cases e with
  | zero => simp
  | succ e =>
    have h1 : 2 ^ (e + 1) - 1 ≠ 0 := by
      have : 2 ^ (e + 1) ≥ 2 := by
        calc 2 ^ (e + 1) = 2 * 2 ^ e := by ring
          _ ≥ 2 * 1 := Nat.mul_le_mul_left _ (Nat.one_le_two_pow)
      omega
    simp only [h1, ↓reduceIte]
    have : (2 ^ (e + 1) - 1).log2 = e := by
      rw [Nat.log2_eq_iff h1]
      have : 2 ^ (e + 1) = 2 * 2 ^ e := by ring
      have h2 : 1 ≤ 2 ^ e := Nat.one_le_two_pow
      omega
    omega

theorem byteLength_one (keyLen : ℕ) : byteLength 1 keyLen = 0 := by
  simp [byteLength, bitLength]

/-- powers of two: no extra bytes -/
theorem byteLength_two_pow (e keyLen : ℕ) : byteLength (2 ^ e) keyLen = (e + 7) / 8 := by
  unfold byteLength
  have h0 : 2 ^ e ≠ 0 := by positivity
  have hz : 2 ^ e &&& (2 ^ e - 1) = 0 := (Nat.and_sub_one_eq_zero_iff_isPowerOfTwo h0).2 ⟨e, rfl⟩
  simp [hz, bitLength_two_pow_sub_one]

/-- other bounds: `len(key)` extra bytes -/
theorem byteLength_not_pow (bound keyLen : ℕ) (hb : 1 ≤ bound) (hnp : ∀ e, bound ≠ 2 ^ e) :
    byteLength bound keyLen = (bitLength (bound - 1) + 7) / 8 + keyLen := by
  unfold byteLength
  have h0 : bound ≠ 0 := by omega
  have hz : bound &&& (bound - 1) ≠ 0 := by
    intro h
    obtain ⟨e, he⟩ := (Nat.and_sub_one_eq_zero_iff_isPowerOfTwo h0).1 h
    exact hnp e he
  simp [h0, hz]

/-- the words are wide enough: `bound ≤ 256^l` (so every value of `range(bound)` can occur) -/
theorem bound_le_pow_byteLength (bound keyLen : ℕ) : bound ≤ 256 ^ byteLength bound keyLen := by
  by_cases h0 : bound = 0
  · simp [h0]
  have h1 : bound ≤ 2 ^ bitLength (bound - 1) := by
    have := bitLength_lt (bound - 1); omega
  have h2 : (2 : ℕ) ^ bitLength (bound - 1) ≤ 256 ^ ((bitLength (bound - 1) + 7) / 8) := by
    rw [show (256 : ℕ) = 2 ^ 8 by norm_num, ← pow_mul]
    exact Nat.pow_le_pow_right (by norm_num) (by omega)
  have h3 : (256 : ℕ) ^ ((bitLength (bound - 1) + 7) / 8) ≤ 256 ^ byteLength bound keyLen := by
    apply Nat.pow_le_pow_right (by norm_num)
    unfold byteLength
    simp only [h0, ↓reduceIte]
    split <;> omega
  omega

/-- for a power of two the bound divides the number of `l`-byte words, so reducing a uniform word
`% bound` is exactly uniform -/
theorem two_pow_dvd_pow_byteLength (e keyLen : ℕ) : 2 ^ e ∣ 256 ^ byteLength (2 ^ e) keyLen := by
  rw [byteLength_two_pow, show (256 : ℕ) = 2 ^ 8 by norm_num, ← pow_mul]
  exact pow_dvd_pow 2 (by omega)

/-- for other bounds the words have `len(key)` spare bytes: `bound · 256^keyLen ≤ 256^l`
(statistical distance from uniform at most `256^-keyLen`) -/
theorem bound_mul_le_pow_byteLength (bound keyLen : ℕ) (hb : 1 ≤ bound) (hnp : ∀ e, bound ≠ 2 ^ e) :
    bound * 256 ^ keyLen ≤ 256 ^ byteLength bound keyLen := by
  rw [byteLength_not_pow bound keyLen hb hnp, pow_add]
  apply Nat.mul_le_mul_right
  have h1 : bound ≤ 2 ^ bitLength (bound - 1) := by
    have := bitLength_lt (bound - 1); omega
  have h2 : (2 : ℕ) ^ bitLength (bound - 1) ≤ 256 ^ ((bitLength (bound - 1) + 7) / 8) := by
    rw [show (256 : ℕ) = 2 ^ 8 by norm_num, ← pow_mul]
    exact Nat.pow_le_pow_right (by norm_num) (by omega)
  omega

/-! ### shapes -/

theorem shapeCount_eq_prod (shape : List ℕ) : shapeCount shape = shape.prod := by
  unfold shapeCount
  have : ∀ (l : List ℕ) (a : ℕ), l.foldl (· * ·) a = a * l.prod := by
    intro l
    induction l with
    | nil => simp
    | cons x l ih => intro a; simp [ih, mul_assoc]
  simp [this]

end MpycV.Thresha
