import MpycV.Lemmas.NumThBasic
import Mathlib.NumberTheory.LegendreSymbol.JacobiSymbol

namespace MpycV.NumTh
open NumberTheorySymbols

/-! ### jacobi -/

theorem jacobi_two_pow (y t : Nat) (hy : y % 2 = 1) :
    J(((2 : Int) ^ t) | y) = if t % 2 = 1 ∧ (y % 8 = 3 ∨ y % 8 = 5) then -1 else 1 := by
  rw [jacobiSym.pow_left, jacobiSym.at_two (Nat.odd_iff.mpr hy), ZMod.χ₈_nat_eq_if_mod_eight]
  have h8 : y % 8 = 1 ∨ y % 8 = 3 ∨ y % 8 = 5 ∨ y % 8 = 7 := by omega
  rw [if_neg (by omega)]
  rcases Nat.even_or_odd t with ⟨k, hk⟩ | ⟨k, hk⟩
  · have hc : ¬ (t % 2 = 1 ∧ (y % 8 = 3 ∨ y % 8 = 5)) := by omega
    rw [if_neg hc]
    split <;> simp [hk, ← two_mul, pow_mul]
  · by_cases h17 : y % 8 = 1 ∨ y % 8 = 7
    · have hc : ¬ (t % 2 = 1 ∧ (y % 8 = 3 ∨ y % 8 = 5)) := by omega
      rw [if_pos h17, if_neg hc]; simp
    · have hc : t % 2 = 1 ∧ (y % 8 = 3 ∨ y % 8 = 5) := by omega
      rw [if_neg h17, if_pos hc]
      rw [hk, pow_succ, pow_mul]; simp

theorem jacobiLoop_spec (fuel : Nat) (x : Int) (y : Nat) (j : Int) (hy : y % 2 = 1) (hf : y < fuel) :
    ∃ r, jacobiLoop fuel x (y : Int) j = .ok r ∧ (if r.1 ≠ 1 then 0 else r.2) = j * J(x | y) := by
  induction fuel generalizing x y j with
  | zero => omega
  | succ f ih =>
    have hypos : (0 : Int) < y := by omega
    have hmod0 : 0 ≤ x % (y : Int) := Int.emod_nonneg _ (by omega)
    have hmodlt : x % (y : Int) < y := Int.emod_lt_of_pos _ hypos
    simp only [jacobiLoop]
    by_cases h0 : x % (y : Int) = 0
    · rw [if_pos h0]
      refine ⟨_, rfl, ?_⟩
      simp only []
      rw [jacobiSym.mod_left, h0]
      by_cases h1 : y = 1
      · subst h1; simp [jacobiSym.one_right]
      · rw [jacobiSym.zero_left (by omega)]
        have : (y : Int) ≠ 1 := by omega
        simp [this]
    · rw [if_neg h0]
      set y1 : Nat := (x % (y : Int)).toNat with hy1
      have hy1c : (y1 : Int) = x % (y : Int) := Int.toNat_of_nonneg hmod0
      have hy1pos : y1 ≠ 0 := by omega
      set t := tz y1 with ht
      set y2 : Nat := y1 / 2 ^ t with hy2
      have hy2odd : y2 % 2 = 1 := div_two_pow_tz_odd y1 hy1pos
      have hfac : 2 ^ t * y2 = y1 := tz_mul_oddPart y1
      have hy2c : x % (y : Int) / 2 ^ t = (y2 : Int) := by
        rw [← hy1c, hy2]; push_cast; rfl
      have hy2lt : y2 < f := by
        have : y2 ≤ y1 := Nat.div_le_self _ _
        omega
      rw [hy2c]
      obtain ⟨r, hr1, hr2⟩ := ih (y : Int) y2
        (if (y2 : Int) % 4 ≠ 1 ∧ (y : Int) % 4 ≠ 1 then
          -(if t % 2 = 1 ∧ ((y : Int) % 8 = 3 ∨ (y : Int) % 8 = 5) then -j else j)
         else (if t % 2 = 1 ∧ ((y : Int) % 8 = 3 ∨ (y : Int) % 8 = 5) then -j else j)) hy2odd hy2lt
      refine ⟨r, hr1, ?_⟩
      rw [hr2]
      -- J(x | y) = J(2^t | y) * J(y2 | y), reciprocity for J(y2 | y)
      have hx : J(x | y) = J(((2 : Int) ^ t) | y) * J((y2 : Int) | y) := by
        rw [jacobiSym.mod_left, ← hy1c, ← jacobiSym.mul_left]
        congr 1
        rw [← hfac]; push_cast; ring
      have hrec := jacobiSym.quadratic_reciprocity_if (a := y2) (b := y) hy2odd hy
      rw [hx, jacobi_two_pow y t hy, ← hrec]
      have e1 : ((y2 : Int) % 4 ≠ 1 ∧ (y : Int) % 4 ≠ 1) ↔ (y2 % 4 = 3 ∧ y % 4 = 3) := by omega
      have e2 : (t % 2 = 1 ∧ ((y : Int) % 8 = 3 ∨ (y : Int) % 8 = 5)) ↔
          (t % 2 = 1 ∧ (y % 8 = 3 ∨ y % 8 = 5)) := by omega
      simp only [e1, e2]
      split <;> split <;> ring

theorem jacobi_ok (x y : Int) (hy : 0 < y) (hodd : y % 2 = 1) :
    jacobi x y = .ok (J(x | y.toNat)) := by
  have hc : (y.toNat : Int) = y := Int.toNat_of_nonneg (by omega)
  obtain ⟨r, h1, h2⟩ := jacobiLoop_spec (y.toNat + 1) x y.toNat 1 (by omega) (by omega)
  rw [hc] at h1
  simp only [jacobi]
  rw [if_neg (by simp; omega), h1]
  simp only []
  rw [h2]; simp

theorem jacobi_err (x y : Int) (h : ¬ (0 < y ∧ y % 2 = 1)) : jacobi x y = .error .valueError := by
  simp only [jacobi]
  rw [if_pos (by simpa using h)]

/-- (x | 2) -/
def kroneckerTwo (x : Int) : Int :=
  if x % 2 = 0 then 0 else if x % 8 = 1 ∨ x % 8 = 7 then 1 else -1

/-- The Kronecker symbol (x | y) by its extension rules: (x|0) = [|x| = 1], (x|-1) = sign, (x|2) as above,
multiplicative in y = u * 2^e * m with u = ±1 and m odd positive, (x|m) the Jacobi symbol. -/
def kroneckerSym (x y : Int) : Int :=
  if y = 0 then (if x.natAbs = 1 then 1 else 0)
  else
    (if y < 0 ∧ x < 0 then -1 else 1) * kroneckerTwo x ^ tz y.natAbs * J(x | y.natAbs / 2 ^ tz y.natAbs)

theorem two_factor (x k : Int) (e : Nat) (hx : ¬ x % 2 = 0) :
    (if e % 2 = 1 ∧ (x % 8 = 3 ∨ x % 8 = 5) then -k else k) = k * kroneckerTwo x ^ e := by
  unfold kroneckerTwo
  rw [if_neg hx]
  have h8 : x % 8 = 1 ∨ x % 8 = 3 ∨ x % 8 = 5 ∨ x % 8 = 7 := by omega
  by_cases h17 : x % 8 = 1 ∨ x % 8 = 7
  · have hc : ¬ (e % 2 = 1 ∧ (x % 8 = 3 ∨ x % 8 = 5)) := by omega
    rw [if_neg hc, if_pos h17]; simp
  · rw [if_neg h17]
    rcases Nat.even_or_odd e with ⟨k', hk⟩ | ⟨k', hk⟩
    · have hc : ¬ (e % 2 = 1 ∧ (x % 8 = 3 ∨ x % 8 = 5)) := by omega
      rw [if_neg hc, hk, ← two_mul, pow_mul]; simp
    · have hc : (e % 2 = 1 ∧ (x % 8 = 3 ∨ x % 8 = 5)) := by omega
      rw [if_pos hc, hk, pow_succ, pow_mul]; simp

/-- the part of `kronecker` after the y = 0 and y < 0 steps -/
def kronTail (x k y : Int) : Except Err Int :=
  let (k, y) :=
    if y % 2 = 0 then
      let t := tz y.toNat
      let k := if x % 2 = 0 then 0
               else if t % 2 = 1 ∧ (x % 8 = 3 ∨ x % 8 = 5) then -k else k
      (k, y / 2 ^ t)
    else (k, y)
  match jacobi x y with
  | .error e => .error e
  | .ok j => .ok (k * j)

def kronPre (x y : Int) : Int × Int :=
  let k : Int := 1
  let (k, y) := if y = 0 then ((if x.natAbs ≠ 1 then 0 else k), (1 : Int)) else (k, y)
  if y < 0 then ((if x < 0 then -k else k), -y) else (k, y)

theorem kronecker_unfold (x y : Int) : kronecker x y = kronTail x (kronPre x y).1 (kronPre x y).2 := by
  unfold kronecker kronTail kronPre
  rfl

theorem kronTail_spec (x k : Int) (n : Nat) (hn : n ≠ 0) :
    kronTail x k (n : Int) = .ok (k * kroneckerTwo x ^ tz n * J(x | n / 2 ^ tz n)) := by
  have hmodd : (n / 2 ^ tz n) % 2 = 1 := div_two_pow_tz_odd n hn
  obtain ⟨m, hm⟩ : ∃ m : Nat, m = n / 2 ^ tz n := ⟨_, rfl⟩
  rw [← hm] at hmodd ⊢
  have hjac : jacobi x (m : Int) = .ok (J(x | m)) := by
    rw [jacobi_ok x _ (by omega) (by omega)]; simp
  unfold kronTail
  by_cases heven : (n : Int) % 2 = 0
  · have hepos : 0 < tz n := tz_pos_of_even n hn (by omega)
    have hdiv : (n : Int) / 2 ^ tz n = (m : Int) := by rw [hm]; push_cast; rfl
    simp only [if_pos heven, Int.toNat_natCast, hdiv, hjac]
    by_cases hx2 : x % 2 = 0
    · simp [hx2, kroneckerTwo, zero_pow (by omega : tz n ≠ 0)]
    · rw [if_neg hx2, two_factor x k _ hx2]
  · have he0 : tz n = 0 := tz_odd n (by omega)
    have hmn : m = n := by rw [hm, he0]; simp
    simp only [if_neg heven]
    rw [he0, ← hmn, hjac]
    simp

theorem kronecker_ok (x y : Int) : kronecker x y = .ok (kroneckerSym x y) := by
  rw [kronecker_unfold]
  unfold kronPre kroneckerSym
  by_cases hy0 : y = 0
  · subst hy0
    have h1 := kronTail_spec x (if x.natAbs ≠ 1 then 0 else 1) 1 (by omega)
    have ht : tz 1 = 0 := tz_odd 1 (by omega)
    simp only [ht, pow_zero, Nat.div_one, mul_one, jacobiSym.one_right, Nat.cast_one] at h1
    simp only [if_true, if_neg (by omega : ¬ ((1 : Int) < 0))]
    rw [h1]
    by_cases hx : x.natAbs = 1 <;> simp [hx]
  · simp only [if_neg hy0]
    by_cases hneg : y < 0
    · have hy' : -y = (y.natAbs : Int) := by omega
      simp only [if_pos hneg, hy']
      rw [kronTail_spec x _ y.natAbs (by omega)]
      by_cases hx : x < 0 <;> simp [hx, hneg]
    · have hy' : y = (y.natAbs : Int) := by omega
      simp only [if_neg hneg]
      rw [hy', kronTail_spec x _ y.natAbs (by omega)]
      simp only [Int.natAbs_natCast]
      have : ¬ ((y.natAbs : Int) < 0 ∧ x < 0) := by omega
      rw [if_neg this]

end MpycV.NumTh
