/-
random_split / recombine inverse, f_S polynomials, PRSS consistency over an arbitrary Mathlib field.
-/
import MpycV.Lemmas.Thresha

open Polynomial Finset

namespace MpycV.Thresha

variable {F : Type} [Field F]

/-! ### random_split: entries are values of the sharing polynomials -/

omit [Field F] in
lemma length_randomSplit (o : FieldOps F) (s coeffs : List F) (t m : ℕ) :
    (randomSplit o s coeffs t m).length = m := by simp [randomSplit]

omit [Field F] in
lemma randomSplit_row (o : FieldOps F) (s coeffs : List F) (t m : ℕ) {i : ℕ} (hi : i < m) :
    (randomSplit o s coeffs t m).getD i []
      = s.zipIdx.map fun (sh : F × ℕ) => shareAt o sh.1 (coeffsFor coeffs t sh.2) (i + 1) := by
  rw [getD_lt _ _ (by simpa [randomSplit] using hi)]
  simp [randomSplit]

omit [Field F] in
lemma randomSplit_entry (o : FieldOps F) (s coeffs : List F) (t m : ℕ) {i h : ℕ} (hi : i < m)
    (hh : h < s.length) (d d' : F) :
    ((randomSplit o s coeffs t m).getD i []).getD h d
      = shareAt o (s.getD h d') (coeffsFor coeffs t h) (i + 1) := by
  rw [randomSplit_row o s coeffs t m hi, getD_lt _ _ (by simpa using hh), getD_lt _ _ hh]
  simp

/-- party `i` (0-based) holds the value at `emb (i+1)` of the sharing polynomial of each secret -/
theorem randomSplit_eq_eval (emb : ℕ → F) (s coeffs : List F) (t m : ℕ) {i h : ℕ} (hi : i < m)
    (hh : h < s.length) :
    ((randomSplit (fieldOps F emb) s coeffs t m).getD i []).getD h 0
      = (sharePoly (s.getD h 0) (coeffsFor coeffs t h)).eval (emb (i + 1)) := by
  rw [randomSplit_entry _ s coeffs t m hi hh 0 0, shareAt_eq_eval]

omit [Field F] in
lemma nodup_map_emb {emb : ℕ → F} {m : ℕ} (hemb : Set.InjOn emb (Set.Iic m)) {ps : List ℕ}
    (hps : ps.Nodup) (hpm : ∀ i ∈ ps, i < m) : (ps.map fun i => emb (i + 1)).Nodup := by
  refine List.Nodup.map_on ?_ hps
  intro a ha b hb hab
  have := hemb (show a + 1 ∈ Set.Iic m from by simpa using hpm a ha)
    (show b + 1 ∈ Set.Iic m from by simpa using hpm b hb) hab
  omega

/-- ★ `recombine_split` (batch form): for any field, any embedding of the party numbers that is injective
on `0..m`, any secrets and coefficients, any threshold `t` and any list `ps` of more than `t` distinct
parties, recombining the shares of these parties at the points `xrs` yields the values of the sharing
polynomials at these points. -/
theorem recombine_randomSplit (emb : ℕ → F) {m : ℕ} (hemb : Set.InjOn emb (Set.Iic m))
    (s coeffs : List F) (t : ℕ) {ps : List ℕ} (hps : ps.Nodup) (hpm : ∀ i ∈ ps, i < m)
    (ht : t < ps.length) (xrs : List F) :
    recombine (fieldOps F emb) (ps.map fun i => emb (i + 1))
        (ps.map fun i => (randomSplit (fieldOps F emb) s coeffs t m).getD i []) xrs
      = xrs.map fun xr => (List.range s.length).map fun h =>
          (sharePoly (s.getD h 0) (coeffsFor coeffs t h)).eval xr := by
  have hne : ps ≠ [] := by rintro rfl; simp at ht
  obtain ⟨p0, ps', rfl⟩ := List.exists_cons_of_ne_nil hne
  have hp0 : p0 < m := hpm p0 (by simp)
  have hhead : ((List.map (fun i => (randomSplit (fieldOps F emb) s coeffs t m).getD i [])
      (p0 :: ps')).headD []).length = s.length := by
    simp only [List.map_cons, List.headD_cons]
    rw [randomSplit_row _ s coeffs t m hp0]
    simp
  have := recombine_eq_eval emb (xs := (p0 :: ps').map fun i => emb (i + 1))
    (shares := (p0 :: ps').map fun i => (randomSplit (fieldOps F emb) s coeffs t m).getD i []) xrs
    (fun h => sharePoly (s.getD h 0) (coeffsFor coeffs t h))
    (nodup_map_emb hemb hps hpm) (by simp) ?_
  · rw [this, hhead]
  · intro h hh
    rw [hhead] at hh
    refine ⟨degree_sharePoly_lt _ _ ?_, ?_⟩
    · have := length_coeffsFor_le coeffs t h
      simp only [List.length_map]; omega
    · intro i hi
      have hi' : i < (p0 :: ps').length := by simpa using hi
      have e1 : (List.map (fun i => (randomSplit (fieldOps F emb) s coeffs t m).getD i [])
          (p0 :: ps')).getD i [] = (randomSplit (fieldOps F emb) s coeffs t m).getD (p0 :: ps')[i] [] := by
        rw [getD_lt _ _ (by simpa using hi')]; simp only [List.getElem_map]
      have e2 : (List.map (fun i => emb (i + 1)) (p0 :: ps')).getD i 0 = emb ((p0 :: ps')[i] + 1) := by
        rw [getD_lt _ _ (by simpa using hi')]; simp only [List.getElem_map]
      rw [e1, e2]
      exact randomSplit_eq_eval emb s coeffs t m (hpm _ (List.getElem_mem _)) hh

/-- ★ `recombine_split`: recombination at 0 (`x_rs = 0`, the default) returns the secrets -/
theorem recombine_randomSplit_zero (emb : ℕ → F) (h0 : emb 0 = 0) {m : ℕ}
    (hemb : Set.InjOn emb (Set.Iic m)) (s coeffs : List F) (t : ℕ) {ps : List ℕ} (hps : ps.Nodup)
    (hpm : ∀ i ∈ ps, i < m) (ht : t < ps.length) :
    recombine1 (fieldOps F emb) (ps.map fun i => emb (i + 1))
        (ps.map fun i => (randomSplit (fieldOps F emb) s coeffs t m).getD i []) (emb 0) = s := by
  unfold recombine1
  rw [recombine_randomSplit emb hemb s coeffs t hps hpm ht, h0]
  simp only [List.map_cons, List.map_nil, List.headD_cons, sharePoly_eval_zero]
  apply List.ext_getElem (by simp)
  intro i h1 h2
  simp [List.getElem?_eq_getElem h2]

/-! ### f_S -/

omit [Field F] in
lemma mem_outside {m : ℕ} {S : List ℕ} {x : ℕ} : x ∈ outside m S ↔ x < m ∧ x ∉ S := by
  simp [outside]

omit [Field F] in
lemma nodup_outside (m : ℕ) (S : List ℕ) : (outside m S).Nodup :=
  List.Nodup.filter _ List.nodup_range

/-- nodes used by `_f_S_i`: 0 and the parties outside S -/
def fSnodes (emb : ℕ → F) (m : ℕ) (S : List ℕ) : List F :=
  emb 0 :: (outside m S).map fun x => emb (x + 1)

omit [Field F] in
lemma nodup_fSnodes {emb : ℕ → F} {m : ℕ} (hemb : Set.InjOn emb (Set.Iic m)) (S : List ℕ) :
    (fSnodes emb m S).Nodup := by
  unfold fSnodes
  rw [List.nodup_cons]
  refine ⟨?_, nodup_map_emb hemb (nodup_outside m S) (fun i hi => (mem_outside.1 hi).1)⟩
  intro h
  obtain ⟨x, hx, hx0⟩ := List.mem_map.1 h
  have := hemb (show x + 1 ∈ Set.Iic m from by simpa using (mem_outside.1 hx).1)
    (show 0 ∈ Set.Iic m from by simp) hx0
  omega

/-- the polynomial f_S: the Lagrange interpolant through (0,1) and (x+1,0) for x outside S -/
noncomputable def fSpoly (emb : ℕ → F) (m : ℕ) (S : List ℕ) : F[X] :=
  Lagrange.interpolate (range (fSnodes emb m S).length) (node (fSnodes emb m S))
    (fun j => if j = 0 then 1 else 0)

omit [Field F] in
lemma length_fSnodes (emb : ℕ → F) (m : ℕ) (S : List ℕ) :
    (fSnodes emb m S).length = (outside m S).length + 1 := by simp [fSnodes]

lemma degree_fSpoly_lt {emb : ℕ → F} {m : ℕ} (hemb : Set.InjOn emb (Set.Iic m)) (S : List ℕ) :
    (fSpoly emb m S).degree < (fSnodes emb m S).length := by
  have := Lagrange.degree_interpolate_lt (s := range (fSnodes emb m S).length)
    (fun j => if j = 0 then (1 : F) else 0) (node_injOn (nodup_fSnodes hemb S))
  simpa [fSpoly] using this

lemma natDegree_fSpoly_le {emb : ℕ → F} {m : ℕ} (hemb : Set.InjOn emb (Set.Iic m)) (S : List ℕ) :
    (fSpoly emb m S).natDegree ≤ (outside m S).length := by
  by_cases h0 : fSpoly emb m S = 0
  · simp [h0]
  · have := degree_fSpoly_lt hemb S
    rw [degree_eq_natDegree h0, length_fSnodes] at this
    have : (fSpoly emb m S).natDegree < (outside m S).length + 1 := by exact_mod_cast this
    omega

lemma fSpoly_eval_node {emb : ℕ → F} {m : ℕ} (hemb : Set.InjOn emb (Set.Iic m)) (S : List ℕ)
    {j : ℕ} (hj : j < (fSnodes emb m S).length) :
    (fSpoly emb m S).eval ((fSnodes emb m S).getD j 0) = if j = 0 then 1 else 0 :=
  Lagrange.eval_interpolate_at_node (s := range (fSnodes emb m S).length)
    (fun j => if j = 0 then (1 : F) else 0) (node_injOn (nodup_fSnodes hemb S)) (by simpa using hj)

lemma fSpoly_eval_zero {emb : ℕ → F} {m : ℕ} (hemb : Set.InjOn emb (Set.Iic m)) (S : List ℕ) :
    (fSpoly emb m S).eval (emb 0) = 1 := by
  have := fSpoly_eval_node hemb S (j := 0) (by simp [fSnodes])
  simpa [fSnodes] using this

lemma fSpoly_eval_outside {emb : ℕ → F} {m : ℕ} (hemb : Set.InjOn emb (Set.Iic m)) (S : List ℕ)
    {x : ℕ} (hx : x < m) (hxS : x ∉ S) : (fSpoly emb m S).eval (emb (x + 1)) = 0 := by
  have hmem : x ∈ outside m S := mem_outside.2 ⟨hx, hxS⟩
  obtain ⟨k, hk, hkx⟩ := List.getElem_of_mem hmem
  have := fSpoly_eval_node hemb S (j := k + 1) (by simp [fSnodes]; omega)
  simpa [fSnodes, List.getD_eq_getElem?_getD, hk, hkx] using this

/-- the model's `fSi` is the value of `fSpoly` at the party's point -/
theorem fSi_eq_eval {emb : ℕ → F} {m : ℕ} (hemb : Set.InjOn emb (Set.Iic m)) (i : ℕ) (S : List ℕ) :
    fSi (fieldOps F emb) m i S = (fSpoly emb m S).eval (emb (i + 1)) := by
  unfold fSi recombine1
  have := recombine_eq_eval emb (xs := fSnodes emb m S)
    (shares := [1] :: (outside m S).map fun _ => [(0 : F)]) [emb (i + 1)]
    (fun _ => fSpoly emb m S) (nodup_fSnodes hemb S) (by simp [fSnodes]) ?_
  · simp only [fieldOps_ofNat, fieldOps_one, fieldOps_zero]
    rw [show (emb 0 :: List.map (fun x => emb (x + 1)) (outside m S)) = fSnodes emb m S from rfl,
      this]
    simp
  · intro h hh
    have hh0 : h = 0 := by simpa using hh
    subst hh0
    refine ⟨degree_fSpoly_lt hemb S, ?_⟩
    intro j hj
    rw [fSpoly_eval_node hemb S hj]
    cases j with
    | zero => simp
    | succ j =>
      have hj' : j < (outside m S).length := by simpa [fSnodes] using hj
      simp [List.getD_eq_getElem?_getD, hj']

/-- uniqueness part of ★ `fS_spec` -/
theorem fSpoly_unique {emb : ℕ → F} {m : ℕ} (hemb : Set.InjOn emb (Set.Iic m)) (S : List ℕ)
    (g : F[X]) (hdeg : g.natDegree ≤ (outside m S).length) (h0 : g.eval (emb 0) = 1)
    (hout : ∀ x, x < m → x ∉ S → g.eval (emb (x + 1)) = 0) : g = fSpoly emb m S := by
  refine Lagrange.eq_interpolate_of_eval_eq _ (node_injOn (nodup_fSnodes hemb S)) ?_ ?_
  · rw [card_range, length_fSnodes]
    exact lt_of_le_of_lt degree_le_natDegree (by exact_mod_cast Nat.lt_succ_of_le hdeg)
  · intro j hj
    have hj' : j < (outside m S).length + 1 := by simpa [length_fSnodes] using hj
    cases j with
    | zero => simpa [node, fSnodes] using h0
    | succ j =>
      have hj'' : j < (outside m S).length := by omega
      have hmem := mem_outside.1 (List.getElem_mem hj'')
      simpa [node, fSnodes, List.getD_eq_getElem?_getD, hj''] using hout _ hmem.1 hmem.2

/-! ### PRSS -/

lemma foldl_add_eq_sum {α : Type} (emb : ℕ → F) (g : α → F) (L : List α) (acc : F) :
    L.foldl (fun acc x => (fieldOps F emb).add acc (g x)) acc = acc + (L.map g).sum := by
  induction L generalizing acc with
  | nil => simp
  | cons a L ih => rw [List.foldl_cons, ih]; simp [add_assoc]

lemma sum_filter_of_zero {α : Type} (p : α → Bool) (g : α → F) (L : List α)
    (hz : ∀ x ∈ L, p x = false → g x = 0) : ((L.filter p).map g).sum = (L.map g).sum := by
  induction L with
  | nil => simp
  | cons a L ih =>
    have ih' := ih (fun x hx => hz x (List.mem_cons_of_mem _ hx))
    by_cases hp : p a = true
    · simp [hp, ih']
    · have : p a = false := by simpa using hp
      simp [this, ih', hz a (by simp) this]

lemma eval_list_sum' (x : F) (L : List F[X]) : (L.sum).eval x = (L.map (eval x)).sum := by
  induction L with
  | nil => simp
  | cons a L ih => simp [ih]

lemma natDegree_list_sum_le' (t : ℕ) (L : List F[X]) (h : ∀ p ∈ L, p.natDegree ≤ t) :
    L.sum.natDegree ≤ t := by
  induction L with
  | nil => simp
  | cons a L ih =>
    rw [List.sum_cons]
    refine (natDegree_add_le _ _).trans (max_le (h a (by simp)) (ih fun p hp => h p ?_))
    exact List.mem_cons_of_mem _ hp

/-- the PRSS sharing polynomial of batch entry `h`: `Σ_S r_S[h] · f_S` -/
noncomputable def prssPoly (emb : ℕ → F) (m : ℕ) (all : List (List ℕ × List F)) (h : ℕ) : F[X] :=
  (all.map fun Sp => C (Sp.2.getD h 0) * fSpoly emb m Sp.1).sum

/-- the keys/PRF outputs held by party `i`: those of the subsets containing `i` -/
def prfsOf (i : ℕ) (all : List (List ℕ × List F)) : List (List ℕ × List F) :=
  all.filter fun Sp => Sp.1.contains i

lemma prssShare_eq_sum (emb : ℕ → F) (m i : ℕ) (prfs : List (List ℕ × List F)) (n : ℕ) :
    prssShare (fieldOps F emb) m i prfs n = (List.range n).map fun h =>
      (prfs.map fun Sp => Sp.2.getD h 0 * fSi (fieldOps F emb) m i Sp.1).sum := by
  unfold prssShare
  apply List.map_congr_left
  intro h _
  rw [foldl_add_eq_sum emb (fun Sp : List ℕ × List F =>
    (fieldOps F emb).mul (Sp.2.getD h (fieldOps F emb).zero) (fSi (fieldOps F emb) m i Sp.1))]
  simp

/-- ★ `prss_consistent`, share part: party `i`, using only the PRFs of the subsets it belongs to, obtains
the value at `emb (i+1)` of the common polynomial `prssPoly`. -/
theorem prssShare_eq_eval {emb : ℕ → F} {m : ℕ} (hemb : Set.InjOn emb (Set.Iic m))
    (all : List (List ℕ × List F)) (n : ℕ) {i : ℕ} (hi : i < m) :
    prssShare (fieldOps F emb) m i (prfsOf i all) n
      = (List.range n).map fun h => (prssPoly emb m all h).eval (emb (i + 1)) := by
  rw [prssShare_eq_sum]
  apply List.map_congr_left
  intro h _
  unfold prfsOf prssPoly
  rw [sum_filter_of_zero, eval_list_sum', List.map_map]
  · congr 1
    apply List.map_congr_left
    intro Sp _
    simp [fSi_eq_eval hemb]
  · intro Sp _ hc
    have : i ∉ Sp.1 := by simpa using hc
    rw [fSi_eq_eval hemb, fSpoly_eval_outside hemb _ hi this, mul_zero]

theorem natDegree_prssPoly_le {emb : ℕ → F} {m : ℕ} (hemb : Set.InjOn emb (Set.Iic m))
    (all : List (List ℕ × List F)) (t : ℕ) (hall : ∀ Sp ∈ all, (outside m Sp.1).length ≤ t) (h : ℕ) :
    (prssPoly emb m all h).natDegree ≤ t := by
  apply natDegree_list_sum_le'
  intro p hp
  obtain ⟨Sp, hSp, rfl⟩ := List.mem_map.1 hp
  exact (natDegree_C_mul_le _ _).trans ((natDegree_fSpoly_le hemb Sp.1).trans (hall Sp hSp))

theorem prssPoly_eval_zero {emb : ℕ → F} {m : ℕ} (hemb : Set.InjOn emb (Set.Iic m))
    (all : List (List ℕ × List F)) (h : ℕ) :
    (prssPoly emb m all h).eval (emb 0) = (all.map fun Sp => Sp.2.getD h 0).sum := by
  unfold prssPoly
  rw [eval_list_sum', List.map_map]
  congr 1
  apply List.map_congr_left
  intro Sp _
  simp [fSpoly_eval_zero hemb]

/-- the zero-sharing polynomial of batch entry `h`: `Σ_S f_S · (Σ_j r_{S,h·d+j} X^{d-j})`, `d = m - |S|` -/
noncomputable def prssZeroPoly (emb : ℕ → F) (m : ℕ) (all : List (List ℕ × List F)) (h : ℕ) : F[X] :=
  (all.map fun Sp =>
    hornerPoly ((Sp.2.drop (h * (m - Sp.1.length))).take (m - Sp.1.length)) * fSpoly emb m Sp.1).sum

lemma prssZero_eq_sum (emb : ℕ → F) (m i : ℕ) (prfs : List (List ℕ × List F)) (n : ℕ) :
    prssZero (fieldOps F emb) m i prfs n = (List.range n).map fun h =>
      (prfs.map fun Sp =>
        (hornerPoly ((Sp.2.drop (h * (m - Sp.1.length))).take (m - Sp.1.length))).eval (emb (i + 1))
          * fSi (fieldOps F emb) m i Sp.1).sum := by
  unfold prssZero
  apply List.map_congr_left
  intro h _
  rw [foldl_add_eq_sum emb (fun Sp : List ℕ × List F =>
    (fieldOps F emb).mul (horner (fieldOps F emb)
      ((Sp.2.drop (h * (m - Sp.1.length))).take (m - Sp.1.length)) ((fieldOps F emb).ofNat (i + 1)))
      (fSi (fieldOps F emb) m i Sp.1))]
  simp [horner_eq_eval]

/-- ★ `prss_zero_consistent`, share part -/
theorem prssZero_eq_eval {emb : ℕ → F} {m : ℕ} (hemb : Set.InjOn emb (Set.Iic m))
    (all : List (List ℕ × List F)) (n : ℕ) {i : ℕ} (hi : i < m) :
    prssZero (fieldOps F emb) m i (prfsOf i all) n
      = (List.range n).map fun h => (prssZeroPoly emb m all h).eval (emb (i + 1)) := by
  rw [prssZero_eq_sum]
  apply List.map_congr_left
  intro h _
  unfold prfsOf prssZeroPoly
  rw [sum_filter_of_zero, eval_list_sum', List.map_map]
  · congr 1
    apply List.map_congr_left
    intro Sp _
    simp [fSi_eq_eval hemb]
  · intro Sp _ hc
    have : i ∉ Sp.1 := by simpa using hc
    rw [fSi_eq_eval hemb, fSpoly_eval_outside hemb _ hi this, mul_zero]

theorem natDegree_prssZeroPoly_le {emb : ℕ → F} {m : ℕ} (hemb : Set.InjOn emb (Set.Iic m))
    (all : List (List ℕ × List F)) (t : ℕ)
    (hall : ∀ Sp ∈ all, (outside m Sp.1).length ≤ t ∧ m - Sp.1.length ≤ t) (h : ℕ) :
    (prssZeroPoly emb m all h).natDegree ≤ 2 * t := by
  apply natDegree_list_sum_le'
  intro p hp
  obtain ⟨Sp, hSp, rfl⟩ := List.mem_map.1 hp
  refine natDegree_mul_le.trans ?_
  have h1 := natDegree_hornerPoly_le
    ((Sp.2.drop (h * (m - Sp.1.length))).take (m - Sp.1.length))
  have h2 := natDegree_fSpoly_le hemb Sp.1
  have h3 := hall Sp hSp
  have h4 : ((Sp.2.drop (h * (m - Sp.1.length))).take (m - Sp.1.length)).length ≤ m - Sp.1.length := by
    simp [List.length_take]
  omega

theorem prssZeroPoly_eval_zero (emb : ℕ → F) (m : ℕ) (all : List (List ℕ × List F)) (h : ℕ) :
    (prssZeroPoly emb m all h).eval 0 = 0 := by
  unfold prssZeroPoly
  rw [eval_list_sum', List.map_map]
  apply List.sum_eq_zero
  intro x hx
  obtain ⟨Sp, _, rfl⟩ := List.mem_map.1 hx
  simp [hornerPoly_eval_zero]

omit [Field F] in
/-- for a subset given as a duplicate-free list of parties, exactly `m - |S|` parties are outside -/
lemma length_outside {m : ℕ} {S : List ℕ} (hnd : S.Nodup) (hS : ∀ x ∈ S, x < m) :
    (outside m S).length = m - S.length := by
  have h1 : (outside m S).toFinset = range m \ S.toFinset := by
    ext x; simp [mem_outside]
  have h2 : (outside m S).length = (outside m S).toFinset.card :=
    (List.toFinset_card_of_nodup (nodup_outside m S)).symm
  have h3 : S.toFinset ⊆ range m := by
    intro x hx; simpa using hS x (by simpa using hx)
  rw [h2, h1, card_sdiff_of_subset h3, card_range, List.toFinset_card_of_nodup hnd]

end MpycV.Thresha
