/-
Bridge, part 2: the translated `_mul`, `_sq` (Lemmas/GfpxSrcMirror.lean) equal the model `GFpX.mul`, `GFpX.sq`.

The translated code accumulates `c[i+j] += a_i*b_j` forward into a zero-initialised list, the model recurses from the
head (`convN`, `sqN`); both are compared through the integer polynomial `polyZ` of a list (equal length and equal
polynomial imply equal lists).
-/
import MpycV.Lemmas.GfpxSrcMirror
import MpycV.Lemmas.GfpxSrcLoops
import MpycV.Lemmas.GFpXRing
import Mathlib.Algebra.Polynomial.Basic
import Mathlib.Algebra.Polynomial.Coeff
import Mathlib.Tactic.Ring
import Mathlib.Tactic.Linarith

namespace MpycV.GfpxBridge
open MpycV.PyList MpycV.PyLoop MpycV.PyPoly MpycV.GFpX
open Polynomial

/-! ### the integer polynomial of a coefficient list -/

noncomputable def polyZ : List Int → Polynomial ℤ
  | [] => 0
  | x :: l => C x + X * polyZ l

@[simp] theorem polyZ_nil : polyZ [] = 0 := rfl
@[simp] theorem polyZ_cons (x : Int) (l : List Int) : polyZ (x :: l) = C x + X * polyZ l := rfl

theorem polyZ_replicate_zero (n : Nat) : polyZ (List.replicate n 0) = 0 := by
  induction n with
  | zero => rfl
  | succ n ih => simp [List.replicate_succ, ih]

/-- equal length and equal polynomial: equal lists -/
theorem polyZ_inj : ∀ (l₁ l₂ : List Int), l₁.length = l₂.length → polyZ l₁ = polyZ l₂ → l₁ = l₂ := by
  intro l₁
  induction l₁ with
  | nil => intro l₂ hl _; cases l₂ with
    | nil => rfl
    | cons y l₂ => simp at hl
  | cons x l₁ ih =>
    intro l₂ hl hp
    cases l₂ with
    | nil => simp at hl
    | cons y l₂ =>
      simp only [polyZ_cons] at hp
      have h0 : x = y := by
        have := congrArg (fun q => Polynomial.coeff q 0) hp
        simp only [coeff_add, coeff_C_zero, mul_coeff_zero, coeff_X_zero, zero_mul, add_zero] at this
        exact this
      have h1 : polyZ l₁ = polyZ l₂ := by
        ext n
        have := congrArg (fun q => Polynomial.coeff q (n + 1)) hp
        simp only [coeff_add, coeff_C_succ, coeff_X_mul, zero_add] at this
        exact this
      rw [h0, ih l₂ (by simpa using hl) h1]

/-- `c[h+j] += k*d[j]` adds `k X^h d` -/
theorem polyZ_updAt (k : Int) : ∀ (h : Nat) (c d : List Int), h + d.length ≤ c.length →
    polyZ (updAt (fun u y => u + k * y) h c d) = polyZ c + C k * X ^ h * polyZ d := by
  intro h
  induction h with
  | zero =>
    intro c d
    induction d generalizing c with
    | nil => intro _; rw [updAt_nil]; simp
    | cons y d ih =>
      intro hl
      cases c with
      | nil => simp at hl
      | cons x c =>
        simp only [updAt, polyZ_cons]
        rw [ih c (by simp at hl; omega)]
        simp only [C_add, C_mul, pow_zero, mul_one]
        ring
  | succ h ih =>
    intro c d hl
    cases c with
    | nil => simp at hl
    | cons x c =>
      simp only [updAt, polyZ_cons]
      rw [ih c d (by simp at hl; omega)]
      ring

/-- `c[h] += v` adds `v X^h` -/
theorem set_eq_updAt (h : Nat) (c : List Int) (v : Int) :
    c.set h (c.getD h 0 + v) = updAt (fun u y => u + 1 * y) h c [v] := by
  have := updAt_set_step (fun u y => u + 1 * y) h c v []
  rw [updAt_nil] at this
  simpa using this

theorem polyZ_set_add (h : Nat) (c : List Int) (v : Int) (hl : h < c.length) :
    polyZ (c.set h (c.getD h 0 + v)) = polyZ c + C v * X ^ h := by
  rw [set_eq_updAt, polyZ_updAt 1 h c [v] (by simpa using hl)]
  simp
  ring

/-! ### the polynomial of the model lists -/

theorem polyZ_up_zipAddN : ∀ (a b : List Nat), polyZ (up (zipAddN a b)) = polyZ (up a) + polyZ (up b) := by
  intro a
  induction a with
  | nil => intro b; simp [zipAddN]
  | cons x a ih =>
    intro b
    cases b with
    | nil => simp [zipAddN]
    | cons y b =>
      simp only [zipAddN, up_cons, polyZ_cons, ih, Nat.cast_add, C_add]
      ring

theorem polyZ_up_map_mul (c : Nat) (a : List Nat) :
    polyZ (up (a.map (c * ·))) = C (c : Int) * polyZ (up a) := by
  induction a with
  | nil => simp
  | cons x a ih =>
    simp only [List.map_cons, up_cons, polyZ_cons, ih, Nat.cast_mul, C_mul]
    ring

theorem polyZ_up_shift1 (a : List Nat) : polyZ (up (shift1 a)) = X * polyZ (up a) := by
  cases a <;> simp [shift1]

theorem polyZ_up_shift2 (a : List Nat) : polyZ (up (shift2 a)) = X * (X * polyZ (up a)) := by
  cases a <;> simp [shift2]

theorem polyZ_up_convN (a b : List Nat) : polyZ (up (convN a b)) = polyZ (up a) * polyZ (up b) := by
  induction a with
  | nil => simp [convN]
  | cons x a ih =>
    simp only [convN, polyZ_up_zipAddN, polyZ_up_map_mul, polyZ_up_shift1, ih, up_cons, polyZ_cons]
    ring

theorem polyZ_up_sqN (a : List Nat) : polyZ (up (sqN a)) = polyZ (up a) * polyZ (up a) := by
  induction a with
  | nil => simp [sqN]
  | cons x a ih =>
    simp only [sqN, polyZ_up_zipAddN, polyZ_up_shift2, ih, up_cons, polyZ_cons, polyZ_up_map_mul, Nat.cast_mul,
      C_mul, Nat.cast_ofNat]
    rw [show (C (2 : ℤ) : Polynomial ℤ) = 2 from rfl]
    ring

/-- reduction `% p` commutes with the embedding (also for `p = 0`) -/
theorem up_map_mod (p : Nat) (l : List Nat) : (up l).map (· % (p : Int)) = up (l.map (· % p)) := by
  simp [up, List.map_map, Function.comp_def]

/-! ### the loops without guards -/

/-- the inner loops `for j, y in enumerate(B): c[h+j] += m*y` -/
theorem inner_loop (h : Nat) (m : Int) (B c : List Int) (hl : h + B.length ≤ c.length) :
    pyFor (ε := TErr) (σ := List Int) (pyEnum B) c (fun it_ st_ => match it_, st_ with
      | (j, b_j), c =>
        if pyIdxOk c.length ((h : Int) + j) = false then .error .indexError else
        let c := pySet c ((h : Int) + j) ((pyGet c ((h : Int) + j)) + (m * b_j))
        .ok c) = .ok (updAt (fun u y => u + m * y) h c B) := by
  refine ((pyFor_eq_foldl (ε := TErr) (fun (s : List Int) => s.length = c.length)
    (fun s (ix : Int × Int) => s.set (h + ix.1.toNat) (s.getD (h + ix.1.toNat) 0 + m * ix.2))
    _ (pyEnum B) c rfl ?_).1).trans ?_
  · intro s ix hx hs
    rw [pyEnum_eq] at hx
    simp only [List.mem_map] at hx
    obtain ⟨⟨v, j⟩, hmem, rfl⟩ := hx
    have hj : j < B.length := by
      have := (List.mem_zipIdx hmem).2.1
      simpa using this
    have hjs : h + j < s.length := by rw [hs]; omega
    refine ⟨?_, by simp [hs]⟩
    have e : (h : Int) + (j : Int) = ((h + j : Nat) : Int) := by push_cast; rfl
    simp only [Int.toNat_natCast, e, pyIdxOk_nat hjs, pyGet_nat, pySet_nat, Bool.true_eq_false, if_false]
  · rw [pyEnum_eq, List.foldl_map]
    have := foldl_enum_set (fun u y => u + m * y) h B 0 c
    simp only [Nat.add_zero, Int.toNat_natCast] at this ⊢
    rw [this]

/-- the final pass `for i in range(len(c)): c[i] %= p` -/
theorem mod_loop (p : Int) (c : List Int) :
    pyFor (ε := TErr) (σ := List Int) (pyRange 0 (c.length : Int)) c (fun it_ st_ => match it_, st_ with
      | i, c =>
        if pyIdxOk c.length i = false then .error .indexError else
        let c := pySet c i ((pyGet c i) % p)
        .ok c) = .ok (c.map (· % p)) := by
  refine ((pyFor_eq_foldl (ε := TErr) (fun (s : List Int) => s.length = c.length)
    (fun s (i : Int) => s.set i.toNat (s.getD i.toNat 0 % p))
    _ (pyRange 0 (c.length : Int)) c rfl ?_).1).trans ?_
  · intro s i hx hs
    rw [pyRange_zero_nat] at hx
    simp only [List.mem_map, List.mem_range] at hx
    obtain ⟨j, hj, rfl⟩ := hx
    have hjs : j < s.length := by rw [hs]; exact hj
    refine ⟨?_, by simp [hs]⟩
    simp only [Int.toNat_natCast, pyIdxOk_nat hjs, pyGet_nat, pySet_nat, Bool.true_eq_false, if_false]
  · rw [pyRange_zero_nat, List.foldl_map]
    have := foldl_range_set (fun x => x % p) c.length c (Nat.le_refl _)
    simp only [Int.toNat_natCast] at this ⊢
    rw [this, mapFirst_length]

/-! ### mul: the double loop -/

/-- one pass of the outer loop of `_mul` -/
def mulStep (B : List Int) (c : List Int) (x : Int) (i : Nat) : List Int :=
  if x ≠ 0 then updAt (fun u y => u + x * y) i c B else c

theorem mulStep_spec (B c : List Int) (x : Int) (i : Nat) (hl : i + B.length ≤ c.length) :
    (mulStep B c x i).length = c.length ∧ polyZ (mulStep B c x i) = polyZ c + C x * X ^ i * polyZ B := by
  unfold mulStep
  by_cases hx : x = 0
  · simp [hx]
  · rw [if_pos hx]
    exact ⟨length_updAt _ i c B hl, polyZ_updAt x i c B hl⟩

theorem mul_fold (B : List Int) : ∀ (A : List Int) (k : Nat) (c : List Int), k + A.length + B.length ≤ c.length + 1 →
    ((A.zipIdx k).foldl (fun s xk => mulStep B s xk.1 xk.2) c).length = c.length ∧
    polyZ ((A.zipIdx k).foldl (fun s xk => mulStep B s xk.1 xk.2) c) = polyZ c + X ^ k * polyZ A * polyZ B := by
  intro A
  induction A with
  | nil => intro k c _; simp
  | cons x A ih =>
    intro k c hl
    simp only [List.length_cons] at hl
    obtain ⟨h1, h2⟩ := mulStep_spec B c x k (by omega)
    obtain ⟨h3, h4⟩ := ih (k + 1) (mulStep B c x k) (by rw [h1]; omega)
    simp only [List.zipIdx_cons, List.foldl_cons]
    refine ⟨by rw [h3, h1], ?_⟩
    rw [h4, h2, polyZ_cons]
    ring

theorem mul_fold_eq (a b : List Nat) (ha : a ≠ []) (hb : b ≠ []) :
    ((up a).zipIdx).foldl (fun s xk => mulStep (up b) s xk.1 xk.2) (List.replicate (a.length + b.length - 1) 0)
      = up (convN a b) := by
  have hal := List.length_pos_of_ne_nil ha
  obtain ⟨h1, h2⟩ := mul_fold (up b) (up a) 0 (List.replicate (a.length + b.length - 1) 0)
    (by simp; omega)
  apply polyZ_inj
  · rw [h1, up_length, length_convN ha hb, List.length_replicate]
  · rw [h2, polyZ_replicate_zero, polyZ_up_convN]
    ring

theorem mul_outer (A B c : List Int) (hl : A.length + B.length ≤ c.length + 1) :
    pyFor (ε := TErr) (σ := List Int) (pyEnum A) c (fun it_ st_ => match it_, st_ with
        | (i, a_i), c =>
          if a_i ≠ 0 then
            match pyFor (ε := TErr) (σ := List Int) (pyEnum B) c (fun it_ st_ => match it_, st_ with
                | (j, b_j), c =>
                  if pyIdxOk c.length (i + j) = false then .error .indexError else
                  let c := pySet c (i + j) ((pyGet c (i + j)) + (a_i * b_j))
                  .ok c) with
            | .error exc_ => .error exc_
            | .ok c =>
              .ok c
          else
            .ok c) = .ok ((A.zipIdx).foldl (fun s xk => mulStep B s xk.1 xk.2) c) := by
  refine ((pyFor_eq_foldl (ε := TErr) (fun (s : List Int) => s.length = c.length)
    (fun s (ix : Int × Int) => mulStep B s ix.2 ix.1.toNat)
    _ (pyEnum A) c rfl ?_).1).trans ?_
  · intro s ix hx hs
    rw [pyEnum_eq] at hx
    simp only [List.mem_map] at hx
    obtain ⟨⟨v, j⟩, hmem, rfl⟩ := hx
    have hj : j < A.length := by
      have := (List.mem_zipIdx hmem).2.1
      simpa using this
    have hjs : j + B.length ≤ s.length := by rw [hs]; omega
    refine ⟨?_, by simp only [Int.toNat_natCast]; rw [(mulStep_spec B s v j hjs).1, hs]⟩
    have hin := inner_loop j v B s hjs
    simp only [Int.toNat_natCast]
    unfold mulStep
    by_cases hv : v = 0
    · simp only [hv, ne_eq, not_true_eq_false, if_false]
    · simp only [hv, ne_eq, not_false_eq_true, if_true]
      rw [hin]
  · rw [pyEnum_eq, List.foldl_map]
    simp only [Int.toNat_natCast]

theorem mul_swap (p : Int) (A B : List Int) (h : A.length > B.length) :
    GfpxMirror.mul p false A B = GfpxMirror.mul p false B A := by
  have h1 : (A.length : Int) > (B.length : Int) := by exact_mod_cast h
  have h2 : ¬ (B.length : Int) > (A.length : Int) := by omega
  unfold GfpxMirror.mul
  simp only [h1, h2, if_true, if_false]
  rfl

/-- `_mul` without the swap -/
theorem mul_le_eq (p : Nat) (a b : List Nat) (h : a.length ≤ b.length) :
    GfpxMirror.mul (p : Int) false (up a) (up b) = .ok (up (mulCore p a b)) := by
  have h' : ¬ ((up a).length : Int) > ((up b).length : Int) := by simp; omega
  unfold GfpxMirror.mul mulCore
  simp only [Bool.false_eq_true, if_false, h']
  by_cases ha : a = []
  · subst ha; simp
  · have hb : b ≠ [] := by
      intro hb; subst hb
      exact ha (List.eq_nil_of_length_eq_zero (by simpa using h))
    have hal := List.length_pos_of_ne_nil ha
    have ha' : ¬ ¬ (up a ≠ []) := by simpa [up_eq_nil] using ha
    have hn : (((up a).length : Int) + ((up b).length : Int) - 1).toNat = a.length + b.length - 1 := by
      simp only [up_length]; omega
    rw [if_neg ha', if_neg ha, hn]
    have key := mul_outer (up a) (up b) (List.replicate (a.length + b.length - 1) 0) (by simp; omega)
    erw [key]
    simp only
    rw [mul_fold_eq a b ha hb, mod_loop]
    simp only [up_map_mod]

/-- `_mul` of the pinned source (two distinct objects) = the model -/
theorem mul_eq (p : ℕ) (a b : List ℕ) :
    GfpxMirror.mul (p : Int) false (up a) (up b) = .ok (up (GFpX.mul p a b)) := by
  unfold GFpX.mul
  by_cases h : a.length > b.length
  · rw [if_pos h, mul_swap _ _ _ (by simpa using h), mul_le_eq p b a (by omega)]
  · rw [if_neg h, mul_le_eq p a b (by omega)]

/-! ### sq -/

/-- one pass of the outer loop of `_sq` (`A` the whole list, `x = A[i]`) -/
def sqStep (A : List Int) (c : List Int) (x : Int) (i : Nat) : List Int :=
  if x ≠ 0 then
    updAt (fun u y => u + x * 2 * y) (2 * i + 1) (c.set (2 * i) (c.getD (2 * i) 0 + x ^ 2)) (A.drop (i + 1))
  else c

theorem sqStep_spec (A c : List Int) (x : Int) (i : Nat) (hl : 2 * A.length ≤ c.length + 1) (hi : i < A.length) :
    (sqStep A c x i).length = c.length ∧
    polyZ (sqStep A c x i) = polyZ c + C (x ^ 2) * X ^ (2 * i) + C (x * 2) * X ^ (2 * i + 1) * polyZ (A.drop (i + 1)) := by
  unfold sqStep
  by_cases hx : x = 0
  · simp [hx]
  · rw [if_pos hx]
    have h1 : 2 * i + 1 + (A.drop (i + 1)).length ≤ (c.set (2 * i) (c.getD (2 * i) 0 + x ^ 2)).length := by
      simp only [List.length_drop, List.length_set]; omega
    refine ⟨?_, ?_⟩
    · rw [length_updAt _ _ _ _ h1, List.length_set]
    · rw [polyZ_updAt (x * 2) _ _ _ h1, polyZ_set_add _ _ _ (by omega)]

theorem sq_fold (A : List Int) : ∀ (A' : List Int) (k : Nat) (c : List Int), A.drop k = A' →
    2 * A.length ≤ c.length + 1 →
    ((A'.zipIdx k).foldl (fun s xk => sqStep A s xk.1 xk.2) c).length = c.length ∧
    polyZ ((A'.zipIdx k).foldl (fun s xk => sqStep A s xk.1 xk.2) c)
      = polyZ c + X ^ (2 * k) * polyZ A' * polyZ A' := by
  intro A'
  induction A' with
  | nil => intro k c _ _; simp
  | cons x A' ih =>
    intro k c hd hl
    have hk : k < A.length := by
      by_contra hk
      rw [List.drop_eq_nil_of_le (by omega)] at hd
      exact List.cons_ne_nil _ _ hd.symm
    have hd' : A.drop (k + 1) = A' := by
      rw [← List.drop_drop, hd]; rfl
    obtain ⟨h1, h2⟩ := sqStep_spec A c x k hl hk
    obtain ⟨h3, h4⟩ := ih (k + 1) (sqStep A c x k) hd' (by rw [h1]; exact hl)
    simp only [List.zipIdx_cons, List.foldl_cons]
    refine ⟨by rw [h3, h1], ?_⟩
    rw [h4, h2, hd', polyZ_cons, C_mul, C_pow, show (C (2 : ℤ) : Polynomial ℤ) = 2 from rfl]
    ring

theorem sq_fold_eq (a : List Nat) (ha : a ≠ []) :
    ((up a).zipIdx).foldl (fun s xk => sqStep (up a) s xk.1 xk.2) (List.replicate (2 * a.length - 1) 0)
      = up (sqN a) := by
  have hal := List.length_pos_of_ne_nil ha
  obtain ⟨h1, h2⟩ := sq_fold (up a) (up a) 0 (List.replicate (2 * a.length - 1) 0) rfl
    (by simp; omega)
  apply polyZ_inj
  · rw [h1, up_length, length_sqN ha, List.length_replicate]
  · rw [h2, polyZ_replicate_zero, polyZ_up_sqN]
    ring

theorem pyShl_one (j : Nat) : pyShl (j : Int) 1 = ((2 * j : Nat) : Int) := by
  unfold pyShl
  have : (1 : Int).toNat = 1 := rfl
  rw [this]; push_cast; ring

theorem pyPow_two (v : Int) : pyPow v 2 = v ^ 2 := by
  unfold pyPow
  have : (2 : Int).toNat = 2 := rfl
  rw [this]

theorem pySliceFrom_succ (A : List Int) (j : Nat) : pySliceFrom A ((j : Int) + 1) = A.drop (j + 1) := by
  unfold pySliceFrom
  rw [if_neg (by omega)]
  congr 1

theorem sq_outer (A c : List Int) (hl : 2 * A.length ≤ c.length + 1) :
    pyFor (ε := TErr) (σ := List Int) (pyEnum A) c (fun it_ st_ => match it_, st_ with
        | (i, a_i), c =>
          if a_i ≠ 0 then
            let h := (pyShl i 1)
            if pyIdxOk c.length h = false then .error .indexError else
            let c := pySet c h ((pyGet c h) + (pyPow a_i 2))
            let h := (h + 1)
            let a_i_2 := (a_i * 2)
            match pyFor (ε := TErr) (σ := List Int) (pyEnum (pySliceFrom A (i + 1))) c (fun it_ st_ => match it_, st_ with
                | (j, a_j), c =>
                  if pyIdxOk c.length (h + j) = false then .error .indexError else
                  let c := pySet c (h + j) ((pyGet c (h + j)) + (a_i_2 * a_j))
                  .ok c) with
            | .error exc_ => .error exc_
            | .ok c =>
              .ok c
          else
            .ok c) = .ok ((A.zipIdx).foldl (fun s xk => sqStep A s xk.1 xk.2) c) := by
  refine ((pyFor_eq_foldl (ε := TErr) (fun (s : List Int) => s.length = c.length)
    (fun s (ix : Int × Int) => sqStep A s ix.2 ix.1.toNat)
    _ (pyEnum A) c rfl ?_).1).trans ?_
  · intro s ix hx hs
    rw [pyEnum_eq] at hx
    simp only [List.mem_map] at hx
    obtain ⟨⟨v, j⟩, hmem, rfl⟩ := hx
    have hj : j < A.length := by
      have := (List.mem_zipIdx hmem).2.1
      simpa using this
    have hls : 2 * A.length ≤ s.length + 1 := by rw [hs]; exact hl
    refine ⟨?_, by simp only [Int.toNat_natCast]; rw [(sqStep_spec A s v j hls hj).1, hs]⟩
    have h2j : 2 * j < s.length := by omega
    have e1 : ((2 * j : Nat) : Int) + 1 = ((2 * j + 1 : Nat) : Int) := by push_cast; rfl
    have hin := inner_loop (2 * j + 1) (v * 2) (A.drop (j + 1)) (s.set (2 * j) (s.getD (2 * j) 0 + v ^ 2))
      (by simp only [List.length_drop, List.length_set]; omega)
    simp only [Int.toNat_natCast]
    unfold sqStep
    by_cases hv : v = 0
    · simp only [hv, ne_eq, not_true_eq_false, if_false]
    · simp only [hv, ne_eq, not_false_eq_true, if_true, pyShl_one, e1, pyPow_two, pySliceFrom_succ,
        pyIdxOk_nat h2j, pyGet_nat, pySet_nat, Bool.true_eq_false, if_false]
      rw [hin]
  · rw [pyEnum_eq, List.foldl_map]
    simp only [Int.toNat_natCast]

/-- `_sq` of the pinned source = the model -/
theorem sq_eq (p : ℕ) (a : List ℕ) : GfpxMirror.sq (p : Int) (up a) = .ok (up (GFpX.sq p a)) := by
  unfold GfpxMirror.sq GFpX.sq
  by_cases ha : a = []
  · subst ha; simp [sqN]
  · have hal := List.length_pos_of_ne_nil ha
    have ha' : ¬ ¬ (up a ≠ []) := by simpa [up_eq_nil] using ha
    have hn : (2 * ((up a).length : Int) - 1).toNat = 2 * a.length - 1 := by
      simp only [up_length]; omega
    rw [if_neg ha', hn]
    have key := sq_outer (up a) (List.replicate (2 * a.length - 1) 0) (by simp; omega)
    simp only
    erw [key]
    simp only
    rw [sq_fold_eq a ha, mod_loop]
    simp only [up_map_mod]

/-- `_mul(a, a)` with `a is b` takes the squaring path -/
theorem mul_same_eq (p : ℕ) (a b : List ℕ) :
    GfpxMirror.mul (p : Int) true (up a) (up b) = .ok (up (GFpX.sq p a)) := by
  unfold GfpxMirror.mul
  rw [if_pos rfl, sq_eq]

end MpycV.GfpxBridge
