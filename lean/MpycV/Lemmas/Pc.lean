/-
Lemmas about the program-counter machine (MpycV.Model.Pc).
-/
import MpycV.Model.Pc

namespace MpycV.Pc

theorem taskRun_append (hop : Hop) (pc : PC) (a b : List Act) :
    taskRun hop pc (a ++ b) =
      ((taskRun hop (taskRun hop pc a).1 b).1, (taskRun hop pc a).2 ++ (taskRun hop (taskRun hop pc a).1 b).2) := by
  induction a generalizing pc with
  | nil => simp [taskRun]
  | cons x xs ih =>
    simp only [List.cons_append, taskRun]
    rw [ih]

/-- the counter never decreases along a task's own actions, and every fork/uci strictly increases it -/
theorem runAct_ctr_mono (hop : Hop) (pc : PC) (a : Act) :
    pc.ctr ≤ (runAct hop pc a).1.ctr ∧ (runAct hop pc a).1.depth = pc.depth := by
  cases a <;> simp [runAct] <;> omega

theorem taskRun_ctr_mono (hop : Hop) (pc : PC) (acts : List Act) :
    pc.ctr ≤ (taskRun hop pc acts).1.ctr ∧ (taskRun hop pc acts).1.depth = pc.depth := by
  induction acts generalizing pc with
  | nil => simp [taskRun]
  | cons a as ih =>
    simp only [taskRun]
    have h1 := runAct_ctr_mono hop pc a
    have h2 := ih (runAct hop pc a).1
    constructor
    · exact Int.le_trans h1.1 h2.1
    · rw [h2.2, h1.2]

/-- **denotational labelling**: the events of every task as a function of the per-task action
sequences `P` alone (no schedule anywhere): the root runs from pc (0,0); the j-th child of π runs from
the pc produced by π's j-th fork.  Paths are given in reverse (last fork index first). -/
def denRev (hop : Hop) (P : Path → List Act) : List Nat → List Ev
  | [] => (taskRun hop { ctr := 0, depth := 0 } (P [])).2
  | j :: ρ =>
    match childPc0 (denRev hop P ρ) j with
    | some pc => (taskRun hop pc (P (ρ.reverse ++ [j]))).2
    | none => []

def den (hop : Hop) (P : Path → List Act) (τ : Path) : List Ev := denRev hop P τ.reverse

theorem den_congr (hop : Hop) (P Q : Path → List Act) (h : ∀ τ, P τ = Q τ) (τ : Path) :
    den hop P τ = den hop Q τ := by
  have : P = Q := funext h
  rw [this]

end MpycV.Pc
