/-
Bridge between the mirror of the translator output (MpycV.MpctoolsMirror, Lemmas/ToolsSrcMirror.lean) and the hand-written
model MpycV.Model.Tools, for EVERY binary operation `f` and element type:
* `reduce_eq`      mirror reduce = model reduce (TypeError ≙ none); loop lemma `loop_eq` by induction on the fuel
* `acc_1_eq`, `acc_2_eq`  the lambda-lifted nested functions = the in-place recursions `accBK` / `accSkl`
                   (for 0 ≤ i ≤ j ≤ len(x) and fuel > j - i; the index guards of the source never fire)
* `accumulate_eq`  mirror accumulate = `accumulateSpec` (method string / default heuristic / ValueError)
Core Lean only.
-/
import MpycV.Lemmas.ToolsSrcMirror
import MpycV.Lemmas.Tools

namespace MpycV.PyTools
variable {α : Type}

theorem pyIdx_nat (len k : Nat) : pyIdx len (k : Int) = if k < len then some k else none := by
  unfold pyIdx
  have h0 : (0 : Int) ≤ (k : Int) := Int.natCast_nonneg k
  simp only [h0, if_true, Int.ofNat_lt, Int.toNat_natCast]

theorem pyGet?_nat (l : List α) (k : Nat) : pyGet? l (k : Int) = l[k]? := by
  unfold pyGet?
  rw [pyIdx_nat]
  by_cases h : k < l.length
  · simp only [h, if_true]
  · simp only [h, if_false]; rw [List.getElem?_eq_none (by omega)]

theorem pySet?_nat (l : List α) (k : Nat) (v : α) :
    pySet? l (k : Int) v = if k < l.length then some (l.set k v) else none := by
  unfold pySet?
  rw [pyIdx_nat]
  by_cases h : k < l.length <;> simp only [h, if_true, if_false]

theorem pyClamp_nat (len k : Nat) : pyClamp len (k : Int) = min k len := by
  unfold pyClamp
  have h0 : ¬ ((k : Int) < 0) := by omega
  simp only [h0, if_false, Int.toNat_natCast]

theorem pyInsert_zero (l : List α) (v : α) : pyInsert l 0 v = v :: l := by
  unfold pyInsert pyClamp
  simp

theorem pySlice_nat (l : List α) (a b : Nat) (hb : b ≤ l.length) (hab : a ≤ b) :
    pySlice l (some (a : Int)) (some (b : Int)) = (l.drop a).take (b - a) := by
  unfold pySlice pyLo pyHi
  simp only [pyClamp_nat, Nat.min_eq_left hb, Nat.min_eq_left (Nat.le_trans hab hb)]

theorem pySliceSet_nat (l : List α) (a b : Nat) (hb : b ≤ l.length) (hab : a ≤ b) (v : List α) :
    pySliceSet l (some (a : Int)) (some (b : Int)) v = l.take a ++ v ++ l.drop b := by
  unfold pySliceSet pyLo pyHi
  simp only [pyClamp_nat, Nat.min_eq_left hb, Nat.min_eq_left (Nat.le_trans hab hb), Nat.max_eq_right hab]

theorem pySliceSet_open (l : List α) (a : Nat) (ha : a ≤ l.length) (v : List α) :
    pySliceSet l (some (a : Int)) none v = l.take a ++ v := by
  unfold pySliceSet pyLo pyHi
  simp only [pyClamp_nat, Nat.min_eq_left ha, Nat.max_eq_right ha, List.drop_length, List.append_nil]

end MpycV.PyTools

set_option linter.unusedVariables false
namespace MpycV.MpctoolsMirror
open MpycV.PyLoop MpycV.PyTools MpycV.Tools
variable {α : Type}

/-! ### reduce -/

/-- the element expression of the generator in `reduce` -/
def pairAt (f : α → α → α) (x : List α) (i : Int) : Except TErr α :=
  match pyGet? x i with
  | none => .error .indexError
  | some v2 =>
    match pyGet? x (i + 1) with
    | none => .error .indexError
    | some v3 => .ok (f v2 v3)

theorem pyMapM_pairs (f : α → α → α) : ∀ (m : Nat) (pre y : List α), y.length = 2 * m →
    pyMapM ((List.range m).map fun (k : Nat) => ((pre.length : Nat) : Int) + 2 * (k : Int)) (pairAt f (pre ++ y))
      = .ok (pairUp f y)
  | 0, pre, y, h => by
      have : y = [] := List.eq_nil_of_length_eq_zero (by omega)
      subst this; simp [pyMapM, pairUp]
  | m + 1, pre, y, h => by
      match y, h with
      | a :: b :: y', h =>
        have hy' : y'.length = 2 * m := by simp only [List.length_cons] at h; omega
        have ih := pyMapM_pairs f m (pre ++ [a, b]) y' hy'
        rw [List.range_succ_eq_map, List.map_cons, List.map_map]
        simp only [pyMapM]
        have e0 : ((pre.length : Nat) : Int) + 2 * ((0 : Nat) : Int) = ((pre.length : Nat) : Int) := by simp
        have g0 : pairAt f (pre ++ a :: b :: y') ((pre.length : Nat) : Int) = .ok (f a b) := by
          unfold pairAt
          have e1 : ((pre.length : Nat) : Int) + 1 = ((pre.length + 1 : Nat) : Int) := by omega
          rw [pyGet?_nat, e1, pyGet?_nat]
          simp
        rw [e0, g0]
        have erest : (List.map ((fun (k : Nat) => ((pre.length : Nat) : Int) + 2 * (k : Int)) ∘ Nat.succ) (List.range m))
            = (List.range m).map fun (k : Nat) => (((pre ++ [a, b]).length : Nat) : Int) + 2 * (k : Int) := by
          apply List.map_congr_left
          intro k _
          simp only [Function.comp, List.length_append, List.length_cons, List.length_nil]
          omega
        have ex : pre ++ a :: b :: y' = (pre ++ [a, b]) ++ y' := by simp
        rw [erest, ex, ih]
        simp [pairUp]

theorem pyRangeStep_two (r n : Nat) (hr : r ≤ n) :
    pyRangeStep (r : Int) (n : Int) 2 = (List.range ((n - r + 1) / 2)).map fun (k : Nat) => (r : Int) + 2 * (k : Int) := by
  unfold pyRangeStep
  congr 2
  omega

theorem pyMapM_step (f : α → α → α) (x : List α) :
    pyMapM (pyRangeStep ((x.length : Int) % 2) (x.length : Int) 2) (pairAt f x)
      = .ok (pairUp f (x.drop (x.length % 2))) := by
  have hmod : (x.length : Int) % 2 = ((x.length % 2 : Nat) : Int) := by omega
  have hr : x.length % 2 ≤ x.length := Nat.mod_le _ _
  rw [hmod, pyRangeStep_two _ _ hr]
  have hx : x = x.take (x.length % 2) ++ x.drop (x.length % 2) := (List.take_append_drop _ _).symm
  have hlen : (x.take (x.length % 2)).length = x.length % 2 := by rw [List.length_take]; omega
  have hm : (x.drop (x.length % 2)).length = 2 * ((x.length - x.length % 2 + 1) / 2) := by
    rw [List.length_drop]; omega
  have := pyMapM_pairs f ((x.length - x.length % 2 + 1) / 2) (x.take (x.length % 2)) (x.drop (x.length % 2)) hm
  rw [hlen, ← hx] at this
  exact this

theorem sliceSet_step (f : α → α → α) (x : List α) :
    pySliceSet x (some ((x.length : Int) % 2)) none (pairUp f (x.drop (x.length % 2))) = reduceStep f x := by
  have hmod : (x.length : Int) % 2 = ((x.length % 2 : Nat) : Int) := by omega
  have hr : x.length % 2 ≤ x.length := Nat.mod_le _ _
  rw [hmod, pySliceSet_open _ _ hr]
  unfold reduceStep
  by_cases hodd : x.length % 2 = 1
  · rw [if_pos hodd, hodd]
    cases x with
    | nil => simp at hodd
    | cons a rest => simp
  · rw [if_neg hodd]
    have : x.length % 2 = 0 := by omega
    rw [this]; simp

theorem reduceLoop_ne_nil (f : α → α → α) (x : List α) (hx : x ≠ []) : reduceLoop f x ≠ [] := by
  fun_induction reduceLoop f x with
  | case1 x h ih =>
    apply ih
    intro h0
    have := congrArg List.length h0
    rw [length_reduceStep] at this
    simp at this; omega
  | case2 x h => exact hx

/-- the `while` loop of the mirror computes `reduceLoop` of the model (fuel = len(x) suffices) -/
theorem loop_eq (f : α → α → α) (body : List α → Except TErr (Ctl (List α) Empty))
    (hb : ∀ x, body x =
      if (x.length : Int) > 1 then
        (match pyMapM (pyRangeStep ((x.length : Int) % 2) (x.length : Int) 2) (pairAt f x) with
          | .error exc_ => .error exc_
          | .ok v4 => .ok (.next (pySliceSet x (some ((x.length : Int) % 2)) none v4)))
      else .ok (.brk x)) :
    ∀ (fuel : Nat) (x : List α), x ≠ [] → x.length ≤ fuel →
      loop TErr.fuel body fuel x = .ok (.done (reduceLoop f x))
  | 0, x, hne, hlen => by
      exfalso; exact hne (List.eq_nil_of_length_eq_zero (by omega))
  | fuel + 1, x, hne, hlen => by
      rw [loop, reduceLoop, hb]
      by_cases h1 : 1 < x.length
      · have h1' : (x.length : Int) > 1 := by omega
        simp only [h1, h1', if_true, pyMapM_step, sliceSet_step]
        apply loop_eq f body hb fuel
        · intro h0
          have := congrArg List.length h0
          rw [length_reduceStep] at this
          simp at this; omega
        · rw [length_reduceStep]; omega
      · have h1' : ¬ (x.length : Int) > 1 := by omega
        simp only [h1, h1', if_false]

theorem reduce_eq (f : α → α → α) (x : List α) (initial : Option α) :
    reduce f x initial = match Tools.reduce f x initial with
      | some r => .ok r
      | none => .error .typeError := by
  have key : ∀ X : List α, X = withInitial initial x →
      (if X.isEmpty = true then (.error .typeError : Except TErr α) else
        onLoop (loop (σ := List α) (ρ := Empty) TErr.fuel (fun st =>
            if (st.length : Int) > 1 then
              (match pyMapM (pyRangeStep ((st.length : Int) % 2) (st.length : Int) 2) (pairAt f st) with
                | .error exc_ => .error exc_
                | .ok v4 => .ok (.next (pySliceSet st (some ((st.length : Int) % 2)) none v4)))
            else .ok (.brk st)) X.length X)
          (fun r => nomatch r)
          (fun st => match pyGet? st 0 with
            | none => .error .indexError
            | some v5 => .ok v5))
      = match Tools.reduce f x initial with
        | some r => .ok r
        | none => .error .typeError := by
    intro X hX
    unfold Tools.reduce
    rw [← hX]
    cases X with
    | nil => simp
    | cons a t =>
      have hne : (a :: t) ≠ [] := by simp
      simp only [List.isEmpty_cons, Bool.false_eq_true, if_false]
      rw [loop_eq f _ (fun _ => rfl) (a :: t).length (a :: t) hne (Nat.le_refl _)]
      simp only [onLoop]
      have h0 : pyGet? (reduceLoop f (a :: t)) 0 = (reduceLoop f (a :: t))[0]? := pyGet?_nat _ 0
      rw [h0]
      have hl := reduceLoop_ne_nil f (a :: t) hne
      cases hr : reduceLoop f (a :: t) with
      | nil => exact absurd hr hl
      | cons b u => simp
  cases initial with
  | none => exact key (pyList x) rfl
  | some v =>
    have := key (pyInsert (pyList x) 0 v) (by simp [pyInsert_zero, pyList, withInitial])
    exact this


/-! ### accumulate: the lifted nested functions -/

theorem decomp (x : List α) (i j : Nat) (hij : i ≤ j) (hj : j ≤ x.length) :
    x.take i ++ (x.drop i).take (j - i) ++ x.drop j = x := by
  have h1 : (x.drop i).take (j - i) ++ x.drop j = x.drop i := by
    have : x.drop j = (x.drop i).drop (j - i) := by rw [List.drop_drop]; congr 1; omega
    rw [this, List.take_append_drop]
  rw [List.append_assoc, h1, List.take_append_drop]

theorem length_accBK' (f : α → α → α) (x : List α) (i j : Nat) (hij : i ≤ j) (hj : j ≤ x.length) :
    (accBK f x i j).length = x.length := by
  have h := accBK_append f _ (x.take i) ((x.drop i).take (j - i)) (x.drop j) rfl
  have hl1 : (x.take i).length = i := by rw [List.length_take]; omega
  have hl2 : ((x.drop i).take (j - i)).length = j - i := by rw [List.length_take, List.length_drop]; omega
  rw [decomp x i j hij hj, hl1, hl2, show i + (j - i) = j by omega] at h
  rw [h]
  simp only [List.length_append, length_bk, hl1, hl2, List.length_drop]; omega

theorem length_accSkl' (f : α → α → α) (x : List α) (i j : Nat) (hij : i ≤ j) (hj : j ≤ x.length) :
    (accSkl f x i j).length = x.length := by
  have h := accSkl_append f _ (x.take i) ((x.drop i).take (j - i)) (x.drop j) rfl
  have hl1 : (x.take i).length = i := by rw [List.length_take]; omega
  have hl2 : ((x.drop i).take (j - i)).length = j - i := by rw [List.length_take, List.length_drop]; omega
  rw [decomp x i j hij hj, hl1, hl2, show i + (j - i) = j by omega] at h
  rw [h]
  simp only [List.length_append, length_skl, hl1, hl2, List.length_drop]; omega

theorem acc_1_unfold (f : α → α → α) (fuel : Nat) (x : List α) (i j : Int) :
    accumulate.acc_1 f (fuel + 1) x i j =
      if i < (i + j) / 2 then
        match accumulate.acc_1 f fuel x i ((i + j) / 2) with
        | .error exc_ => .error exc_
        | .ok x =>
          match pyGet? x ((i + j) / 2 - 1) with
          | none => .error .indexError
          | some a =>
            match ((if i ≠ 0 then
                  match pyGet? x (i - 1) with
                  | none => .error .indexError
                  | some v2 =>
                    match pySet? x ((i + j) / 2 - 1) (f v2 a) with
                    | none => .error .indexError
                    | some x => .ok x
                else .ok x) : Except TErr (List α)) with
            | .error exc_ => .error exc_
            | .ok x =>
              match accumulate.acc_1 f fuel x ((i + j) / 2) j with
              | .error exc_ => .error exc_
              | .ok x =>
                match pyGet? x (j - 1) with
                | none => .error .indexError
                | some v3 =>
                  match pySet? x (j - 1) (f a v3) with
                  | none => .error .indexError
                  | some x => .ok x
      else .ok x := rfl

theorem acc_2_unfold (f : α → α → α) (fuel : Nat) (x : List α) (i j : Int) :
    accumulate.acc_2 f (fuel + 1) x i j =
      if i < (i + j) / 2 then
        match accumulate.acc_2 f fuel x i ((i + j) / 2) with
        | .error exc_ => .error exc_
        | .ok x =>
          match pyGet? x ((i + j) / 2 - 1) with
          | none => .error .indexError
          | some a =>
            match accumulate.acc_2 f fuel x ((i + j) / 2) j with
            | .error exc_ => .error exc_
            | .ok x =>
              .ok (pySliceSet x (some ((i + j) / 2)) (some j)
                (List.map (fun b => f a b) (pySlice x (some ((i + j) / 2)) (some j))))
      else .ok x := rfl

/-- Brent–Kung: the lifted nested `acc` of the source equals the in-place recursion `accBK` of the model -/
theorem acc_1_eq (f : α → α → α) : ∀ (fuel : Nat) (x : List α) (i j : Nat), i ≤ j → j ≤ x.length → j - i < fuel →
    accumulate.acc_1 f fuel x (i : Int) (j : Int) = .ok (accBK f x i j)
  | 0, _, _, _, _, _, h => by omega
  | fuel + 1, x, i, j, hij, hj, hf => by
      have hh : ((i : Int) + (j : Int)) / 2 = (((i + j) / 2 : Nat) : Int) := by omega
      rw [acc_1_unfold, accBK, hh]
      by_cases hlt : i < (i + j) / 2
      · have hlt' : (i : Int) < (((i + j) / 2 : Nat) : Int) := by omega
        have hhj : (i + j) / 2 ≤ j := by omega
        simp only [hlt, hlt', if_true]
        rw [acc_1_eq f fuel x i ((i + j) / 2) (by omega) (by omega) (by omega)]
        simp only
        have hl1 := length_accBK' f x i ((i + j) / 2) (by omega) (by omega)
        generalize accBK f x i ((i + j) / 2) = x1 at hl1 ⊢
        have e1 : (((i + j) / 2 : Nat) : Int) - 1 = (((i + j) / 2 - 1 : Nat) : Int) := by omega
        rw [e1, pyGet?_nat]
        cases hg : x1[(i + j) / 2 - 1]? with
        | none => rw [List.getElem?_eq_none_iff] at hg; omega
        | some a =>
          simp only
          -- the conditional fix-up
          have hfix : ((if (i : Int) ≠ 0 then
                  match pyGet? x1 ((i : Int) - 1) with
                  | none => .error .indexError
                  | some v2 =>
                    match pySet? x1 (((i + j) / 2 - 1 : Nat) : Int) (f v2 a) with
                    | none => .error .indexError
                    | some x => .ok x
                else .ok x1) : Except TErr (List α))
              = .ok (if i ≠ 0 then
                  match x1[i - 1]? with
                  | some p => x1.set ((i + j) / 2 - 1) (f p a)
                  | none => x1
                else x1) := by
            by_cases hi0 : i = 0
            · subst hi0; simp
            · have hi0' : (i : Int) ≠ 0 := by omega
              have e2 : (i : Int) - 1 = ((i - 1 : Nat) : Int) := by omega
              simp only [hi0, hi0', ne_eq, not_false_eq_true, if_true]
              rw [e2, pyGet?_nat]
              cases hp : x1[i - 1]? with
              | none => rw [List.getElem?_eq_none_iff] at hp; omega
              | some p =>
                simp only
                rw [pySet?_nat, if_pos (by omega)]
          rw [hfix]
          simp only
          have hl2 : (if i ≠ 0 then
                  match x1[i - 1]? with
                  | some p => x1.set ((i + j) / 2 - 1) (f p a)
                  | none => x1
                else x1).length = x.length := by
            split
            · split <;> simp [hl1]
            · exact hl1
          generalize (if i ≠ 0 then
                  match x1[i - 1]? with
                  | some p => x1.set ((i + j) / 2 - 1) (f p a)
                  | none => x1
                else x1) = x2 at hl2 ⊢
          rw [acc_1_eq f fuel x2 ((i + j) / 2) j (by omega) (by omega) (by omega)]
          simp only
          have hl3 := length_accBK' f x2 ((i + j) / 2) j (by omega) (by omega)
          generalize accBK f x2 ((i + j) / 2) j = x3 at hl3 ⊢
          have e3 : (j : Int) - 1 = ((j - 1 : Nat) : Int) := by omega
          rw [e3, pyGet?_nat]
          cases hb : x3[j - 1]? with
          | none => rw [List.getElem?_eq_none_iff] at hb; omega
          | some b =>
            simp only
            rw [pySet?_nat, if_pos (by omega)]
      · have hlt' : ¬ (i : Int) < (((i + j) / 2 : Nat) : Int) := by omega
        simp only [hlt, hlt', if_false]

/-- Sklansky: the lifted nested `acc` equals `accSkl` of the model -/
theorem acc_2_eq (f : α → α → α) : ∀ (fuel : Nat) (x : List α) (i j : Nat), i ≤ j → j ≤ x.length → j - i < fuel →
    accumulate.acc_2 f fuel x (i : Int) (j : Int) = .ok (accSkl f x i j)
  | 0, _, _, _, _, _, h => by omega
  | fuel + 1, x, i, j, hij, hj, hf => by
      have hh : ((i : Int) + (j : Int)) / 2 = (((i + j) / 2 : Nat) : Int) := by omega
      rw [acc_2_unfold, accSkl, hh]
      by_cases hlt : i < (i + j) / 2
      · have hlt' : (i : Int) < (((i + j) / 2 : Nat) : Int) := by omega
        simp only [hlt, hlt', if_true]
        rw [acc_2_eq f fuel x i ((i + j) / 2) (by omega) (by omega) (by omega)]
        simp only
        have hl1 := length_accSkl' f x i ((i + j) / 2) (by omega) (by omega)
        generalize accSkl f x i ((i + j) / 2) = x1 at hl1 ⊢
        have e1 : (((i + j) / 2 : Nat) : Int) - 1 = (((i + j) / 2 - 1 : Nat) : Int) := by omega
        rw [e1, pyGet?_nat]
        cases hg : x1[(i + j) / 2 - 1]? with
        | none => rw [List.getElem?_eq_none_iff] at hg; omega
        | some a =>
          simp only
          rw [acc_2_eq f fuel x1 ((i + j) / 2) j (by omega) (by omega) (by omega)]
          simp only
          have hl2 := length_accSkl' f x1 ((i + j) / 2) j (by omega) (by omega)
          generalize accSkl f x1 ((i + j) / 2) j = x2 at hl2 ⊢
          rw [pySlice_nat x2 _ _ (by omega) (by omega), pySliceSet_nat x2 _ _ (by omega) (by omega)]
      · have hlt' : ¬ (i : Int) < (((i + j) / 2 : Nat) : Int) := by omega
        simp only [hlt, hlt', if_false]


/-! ### accumulate -/

/-- what the source computes, in terms of the model: the method named by the string (or chosen by the heuristic),
`ValueError` for any other string -/
def accumulateSpec (f : α → α → α) (no_prss : Bool) (x : List α) (initial : Option α) (method : Option String) :
    Except TErr (List α) :=
  match method with
  | none => .ok (Tools.accumulate f x initial (defaultMethod no_prss (withInitial initial x).length))
  | some m =>
    if m = "Brent-Kung" then .ok (Tools.accumulate f x initial .brentKung)
    else if m = "Sklansky" then .ok (Tools.accumulate f x initial .sklansky)
    else .error .valueError

theorem accumulate_core (f : α → α → α) (X : List α) (m : String) :
    (match ((if m = "Brent-Kung" then
            .ok (accumulate.acc_1 f)
          else
            if m = "Sklansky" then
              .ok (accumulate.acc_2 f)
            else
              .error .valueError) : Except TErr (Nat → List α → Int → Int → Except TErr (List α))) with
      | .error exc_ => .error exc_
      | .ok acc =>
        match acc (X.length + 1) X 0 (X.length : Int) with
        | .error exc_ => .error exc_
        | .ok x => .ok x : Except TErr (List α))
    = if m = "Brent-Kung" then .ok (accBK f X 0 X.length)
      else if m = "Sklansky" then .ok (accSkl f X 0 X.length)
      else .error .valueError := by
  have h0 : (0 : Int) = ((0 : Nat) : Int) := rfl
  by_cases h1 : m = "Brent-Kung"
  · simp only [h1, if_true]
    rw [h0, acc_1_eq f (X.length + 1) X 0 X.length (by omega) (by omega) (by omega)]
  · simp only [h1, if_false]
    by_cases h2 : m = "Sklansky"
    · simp only [h2, if_true]
      rw [h0, acc_2_eq f (X.length + 1) X 0 X.length (by omega) (by omega) (by omega)]
    · simp only [h2, if_false]

theorem accumulate_eq (f : α → α → α) (no_prss : Bool) (x : List α) (initial : Option α) (method : Option String) :
    accumulate f no_prss x initial method = accumulateSpec f no_prss x initial method := by
  have key : ∀ X : List α, X = withInitial initial x →
      (match ((match method with
          | some method_v2 => .ok method_v2
          | none =>
            .ok (if (no_prss && decide ((X.length : Int) ≥ 32)) = true then "Brent-Kung" else "Sklansky")) :
            Except TErr String) with
        | .error exc_ => .error exc_
        | .ok method =>
          match ((if method = "Brent-Kung" then
                .ok (accumulate.acc_1 f)
              else
                if method = "Sklansky" then
                  .ok (accumulate.acc_2 f)
                else
                  .error .valueError) : Except TErr (Nat → List α → Int → Int → Except TErr (List α))) with
          | .error exc_ => .error exc_
          | .ok acc =>
            match acc (X.length + 1) X 0 (X.length : Int) with
            | .error exc_ => .error exc_
            | .ok x => .ok x : Except TErr (List α))
      = accumulateSpec f no_prss x initial method := by
    intro X hX
    unfold accumulateSpec Tools.accumulate
    rw [← hX]
    cases method with
    | some m =>
      simp only
      rw [accumulate_core]
    | none =>
      simp only
      rw [accumulate_core]
      unfold defaultMethod
      by_cases hc : (no_prss && decide ((X.length : Int) ≥ 32)) = true
      · have hc' : (no_prss && decide (32 ≤ X.length)) = true := by
          simp only [Bool.and_eq_true, decide_eq_true_eq] at hc ⊢
          exact ⟨hc.1, by omega⟩
        simp only [hc, hc', if_true]
      · have hc' : ¬ (no_prss && decide (32 ≤ X.length)) = true := by
          simp only [Bool.and_eq_true, decide_eq_true_eq] at hc ⊢
          intro h; exact hc ⟨h.1, by omega⟩
        have hne : ¬ ("Sklansky" = "Brent-Kung") := by decide
        simp only [hc, hc', Bool.false_eq_true, if_false, hne, if_true]
  cases initial with
  | none => exact key (pyList x) rfl
  | some v => exact key (pyInsert (pyList x) 0 v) (by simp [pyInsert_zero, pyList, withInitial])

end MpycV.MpctoolsMirror
