/-
Extension fields GF(p^d) = GF(p)[X]/(m): the executable model `MpycV.ExtF` (≙ `ExtensionFieldElement`, values are
gfpx coefficient lists) is tied to Mathlib's field `AdjoinRoot (toPoly p m)`:
  * `φ p m a = AdjoinRoot.mk M (toPoly p a)` commutes with every model operator (`phi_*`),
  * it is injective on class-invariant values (`Red`: well-formed, degree < degree m) (`phi_inj`),
  * every operator returns a `Red` value (`red_*`),
  * `_reciprocal` (extended Euclid of gfpx) returns the inverse / raises exactly on multiples of `m`.
The polynomial-level facts are the lemmas of area GFpX (`MpycV/Lemmas/GFpX*.lean`).
-/
import Mathlib.RingTheory.AdjoinRoot
import MpycV.Lemmas.GFpXRing
import MpycV.Lemmas.GFpXDiv
import MpycV.Lemmas.GFpXGcd
import MpycV.Lemmas.GFpXPow
import MpycV.Lemmas.GFpXInt
import MpycV.Lemmas.GFpXIrr
import MpycV.Model.ExtF

open Polynomial

set_option linter.unusedSectionVars false

namespace MpycV.ExtF
open MpycV.GFpX

variable {p : ℕ} [hpf : Fact p.Prime] {m : Poly}

/-- admissible modulus: well-formed and irreducible over GF(p) — what `xGF` checks (finfields.py:516) -/
structure IsModulus (p : ℕ) (m : Poly) : Prop where
  wf : WF p m
  irr : Irreducible (toPoly p m)

theorem isModulus_of_check (hw : WF p m) (h : isIrreducible p m = true) : IsModulus p m :=
  ⟨hw, (isIrreducible_iff hw).mp h⟩

theorem IsModulus.ne_nil (hm : IsModulus p m) : m ≠ [] := by
  intro h
  have := hm.irr
  rw [h] at this
  exact not_irreducible_zero this

theorem IsModulus.poly_ne_zero (hm : IsModulus p m) : toPoly p m ≠ 0 := hm.irr.ne_zero

/-- class invariant of an element's `value` -/
def Red (p : ℕ) (m a : Poly) : Prop := WF p a ∧ a.length < m.length

/-- the element of the quotient field denoted by a coefficient list -/
noncomputable def φ (p : ℕ) (m a : Poly) : AdjoinRoot (toPoly p m) := AdjoinRoot.mk (toPoly p m) (toPoly p a)

theorem mk_mod_self {K : Type*} [Field K] (f g : K[X]) : AdjoinRoot.mk f (g % f) = AdjoinRoot.mk f g :=
  AdjoinRoot.mk_eq_mk.mpr ⟨-(g / f), by rw [EuclideanDomain.mod_eq_sub_mul_div]; ring⟩

theorem phi_mk (hm : IsModulus p m) {a : Poly} (ha : WF p a) : φ p m (mk p m a) = φ p m a := by
  unfold φ mk
  rw [toPoly_modCore ha hm.wf hm.ne_nil, mk_mod_self]

theorem red_mk (hm : IsModulus p m) {a : Poly} (ha : WF p a) : Red p m (mk p m a) :=
  ⟨wf_modCore ha hm.wf hm.ne_nil, length_modCore_lt ha hm.wf hm.ne_nil⟩

/-- reducing a reduced value changes nothing -/
theorem mk_of_red (_hm : IsModulus p m) {a : Poly} (ha : Red p m a) : mk p m a = a := by
  unfold mk modCore
  rw [if_pos ha.2]

theorem phi_inj (hm : IsModulus p m) {a b : Poly} (ha : Red p m a) (hb : Red p m b)
    (h : φ p m a = φ p m b) : a = b := by
  have hd : toPoly p m ∣ toPoly p a - toPoly p b := AdjoinRoot.mk_eq_mk.mp h
  have hdegM := degree_toPoly hm.wf hm.ne_nil
  have hA := degree_toPoly_lt (p := p) a
  have hB := degree_toPoly_lt (p := p) b
  have hla : ((a.length : ℕ) : WithBot ℕ) ≤ ((m.length - 1 : ℕ) : WithBot ℕ) := by
    exact_mod_cast (by have := ha.2; omega : a.length ≤ m.length - 1)
  have hlb : ((b.length : ℕ) : WithBot ℕ) ≤ ((m.length - 1 : ℕ) : WithBot ℕ) := by
    exact_mod_cast (by have := hb.2; omega : b.length ≤ m.length - 1)
  have hlt : (toPoly p a - toPoly p b).degree < (toPoly p m).degree := by
    rw [hdegM]
    exact lt_of_le_of_lt (degree_sub_le _ _) (max_lt (lt_of_lt_of_le hA hla) (lt_of_lt_of_le hB hlb))
  have h0 := eq_zero_of_dvd_of_degree_lt hd hlt
  exact toPoly_inj ha.1 hb.1 (sub_eq_zero.mp h0)

/-- `φ a = 0` iff `a` is the zero polynomial, on class-invariant values -/
theorem phi_eq_zero_iff (hm : IsModulus p m) {a : Poly} (ha : Red p m a) : φ p m a = 0 ↔ a = [] := by
  constructor
  · intro h
    have hnil : Red p m [] := ⟨⟨by simp [Reduced], by simp [Normalised]⟩, by
      have := hm.ne_nil; exact List.length_pos_iff.mpr this⟩
    exact phi_inj hm ha hnil (by rw [h]; simp [φ])
  · intro h; subst h; simp [φ]

theorem phi_one : φ p m [1] = 1 := by simp [φ]

/-! ### ring operators -/

theorem hp0 : 0 < p := hpf.out.pos

theorem phi_add (hm : IsModulus p m) {a o : Poly} (ha : WF p a) (ho : WF p o) :
    φ p m (add p m a o) = φ p m a + φ p m o := by
  unfold add
  rw [phi_mk hm (wf_add ha.1 ho.1)]
  unfold φ
  rw [toPoly_add, map_add]

theorem phi_sub (hm : IsModulus p m) {a o : Poly} (ha : WF p a) (ho : WF p o) :
    φ p m (sub p m a o) = φ p m a - φ p m o := by
  unfold sub
  rw [phi_mk hm (wf_sub hp0 ha.1 ho.1)]
  unfold φ
  rw [toPoly_sub a ho.1, map_sub]

theorem phi_rsub (hm : IsModulus p m) {a o : Poly} (ha : WF p a) (ho : WF p o) :
    φ p m (rsub p m a o) = φ p m o - φ p m a := phi_sub hm ho ha

theorem phi_neg (hm : IsModulus p m) {a : Poly} (ha : WF p a) : φ p m (neg p m a) = - φ p m a := by
  unfold neg
  rw [phi_mk hm (wf_neg ha)]
  unfold φ
  rw [toPoly_neg ha.1, map_neg]

theorem phi_pos (hm : IsModulus p m) {a : Poly} (ha : WF p a) : φ p m (pos p m a) = φ p m a := phi_mk hm ha

theorem phi_mul (hm : IsModulus p m) {a o : Poly} (ha : WF p a) (ho : WF p o) :
    φ p m (mul p m a o) = φ p m a * φ p m o := by
  unfold mul
  rw [phi_mk hm (wf_mul ha ho)]
  unfold φ
  rw [toPoly_mul, map_mul]

theorem red_add (hm : IsModulus p m) {a o : Poly} (ha : WF p a) (ho : WF p o) : Red p m (add p m a o) :=
  red_mk hm (wf_add ha.1 ho.1)
theorem red_sub (hm : IsModulus p m) {a o : Poly} (ha : WF p a) (ho : WF p o) : Red p m (sub p m a o) :=
  red_mk hm (wf_sub hp0 ha.1 ho.1)
theorem red_neg (hm : IsModulus p m) {a : Poly} (ha : WF p a) : Red p m (neg p m a) := red_mk hm (wf_neg ha)
theorem red_mul (hm : IsModulus p m) {a o : Poly} (ha : WF p a) (ho : WF p o) : Red p m (mul p m a o) :=
  red_mk hm (wf_mul ha ho)

/-! ### inverse -/

theorem phi_eq_zero_iff_dvd (a : Poly) : φ p m a = 0 ↔ toPoly p m ∣ toPoly p a := AdjoinRoot.mk_eq_zero

theorem coprime_iff (hm : IsModulus p m) (a : Poly) :
    IsCoprime (toPoly p a) (toPoly p m) ↔ φ p m a ≠ 0 := by
  rw [Ne, phi_eq_zero_iff_dvd, isCoprime_comm]
  exact hm.irr.coprime_iff_not_dvd

theorem reciprocalRaw_spec (hm : IsModulus p m) {o : Poly} (ho : WF p o) :
    (φ p m o = 0 → reciprocalRaw p m o = .error .zeroDivision) ∧
    (φ p m o ≠ 0 → ∃ s, reciprocalRaw p m o = .ok s ∧ WF p s ∧ φ p m s * φ p m o = 1) := by
  obtain ⟨i1, i2⟩ := invert_spec ho hm.wf
  constructor
  · intro h0
    have hnc : ¬ IsCoprime (toPoly p o) (toPoly p m) := fun hc => (coprime_iff hm o).mp hc h0
    unfold reciprocalRaw
    rw [i1.mpr (Or.inr hnc)]; rfl
  · intro hne
    have hc := (coprime_iff hm o).mpr hne
    cases hinv : GFpX.invert p o m with
    | error e =>
      exfalso
      have he : e = .zeroDivision := invert_error o m hinv
      subst he
      rcases i1.mp hinv with h | h
      · exact hm.ne_nil h
      · exact h hc
    | ok s =>
      obtain ⟨ws, hd⟩ := i2 s hinv
      refine ⟨s, by unfold reciprocalRaw; rw [hinv]; rfl, ws, ?_⟩
      unfold φ
      rw [← map_mul, ← map_one (AdjoinRoot.mk (toPoly p m))]
      exact AdjoinRoot.mk_eq_mk.mpr hd

/-! ### powers -/

theorem powm_spec (hm : IsModulus p m) {a : Poly} (ha : WF p a) (n : ℕ) :
    ∃ r, powm p m a (n : ℤ) = .ok r ∧ WF p r ∧ φ p m r = φ p m a ^ n := by
  rcases Nat.eq_zero_or_pos n with rfl | hn
  · refine ⟨[1], by unfold powm; rw [Nat.cast_zero, powmod_zero]; rfl, wf_one, by simp [phi_one]⟩
  · obtain ⟨r, e, w, _, c⟩ := powmod_pos_some ha hm.wf hm.ne_nil hn
    refine ⟨r, by unfold powm; rw [e]; rfl, w, ?_⟩
    unfold φ
    rw [← mk_mod_self, c, mk_mod_self, map_pow]

theorem red_of_wf_lt {a : Poly} (ha : WF p a) (hl : a.length < m.length) : Red p m a := ⟨ha, hl⟩

/-- `reciprocal()` -/
theorem reciprocal_spec (hm : IsModulus p m) {a : Poly} (ha : WF p a) :
    (φ p m a = 0 → reciprocal p m a = .error .zeroDivision) ∧
    (φ p m a ≠ 0 → ∃ r, reciprocal p m a = .ok r ∧ Red p m r ∧ φ p m r * φ p m a = 1) := by
  obtain ⟨h1, h2⟩ := reciprocalRaw_spec hm ha
  constructor
  · intro h0; unfold reciprocal; rw [h1 h0]; rfl
  · intro hne
    obtain ⟨s, e, ws, hs⟩ := h2 hne
    exact ⟨mk p m s, by unfold reciprocal; rw [e]; rfl, red_mk hm ws, by rw [phi_mk hm ws]; exact hs⟩

/-- `/` -/
theorem truediv_spec (hm : IsModulus p m) {a o : Poly} (ha : WF p a) (ho : WF p o) :
    (φ p m o = 0 → truediv p m a o = .error .zeroDivision) ∧
    (φ p m o ≠ 0 → ∃ q, truediv p m a o = .ok q ∧ Red p m q ∧ φ p m q * φ p m o = φ p m a) := by
  obtain ⟨h1, h2⟩ := reciprocalRaw_spec hm ho
  constructor
  · intro h0; unfold truediv; rw [h1 h0]; rfl
  · intro hne
    obtain ⟨s, e, ws, hs⟩ := h2 hne
    refine ⟨mul p m a s, by unfold truediv; rw [e]; rfl, red_mul hm ha ws, ?_⟩
    rw [phi_mul hm ha ws, mul_assoc, hs, mul_one]

/-- reflected `/` -/
theorem rtruediv_spec (hm : IsModulus p m) {a o : Poly} (ha : WF p a) (ho : WF p o) :
    (φ p m a = 0 → rtruediv p m a o = .error .zeroDivision) ∧
    (φ p m a ≠ 0 → ∃ q, rtruediv p m a o = .ok q ∧ Red p m q ∧ φ p m q * φ p m a = φ p m o) := by
  obtain ⟨h1, h2⟩ := reciprocal_spec hm ha
  constructor
  · intro h0; unfold rtruediv; rw [h1 h0]; rfl
  · intro hne
    obtain ⟨r, e, wr, hr⟩ := h2 hne
    refine ⟨mul p m r o, by unfold rtruediv; rw [e]; rfl, red_mul hm wr.1 ho, ?_⟩
    rw [phi_mul hm wr.1 ho, mul_comm (φ p m r), mul_assoc, hr, mul_one]

theorem pow_nonneg_spec (hm : IsModulus p m) {a : Poly} (ha : WF p a) (n : ℕ) :
    ∃ r, pow p m a (n : ℤ) = .ok r ∧ Red p m r ∧ φ p m r = φ p m a ^ n := by
  obtain ⟨r, e, w, c⟩ := powm_spec hm ha n
  refine ⟨mk p m r, ?_, red_mk hm w, by rw [phi_mk hm w, c]⟩
  unfold pow; unfold powm at e; rw [e]; rfl

theorem pow_neg_spec (hm : IsModulus p m) {a : Poly} (ha : WF p a) {n : ℕ} (hn : 0 < n) :
    (φ p m a = 0 → pow p m a (-(n : ℤ)) = .error .zeroDivision) ∧
    (φ p m a ≠ 0 → ∃ r, pow p m a (-(n : ℤ)) = .ok r ∧ Red p m r ∧ φ p m r * φ p m a ^ n = 1) := by
  obtain ⟨h1, h2⟩ := powmod_neg_some ha hm.wf hm.ne_nil hn
  constructor
  · intro h0
    have hnc : ¬ IsCoprime (toPoly p a) (toPoly p m) := fun hc => (coprime_iff hm a).mp hc h0
    unfold pow; rw [h1 hnc]; rfl
  · intro hne
    obtain ⟨r, e, w, c⟩ := h2 ((coprime_iff hm a).mpr hne)
    refine ⟨mk p m r, by unfold pow; rw [e]; rfl, red_mk hm w, ?_⟩
    rw [phi_mk hm w]
    unfold φ
    rw [← map_pow, ← map_mul, ← mk_mod_self, c, mk_mod_self, map_one]

/-! ### shifts -/

/-- `<<` multiplies by `X^n` (`X` is the class of the polynomial `[0, 1]`, i.e. of the int `p`) -/
theorem phi_lshift (hm : IsModulus p m) {a : Poly} (ha : WF p a) (n : ℕ) :
    φ p m (lshift p m a (n : ℤ)) = φ p m a * (AdjoinRoot.root (toPoly p m)) ^ n := by
  unfold lshift polyShl
  rw [if_neg (by omega), Int.toNat_natCast, phi_mk hm (wf_lshift ha hp0 n)]
  unfold φ
  rw [toPoly_lshift, map_mul, map_pow, AdjoinRoot.mk_X]

theorem phi_X : φ p m [0, 1] = AdjoinRoot.root (toPoly p m) := by
  unfold φ; rw [toPoly_X, AdjoinRoot.mk_X]

/-- `>>` divides by the field element of the INTEGER `2^n` -/
theorem rshift_eq_truediv (a : Poly) (n : ℕ) :
    rshift p m a (n : ℤ) = truediv p m a (GFpX.fromInt p ((2 : ℤ) ^ n)) := by
  unfold rshift truediv
  rw [MpycV.PrimeF.shl]
  rw [if_neg (by omega), Int.toNat_natCast, one_mul]

/-! ### ints -/

theorem red_ofInt (hm : IsModulus p m) (x : ℤ) : Red p m (ofInt p m x) := red_mk hm (wf_fromInt x)

theorem phi_ofInt (hm : IsModulus p m) (x : ℤ) : φ p m (ofInt p m x) = φ p m (GFpX.fromInt p x) :=
  phi_mk hm (wf_fromInt x)

/-! ### operands denoting the same field element give the same result -/

theorem truediv_congr (hm : IsModulus p m) {a o1 o2 : Poly} (ha : WF p a) (h1 : WF p o1) (h2 : WF p o2)
    (h : φ p m o1 = φ p m o2) : truediv p m a o1 = truediv p m a o2 := by
  by_cases h0 : φ p m o1 = 0
  · rw [(truediv_spec hm ha h1).1 h0, (truediv_spec hm ha h2).1 (by rw [← h]; exact h0)]
  · obtain ⟨q, e, rq, hq⟩ := (truediv_spec hm ha h1).2 h0
    obtain ⟨q', e', rq', hq'⟩ := (truediv_spec hm ha h2).2 (by rw [← h]; exact h0)
    rw [e, e']; congr 1
    apply phi_inj hm rq rq'
    have : Fact (Irreducible (toPoly p m)) := ⟨hm.irr⟩
    rw [← h] at hq'
    exact mul_right_cancel₀ h0 (hq.trans hq'.symm)

theorem mul_congr (hm : IsModulus p m) {a o1 o2 : Poly} (ha : WF p a) (h1 : WF p o1) (h2 : WF p o2)
    (h : φ p m o1 = φ p m o2) : mul p m a o1 = mul p m a o2 := by
  apply phi_inj hm (red_mul hm ha h1) (red_mul hm ha h2)
  rw [phi_mul hm ha h1, phi_mul hm ha h2, h]

end MpycV.ExtF
