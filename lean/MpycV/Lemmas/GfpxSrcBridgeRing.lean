/-
Bridge, part 1: the translated `_add`, `_sub` (Lemmas/GfpxSrcMirror.lean) equal the model `GFpX.add`, `GFpX.sub`.
-/
import MpycV.Lemmas.GfpxSrcMirror
import MpycV.Lemmas.GfpxSrcLoops

namespace MpycV.GfpxBridge
open MpycV.PyList MpycV.PyLoop MpycV.PyPoly MpycV.GFpX

/-! ### add -/

def gAdd (p : Int) (x y : Int) : Int := if x + y ≥ p then x + y - p else x + y

theorem gAdd_cast (p x y : Nat) : gAdd (p : Int) (x : Int) (y : Int) = ((addC p x y : Nat) : Int) := by
  unfold gAdd addC
  by_cases h : x + y ≥ p
  · rw [if_pos (by exact_mod_cast h), if_pos h]; omega
  · rw [if_neg (by intro h'; exact h (by exact_mod_cast h')), if_neg h]; omega

theorem updAt_add_up (p : Nat) : ∀ (c b : List Nat), b.length ≤ c.length →
    updAt (gAdd p) 0 (up c) (up b) = up (zipAdd p c b) := by
  intro c
  induction c with
  | nil => intro b h; cases b with
    | nil => rfl
    | cons y b => simp at h
  | cons x c ih =>
    intro b h
    cases b with
    | nil => simp [updAt_nil, zipAdd]
    | cons y b =>
      simp only [up_cons, updAt, zipAdd, gAdd_cast]
      rw [ih b (by simpa using h)]

theorem zipAdd_comm (p : Nat) : ∀ (a b : List Nat), zipAdd p a b = zipAdd p b a := by
  intro a
  induction a with
  | nil => intro b; cases b <;> simp [zipAdd]
  | cons x a ih =>
    intro b
    cases b with
    | nil => simp [zipAdd]
    | cons y b =>
      simp only [zipAdd]
      rw [ih b]
      congr 1
      unfold addC
      rw [Nat.add_comm]

/-- the loop of `_add` -/
theorem add_loop (p : Nat) (c b : List Nat) (h : b.length ≤ c.length) :
    pyFor (ε := TErr) (σ := List Int) (pyEnum (up b)) (up c) (fun it_ st_ => match it_, st_ with
      | (i, b_i), c =>
        if pyIdxOk c.length i = false then .error .indexError else
        let c := pySet c i ((pyGet c i) + b_i)
        if pyIdxOk c.length i = false then .error .indexError else
        if (pyGet c i) ≥ (p : Int) then
          if pyIdxOk c.length i = false then .error .indexError else
          let c := pySet c i ((pyGet c i) - (p : Int))
          .ok c
        else
          .ok c) = .ok (up (zipAdd p c b)) := by
  have key := pyFor_eq_foldl (ε := TErr) (fun (s : List Int) => s.length = c.length)
    (fun s (ix : Int × Int) => s.set ix.1.toNat (gAdd p (s.getD ix.1.toNat 0) ix.2))
    (fun it_ st_ => match it_, st_ with
      | (i, b_i), c =>
        if pyIdxOk c.length i = false then .error .indexError else
        let c := pySet c i ((pyGet c i) + b_i)
        if pyIdxOk c.length i = false then .error .indexError else
        if (pyGet c i) ≥ (p : Int) then
          if pyIdxOk c.length i = false then .error .indexError else
          let c := pySet c i ((pyGet c i) - (p : Int))
          .ok c
        else
          .ok c) (pyEnum (up b)) (up c) (by simp) (by
      intro s ix hx hs
      rw [pyEnum_eq] at hx
      simp only [List.mem_map] at hx
      obtain ⟨⟨v, j⟩, hmem, rfl⟩ := hx
      have hj : j < b.length := by
        have := (List.mem_zipIdx hmem).2.1
        simpa using this
      have hjs : j < s.length := by rw [hs]; omega
      refine ⟨?_, by simp [hs]⟩
      simp only [Int.toNat_natCast]
      have hok : pyIdxOk s.length (j : Int) = true := pyIdxOk_nat hjs
      have hok2 : ∀ w, pyIdxOk (s.set j w).length (j : Int) = true := fun w => by
        rw [List.length_set]; exact hok
      simp only [hok, hok2, pyGet_nat, pySet_nat, Bool.true_eq_false, if_false, List.getD_eq_getElem?_getD,
        List.getElem?_set_self hjs, Option.getD_some, List.set_set]
      unfold gAdd
      split <;> rfl)
  rw [key.1, pyEnum_eq, List.foldl_map]
  have := foldl_enum_set (gAdd p) 0 (up b) 0 (up c)
  simp only [Nat.zero_add, Int.toNat_natCast] at this ⊢
  rw [this, updAt_add_up p c b h]

/-- `_add` of the pinned source = the model -/
theorem add_eq (p : Nat) (a b : List Nat) :
    GfpxMirror.add (p : Int) (up a) (up b) = .ok (up (GFpX.add p a b)) := by
  unfold GfpxMirror.add GFpX.add
  by_cases h : a.length < b.length
  · have h' : ((up a).length : Int) < ((up b).length : Int) := by simpa using h
    simp only [h', if_true]
    rw [add_loop p b a (by omega)]
    simp only [pyStrip_up, zipAdd_comm p a b]
  · have h' : ¬ ((up a).length : Int) < ((up b).length : Int) := by simpa using h
    simp only [h', if_false]
    rw [add_loop p a b (by omega)]
    simp only [pyStrip_up]

/-! ### sub -/

def gSub (p : Int) (x y : Int) : Int := if x - y < 0 then x - y + p else x - y

theorem gSub_cast {p x y : Nat} (hy : y ≤ p) : gSub (p : Int) (x : Int) (y : Int) = ((subC p x y : Nat) : Int) := by
  unfold gSub subC
  by_cases h : x < y
  · rw [if_pos (by omega), if_pos h]; omega
  · rw [if_neg (by omega), if_neg h]; omega

theorem updAt_sub_up (p : Nat) : ∀ (b a : List Nat), Reduced p b →
    updAt (gSub p) 0 (up (a ++ List.replicate (b.length - a.length) 0)) (up b) = up (zipSub p a b) := by
  intro b
  induction b with
  | nil => intro a _; simp [updAt_nil, zipSub]
  | cons y b ih =>
    intro a hb
    have hy : y ≤ p := Nat.le_of_lt (hb y (by simp))
    have hb' : Reduced p b := fun z hz => hb z (List.mem_cons_of_mem _ hz)
    cases a with
    | nil =>
      have := ih [] hb'
      simp only [List.nil_append, List.length_nil, Nat.sub_zero, List.length_cons, List.replicate_succ, up_cons,
        updAt, zipSub] at this ⊢
      rw [this]
      congr 1
      exact gSub_cast (x := 0) hy
    | cons x a =>
      have := ih a hb'
      simp only [List.length_cons, Nat.add_sub_add_right, List.cons_append, up_cons, updAt, zipSub]
      rw [this, gSub_cast hy]

/-- `_sub` of the pinned source = the model (the subtrahend has reduced coefficients) -/
theorem sub_eq (p : Nat) (a : List Nat) {b : List Nat} (hb : Reduced p b) :
    GfpxMirror.sub (p : Int) (up a) (up b) = .ok (up (GFpX.sub p a b)) := by
  unfold GfpxMirror.sub GFpX.sub
  have hc : (up a ++ List.replicate (((up b).length : Int) - ((up a).length : Int)).toNat (0 : Int))
      = up (a ++ List.replicate (b.length - a.length) 0) := by
    rw [up_append, up_replicate]
    congr 2
    simp only [up_length]
    omega
  rw [hc]
  set c := a ++ List.replicate (b.length - a.length) 0 with hcdef
  have hlen : b.length ≤ c.length := by rw [hcdef]; simp; omega
  have key := pyFor_eq_foldl (ε := TErr) (fun (s : List Int) => s.length = c.length)
    (fun s (ix : Int × Int) => s.set ix.1.toNat (gSub p (s.getD ix.1.toNat 0) ix.2))
    (fun it_ st_ => match it_, st_ with
      | (i, b_i), c =>
        if pyIdxOk c.length i = false then .error .indexError else
        let c := pySet c i ((pyGet c i) - b_i)
        if pyIdxOk c.length i = false then .error .indexError else
        if (pyGet c i) < 0 then
          if pyIdxOk c.length i = false then .error .indexError else
          let c := pySet c i ((pyGet c i) + (p : Int))
          .ok c
        else
          .ok c) (pyEnum (up b)) (up c) (by simp) (by
      intro s ix hx hs
      rw [pyEnum_eq] at hx
      simp only [List.mem_map] at hx
      obtain ⟨⟨v, j⟩, hmem, rfl⟩ := hx
      have hj : j < b.length := by
        have := (List.mem_zipIdx hmem).2.1
        simpa using this
      have hjs : j < s.length := by rw [hs]; omega
      refine ⟨?_, by simp [hs]⟩
      simp only [Int.toNat_natCast]
      have hok : pyIdxOk s.length (j : Int) = true := pyIdxOk_nat hjs
      have hok2 : ∀ w, pyIdxOk (s.set j w).length (j : Int) = true := fun w => by
        rw [List.length_set]; exact hok
      simp only [hok, hok2, pyGet_nat, pySet_nat, Bool.true_eq_false, if_false, List.getD_eq_getElem?_getD,
        List.getElem?_set_self hjs, Option.getD_some, List.set_set]
      unfold gSub
      split <;> rfl)
  dsimp only
  rw [key.1, pyEnum_eq, List.foldl_map]
  have := foldl_enum_set (gSub p) 0 (up b) 0 (up c)
  simp only [Nat.zero_add, Int.toNat_natCast] at this ⊢
  rw [this, hcdef, updAt_sub_up p b a hb]
  simp only [pyStrip_up]

end MpycV.GfpxBridge
