/-
Lemmas for C30, to_bits: masking, opening, reduction mod 2^l and bitwise re-addition of the mask give
the l low bits for every randomness (`mask_unmask`, `toBits_spec'`).
-/
import MpycV.Lemmas.BitsAdd

set_option linter.unusedSimpArgs false
namespace MpycV.Bits

/-! ### to_bits -/

theorem isBits_take {x : List Int} (h : IsBits x) (n : Nat) : IsBits (x.take n) :=
  fun b hb => h b (List.mem_of_mem_take hb)

/-- masking with `r`, opening, reducing mod 2^l and adding `r` back bitwise gives the low bits of `a`,
whatever the random values are (offset `2^K` with `l ≤ K`, high part `d`) -/
theorem mask_unmask (a d : Int) (K l : Nat) (r : List Int) (hr : IsBits r) (hrl : r.length = l) (hK : l ≤ K) :
    addBits r (bitsOf ((a + (2 ^ K + d * 2 ^ l - fromBits r)) % 2 ^ l) l) = bitsOf a l := by
  have hs := addBits_spec' r (bitsOf ((a + (2 ^ K + d * 2 ^ l - fromBits r)) % 2 ^ l) l) hr
    (isBits_bitsOf _ _) (by rw [length_bitsOf, hrl])
  rw [hs.2.2.2, hrl, fromBits_bitsOf, Int.emod_emod_of_dvd _ (dvd_refl _)]
  have hK' : (2 : Int) ^ K = 2 ^ l * 2 ^ (K - l) := by rw [← pow_add]; congr 1; omega
  have e : fromBits r + (a + (2 ^ K + d * 2 ^ l - fromBits r)) = a + 2 ^ l * (2 ^ (K - l) + d) := by
    rw [hK']; ring
  have key : (fromBits r + (a + (2 ^ K + d * 2 ^ l - fromBits r)) % 2 ^ l) % 2 ^ l = a % 2 ^ l := by
    rw [Int.add_emod_emod, e, Int.add_mul_emod_self_left]
  rw [← bitsOf_emod, key, bitsOf_emod]

theorem bitsOf_two_pow_mul_le (q : Int) : ∀ (l f : Nat), l ≤ f → bitsOf (2 ^ f * q) l = List.replicate l 0
  | 0, _, _ => rfl
  | l + 1, 0, h => by omega
  | l + 1, f + 1, h => by
      rw [bitsOf_succ, List.replicate_succ]
      have e : (2 : Int) ^ (f + 1) * q = 2 * (2 ^ f * q) := by rw [pow_succ]; ring
      rw [e, Int.mul_emod_right, Int.mul_ediv_cancel_left _ (by decide), bitsOf_two_pow_mul_le q l f (by omega)]

theorem bitsOf_two_pow_mul (q : Int) (k : Nat) : ∀ f : Nat,
    bitsOf (2 ^ f * q) (f + k) = List.replicate f 0 ++ bitsOf q k
  | 0 => by simp
  | f + 1 => by
      have e : (2 : Int) ^ (f + 1) * q = 2 * (2 ^ f * q) := by rw [pow_succ]; ring
      have e2 : f + 1 + k = (f + k) + 1 := by omega
      rw [e2, bitsOf_succ, List.replicate_succ, e, Int.mul_emod_right,
        Int.mul_ediv_cancel_left _ (by decide), bitsOf_two_pow_mul q k f]
      rfl

/-- `to_bits(a, l)`: for every randomness the result is the list of the l low bits of `a`
(two's complement for negative `a`); fixed-point numbers flagged integral must be multiples of 2^f. -/
theorem toBits_spec' (L f : Nat) (integral : Bool) (a : Int) (l : Nat) (rbits : List Int) (rdivl : Int)
    (hl : l ≤ L + f) (hr : IsBits rbits) (hrl : l ≤ rbits.length)
    (hint : integral = true → (2 : Int) ^ f ∣ a) :
    toBits L f integral a l rbits rdivl = some (bitsOf a l) := by
  unfold toBits
  rw [if_neg (by omega)]
  by_cases hsh : (decide (f ≠ 0) && integral) = true
  · -- integral fixed-point number: shift by f first
    have hi : integral = true := by simp at hsh; exact hsh.2
    obtain ⟨q, hq⟩ := hint hi
    simp only [hsh, Bool.true_and, if_true]
    by_cases hlf : l ≤ f
    · simp only [hlf, decide_true, if_true]
      rw [hq, bitsOf_two_pow_mul_le q l f hlf]
    · simp only [hlf, decide_false, if_false]
      have hdiv : a / 2 ^ f = q := by rw [hq]; exact Int.mul_ediv_cancel_left _ (by positivity)
      have hlen : (rbits.take (l - f)).length = l - f := by rw [List.length_take]; omega
      rw [hdiv, mask_unmask q rdivl (max L (l - f)) (l - f) _ (isBits_take hr _) hlen (le_max_right _ _)]
      have : l = f + (l - f) := by omega
      conv => rhs; rw [this, hq, bitsOf_two_pow_mul]
      simp
  · simp only [hsh, Bool.false_and, if_false]
    have hlen : (rbits.take l).length = l := by rw [List.length_take]; omega
    simp only [Bool.false_eq_true, if_false]
    rw [mask_unmask a rdivl (max L l) l _ (isBits_take hr _) hlen (le_max_right _ _)]

end MpycV.Bits
