import MpycV.Model.PrimeRoot
import MpycV.Lemmas.NumThPrime2
import Mathlib.NumberTheory.LucasPrimality
import Mathlib.GroupTheory.OrderOfElement

namespace MpycV.PrimeRoot
open MpycV.NumTh

/-! ### the Blum search `while p%4 != 3: p = prev_prime(p)` -/

theorem blumDown_spec (isP : Int → Bool) (hP : CorrectOracle isP) (B : Int) (fuel : Nat) (p : Int)
    (hp : Nat.Prime p.toNat) (h3 : 3 ≤ p) (hf : p.toNat ≤ fuel)
    (hmax : ∀ q : Int, Nat.Prime q.toNat → q % 4 = 3 → q < B → q ≤ p) :
    ∃ p', blumDown isP fuel p = .ok p' ∧ Nat.Prime p'.toNat ∧ p' % 4 = 3 ∧ p' ≤ p ∧
      ∀ q : Int, Nat.Prime q.toNat → q % 4 = 3 → q < B → q ≤ p' := by
  induction fuel generalizing p with
  | zero => omega
  | succ f ih =>
    simp only [blumDown]
    by_cases h4 : p % 4 ≠ 3
    · rw [if_pos h4]
      obtain ⟨q, hq1, hq2, hq3, hq4⟩ := (prevPrime_spec isP hP p).2 h3
      rw [hq1]
      simp only []
      have hq3' : 3 ≤ q := hq4 3 Nat.prime_three (by omega)
      obtain ⟨p', h1, h2, h3', h4', h5⟩ := ih q hq2 hq3' (by omega) (fun r hr hr4 hrB => by
        have h := hmax r hr hr4 hrB
        have hne : r ≠ p := by rintro rfl; exact h4 hr4
        exact hq4 r hr (by omega))
      exact ⟨p', h1, h2, h3', by omega, h5⟩
    · rw [if_neg h4]
      exact ⟨p, rfl, hp, by omega, le_refl _, hmax⟩

/-! ### the root loop -/

theorem rootLoop_spec (p e : Nat) (fuel a : Nat) (g : Nat) (hag : a ≤ g) (hg : g ^ e % p ≠ 1)
    (hf : g - a < fuel) :
    ∃ a', a ≤ a' ∧ a' ≤ g ∧ rootLoop p e fuel a = .ok (a' ^ e % p) ∧ a' ^ e % p ≠ 1 := by
  induction fuel generalizing a with
  | zero => omega
  | succ f ih =>
    simp only [rootLoop, powMod_eq]
    by_cases h1 : a ^ e % p = 1
    · rw [if_pos h1]
      have hne : a ≠ g := by rintro rfl; exact hg h1
      obtain ⟨a', h2, h3, h4, h5⟩ := ih (a + 1) (by omega) (by omega)
      exact ⟨a', by omega, h3, h4, h5⟩
    · rw [if_neg h1]
      exact ⟨a, le_refl _, hag, rfl, h1⟩

/-- for a prime p and a prime n ∣ p - 1 there is 2 ≤ g < p with g^((p-1)/n) ≢ 1 -/
theorem exists_nonresidue (p n : Nat) (hp : p.Prime) (hn : n.Prime) (hd : n ∣ p - 1) :
    ∃ g, 2 ≤ g ∧ g < p ∧ g ^ ((p - 1) / n) % p ≠ 1 := by
  have : Fact p.Prime := ⟨hp⟩
  obtain ⟨a, hpow, ha⟩ := reverse_lucas_primality p hp
  have h1 := ha n hn hd
  have hval : ((a.val : Nat) : ZMod p) = a := ZMod.natCast_zmod_val a
  have hne : (a.val) ^ ((p - 1) / n) % p ≠ 1 := by
    intro h
    apply h1
    rw [← hval, ← Nat.cast_pow]
    exact (natCast_eq_one_iff p _ hp.one_lt).mpr h
  have hlt : a.val < p := ZMod.val_lt a
  refine ⟨a.val, ?_, hlt, hne⟩
  by_contra hlt2
  have hp2 := hp.two_le
  have hepos : 0 < (p - 1) / n := Nat.div_pos (Nat.le_of_dvd (by omega) hd) hn.pos
  rcases Nat.lt_or_ge a.val 1 with h0 | h0
  · have h00 : a.val = 0 := by omega
    have ha0 : a = 0 := by rw [← hval, h00]; simp
    rw [ha0, zero_pow (by omega)] at hpow
    exact zero_ne_one hpow
  · have : a.val = 1 := by omega
    rw [this, one_pow] at hne
    exact hne (Nat.mod_eq_of_lt hp.one_lt)

end MpycV.PrimeRoot
