import MpycV.Model.Groups
import Mathlib.Algebra.Group.Basic
import Mathlib.Algebra.Group.Int.Defs
import Mathlib.Tactic.Ring
import Mathlib.Tactic.Linarith
import Mathlib.Data.Nat.Log

namespace MpycV.Groups

/-- the operations of a Mathlib group (or group with zero) -/
def GroupOps.ofGroup (α : Type) [DivisionMonoid α] : GroupOps α :=
  { op := (· * ·), op2 := fun a => a * a, inv := (·⁻¹), id := 1 }

/-- `G` computes in the group `α`: what the four class methods must satisfy -/
structure GroupOps.Lawful {α : Type} [DivisionMonoid α] (G : GroupOps α) : Prop where
  op : ∀ a b, G.op a b = a * b
  op2 : ∀ a, G.op2 a = a * a
  inv : ∀ a, G.inv a = a⁻¹
  id : G.id = 1

theorem shiftRight_split (n k : Nat) : n >>> k = 2 * (n >>> (k + 1)) + (if n.testBit k then 1 else 0) := by
  rw [Nat.shiftRight_succ, Nat.testBit_eq_decide_div_mod_eq, Nat.shiftRight_eq_div_pow]
  by_cases h : n / 2 ^ k % 2 = 1 <;> simp [h] <;> omega

theorem foldl_ladder {α : Type} [Monoid α] (G : GroupOps α)
    (hop : ∀ a b, G.op a b = a * b) (hop2 : ∀ a, G.op2 a = a * a) (a : α) (n : Nat) :
    ∀ k c, c = a ^ (n >>> k) → ((List.range k).reverse).foldl (ladderStep G a n) c = a ^ n := by
  intro k
  induction k with
  | zero => intro c hc; simpa using hc
  | succ k ih =>
    intro c hc
    rw [List.range_succ, List.reverse_append, List.reverse_singleton, List.singleton_append,
      List.foldl_cons]
    apply ih
    rw [ladderStep, hop2, hc, shiftRight_split n k]
    by_cases hb : n.testBit k
    · simp only [hb, if_true, hop]; rw [pow_succ, two_mul, pow_add]
    · simp [hb, two_mul, pow_add]

theorem shiftRight_log2 (n : Nat) (hn : n ≠ 0) : n >>> (bitLength n - 1) = 1 := by
  simp only [bitLength, hn, if_false, Nat.add_sub_cancel, Nat.shiftRight_eq_div_pow]
  have h1 := Nat.log2_self_le hn
  have h2 := Nat.lt_log2_self (n := n)
  apply Nat.div_eq_of_lt_le <;> simp [pow_succ] at * <;> omega

theorem repeatNat_spec {α : Type} [Monoid α] (G : GroupOps α)
    (hop : ∀ a b, G.op a b = a * b) (hop2 : ∀ a, G.op2 a = a * a) (a : α) (n : Nat) (hn : n ≠ 0) :
    repeatNat G a n = a ^ n := by
  apply foldl_ladder G hop hop2
  rw [shiftRight_log2 n hn, pow_one]

theorem repeat_spec' {α : Type} [DivisionMonoid α] (G : GroupOps α) (hG : G.Lawful) (a : α) (n : Int) :
    «repeat» G a n = a ^ n := by
  unfold «repeat»
  split
  · next h => simp [h, hG.id]
  · split
    · next h0 h =>
      rw [repeatNat_spec G hG.op hG.op2 _ _ (by omega), hG.inv]
      have : n = -((-n).toNat : Int) := by omega
      conv_rhs => rw [this]
      rw [zpow_neg, zpow_natCast, inv_pow]
    · next h0 h =>
      rw [repeatNat_spec G hG.op hG.op2 _ _ (by omega)]
      have : n = (n.toNat : Int) := by omega
      conv_rhs => rw [this]
      rw [zpow_natCast]


theorem ofGroup_lawful (α : Type) [DivisionMonoid α] : (GroupOps.ofGroup α).Lawful :=
  ⟨fun _ _ => rfl, fun _ => rfl, fun _ => rfl, rfl⟩

/-! ### bit ladder of `repeat_secret_base_secret_output` -/

/-- value of a bit list, least significant bit first -/
def bitsVal : List Bool → Nat
  | [] => 0
  | b :: bs => (if b then 1 else 0) + 2 * bitsVal bs

theorem ladderGo_spec {α : Type} [Monoid α] (G : GroupOps α)
    (hop : ∀ a b, G.op a b = a * b) (hop2 : ∀ a, G.op2 a = a * a) :
    ∀ (xs : List Bool) (b c : α), ladderGo G xs b c = c * (b * b) ^ bitsVal xs := by
  intro xs
  induction xs with
  | nil => intro b c; simp [ladderGo, bitsVal]
  | cons x xs ih =>
    intro b c
    rw [ladderGo, ih, hop2, bitsVal]
    cases x
    · simp only [Bool.false_eq_true, if_false, zero_add]
      rw [pow_mul, pow_two]
    · simp only [if_true, hop]
      rw [pow_add, pow_one, pow_mul, pow_two, mul_assoc]

theorem ladder_spec {α : Type} [Monoid α] (G : GroupOps α)
    (hop : ∀ a b, G.op a b = a * b) (hop2 : ∀ a, G.op2 a = a * a) (hid : G.id = 1)
    (a : α) (bits : List Bool) : ladder G a bits = a ^ bitsVal bits := by
  cases bits with
  | nil => simp [ladder, bitsVal, hid]
  | cons x xs =>
    rw [ladder, ladderGo_spec G hop hop2, bitsVal]
    cases x
    · simp only [Bool.false_eq_true, if_false, zero_add, hid, one_mul]
      rw [pow_mul, pow_two]
    · simp only [if_true]
      rw [pow_add, pow_one, pow_mul, pow_two]

/-! ### public base, secret exponent: product of the parties' local powers -/

theorem pow_mod_of_pow_eq_one {α : Type} [Monoid α] (a : α) (q : Nat) (hq : a ^ q = 1) (n : Nat) :
    a ^ (n % q) = a ^ n := by
  conv_rhs => rw [← Nat.div_add_mod n q]
  rw [pow_add, pow_mul, hq, one_pow, one_mul]

theorem foldl_op_eq {α : Type} [Monoid α] (G : GroupOps α) (hop : ∀ a b, G.op a b = a * b)
    (cs : List α) (c : α) : cs.foldl G.op c = c * cs.prod := by
  induction cs generalizing c with
  | nil => simp
  | cons d ds ih => rw [List.foldl_cons, ih, hop, List.prod_cons, mul_assoc]

theorem pubBaseCombine_eq {α : Type} [DivisionMonoid α] (G : GroupOps α) (hG : G.Lawful) (a : α)
    (es : List Nat) : pubBaseCombine G a es = a ^ es.sum := by
  unfold pubBaseCombine
  cases es with
  | nil => simp [hG.id]
  | cons e es =>
    simp only [List.map_cons]
    rw [foldl_op_eq G hG.op, repeat_spec' G hG, List.sum_cons, pow_add]
    congr 1
    · simp
    · induction es with
      | nil => simp
      | cons f fs ih =>
        rw [List.map_cons, List.prod_cons, List.sum_cons, pow_add, ih, repeat_spec' G hG]
        simp

end MpycV.Groups
