/-
Characteristic 2: bit decomposition and the bitwise operations of secure binary-field elements act on the
Nat bitmask representations (model: MpycV.Model.SecFld with `binOps`, i.e. finfields.BinaryFieldElement).
-/
import MpycV.Model.SecFld
import Mathlib.Data.Nat.Bitwise
import Mathlib.Tactic.Ring
import Mathlib.Tactic.Linarith

namespace MpycV.SecFld
open MpycV.BinPoly (bitLen modCore)

/-! ### reduced representations of a binary field GF(2^d), d = bitLen m - 1 -/

theorem bitLen_le_iff {a k : Nat} : bitLen a ≤ k ↔ a < 2 ^ k := by
  unfold bitLen
  by_cases h : a = 0
  · simp [h]
  · rw [if_neg h]
    rw [← Nat.log2_lt h]; omega

theorem modCore_red {m x : Nat} (hx : x < 2 ^ (bitLen m - 1)) (hm : 1 ≤ bitLen m) : modCore x m = x := by
  have : bitLen x < bitLen m := by
    have := bitLen_le_iff.mpr hx; omega
  unfold modCore
  simp [this]

variable {m : Nat}

theorem bin_ofNat {n : Nat} (hm : 1 ≤ bitLen m) (hn : n < 2 ^ (bitLen m - 1)) : (binOps m).ofNat n = n := by
  show BinF.ofInt m (n : Int) = n
  unfold BinF.ofInt BinF.mk BinPoly.fromInt
  simp only [Int.natAbs_natCast]
  exact modCore_red hn hm

theorem bin_add {a b : Nat} (hm : 1 ≤ bitLen m) (ha : a < 2 ^ (bitLen m - 1)) (hb : b < 2 ^ (bitLen m - 1)) :
    (binOps m).add a b = a ^^^ b := by
  show BinF.add m a b = a ^^^ b
  unfold BinF.add BinF.mk BinPoly.add
  exact modCore_red (Nat.xor_lt_two_pow ha hb) hm

theorem bin_toNat (a : Nat) : (binOps m).toNat a = a := rfl

theorem bin_mul_bits {a b : Nat} (hm : 2 ≤ bitLen m) (ha : a < 2) (hb : b < 2) :
    (binOps m).mul a b = a &&& b := by
  show BinF.mul m a b = a &&& b
  unfold BinF.mul BinF.mk
  have h2 : (2 : Nat) ≤ 2 ^ (bitLen m - 1) := by
    calc (2 : Nat) = 2 ^ 1 := rfl
      _ ≤ 2 ^ (bitLen m - 1) := Nat.pow_le_pow_right (by omega) (by omega)
  have hcases : BinPoly.mul a b = a &&& b := by
    have : a = 0 ∨ a = 1 := by omega
    have : b = 0 ∨ b = 1 := by omega
    rcases ‹a = 0 ∨ a = 1› with rfl | rfl <;> rcases ‹b = 0 ∨ b = 1› with rfl | rfl <;> decide
  rw [hcases]
  apply modCore_red _ (by omega)
  have : a &&& b ≤ a := Nat.and_le_left
  omega

/-! ### bit lists -/

theorem bitsToNat_testBit (bs : List Nat) (hb : ∀ b ∈ bs, b < 2) (i : Nat) :
    (bitsToNat bs).testBit i = decide (bs.getD i 0 = 1) := by
  induction bs generalizing i with
  | nil => simp [bitsToNat]
  | cons b bs ih =>
    have hb0 : b < 2 := hb b List.mem_cons_self
    have ih' := ih (fun x hx => hb x (List.mem_cons_of_mem _ hx))
    unfold bitsToNat
    rw [Nat.testBit_xor, Nat.testBit_shiftLeft]
    cases i with
    | zero =>
      have : b = 0 ∨ b = 1 := by omega
      rcases this with rfl | rfl <;> simp
    | succ i =>
      have hbi : b.testBit (i + 1) = false := by
        apply Nat.testBit_lt_two_pow
        calc b < 2 := hb0
          _ = 2 ^ 1 := rfl
          _ ≤ 2 ^ (i + 1) := Nat.pow_le_pow_right (by omega) (by omega)
      simp [hbi, ih']

theorem bitsToNat_lt (bs : List Nat) (hb : ∀ b ∈ bs, b < 2) : bitsToNat bs < 2 ^ bs.length := by
  apply Nat.lt_pow_two_of_testBit
  intro i hi
  rw [bitsToNat_testBit bs hb, List.getD_eq_default _ _ hi]
  rfl

theorem shift_mod_two (c i : Nat) : (c >>> i) % 2 = (c.testBit i).toNat := by
  rw [Nat.toNat_testBit, Nat.shiftRight_eq_div_pow]

theorem bool_xor_toNat (x y : Bool) : x.toNat ^^^ y.toNat = (x ^^ y).toNat := by
  cases x <;> cases y <;> rfl

theorem bool_and_toNat (x y : Bool) : x.toNat &&& y.toNat = (x && y).toNat := by
  cases x <;> cases y <;> rfl

theorem getD_toNat_testBit (bs : List Nat) (hb : ∀ b ∈ bs, b < 2) (i : Nat) :
    bs.getD i 0 = ((bitsToNat bs).testBit i).toNat := by
  rw [bitsToNat_testBit bs hb]
  by_cases hi : i < bs.length
  · have hmem : bs.getD i 0 ∈ bs := by
      rw [List.getD_eq_getElem _ _ hi]; exact List.getElem_mem hi
    have := hb _ hmem
    have : bs.getD i 0 = 0 ∨ bs.getD i 0 = 1 := by omega
    rcases this with h | h <;> rw [h] <;> rfl
  · rw [List.getD_eq_default _ _ (by omega : bs.length ≤ i)]; rfl

/-- a number below 2^l is rebuilt from its l low bits -/
theorem bitsToNat_bits (x l : Nat) (hx : x < 2 ^ l) :
    bitsToNat ((List.range l).map (fun i => (x.testBit i).toNat)) = x := by
  apply Nat.eq_of_testBit_eq
  intro i
  rw [bitsToNat_testBit]
  · by_cases hi : i < l
    · rw [List.getD_eq_getElem _ _ (by simpa using hi)]
      simp only [List.getElem_map, List.getElem_range]
      cases x.testBit i <;> simp
    · rw [List.getD_eq_default _ _ (by simpa using (by omega : l ≤ i))]
      have : x.testBit i = false := by
        apply Nat.testBit_lt_two_pow
        exact lt_of_lt_of_le hx (Nat.pow_le_pow_right (by omega) (by omega))
      simp [this]
  · intro b hb
    simp only [List.mem_map, List.mem_range] at hb
    obtain ⟨j, _, rfl⟩ := hb
    cases x.testBit j <;> simp

/-! ### bit decomposition and bitwise operations in GF(2^d) -/

/-- ★ `to_bits` in characteristic 2: for EVERY choice of the random bits the result is the list of the
low l bits of the representation (l = number of random bits ≤ d), and the opened value is a ⊕ r. -/
theorem toBitsBin_correct {a : Nat} {rbits : List Nat} (hm : 2 ≤ bitLen m) (ha : a < 2 ^ (bitLen m - 1))
    (hb : ∀ b ∈ rbits, b < 2) (hl : rbits.length ≤ bitLen m - 1) :
    toBitsBin (binOps m) a rbits =
      (a ^^^ bitsToNat rbits, (List.range rbits.length).map (fun i => (a.testBit i).toNat)) := by
  have hm1 : 1 ≤ bitLen m := by omega
  have hR : bitsToNat rbits < 2 ^ (bitLen m - 1) :=
    lt_of_lt_of_le (bitsToNat_lt rbits hb) (Nat.pow_le_pow_right (by omega) hl)
  have h2 : (2 : Nat) ≤ 2 ^ (bitLen m - 1) := by
    calc (2 : Nat) = 2 ^ 1 := rfl
      _ ≤ 2 ^ (bitLen m - 1) := Nat.pow_le_pow_right (by omega) (by omega)
  have hc : (binOps m).toNat ((binOps m).add a ((binOps m).ofNat (bitsToNat rbits))) = a ^^^ bitsToNat rbits := by
    rw [bin_toNat, bin_ofNat hm1 hR, bin_add hm1 ha hR]
  unfold toBitsBin
  simp only [hc]
  congr 1
  apply List.map_congr_left
  intro i _
  have hri : rbits.getD i 0 < 2 := by
    rw [getD_toNat_testBit rbits hb]; cases (bitsToNat rbits).testBit i <;> simp
  have hci : ((a ^^^ bitsToNat rbits) >>> i) % 2 < 2 := Nat.mod_lt _ (by omega)
  rw [bin_ofNat hm1 (by omega), bin_ofNat hm1 (by omega), bin_add hm1 (by omega) (by omega)]
  rw [shift_mod_two, Nat.testBit_xor, getD_toNat_testBit rbits hb, bool_xor_toNat]
  congr 1
  cases a.testBit i <;> cases (bitsToNat rbits).testBit i <;> rfl

/-- ★ xor is field addition and acts bitwise on the representations -/
theorem xor_correct {a b : Nat} (hm : 1 ≤ bitLen m) (ha : a < 2 ^ (bitLen m - 1)) (hb : b < 2 ^ (bitLen m - 1)) :
    xor (binOps m) a b = a ^^^ b := bin_add hm ha hb

theorem xor_all_ones {d a : Nat} (ha : a < 2 ^ d) : a ^^^ (2 ^ d - 1) = 2 ^ d - 1 - a := by
  apply Nat.eq_of_testBit_eq
  intro i
  have e : 2 ^ d - 1 - a = 2 ^ d - (a + 1) := by omega
  rw [Nat.testBit_xor, Nat.testBit_two_pow_sub_one, e, Nat.testBit_two_pow_sub_succ ha]
  by_cases hi : i < d
  · simp [hi]
  · have : a.testBit i = false := by
      apply Nat.testBit_lt_two_pow
      exact lt_of_lt_of_le ha (Nat.pow_le_pow_right (by omega) (by omega))
    simp [hi, this]

/-- ★ invert adds the all-ones element q-1: bitwise complement on the d = ext_deg bits -/
theorem invert_correct {a : Nat} (hm : 1 ≤ bitLen m) (ha : a < 2 ^ (bitLen m - 1)) :
    invert (binOps m) none a = a ^^^ (2 ^ (bitLen m - 1) - 1) ∧
    invert (binOps m) none a = 2 ^ (bitLen m - 1) - 1 - a := by
  have hpos : 0 < 2 ^ (bitLen m - 1) := Nat.pos_of_ne_zero (by positivity)
  have h : invert (binOps m) none a = a ^^^ (2 ^ (bitLen m - 1) - 1) := by
    unfold invert
    show (binOps m).add a ((binOps m).ofNat (BinF.order m - 1)) = _
    unfold BinF.order
    rw [bin_ofNat hm (by omega), bin_add hm ha (by omega)]
  exact ⟨h, by rw [h, xor_all_ones ha]⟩

/-- ★ and_ = from_bits(to_bits a ⊙ to_bits b) is the bitwise AND of the representations -/
theorem and_correct {a b : Nat} {ra rb : List Nat} (hm : 2 ≤ bitLen m)
    (ha : a < 2 ^ (bitLen m - 1)) (hb : b < 2 ^ (bitLen m - 1))
    (hra : ∀ x ∈ ra, x < 2) (hrb : ∀ x ∈ rb, x < 2)
    (hla : ra.length = bitLen m - 1) (hlb : rb.length = bitLen m - 1) :
    and_ (binOps m) a b ra rb = a &&& b := by
  have hm1 : 1 ≤ bitLen m := by omega
  have hab : a &&& b < 2 ^ (bitLen m - 1) := lt_of_le_of_lt Nat.and_le_left ha
  unfold and_ fromBitsBin
  rw [toBitsBin_correct hm ha hra (by omega), toBitsBin_correct hm hb hrb (by omega)]
  simp only [hla, hlb]
  have : (List.zipWith (binOps m).mul
      ((List.range (bitLen m - 1)).map (fun i => (a.testBit i).toNat))
      ((List.range (bitLen m - 1)).map (fun i => (b.testBit i).toNat))).map (binOps m).toNat
      = (List.range (bitLen m - 1)).map (fun i => ((a &&& b).testBit i).toNat) := by
    rw [List.zipWith_map_left, List.zipWith_map_right, List.zipWith_self, List.map_map]
    apply List.map_congr_left
    intro i _
    simp only [Function.comp]
    rw [bin_toNat, bin_mul_bits hm (by cases a.testBit i <;> simp) (by cases b.testBit i <;> simp),
      bool_and_toNat, Nat.testBit_and]
  rw [this, bitsToNat_bits _ _ hab, bin_ofNat hm1 hab]

theorem xor_xor_and (a b : Nat) : a ^^^ b ^^^ (a &&& b) = a ||| b := by
  apply Nat.eq_of_testBit_eq
  intro i
  simp only [Nat.testBit_xor, Nat.testBit_and, Nat.testBit_or]
  cases a.testBit i <;> cases b.testBit i <;> rfl

/-- ★ or_ = a + b + and_(a, b) is the bitwise OR of the representations -/
theorem or_correct {a b : Nat} {ra rb : List Nat} (hm : 2 ≤ bitLen m)
    (ha : a < 2 ^ (bitLen m - 1)) (hb : b < 2 ^ (bitLen m - 1))
    (hra : ∀ x ∈ ra, x < 2) (hrb : ∀ x ∈ rb, x < 2)
    (hla : ra.length = bitLen m - 1) (hlb : rb.length = bitLen m - 1) :
    or_ (binOps m) a b ra rb = a ||| b := by
  have hm1 : 1 ≤ bitLen m := by omega
  unfold or_
  rw [and_correct hm ha hb hra hrb hla hlb, bin_add hm1 ha hb,
    bin_add hm1 (Nat.xor_lt_two_pow ha hb) (lt_of_le_of_lt Nat.and_le_left ha), xor_xor_and]

/-- the argument of the bit decomposition is the canonical representative `x` itself -/
theorem toBitsPrimeArg_eq (p : Nat) (sg : Bool) (x : Nat) (hx : x < p) : toBitsPrimeArg p sg x = (x : Int) := by
  unfold toBitsPrimeArg Convert.toInt Convert.signed
  cases sg
  · simp
  · simp only [if_true, true_and]
    by_cases h : x > p / 2
    · simp only [h, if_true]
      have : ((x : Int) - (p : Int) < 0) := by omega
      simp [this]
    · simp only [h, if_false]
      have : ¬ ((x : Int) < 0) := by omega
      simp [this]

/-- bit decomposition of prime-field elements (value level): the bits of `U mod 2^l` rebuild it, `U` the unsigned
representative (also for signed fields) -/
theorem toBitsPrime_correct (p : Nat) (sg : Bool) (x l : Nat) :
    bitsToNat (toBitsPrime p sg x l) = ((toBitsPrimeArg p sg x) % ((2 ^ l : Nat) : Int)).toNat ∧
    (toBitsPrime p sg x l).length = l ∧ ∀ b ∈ toBitsPrime p sg x l, b < 2 := by
  unfold toBitsPrime
  show bitsToNat ((List.range l).map (fun i => (((toBitsPrimeArg p sg x) % ((2 ^ l : Nat) : Int)).toNat >>> i) % 2)) = _ ∧ _
  have hlt : ((toBitsPrimeArg p sg x) % ((2 ^ l : Nat) : Int)).toNat < 2 ^ l := by
    have h2 : (0 : Int) < ((2 ^ l : Nat) : Int) := by positivity
    have := Int.emod_lt_of_pos (toBitsPrimeArg p sg x) h2
    have := Int.emod_nonneg (toBitsPrimeArg p sg x) (ne_of_gt h2)
    omega
  refine ⟨?_, by simp, ?_⟩
  · have : (List.range l).map (fun i => (((toBitsPrimeArg p sg x) % ((2 ^ l : Nat) : Int)).toNat >>> i) % 2)
        = (List.range l).map (fun i => ((((toBitsPrimeArg p sg x) % ((2 ^ l : Nat) : Int)).toNat).testBit i).toNat) := by
      apply List.map_congr_left; intro i _; exact shift_mod_two _ _
    rw [this, bitsToNat_bits _ _ hlt]
  · intro b hb
    simp only [List.mem_map] at hb
    obtain ⟨i, _, rfl⟩ := hb
    exact Nat.mod_lt _ (by omega)

end MpycV.SecFld
