/-
Basic lemmas for C34 (statistics): sums and inner products as `List.sum`, lengths.
Core Lean only (no Mathlib import) so that every other Stats lemma file can build on it cheaply.
-/
import MpycV.Model.Stats
namespace MpycV.Stats

theorem foldl_add_eq (x : List Int) (a : Int) : x.foldl (· + ·) a = a + x.sum := by
  induction x generalizing a with
  | nil => simp
  | cons b l ih => simp only [List.foldl_cons, List.sum_cons, ih]; omega

theorem isum_eq_sum (x : List Int) : isum x = x.sum := by
  unfold isum; rw [foldl_add_eq]; omega

@[simp] theorem isum_nil : isum [] = 0 := rfl

theorem isum_cons (a : Int) (x : List Int) : isum (a :: x) = a + isum x := by
  simp [isum_eq_sum]

theorem isum_append (x y : List Int) : isum (x ++ y) = isum x + isum y := by
  simp [isum_eq_sum]

theorem inProd_eq_sum (x y : List Int) : inProd x y = (List.zipWith (· * ·) x y).sum := by
  unfold inProd; rw [isum_eq_sum]

@[simp] theorem inProd_nil_left (y : List Int) : inProd [] y = 0 := by simp [inProd]
@[simp] theorem inProd_nil_right (x : List Int) : inProd x [] = 0 := by simp [inProd]

theorem inProd_cons (a b : Int) (x y : List Int) : inProd (a :: x) (b :: y) = a * b + inProd x y := by
  simp [inProd, isum_cons]

@[simp] theorem length_vectorAdd (u v : List Int) : (vectorAdd u v).length = min u.length v.length := by
  simp [vectorAdd]

@[simp] theorem length_unitVec (a n : Nat) : (unitVec a n).length = n := by simp [unitVec]

theorem getElem?_unitVec (a n i : Nat) (hi : i < n) :
    (unitVec a n)[i]? = some (if i = (if a = n then 0 else a) then (1 : Int) else 0) := by
  simp [unitVec, hi]

/-- for `a < n`, `unitVec a n` is the indicator of position `a` -/
theorem getElem?_unitVec_lt (a n i : Nat) (ha : a < n) (hi : i < n) :
    (unitVec a n)[i]? = some (if i = a then (1 : Int) else 0) := by
  rw [getElem?_unitVec a n i hi]; have : a ≠ n := by omega
  simp [this]

end MpycV.Stats
