/-
Bridge between the mirror of the translator output (MpycV.GmpyMirror, Lemmas/NumThSrcMirror.lean) and the hand-written
model MpycV.Model.NumTh: for every translated stub `f`, `GmpyMirror.f_eq : GmpyMirror.f args = NumTh.f args`.
Each loop is handled by one lemma `f_loop` (induction on the fuel of `PyLoop.loop`, with the invariant that makes Python's
floor division agree with the model's `/`, `%`, e.g. 0 < y in jacobi), the straight-line parts by case analysis.
-/
import MpycV.Lemmas.NumThSrcMirror
import Mathlib.Tactic.Ring
import Mathlib.Tactic.Linarith
import MpycV.Lemmas.NumThPrime2
import MpycV.Lemmas.NumThPrimeRoot2

namespace MpycV.GmpyMirror
open MpycV.NumTh MpycV.PyLoop

/-! ### next_prime, prev_prime -/

theorem loop_search (isP : Int → Bool) (step : Int) (body : Int → Except Err (Ctl Int Empty))
    (hb : ∀ x, body x = if ¬ (isP x = true) then .ok (.next (x + step)) else .ok (.brk x)) :
    ∀ fuel c, onLoop (loop Err.fuel body fuel c) (fun r => nomatch r) (fun x => .ok x) = searchUp isP step fuel c := by
  intro fuel
  induction fuel with
  | zero => intro c; rfl
  | succ n ih =>
    intro c
    simp only [loop, searchUp, hb]
    by_cases h : isP c = true
    · simp [h, onLoop]
    · simp [h]; exact ih _

theorem next_prime_eq (isP : Int → Bool) (x : Int) : next_prime isP x = nextPrime isP x := by
  unfold next_prime nextPrime
  split
  · rfl
  · exact loop_search isP 2 _ (fun x => rfl) _ _

theorem prev_prime_eq (isP : Int → Bool) (x : Int) : prev_prime isP x = prevPrime isP x := by
  unfold prev_prime prevPrime
  split
  · rfl
  · split
    · rfl
    · rw [searchDown_eq]
      exact loop_search isP (-2) _ (fun x => rfl) _ _

/-! ### isqrt, is_square -/

theorem isqrt_eq (x : Int) : isqrt x = NumTh.isqrt x := by
  unfold isqrt
  cases NumTh.isqrt x <;> rfl

theorem is_square_eq (x : Int) : is_square x = isSquare x := by
  unfold is_square isSquare
  simp only []
  split
  · rfl
  · split
    · rfl
    · rw [isqrt_eq]
      cases NumTh.isqrt x with
      | error e => rfl
      | ok y => rfl

/-! ### gcdext -/

theorem gcdext_loop {α : Type} (body : Int × Int × Int × Int × Int × Int → Except Err (Ctl _ Empty))
    (hb : ∀ g f s s1 t t1, body (g, f, s, s1, t, t1) =
      if f ≠ 0 then
        if f = 0 then .error .zeroDivisionError else
        .ok (.next (f, Int.fmod g f, s1, s - Int.fdiv g f * s1, t1, t - Int.fdiv g f * t1))
      else .ok (.brk (g, f, s, s1, t, t1)))
    (k : Int × Int × Int × Int × Int × Int → Except Err α)
    (hk : ∀ g f s s1 t t1, k (g, f, s, s1, t, t1) = k (g, 0, s, 0, t, 0)) :
    ∀ fuel g f s s1 t t1, onLoop (loop Err.fuel body fuel (g, f, s, s1, t, t1)) (fun r => nomatch r) k =
      match gcdextLoop fuel g f s s1 t t1 with
      | .error e => .error e
      | .ok (g, s, t) => k (g, 0, s, 0, t, 0) := by
  intro fuel
  induction fuel with
  | zero => intros; rfl
  | succ n ih =>
    intro g f s s1 t t1
    simp only [loop, gcdextLoop, hb]
    by_cases h : f = 0
    · simp [h, onLoop]; exact hk _ _ _ _ _ _
    · simp [h]; exact ih _ _ _ _ _ _

theorem gcdext_eq (a b : Int) : gcdext a b = NumTh.gcdext a b := by
  unfold gcdext NumTh.gcdext
  simp only []
  refine Eq.trans (gcdext_loop _ (fun _ _ _ _ _ _ => rfl) _ (fun _ _ _ _ _ _ => rfl) _ _ _ _ _ _ _) ?_
  generalize gcdextLoop (b.natAbs + 2) a b 1 0 0 1 = r
  cases r with
  | error e => rfl
  | ok v =>
    obtain ⟨g, s, t⟩ := v
    simp only [pyAbs]
    by_cases hg : g < 0
    · simp only [if_pos hg]
      by_cases hc : ((a < 0 ∧ 0 < b) ∨ (b < 0 ∧ 0 < a)) ∧ (b.natAbs : Int) = 2 * -g
      · rw [if_pos hc, if_pos hc, if_neg (by omega), Int.fdiv_eq_ediv_of_nonneg _ (by omega)]
      · rw [if_neg hc, if_neg hc]
    · simp only [if_neg hg]
      by_cases hg0 : g = 0
      · simp only [if_pos hg0]
        by_cases hc : ((a < 0 ∧ 0 < b) ∨ (b < 0 ∧ 0 < a)) ∧ (b.natAbs : Int) = 2 * g
        · exfalso; omega
        · rw [if_neg hc, if_neg hc]
      · simp only [if_neg hg0]
        by_cases hc : ((a < 0 ∧ 0 < b) ∨ (b < 0 ∧ 0 < a)) ∧ (b.natAbs : Int) = 2 * g
        · rw [if_pos hc, if_pos hc, Int.fdiv_eq_ediv_of_nonneg _ (by omega)]
        · rw [if_neg hc, if_neg hc]

/-! ### invert -/

theorem invert_loop {α : Type} (body : Int × Int × Int × Int → Except Err (Ctl _ Empty))
    (hb : ∀ a b s s1, body (a, b, s, s1) =
      if b ≠ 0 then
        if b = 0 then .error .zeroDivisionError else
        .ok (.next (b, Int.fmod a b, s1, s - Int.fdiv a b * s1))
      else .ok (.brk (a, b, s, s1)))
    (k : Int × Int × Int × Int → Except Err α)
    (hk : ∀ a b s s1, k (a, b, s, s1) = k (a, 0, s, 0)) :
    ∀ fuel a b s s1, 0 ≤ b → onLoop (loop Err.fuel body fuel (a, b, s, s1)) (fun r => nomatch r) k =
      match invertLoop fuel a b s s1 with
      | .error e => .error e
      | .ok (a, s) => k (a, 0, s, 0) := by
  intro fuel
  induction fuel with
  | zero => intros; rfl
  | succ n ih =>
    intro a b s s1 hb0
    simp only [loop, invertLoop, hb]
    by_cases h : b = 0
    · simp [h, onLoop]; exact hk _ _ _ _
    · simp only [h, ne_eq, not_false_eq_true, if_true, if_false]
      rw [Int.fmod_eq_emod_of_nonneg _ hb0, Int.fdiv_eq_ediv_of_nonneg _ hb0]
      exact ih _ _ _ _ (Int.emod_nonneg _ h)

theorem invert_eq (x m : Int) : invert x m = NumTh.invert x m := by
  unfold invert NumTh.invert
  by_cases hm : m = 0
  · simp [hm]
  · simp only [hm, ne_eq, not_false_eq_true, not_true_eq_false, if_false, pyAbs]
    split
    · rfl
    · refine Eq.trans (invert_loop _ (fun _ _ _ _ => rfl) _ (fun _ _ _ _ => rfl) _ _ _ _ _ (by omega)) ?_
      generalize invertLoop _ _ _ _ _ = r
      cases r with
      | error e => rfl
      | ok v => obtain ⟨a, s⟩ := v; rfl

/-! ### jacobi, legendre -/

theorem oddPart_pos (n : Nat) (hn : n ≠ 0) : 0 < n / 2 ^ tz n := by
  have := tz_mul_oddPart n
  rcases Nat.eq_zero_or_pos (n / 2 ^ tz n) with h | h
  · rw [h] at this; omega
  · exact h

theorem jacobi_loop {α : Type} (body : Int × Int × Int → Except Err (Ctl _ Empty))
    (hb : ∀ x y j, body (x, y, j) =
      if y = 0 then .error .zeroDivisionError else
      if Int.fmod x y = 0 then .ok (.brk (y, Int.fmod x y, j))
      else
        if (pyShr (Int.fmod x y) ((tz (Int.fmod x y).toNat : Nat) : Int)) % 4 ≠ 1 ∧ y % 4 ≠ 1 then
          .ok (.next (y, pyShr (Int.fmod x y) ((tz (Int.fmod x y).toNat : Nat) : Int),
            -(if ((tz (Int.fmod x y).toNat : Nat) : Int) % 2 ≠ 0 ∧ (y % 8 = 3 ∨ y % 8 = 5) then -j else j)))
        else
          .ok (.next (y, pyShr (Int.fmod x y) ((tz (Int.fmod x y).toNat : Nat) : Int),
            (if ((tz (Int.fmod x y).toNat : Nat) : Int) % 2 ≠ 0 ∧ (y % 8 = 3 ∨ y % 8 = 5) then -j else j))))
    (k : Int × Int × Int → Except Err α) :
    ∀ fuel x y j, 0 < y → onLoop (loop Err.fuel body fuel (x, y, j)) (fun r => nomatch r) k =
      match jacobiLoop fuel x y j with
      | .error e => .error e
      | .ok (x, j) => k (x, 0, j) := by
  intro fuel
  induction fuel with
  | zero => intros; rfl
  | succ n ih =>
    intro x y j hy
    have hy0 : y ≠ 0 := by omega
    simp only [loop, jacobiLoop, hb, if_neg hy0]
    rw [Int.fmod_eq_emod_of_nonneg _ (by omega : 0 ≤ y)]
    by_cases h0 : x % y = 0
    · simp [h0, onLoop]
    · simp only [if_neg h0]
      have hpos : 0 < x % y := by have := Int.emod_nonneg x hy0; omega
      obtain ⟨r, hr⟩ : ∃ r : Nat, x % y = (r : Int) := ⟨(x % y).toNat, (Int.toNat_of_nonneg (by omega)).symm⟩
      rw [hr] at hpos h0 ⊢
      simp only [Int.toNat_natCast, pyShr]
      have hr0 : r ≠ 0 := by omega
      have hodd := oddPart_pos r hr0
      have hq : (r : Int) / 2 ^ tz r = ((r / 2 ^ tz r : Nat) : Int) := by push_cast; rfl
      have ht : (((tz r : Nat) : Int) % 2 ≠ 0 ∧ (y % 8 = 3 ∨ y % 8 = 5)) ↔ (tz r % 2 = 1 ∧ (y % 8 = 3 ∨ y % 8 = 5)) := by
        omega
      simp only [ht]
      by_cases hc : (r : Int) / 2 ^ tz r % 4 ≠ 1 ∧ y % 4 ≠ 1
      · simp only [if_pos hc]
        exact ih _ _ _ (by rw [hq]; exact_mod_cast hodd)
      · simp only [if_neg hc]
        exact ih _ _ _ (by rw [hq]; exact_mod_cast hodd)

theorem jacobi_eq (x y : Int) : jacobi x y = NumTh.jacobi x y := by
  unfold jacobi NumTh.jacobi
  by_cases hy : y > 0 ∧ y % 2 = 1
  · have h1 : ¬ ¬ (y > 0 ∧ y % 2 ≠ 0) := by omega
    rw [if_neg h1, if_neg (by simpa using hy)]
    refine Eq.trans (jacobi_loop _ (fun _ _ _ => rfl) _ _ _ _ _ hy.1) ?_
    · generalize jacobiLoop _ _ _ _ = r
      cases r with
      | error e => rfl
      | ok v =>
        obtain ⟨x', j⟩ := v
        simp only []
        split <;> rfl
  · have h1 : ¬ (y > 0 ∧ y % 2 ≠ 0) := by omega
    rw [if_pos h1, if_pos (by simpa using hy)]

theorem legendre_eq (x y : Int) : legendre x y = NumTh.legendre x y := by
  unfold legendre NumTh.legendre
  rw [jacobi_eq]
  cases NumTh.jacobi x y <;> rfl

/-! ### kronecker -/

theorem kronecker_eq (x y : Int) : kronecker x y = NumTh.kronecker x y := by
  unfold kronecker NumTh.kronecker
  have e1 : ((x.natAbs : Int) ≠ 1) ↔ (x.natAbs ≠ 1) := by omega
  simp only [jacobi_eq, pyAbs, pyShr, e1]
  generalize (if y = 0 then ((if x.natAbs ≠ 1 then (0 : Int) else 1), (1 : Int)) else ((1 : Int), y)) = p
  obtain ⟨k1, y1⟩ := p
  simp only []
  generalize (if y1 < 0 then ((if x < 0 then -k1 else k1), -y1) else (k1, y1)) = p
  obtain ⟨k2, y2⟩ := p
  simp only []
  by_cases hy : y2 % 2 = 0
  · simp only [if_pos hy, Int.toNat_natCast]
    have ht : (((tz y2.toNat : Nat) : Int) % 2 ≠ 0 ∧ (x % 8 = 3 ∨ x % 8 = 5)) ↔
        (tz y2.toNat % 2 = 1 ∧ (x % 8 = 3 ∨ x % 8 = 5)) := by omega
    simp only [ht]
    cases NumTh.jacobi x (y2 / 2 ^ tz y2.toNat) <;> rfl
  · simp only [if_neg hy]
    cases NumTh.jacobi x y2 <;> rfl

/-! ### ratrec -/

theorem ratrec_loop {α : Type} (N : Int) (hN : 0 ≤ N) (body : Int × Int × Int × Int → Except Err (Ctl _ Empty))
    (hb : ∀ n0 n d0 d, body (n0, n, d0, d) =
      if n > N then
        if n = 0 then .error .zeroDivisionError else
        .ok (.next (n, Int.fmod n0 n, d, d0 - Int.fdiv n0 n * d))
      else .ok (.brk (n0, n, d0, d)))
    (k : Int × Int × Int × Int → Except Err α)
    (hk : ∀ n0 n d0 d, k (n0, n, d0, d) = k (0, n, 0, d)) :
    ∀ fuel n0 n d0 d, onLoop (loop Err.fuel body fuel (n0, n, d0, d)) (fun r => nomatch r) k =
      match ratrecLoop N fuel n0 n d0 d with
      | .error e => .error e
      | .ok (n, d) => k (0, n, 0, d) := by
  intro fuel
  induction fuel with
  | zero => intros; rfl
  | succ m ih =>
    intro n0 n d0 d
    simp only [loop, ratrecLoop, hb]
    by_cases h : n > N
    · have hn0 : n ≠ 0 := by omega
      simp only [if_pos h, if_neg hn0]
      rw [Int.fmod_eq_emod_of_nonneg _ (by omega : 0 ≤ n), Int.fdiv_eq_ediv_of_nonneg _ (by omega : 0 ≤ n)]
      exact ih _ _ _ _
    · simp [h, onLoop]; exact hk _ _ _ _

theorem ratrec_SS_eq (x y N D : Int) : ratrec_SS x y N D = ratrecCore x y N D := by
  unfold ratrec_SS ratrecCore
  by_cases hv : N < 0 ∨ D ≤ 0 ∨ 2 * N * D ≥ y
  · rw [if_pos hv, if_pos hv]
  · rw [if_neg hv, if_neg hv]
    simp only []
    refine Eq.trans (ratrec_loop N (by omega) _ (fun _ _ _ _ => rfl) _ (fun _ _ _ _ => rfl) _ _ _ _ _) ?_
    generalize ratrecLoop _ _ _ _ _ _ = r
    cases r with
    | error e => rfl
    | ok v =>
      obtain ⟨n, d⟩ := v
      simp only []
      have e : ∀ n d : Int, (((Int.gcd n d : Nat) : Int) = 1) ↔ (Int.gcd n d = 1) := by intros; omega
      by_cases hd : d < 0
      · simp only [if_pos hd, e]
      · simp only [if_neg hd, e]

theorem ratrec_eq (x y : Int) (N D : Option Int) : ratrec x y N D = NumTh.ratrec x y N D := by
  unfold ratrec NumTh.ratrec ratrecBounds
  cases N with
  | none =>
    cases D with
    | none =>
      simp only []
      unfold ratrec_NN
      rw [isqrt_eq]
      unfold NumTh.isqrt
      by_cases hneg : (y - 1) / 2 < 0
      · simp [hneg]
      · simp only [if_neg hneg]
        have hD : (2 : Int) * max 1 ((Nat.sqrt ((y - 1) / 2).toNat : Nat) : Int) ≠ 0 := by omega
        rw [if_neg hD, Int.fdiv_eq_ediv_of_nonneg _ (by omega)]
        exact ratrec_SS_eq _ _ _ _
    | some D =>
      simp only []
      unfold ratrec_NS
      by_cases h0 : 2 * D = 0
      · simp [h0]
      · simp only [if_neg h0]
        exact ratrec_SS_eq _ _ _ _
  | some N =>
    cases D with
    | none =>
      simp only []
      unfold ratrec_SN
      have h0 : ¬ (N ≠ 0 ∧ 2 * N = 0) := by omega
      rw [if_neg h0]
      exact ratrec_SS_eq _ _ _ _
    | some D =>
      simp only []
      exact ratrec_SS_eq _ _ _ _

/-! ### iroot -/

theorem pyOr_bit (y j : Nat) : pyOr (y : Int) (pyShl 1 (j : Int)) = ((y ||| 1 <<< j : Nat) : Int) := by
  unfold pyOr pyShl
  rw [Nat.one_shiftLeft, Int.toNat_natCast, Int.toNat_natCast, one_mul]
  have : ((2 : Int) ^ j).toNat = 2 ^ j := by
    have : ((2 : Int) ^ j) = ((2 ^ j : Nat) : Int) := by push_cast; rfl
    rw [this, Int.toNat_natCast]
  rw [this]

theorem iroot_loop {α : Type} (x n : Int) (body : Int × Int → Except Err (Ctl _ Empty))
    (hb : ∀ y i, body (y, i) =
      if i > (-1) then
        if i < 0 then .error .valueError else
        .ok (.next ((if pyPow (pyOr y (pyShl 1 i)) n ≤ x then pyOr y (pyShl 1 i) else y), i + (-1)))
      else .ok (.brk (y, i)))
    (k : Int × Int → Except Err α) :
    ∀ (j : Nat) (y : Nat) (fuel : Nat), j < fuel →
      onLoop (loop Err.fuel body fuel ((y : Int), (j : Int) - 1)) (fun r => nomatch r) k =
        k ((irootLoop x n.toNat j y : Nat), -1) := by
  intro j
  induction j with
  | zero =>
    intro y fuel hf
    obtain ⟨f, rfl⟩ : ∃ f, fuel = f + 1 := ⟨fuel - 1, by omega⟩
    simp only [loop, hb, irootLoop]
    simp [onLoop]
  | succ j ih =>
    intro y fuel hf
    obtain ⟨f, rfl⟩ : ∃ f, fuel = f + 1 := ⟨fuel - 1, by omega⟩
    have hi : ((j + 1 : Nat) : Int) - 1 = (j : Int) := by push_cast; ring
    simp only [loop, hb, irootLoop, hi]
    rw [if_pos (by omega), if_neg (by omega), pyOr_bit]
    have hcast : (if pyPow ((y ||| 1 <<< j : Nat) : Int) n ≤ x then ((y ||| 1 <<< j : Nat) : Int) else (y : Int)) =
        ((if (((y ||| 1 <<< j : Nat) : Int)) ^ n.toNat ≤ x then (y ||| 1 <<< j) else y : Nat) : Int) := by
      unfold pyPow; split <;> rfl
    rw [hcast, show (j : Int) + (-1) = (j : Int) - 1 by ring]
    exact ih (if (((y ||| 1 <<< j : Nat) : Int)) ^ n.toNat ≤ x then (y ||| 1 <<< j) else y) f (by omega)

theorem bitLength_pos' (x : Int) (hx : x ≠ 0) : 1 ≤ bitLength x := by
  unfold bitLength
  have : x.natAbs ≠ 0 := by omega
  simp [this]

theorem iroot_eq (x n : Int) : iroot x n = NumTh.iroot x n := by
  unfold iroot NumTh.iroot
  split
  · rfl
  · split
    · rfl
    · next hx hn =>
      split
      · rfl
      · next hx0 =>
        have hn0 : n ≠ 0 := by omega
        rw [if_neg hn0]
        have hbl := bitLength_pos' x hx0
        obtain ⟨m, hm⟩ : ∃ m : Nat, n = (m : Int) := ⟨n.toNat, (Int.toNat_of_nonneg (by omega)).symm⟩
        have hk : ∃ K : Nat, K = (bitLength x - 1) / n.toNat ∧
            Int.fdiv (((bitLength x : Nat) : Int) - 1) n = (K : Int) := by
          refine ⟨_, rfl, ?_⟩
          rw [Int.fdiv_eq_ediv_of_nonneg _ (by omega), hm, Int.toNat_natCast]
          push_cast [Nat.cast_sub hbl]; rfl
        obtain ⟨K, hKdef, hK⟩ := hk
        rw [hK]
        dsimp only
        rw [← hKdef, if_neg (by omega)]
        simp only [Int.toNat_natCast]
        have hy : pyShl 1 (K : Int) = ((1 <<< K : Nat) : Int) := by
          unfold pyShl; rw [Nat.one_shiftLeft, Int.toNat_natCast, one_mul]; push_cast; rfl
        rw [hy]
        refine Eq.trans (iroot_loop x n _ (fun _ _ => rfl) _ _ _ _ (by omega)) ?_
        rfl

/-! ### factor_prime_power -/

theorem nextPrime_ge_two (isP : Int → Bool) (x p : Int) (h : nextPrime isP x = .ok p) : 2 ≤ p := by
  unfold nextPrime at h
  split at h
  · cases h; omega
  · next hx =>
    obtain ⟨j, hj, _⟩ := PrimeRoot.searchUp_form h
    have : (0 : Int) ≤ 2 * (j : Int) := by omega
    omega

theorem loop_succ {ε σ ρ : Type} (fe : ε) (body : σ → Except ε (Ctl σ ρ)) (n : Nat) (s : σ) :
    loop fe body (n + 1) s =
      match body s with
      | .error e => .error e
      | .ok (.next s') => loop fe body n s'
      | .ok (.brk s') => .ok (.done s')
      | .ok (.ret r) => .ok (.ret r) := rfl

theorem divOut_loop {α : Type} (p : Int) (hp : 0 < p) (body : Int × Int → Except Err (Ctl _ Empty))
    (hb : ∀ x d, body (x, d) =
      if x > 1 then
        if p = 0 then .error .zeroDivisionError else
        if Int.fmod x p = 0 then .ok (.next (Int.fdiv x p, d + 1)) else .error .valueError
      else .ok (.brk (x, d)))
    (k : Int × Int → Except Err α) (hk : ∀ x d, k (x, d) = k (0, d)) :
    ∀ fuel x (d : Nat), onLoop (loop Err.fuel body fuel (x, (d : Int))) (fun r => nomatch r) k =
      match divOut p fuel x d with
      | .error e => .error e
      | .ok d' => k (0, (d' : Int)) := by
  intro fuel
  induction fuel with
  | zero => intros; rfl
  | succ n ih =>
    intro x d
    simp only [loop, divOut, hb]
    by_cases hx : x > 1
    · simp only [if_pos hx, if_neg (by omega : ¬ p = 0)]
      rw [Int.fmod_eq_emod_of_nonneg _ (by omega : 0 ≤ p), Int.fdiv_eq_ediv_of_nonneg _ (by omega : 0 ≤ p)]
      by_cases hm : x % p = 0
      · simp only [if_pos hm]
        have := ih (x / p) (d + 1)
        simpa using this
      · simp [hm, onLoop]
    · simp [hx, onLoop]; exact hk _ _

theorem fppSmall_loop (isP : Int → Bool) (x0 : Int)
    (body : Int × Int → Except Err (Ctl _ (Int × Int)))
    (hb : ∀ x p, body (x, p) =
      if (10 : Int) < 0 then .error .valueError else
      if p < pyShl 1 10 then
        if p = 0 then .error .zeroDivisionError else
        if Int.fmod x p = 0 then
          onLoop (loop (σ := Int × Int) (ρ := Empty) Err.fuel (fun st => match st with
              | (x, d) =>
                if x > 1 then
                  if p = 0 then .error .zeroDivisionError else
                  let (x, r) := (Int.fdiv x p, Int.fmod x p)
                  if r = 0 then
                    let d := (d + 1)
                    .ok (.next (x, d))
                  else
                    .error .valueError
                else
                  .ok (.brk (x, d))) (x0.toNat + 1) (x, 0))
            (fun r => nomatch r)
            (fun st => match st with
              | (_, d) => .ok (.ret (p, d)))
        else
          match next_prime isP p with
          | .error exc_ => .error exc_
          | .ok v1 => .ok (.next (x, v1))
      else .ok (.brk (x, p)))
    (k : Int × Int → Except Err (Int × Int)) (hk : ∀ x p, k (x, p) = k (x, 0)) :
    ∀ fuel p, 2 ≤ p → onLoop (loop Err.fuel body fuel (x0, p)) (fun r => .ok r) k =
      match fppSmall isP x0 fuel p with
      | .error e => .error e
      | .ok (some (q, d)) => .ok (q, (d : Int))
      | .ok none => k (x0, 0) := by
  intro fuel
  induction fuel with
  | zero => intros; rfl
  | succ n ih =>
    intro p hp
    have h1024 : pyShl 1 10 = 1024 := by decide
    rw [loop_succ, hb]
    simp only [fppSmall, h1024]
    rw [if_neg (by omega)]
    by_cases hlt : p < 1024
    · rw [if_pos hlt, if_pos hlt, if_neg (by omega : ¬ p = 0), Int.fmod_eq_emod_of_nonneg x0 (by omega : 0 ≤ p)]
      by_cases hm : x0 % p = 0
      · rw [if_pos hm, if_pos hm]
        have hd := divOut_loop (α := Ctl (Int × Int) (Int × Int)) p (by omega)
          (fun st => match st with
              | (x, d) =>
                if x > 1 then
                  if p = 0 then .error .zeroDivisionError else
                  let (x, r) := (Int.fdiv x p, Int.fmod x p)
                  if r = 0 then
                    let d := (d + 1)
                    .ok (.next (x, d))
                  else
                    .error .valueError
                else
                  .ok (.brk (x, d))) (fun _ _ => rfl)
          (fun st => match st with | (_, d) => .ok (.ret (p, d))) (fun _ _ => rfl) (x0.toNat + 1) x0 0
        simp only [Nat.cast_zero] at hd
        rw [hd]
        cases divOut p (x0.toNat + 1) x0 0 with
        | error e => rfl
        | ok d => rfl
      · rw [if_neg hm, if_neg hm, next_prime_eq]
        cases hnp : nextPrime isP p with
        | error e => rfl
        | ok p' =>
          simp only []
          exact ih p' (nextPrime_ge_two isP p p' hnp)
    · simp [hlt, onLoop]; exact hk _ _

theorem fppSquares_loop {α : Type} (body : Int × Int → Except Err (Ctl _ Empty))
    (hb : ∀ p d, body (p, d) =
      match is_square p with
      | .error exc_ => .error exc_
      | .ok v2 =>
        if v2 = true then
          match isqrt p with
          | .error exc_ => .error exc_
          | .ok v3 => .ok (.next (v3, 2 * d))
        else .ok (.brk (p, d)))
    (k : Int × Int → Except Err α) :
    ∀ fuel p (d : Nat), onLoop (loop Err.fuel body fuel (p, (d : Int))) (fun r => nomatch r) k =
      match fppSquares fuel p d with
      | .error e => .error e
      | .ok (p', d') => k (p', (d' : Int)) := by
  intro fuel
  induction fuel with
  | zero => intros; rfl
  | succ n ih =>
    intro p d
    simp only [loop, fppSquares, hb, is_square_eq, isqrt_eq]
    cases isSquare p with
    | error e => rfl
    | ok b =>
      cases b with
      | false => simp [onLoop]
      | true =>
        simp only [if_true]
        cases NumTh.isqrt p with
        | error e => rfl
        | ok r =>
          simp only []
          have := ih r (2 * d)
          simpa using this

theorem fppRoots_loop {α : Type} (isP : Int → Bool) (body : Int × Int × Int → Except Err (Ctl _ Empty))
    (hb : ∀ p d e, body (p, d, e) =
      if (10 * e) ≤ ((NumTh.bitLength p : Nat) : Int) then
        match iroot p e with
        | .error exc_ => .error exc_
        | .ok (v4, v5) =>
          if v5 = true then .ok (.next (v4, e * d, e))
          else
            match next_prime isP e with
            | .error exc_ => .error exc_
            | .ok v6 => .ok (.next (p, d, v6))
      else .ok (.brk (p, d, e)))
    (k : Int × Int × Int → Except Err α) (hk : ∀ p d e, k (p, d, e) = k (p, d, 0)) :
    ∀ fuel p (d : Nat) e, 0 ≤ e → onLoop (loop Err.fuel body fuel (p, (d : Int), e)) (fun r => nomatch r) k =
      match fppRoots isP fuel p d e with
      | .error err => .error err
      | .ok (p', d') => k (p', (d' : Int), 0) := by
  intro fuel
  induction fuel with
  | zero => intros; rfl
  | succ n ih =>
    intro p d e he
    simp only [loop, fppRoots, hb, iroot_eq, next_prime_eq]
    by_cases hc : 10 * e ≤ ((bitLength p : Nat) : Int)
    · simp only [if_pos hc]
      cases NumTh.iroot p e with
      | error err => rfl
      | ok v =>
        obtain ⟨w, b⟩ := v
        cases b with
        | true =>
          simp only [if_true]
          have hcast : e * (d : Int) = ((e.toNat * d : Nat) : Int) := by
            push_cast; rw [Int.toNat_of_nonneg he]
          rw [hcast]
          exact ih w (e.toNat * d) e he
        | false =>
          simp only [Bool.false_eq_true, if_false]
          cases hnp : nextPrime isP e with
          | error err => rfl
          | ok e' =>
            simp only []
            exact ih p d e' (by have := nextPrime_ge_two isP e e' hnp; omega)
    · simp [hc, onLoop]; exact hk _ _ _

theorem factor_prime_power_eq (isP : Int → Bool) (x : Int) :
    factor_prime_power isP x =
      match factorPrimePower isP x with
      | .error e => .error e
      | .ok (p, d) => .ok (p, (d : Int)) := by
  unfold factor_prime_power factorPrimePower
  by_cases hx : x ≤ 1
  · rw [if_pos hx, if_pos hx]
  · rw [if_neg hx, if_neg hx]
    dsimp only
    refine Eq.trans (fppSmall_loop isP x _ (fun _ _ => rfl) _ (fun _ _ => rfl) 1024 2 (by omega)) ?_
    cases fppSmall isP x 1024 2 with
    | error e => rfl
    | ok o =>
      cases o with
      | some r => rfl
      | none =>
        dsimp only
        refine Eq.trans (fppSquares_loop _ (fun _ _ => rfl) _ _ x 1) ?_
        cases fppSquares (bitLength x + 1) x 1 with
        | error e => rfl
        | ok v =>
          obtain ⟨p, d⟩ := v
          dsimp only
          refine Eq.trans (fppRoots_loop isP _ (fun _ _ _ => rfl) _ (fun _ _ _ => rfl) _ p d 3 (by omega)) ?_
          cases fppRoots isP (2 * bitLength x + 2) p d 3 with
          | error e => rfl
          | ok v =>
            obtain ⟨p', d'⟩ := v
            dsimp only
            split <;> rfl

end MpycV.GmpyMirror
