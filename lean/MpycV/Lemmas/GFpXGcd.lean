/-
`monic`, `gcd`, `gcdext`, `invert` of the list model (≙ gfpx.py `_monic`, `_gcd`, `_gcdext`, `_invert`).
-/
import MpycV.Lemmas.GFpXDiv

open Polynomial

namespace MpycV.GFpX

variable {p : ℕ}

/-! ### scale, monic -/

theorem toPoly_scale (c : ℕ) (a : Poly) : toPoly p (scale p c a) = C (c : ZMod p) * toPoly p a := by
  induction a with
  | nil => simp [scale]
  | cons x a ih =>
    simp only [scale, List.map_cons, toPoly_cons] at ih ⊢
    rw [ih, ZMod.natCast_mod, Nat.cast_mul, C_mul]
    ring

theorem reduced_scale (hp : 0 < p) (c : ℕ) (a : Poly) : Reduced p (scale p c a) := by
  intro z hz
  simp only [scale, List.mem_map] at hz
  obtain ⟨x, _, rfl⟩ := hz
  exact Nat.mod_lt _ hp

theorem length_scale (c : ℕ) (a : Poly) : (scale p c a).length = a.length := by simp [scale]

theorem wf_scale [Fact p.Prime] {c : ℕ} (hc : (c : ZMod p) ≠ 0) {a : Poly} (ha : WF p a) :
    WF p (scale p c a) := by
  have hp : 0 < p := (Fact.out : p.Prime).pos
  refine ⟨reduced_scale hp c a, ?_⟩
  by_cases hne : a = []
  · subst hne; simp [scale]
  · apply normalised_of_coeff_ne_zero (p := p)
    rw [toPoly_scale, length_scale, coeff_C_mul]
    exact mul_ne_zero hc (coeff_last_ne_zero ha hne)

theorem scale_one {a : Poly} (ha : Reduced p a) : scale p 1 a = a := by
  unfold scale
  conv_rhs => rw [← List.map_id a]
  apply List.map_congr_left
  intro x hx
  simp [Nat.mod_eq_of_lt (ha x hx)]

theorem toPoly_append_singleton (l : Poly) (c : ℕ) :
    toPoly p (l ++ [c]) = toPoly p l + C (c : ZMod p) * X ^ l.length := by
  induction l with
  | nil => simp
  | cons x l ih =>
    simp only [List.cons_append, toPoly_cons, ih, List.length_cons]
    ring

theorem dropLast_append_getLastD {a : Poly} (hne : a ≠ []) : a.dropLast ++ [a.getLastD 0] = a := by
  rw [List.getLastD_eq_getLast?, List.getLast?_eq_some_getLast hne]
  exact List.dropLast_append_getLast hne

/-- `_monic(a, lc_pinv=True)` on a nonzero polynomial: `(lc⁻¹ · a, lc⁻¹)` -/
theorem monicInv_spec [Fact p.Prime] {a : Poly} (ha : WF p a) (hne : a ≠ []) :
    toPoly p (monicInv p a).1 = C ((monicInv p a).2 : ZMod p) * toPoly p a ∧
      ((monicInv p a).2 : ZMod p) = (toPoly p a).leadingCoeff⁻¹ ∧
      WF p (monicInv p a).1 ∧ (monicInv p a).1.length = a.length ∧ (monicInv p a).2 < p := by
  have hp : 0 < p := (Fact.out : p.Prime).pos
  have h1p : 1 < p := (Fact.out : p.Prime).one_lt
  obtain ⟨x, l, rfl⟩ := List.exists_cons_of_ne_nil hne
  have hlc := leadingCoeff_toPoly ha hne
  have hlcne : ((x :: l).getLastD 0 : ZMod p) ≠ 0 := by
    have h := coeff_last_ne_zero ha hne
    rwa [coeff_toPoly_last] at h
  simp only [monicInv]
  split
  · rename_i h1
    rw [hlc, h1]
    simp [ha, h1p]
  · rename_i h1
    set a1 := invModP p ((x :: l).getLastD 0) with ha1
    have ha1c : (a1 : ZMod p) = ((x :: l).getLastD 0 : ZMod p)⁻¹ := invModP_cast hlcne
    have hone : (1 : ZMod p) = (a1 : ZMod p) * ((x :: l).getLastD 0 : ZMod p) := by
      rw [ha1c, inv_mul_cancel₀ hlcne]
    have hmap : toPoly p (((x :: l).dropLast.map fun y => y * a1 % p)) =
        C (a1 : ZMod p) * toPoly p (x :: l).dropLast := toPoly_scale a1 _
    have key : toPoly p (((x :: l).dropLast.map fun y => y * a1 % p) ++ [1]) =
        C (a1 : ZMod p) * toPoly p (x :: l) := by
      conv_rhs => rw [← dropLast_append_getLastD hne, toPoly_append_singleton]
      rw [toPoly_append_singleton, hmap, List.length_map, Nat.cast_one, hone, C_mul]
      ring
    refine ⟨key, by rw [ha1c, hlc], ⟨?_, ?_⟩, ?_, invModP_lt hp _⟩
    · intro z hz
      rcases List.mem_append.mp hz with h | h
      · exact reduced_scale hp a1 _ z h
      · simp at h; omega
    · unfold Normalised; simp
    · simp

theorem monicInv_nil : monicInv p [] = ([], 0) := rfl

theorem monic_nil : monic p [] = [] := rfl

theorem toPoly_monic [Fact p.Prime] {a : Poly} (ha : WF p a) :
    toPoly p (monic p a) = C (toPoly p a).leadingCoeff⁻¹ * toPoly p a := by
  by_cases hne : a = []
  · subst hne; simp [monic_nil]
  · obtain ⟨h1, h2, _⟩ := monicInv_spec ha hne
    rw [monic, h1, h2]

theorem wf_monic [Fact p.Prime] {a : Poly} (ha : WF p a) : WF p (monic p a) := by
  by_cases hne : a = []
  · subst hne; exact wf_nil
  · exact (monicInv_spec ha hne).2.2.1

theorem monic_toPoly_monic [Fact p.Prime] {a : Poly} (ha : WF p a) (hne : a ≠ []) :
    (toPoly p (monic p a)).Monic := by
  rw [toPoly_monic ha, Monic, leadingCoeff_mul, leadingCoeff_C,
    inv_mul_cancel₀ (leadingCoeff_ne_zero.mpr (toPoly_ne_zero ha hne))]

theorem dvd_toPoly_monic_iff [Fact p.Prime] {a : Poly} (ha : WF p a) (d : (ZMod p)[X]) :
    d ∣ toPoly p (monic p a) ↔ d ∣ toPoly p a := by
  by_cases hne : a = []
  · subst hne; simp [monic_nil]
  · rw [toPoly_monic ha]
    have hu : IsUnit (C (toPoly p a).leadingCoeff⁻¹) :=
      isUnit_C.mpr (IsUnit.mk0 _ (inv_ne_zero (leadingCoeff_ne_zero.mpr (toPoly_ne_zero ha hne))))
    exact hu.dvd_mul_left

/-! ### gcd -/

/-- Euclid's loop: well-formed result whose divisors are exactly the common divisors -/
theorem gcdLoop_spec [Fact p.Prime] : ∀ (f : ℕ) (a b : Poly), WF p a → WF p b → b.length < f →
    WF p (gcdLoop p f a b) ∧
      ∀ d, d ∣ toPoly p (gcdLoop p f a b) ↔ d ∣ toPoly p a ∧ d ∣ toPoly p b := by
  intro f
  induction f with
  | zero => intro a b _ _ h; omega
  | succ f ih =>
    intro a b ha hb hlen
    rw [gcdLoop]
    split
    · rename_i h0
      subst h0
      exact ⟨ha, fun d => by simp⟩
    · rename_i hne
      have hm := wf_modCore ha hb hne
      have hl := length_modCore_lt ha hb hne
      obtain ⟨g1, g2⟩ := ih b (modCore p a b) hb hm (by omega)
      refine ⟨g1, fun d => ?_⟩
      rw [g2 d, toPoly_modCore ha hb hne]
      constructor
      · rintro ⟨h1, h2⟩
        exact ⟨(EuclideanDomain.dvd_mod_iff h1).mp h2, h1⟩
      · rintro ⟨h1, h2⟩
        exact ⟨h2, (EuclideanDomain.dvd_mod_iff h2).mpr h1⟩

theorem gcdLoop_eq_nil_iff [Fact p.Prime] {f : ℕ} {a b : Poly} (ha : WF p a) (hb : WF p b)
    (hf : b.length < f) : gcdLoop p f a b = [] ↔ a = [] ∧ b = [] := by
  obtain ⟨g1, g2⟩ := gcdLoop_spec f a b ha hb hf
  rw [← toPoly_eq_zero_iff g1, ← toPoly_eq_zero_iff ha, ← toPoly_eq_zero_iff hb]
  constructor
  · intro h0
    have := (g2 0).mp (by rw [h0])
    exact ⟨zero_dvd_iff.mp this.1, zero_dvd_iff.mp this.2⟩
  · rintro ⟨h1, h2⟩
    have := (g2 0).mpr (by rw [h1, h2]; exact ⟨dvd_rfl, dvd_rfl⟩)
    exact zero_dvd_iff.mp this

/-- **gcd**: well-formed, its divisors are exactly the common divisors of `a` and `b`
(so it is a common divisor and every common divisor divides it), and it is monic unless `a = b = 0` -/
theorem gcd_spec [Fact p.Prime] {a b : Poly} (ha : WF p a) (hb : WF p b) :
    WF p (gcd p a b) ∧
      (∀ d, d ∣ toPoly p (gcd p a b) ↔ d ∣ toPoly p a ∧ d ∣ toPoly p b) ∧
      ((a = [] ∧ b = [] ∧ gcd p a b = []) ∨ (toPoly p (gcd p a b)).Monic) := by
  obtain ⟨g1, g2⟩ := gcdLoop_spec (b.length + 1) a b ha hb (by omega)
  refine ⟨wf_monic g1, fun d => ?_, ?_⟩
  · rw [gcd, dvd_toPoly_monic_iff g1, g2]
  · by_cases h : gcdLoop p (b.length + 1) a b = []
    · left
      have := (gcdLoop_eq_nil_iff ha hb (by omega)).mp h
      exact ⟨this.1, this.2, by rw [gcd, h]; rfl⟩
    · right
      exact monic_toPoly_monic g1 h

/-! ### gcdext -/

theorem gcdextLoop_fst : ∀ (f : ℕ) (a b s s1 t t1 : Poly),
    (gcdextLoop p f a b s s1 t t1).1 = gcdLoop p f a b := by
  intro f
  induction f with
  | zero => intros; rfl
  | succ f ih =>
    intro a b s s1 t t1
    rw [gcdextLoop, gcdLoop]
    split
    · rfl
    · simp only
      rw [ih, modCore_eq_divmodCore_snd]

/-- Bezout invariant of the extended Euclid loop w.r.t. the original inputs `A0`, `B0` -/
theorem gcdextLoop_spec [Fact p.Prime] (A0 B0 : (ZMod p)[X]) :
    ∀ (f : ℕ) (a b s s1 t t1 : Poly), WF p a → WF p b → WF p s → WF p s1 → WF p t → WF p t1 →
      b.length < f →
      toPoly p s * A0 + toPoly p t * B0 = toPoly p a →
      toPoly p s1 * A0 + toPoly p t1 * B0 = toPoly p b →
      toPoly p (gcdextLoop p f a b s s1 t t1).2.1 * A0 + toPoly p (gcdextLoop p f a b s s1 t t1).2.2 * B0
          = toPoly p (gcdextLoop p f a b s s1 t t1).1 ∧
        WF p (gcdextLoop p f a b s s1 t t1).2.1 ∧ WF p (gcdextLoop p f a b s s1 t t1).2.2 := by
  have hp : 0 < p := (Fact.out : p.Prime).pos
  intro f
  induction f with
  | zero => intro a b s s1 t t1 _ _ _ _ _ _ h; omega
  | succ f ih =>
    intro a b s s1 t t1 ha hb hs hs1 ht ht1 hlen e1 e2
    rw [gcdextLoop]
    split
    · exact ⟨e1, hs, ht⟩
    · rename_i hne
      obtain ⟨d1, _, d3, d4, d5⟩ := divmodCore_spec ha hb hne
      simp only
      have hqs : WF p (mul p (divmodCore p a b).1 s1) := wf_mul d3 hs1
      have hqt : WF p (mul p (divmodCore p a b).1 t1) := wf_mul d3 ht1
      apply ih b (divmodCore p a b).2 s1 _ t1 _ hb d4 hs1 (wf_sub hp hs.1 hqs.1) ht1
        (wf_sub hp ht.1 hqt.1) (by omega) e2
      rw [toPoly_sub _ hqs.1, toPoly_sub _ hqt.1, toPoly_mul, toPoly_mul]
      have : toPoly p (divmodCore p a b).2 = toPoly p a - toPoly p (divmodCore p a b).1 * toPoly p b := by
        rw [d1]; ring
      rw [this, ← e1, ← e2]
      ring

/-- **gcdext**: `d = gcd a b` and `s*a + t*b = d` -/
theorem gcdext_spec [Fact p.Prime] {a b : Poly} (ha : WF p a) (hb : WF p b) :
    (gcdext p a b).1 = gcd p a b ∧
      toPoly p (gcdext p a b).2.1 * toPoly p a + toPoly p (gcdext p a b).2.2 * toPoly p b
        = toPoly p (gcdext p a b).1 ∧
      WF p (gcdext p a b).2.1 ∧ WF p (gcdext p a b).2.2 := by
  have hp1 : 1 < p := (Fact.out : p.Prime).one_lt
  have w1 : WF p [1] := ⟨by simp [Reduced, hp1], by simp [Normalised]⟩
  obtain ⟨e, ws, wt⟩ := gcdextLoop_spec (toPoly p a) (toPoly p b) (b.length + 1) a b [1] [] [] [1]
    ha hb w1 wf_nil wf_nil w1 (by omega) (by simp) (by simp)
  have hfst := gcdextLoop_fst (p := p) (b.length + 1) a b [1] [] [] [1]
  obtain ⟨g1, _⟩ := gcdLoop_spec (b.length + 1) a b ha hb (by omega)
  set r := gcdextLoop p (b.length + 1) a b [1] [] [] [1] with hr
  have hd : (gcdext p a b).1 = gcd p a b := by
    simp only [gcdext, ← hr]
    split <;> simp only [gcd, monic, hfst]
  refine ⟨hd, ?_⟩
  by_cases hne : r.1 = []
  · -- gcd is zero: no scaling
    have hm : monicInv p r.1 = ([], 0) := by rw [hne]; rfl
    simp only [gcdext, ← hr, hm]
    rw [if_neg (by omega)]
    simp only [toPoly_nil]
    rw [hne] at e
    exact ⟨e, ws, wt⟩
  · have hw : WF p r.1 := by rw [hfst]; exact g1
    obtain ⟨m1, m2, _, _, _⟩ := monicInv_spec hw hne
    have hm2ne : ((monicInv p r.1).2 : ZMod p) ≠ 0 := by
      rw [m2]; exact inv_ne_zero (leadingCoeff_ne_zero.mpr (toPoly_ne_zero hw hne))
    simp only [gcdext, ← hr]
    split
    · simp only [toPoly_scale, m1]
      refine ⟨?_, wf_scale hm2ne ws, wf_scale hm2ne wt⟩
      rw [← e]; ring
    · rename_i hlt
      have h1 : (monicInv p r.1).2 = 1 := by
        have h0 : (monicInv p r.1).2 ≠ 0 := by
          intro h0; rw [h0] at hm2ne; simp at hm2ne
        omega
      simp only [m1, h1, Nat.cast_one, C_1, one_mul]
      exact ⟨e, ws, wt⟩

/-! ### invert -/

theorem invertLoop_eq_gcdextLoop : ∀ (f : ℕ) (a b s s1 t t1 : Poly),
    invertLoop p f a b s s1 =
      ((gcdextLoop p f a b s s1 t t1).1, (gcdextLoop p f a b s s1 t t1).2.1) := by
  intro f
  induction f with
  | zero => intros; rfl
  | succ f ih =>
    intro a b s s1 t t1
    rw [invertLoop, gcdextLoop]
    split
    · rfl
    · simp only
      rw [ih]

theorem length_eq_one_iff_isUnit {g : Poly} (hg : WF p g) [Fact p.Prime] :
    (∃ c, g = [c]) ↔ IsUnit (toPoly p g) := by
  constructor
  · rintro ⟨c, rfl⟩
    have hc : (c : ZMod p) ≠ 0 := by
      have := coeff_last_ne_zero hg (by simp)
      simpa [coeff_toPoly] using this
    simp only [toPoly_cons, toPoly_nil, mul_zero, add_zero]
    exact isUnit_C.mpr (IsUnit.mk0 _ hc)
  · intro hu
    have hne : g ≠ [] := by
      intro h0; rw [h0] at hu; simp at hu
    have hd := natDegree_eq_zero_of_isUnit hu
    rw [natDegree_toPoly hg hne] at hd
    have := List.length_pos_of_ne_nil hne
    match g, this, hd with
    | [c], _, _ => exact ⟨c, rfl⟩
    | _ :: _ :: _, _, hd => simp at hd

/-- **invert**: `ZeroDivisionError` iff `b = 0` or `a`, `b` are not coprime; otherwise
the result `s` is well-formed and `s * a ≡ 1 (mod b)` -/
theorem invert_spec [Fact p.Prime] {a b : Poly} (ha : WF p a) (hb : WF p b) :
    (invert p a b = .error .zeroDivision ↔ (b = [] ∨ ¬ IsCoprime (toPoly p a) (toPoly p b))) ∧
      ∀ s, invert p a b = .ok s → WF p s ∧ toPoly p b ∣ toPoly p s * toPoly p a - 1 := by
  have hp1 : 1 < p := (Fact.out : p.Prime).one_lt
  have w1 : WF p [1] := ⟨by simp [Reduced, hp1], by simp [Normalised]⟩
  by_cases hb0 : b = []
  · subst hb0
    simp [invert]
  obtain ⟨e, ws, _⟩ := gcdextLoop_spec (toPoly p a) (toPoly p b) (b.length + 1) a b [1] [] [] [1]
    ha hb w1 wf_nil wf_nil w1 (by omega) (by simp) (by simp)
  have hfst := gcdextLoop_fst (p := p) (b.length + 1) a b [1] [] [] [1]
  obtain ⟨g1, g2⟩ := gcdLoop_spec (b.length + 1) a b ha hb (by omega)
  have hinv := invertLoop_eq_gcdextLoop (p := p) (b.length + 1) a b [1] [] [] [1]
  set r := gcdextLoop p (b.length + 1) a b [1] [] [] [1] with hr
  have hw : WF p r.1 := by rw [hfst]; exact g1
  have hcop : IsUnit (toPoly p r.1) ↔ IsCoprime (toPoly p a) (toPoly p b) := by
    constructor
    · intro hu
      obtain ⟨u, hu'⟩ := hu.exists_left_inv
      refine ⟨u * toPoly p r.2.1, u * toPoly p r.2.2, ?_⟩
      rw [← hu', ← e]; ring
    · rintro ⟨u, v, huv⟩
      have hd := (g2 (toPoly p r.1)).mp (by rw [hfst])
      have : toPoly p r.1 ∣ 1 := by
        rw [← huv]
        exact dvd_add (hd.1.mul_left u) (hd.2.mul_left v)
      exact isUnit_of_dvd_one this
  have herr : ¬ IsUnit (toPoly p r.1) →
      ((Except.error Err.zeroDivision : Except Err Poly) = .error .zeroDivision ↔
        (b = [] ∨ ¬ IsCoprime (toPoly p a) (toPoly p b))) ∧
      ∀ s, (Except.error Err.zeroDivision : Except Err Poly) = .ok s →
        WF p s ∧ toPoly p b ∣ toPoly p s * toPoly p a - 1 := by
    intro hnu
    simp only [true_iff, reduceCtorEq, false_imp_iff, implies_true, and_true]
    right
    exact fun h => hnu (hcop.mpr h)
  unfold invert
  rw [if_neg hb0, hinv]
  simp only
  rcases hr1 : r.1 with _ | ⟨c, _ | ⟨c2, l⟩⟩
  · apply herr
    rw [hr1]; simp
  · have hunit := (length_eq_one_iff_isUnit hw).mp ⟨c, hr1⟩
    simp only [reduceCtorEq, hb0, false_or, false_iff, not_not]
    refine ⟨hcop.mp hunit, ?_⟩
    intro s hs
    simp only [Except.ok.injEq] at hs
    subst hs
    have hcne : (c : ZMod p) ≠ 0 := by
      have := coeff_last_ne_zero hw (by rw [hr1]; simp)
      rw [hr1] at this
      simpa [coeff_toPoly] using this
    have hcinv := invModP_cast hcne
    refine ⟨wf_scale (by rw [hcinv]; exact inv_ne_zero hcne) ws, ?_⟩
    rw [toPoly_scale, hcinv]
    rw [hr1] at e
    simp only [toPoly_cons, toPoly_nil, mul_zero, add_zero] at e
    refine ⟨- (C (c : ZMod p)⁻¹ * toPoly p r.2.2), ?_⟩
    have : (1 : (ZMod p)[X]) = C (c : ZMod p)⁻¹ * C (c : ZMod p) := by
      rw [← C_mul, inv_mul_cancel₀ hcne, C_1]
    rw [this, ← e]
    ring
  · apply herr
    intro hu
    obtain ⟨c', hc'⟩ := (length_eq_one_iff_isUnit hw).mpr hu
    rw [hr1] at hc'
    simp at hc'

end MpycV.GFpX
