/-
Lemmas about the model of mpyc/random.py: ranges, sample from a range, choices, random/uniform, and the
value layer of runtime.random_bits.
-/
import MpycV.Lemmas.RandomPerm
import Mathlib.Data.Nat.Prime.Basic

namespace MpycV.Random

/-! ### ranges -/

theorem rangeLen_pos_bound {start stop step : Int} {r : Nat} (hs : 0 < step) (hr : r < rangeLen start stop step) :
    start ≤ start + (r : Int) * step ∧ start + (r : Int) * step < stop := by
  unfold rangeLen at hr
  simp only [hs, if_true] at hr
  split at hr
  · rename_i hlt
    have hq : ((r : Int) + 1) ≤ (stop - start + step - 1) / step := by
      have : (r : Int) < ((stop - start + step - 1) / step).toNat := by exact_mod_cast hr
      have h0 : 0 ≤ (stop - start + step - 1) / step := Int.ediv_nonneg (by omega) (by omega)
      rw [Int.toNat_of_nonneg h0] at this
      omega
    have h1 : (stop - start + step - 1) / step * step ≤ stop - start + step - 1 := Int.ediv_mul_le _ (by omega)
    have h2 : ((r : Int) + 1) * step ≤ (stop - start + step - 1) / step * step :=
      Int.mul_le_mul_of_nonneg_right hq (by omega)
    have h3 : 0 ≤ (r : Int) * step := Int.mul_nonneg (by omega) (by omega)
    constructor
    · omega
    · have : ((r : Int) + 1) * step = (r : Int) * step + step := by ring
      omega
  · simp at hr

theorem rangeLen_neg_bound {start stop step : Int} {r : Nat} (hs : step < 0) (hr : r < rangeLen start stop step) :
    stop < start + (r : Int) * step ∧ start + (r : Int) * step ≤ start := by
  unfold rangeLen at hr
  have hns : ¬ (0 < step) := by omega
  simp only [hns, if_false] at hr
  split at hr
  · rename_i hlt
    have hq : ((r : Int) + 1) ≤ (start - stop + (-step) - 1) / (-step) := by
      have : (r : Int) < ((start - stop + (-step) - 1) / (-step)).toNat := by exact_mod_cast hr
      have h0 : 0 ≤ (start - stop + (-step) - 1) / (-step) := Int.ediv_nonneg (by omega) (by omega)
      rw [Int.toNat_of_nonneg h0] at this
      omega
    have h1 : (start - stop + (-step) - 1) / (-step) * (-step) ≤ start - stop + (-step) - 1 :=
      Int.ediv_mul_le _ (by omega)
    have h2 : ((r : Int) + 1) * (-step) ≤ (start - stop + (-step) - 1) / (-step) * (-step) :=
      Int.mul_le_mul_of_nonneg_right hq (by omega)
    have h3 : 0 ≤ (r : Int) * (-step) := Int.mul_nonneg (by omega) (by omega)
    have e1 : ((r : Int) + 1) * (-step) = (r : Int) * (-step) + (-step) := by ring
    have e2 : (r : Int) * step = -((r : Int) * (-step)) := by ring
    constructor <;> omega
  · simp at hr

theorem randrange_spec {start stop step : Int} {s : List Bool} {o : Out Int}
    (h : randrange start stop step s = .ok o) :
    step ≠ 0 ∧ ∃ r : Nat, r < rangeLen start stop step ∧ o.val = start + (r : Int) * step := by
  unfold randrange at h
  split at h
  · cases h
  · rename_i hs
    simp only at h
    split at h
    · cases h
    · rename_i hn
      obtain ⟨o', hr, hv, _, _⟩ := map_ok h
      exact ⟨hs, o'.val, randbelow_lt' (by omega) hr, hv⟩

/-! ### sample from a range -/

theorem prod_map_sub_ne_zero {x : List Int} {v : Int} (h : prod (x.map (v - ·)) ≠ 0) : v ∉ x := by
  intro hv
  have := prod_ne_zero h (v - v) (List.mem_map.2 ⟨v, hv, rfl⟩)
  simp at this

theorem sampleRangeLoop_spec (start stop step : Int) (k : Nat) :
    ∀ (fuel : Nat) (x : List Int) (opened s : List Bool) (o : Out (List Int)),
      x.Nodup → (∀ a ∈ x, ∃ r : Nat, r < rangeLen start stop step ∧ a = start + (r : Int) * step) →
      x.length ≤ k →
      sampleRangeLoop start stop step k fuel x opened s = .ok o →
      o.val.Nodup ∧ (∀ a ∈ o.val, ∃ r : Nat, r < rangeLen start stop step ∧ a = start + (r : Int) * step) ∧
        o.val.length = k := by
  intro fuel
  induction fuel with
  | zero => intro x opened s o _ _ _ h; simp [sampleRangeLoop] at h
  | succ fuel ih =>
    intro x opened s o hnd hmem hlen h
    unfold sampleRangeLoop at h
    by_cases hlt : x.length < k
    · simp only [hlt, if_true] at h
      cases hr : randrange start stop step s with
      | ok o1 =>
        simp only [hr] at h
        obtain ⟨_, r, hrl, hrv⟩ := randrange_spec hr
        have hmem' : ∀ a ∈ x ++ [o1.val], ∃ r : Nat, r < rangeLen start stop step ∧ a = start + (r : Int) * step := by
          intro a ha
          rcases List.mem_append.1 ha with ha | ha
          · exact hmem a ha
          · simp at ha; subst ha; exact ⟨r, hrl, hrv⟩
        by_cases hemp : x.isEmpty = true
        · simp only [hemp, if_true] at h
          have hx : x = [] := by simpa using hemp
          subst hx
          exact ih _ _ _ _ (by simp) hmem' (by simp; omega) h
        · simp only [hemp, Bool.false_eq_true, if_false] at h
          by_cases ht : prod (x.map (o1.val - ·)) = 0
          · simp only [ht, if_true] at h
            exact ih _ _ _ _ hnd hmem hlen h
          · simp only [ht, if_false] at h
            have hni := prod_map_sub_ne_zero ht
            refine ih _ _ _ _ ?_ hmem' (by simp; omega) h
            rw [List.nodup_append]
            exact ⟨hnd, by simp, by intro a ha b hb; simp at hb; subst hb; intro hab; subst hab; exact hni ha⟩
      | exhausted => simp [hr] at h
      | fuel => simp [hr] at h
      | error e => simp [hr] at h
    · simp only [hlt, if_false] at h
      cases h
      exact ⟨hnd, hmem, by simp only; omega⟩

/-! ### choices -/

theorem choicesUniform_mem (population : List Int) : ∀ (k : Nat) (s : List Bool) (o : Out (List Int)),
    choicesUniform population k s = .ok o → o.val.length = k ∧ ∀ a ∈ o.val, a ∈ population := by
  intro k
  induction k with
  | zero => intro s o h; simp only [choicesUniform, Res.ok.injEq] at h; subst h; simp
  | succ k ih =>
    intro s o h
    unfold choicesUniform at h
    obtain ⟨o1, o2, h1, h2, hv, _, _⟩ := bind_ok h
    obtain ⟨o3, h3, hv3, _, _⟩ := map_ok h2
    obtain ⟨hl, hm⟩ := ih _ _ h3
    rw [hv, hv3]
    refine ⟨by simp [hl], ?_⟩
    intro a ha
    rcases List.mem_cons.1 ha with rfl | ha
    · exact choice_mem' h1
    · exact hm a ha

/-- telescoping sum of `weightedPick`: with indicator values `hs` (each 0 or 1, nondecreasing) and previous
indicator `prev`, `Σ (h_i - h_{i-1})·pop_i` is `0` if `prev = 1` and an element of `pop` if `prev = 0` -/
theorem weighted_telescope : ∀ (hs pop : List Int) (prev : Int), pop.length = hs.length + 1 →
    (prev = 0 ∨ prev = 1) → (∀ a ∈ hs, a = 0 ∨ a = 1) → List.Pairwise (· ≤ ·) (prev :: hs) →
    (prev = 1 → inProd (vectorSub (hs ++ [1]) (prev :: hs)) pop = 0) ∧
    (prev = 0 → inProd (vectorSub (hs ++ [1]) (prev :: hs)) pop ∈ pop) := by
  intro hs
  induction hs with
  | nil =>
    intro pop prev hlen _ _ _
    cases pop with
    | nil => simp at hlen
    | cons a pop =>
      have : pop = [] := by
        cases pop with
        | nil => rfl
        | cons _ _ => simp at hlen
      subst this
      simp only [List.nil_append, vectorSub, List.zipWith_cons_cons, List.zipWith_nil_right]
      rw [inProd_cons, inProd_nil_left]
      constructor
      · intro h1; rw [h1]; ring
      · intro h0; rw [h0]; simp
  | cons h0 hs ih =>
    intro pop prev hlen hprev h01 hsorted
    cases pop with
    | nil => simp at hlen
    | cons a pop =>
      have hl' : pop.length = hs.length + 1 := by simp at hlen; omega
      have hh0 : h0 = 0 ∨ h0 = 1 := h01 h0 (by simp)
      have h01' : ∀ a ∈ hs, a = 0 ∨ a = 1 := fun a ha => h01 a (List.mem_cons_of_mem _ ha)
      have hs' : List.Pairwise (· ≤ ·) (h0 :: hs) := (List.pairwise_cons.1 hsorted).2
      have hle : prev ≤ h0 := (List.pairwise_cons.1 hsorted).1 h0 (by simp)
      obtain ⟨ih1, ih0⟩ := ih pop h0 hl' hh0 h01' hs'
      have e : inProd (vectorSub ((h0 :: hs) ++ [1]) (prev :: h0 :: hs)) (a :: pop)
          = (h0 - prev) * a + inProd (vectorSub (hs ++ [1]) (h0 :: hs)) pop := by
        simp only [List.cons_append, vectorSub, List.zipWith_cons_cons]
        rw [inProd_cons]
      rw [e]
      constructor
      · intro hp1
        have : h0 = 1 := by omega
        rw [ih1 this, this, hp1]; ring
      · intro hp0
        rcases hh0 with h00 | h01
        · have := ih0 h00
          rw [hp0]
          rw [h00] at this ⊢
          simp only [Int.sub_self, Int.zero_mul, Int.zero_add]
          exact List.mem_cons_of_mem _ this
        · rw [ih1 h01, h01, hp0]; simp

/-- a weighted pick returns a population member when the cumulative weights are nondecreasing -/
theorem weightedPick_mem {population cum : List Int} (r : Nat) (hlen : cum.length = population.length)
    (hne : cum ≠ []) (hmono : List.Pairwise (· ≤ ·) cum) : weightedPick population cum r ∈ population := by
  unfold weightedPick
  have hmap : ∀ l : List Int, List.Pairwise (· ≤ ·) l →
      List.Pairwise (· ≤ ·) (l.map (fun a => if (r : Int) < a then (1 : Int) else 0)) := by
    intro l hl
    refine List.Pairwise.map _ ?_ hl
    intro a b hab
    by_cases h1 : (r : Int) < a
    · have : (r : Int) < b := by omega
      simp [h1, this]
    · by_cases h2 : (r : Int) < b <;> simp [h1, h2]
  have hdl : List.Pairwise (· ≤ ·) cum.dropLast := by
    exact List.Pairwise.sublist (List.dropLast_sublist cum) hmono
  have h01 : ∀ a ∈ cum.dropLast.map (fun a => if (r : Int) < a then (1 : Int) else 0), a = 0 ∨ a = 1 := by
    intro a ha
    obtain ⟨b, _, rfl⟩ := List.mem_map.1 ha
    by_cases h1 : (r : Int) < b <;> simp [h1]
  have hl : population.length = (cum.dropLast.map (fun a => if (r : Int) < a then (1 : Int) else 0)).length + 1 := by
    rw [List.length_map, List.length_dropLast]
    have : 0 < cum.length := List.length_pos_iff.2 hne
    omega
  have hsorted : List.Pairwise (· ≤ ·)
      ((0 : Int) :: cum.dropLast.map (fun a => if (r : Int) < a then (1 : Int) else 0)) := by
    rw [List.pairwise_cons]
    refine ⟨?_, hmap _ hdl⟩
    intro a ha
    rcases h01 a ha with h | h <;> omega
  exact (weighted_telescope _ population 0 hl (Or.inl rfl) h01 hsorted).2 rfl

/-! ### runtime.random_bits, value layer -/

theorem sq_one_mod_prime {p e : Nat} (hp : p.Prime) (he : e < p) (h : e * e % p = 1) : e = 1 ∨ e = p - 1 := by
  have hp2 := hp.two_le
  have he1 : 1 ≤ e := by
    rcases Nat.eq_zero_or_pos e with h0 | h0
    · subst h0; simp at h
    · exact h0
  have hdvd : p ∣ (e - 1) * (e + 1) := by
    have e1 : (e - 1) * (e + 1) = e * e - 1 := by
      obtain ⟨m, rfl⟩ : ∃ m, e = m + 1 := ⟨e - 1, by omega⟩
      simp only [Nat.add_sub_cancel]
      have : (m + 1) * (m + 1) = m * (m + 1 + 1) + 1 := by ring
      omega
    rw [e1]
    have := Nat.div_add_mod (e * e) p
    rw [h] at this
    exact ⟨e * e / p, by omega⟩
  rcases (Nat.Prime.dvd_mul hp).1 hdvd with h1 | h1
  · left
    have : e - 1 = 0 := Nat.eq_zero_of_dvd_of_lt h1 (by omega)
    omega
  · right
    have : p ≤ e + 1 := Nat.le_of_dvd (by omega) h1
    omega

theorem half_bit {p : Nat} (hp2 : 2 ≤ p) (hodd : p % 2 = 1) :
    (1 + 1) * ((p + 1) >>> 1) % p = 1 ∧ (p - 1 + 1) * ((p + 1) >>> 1) % p = 0 := by
  rw [Nat.shiftRight_eq_div_pow]
  have h2 : (p + 1) / 2 ^ 1 * 2 = p + 1 := by
    have : (p + 1) % 2 = 0 := by omega
    omega
  constructor
  · have : (1 + 1) * ((p + 1) / 2 ^ 1) = p + 1 := by omega
    rw [this]
    have : (p + 1) % p = 1 % p := by simp [Nat.add_mod]
    rw [this, Nat.mod_eq_of_lt (by omega)]
  · have : p - 1 + 1 = p := by omega
    rw [this, Nat.mul_mod_right]

/-- PRSS branch: `r ≠ 0` with `w² r² ≡ 1 (mod p)`: the bit is 0 or 1 (signed: ±1 mod p) -/
theorem bitFromSqrt_spec {p r w : Nat} (hp : p.Prime) (hodd : p % 2 = 1) (h : (r * w % p) * (r * w % p) % p = 1) :
    (bitFromSqrt p r w false = 0 ∨ bitFromSqrt p r w false = 1) ∧
    (bitFromSqrt p r w true = 1 ∨ bitFromSqrt p r w true = p - 1) := by
  have hlt : r * w % p < p := Nat.mod_lt _ hp.pos
  have hcases := sq_one_mod_prime hp hlt h
  obtain ⟨hb1, hb0⟩ := half_bit hp.two_le hodd
  unfold bitFromSqrt
  simp only [Bool.false_eq_true, if_false, if_true]
  refine ⟨?_, hcases⟩
  rcases hcases with h1 | h1
  · right; rw [h1]; exact hb1
  · left; rw [h1]; exact hb0

theorem neg_mul_mod {p r w : Nat} (hp : 0 < p) (hr : r ≤ p) (hne : r * w % p ≠ 0) :
    (p - r) * w % p = p - r * w % p := by
  have hlt : r * w % p < p := Nat.mod_lt _ hp
  have e : (p - r) * w + r * w = p * w := by
    rw [← Nat.add_mul]; congr 1; omega
  have h1 : ((p - r) * w + r * w) % p = 0 := by rw [e]; exact Nat.mul_mod_right p w
  rw [Nat.add_mod] at h1
  have hlt2 : (p - r) * w % p < p := Nat.mod_lt _ hp
  have : (p - r) * w % p + r * w % p = p := by
    have hd : p ∣ (p - r) * w % p + r * w % p := Nat.dvd_of_mod_eq_zero h1
    obtain ⟨c, hc⟩ := hd
    have hc1 : c = 1 := by
      rcases c with _ | _ | c
      · simp at hc; omega
      · rfl
      · have e3 : p * (c + 1 + 1) = p * c + 2 * p := by ring
        rw [e3] at hc
        have : 0 ≤ p * c := Nat.zero_le _
        omega
    rw [hc1] at hc; omega
  omega

/-- uniformity of the PRSS bit: `r` and `-r` (same square, same `w`) give opposite bits -/
theorem bitFromSqrt_flip {p r w : Nat} (hp : p.Prime) (hodd : p % 2 = 1) (hr : r ≤ p)
    (h : (r * w % p) * (r * w % p) % p = 1) :
    bitFromSqrt p (p - r) w false = 1 - bitFromSqrt p r w false := by
  have hlt : r * w % p < p := Nat.mod_lt _ hp.pos
  have hp2 := hp.two_le
  have hcases := sq_one_mod_prime hp hlt h
  obtain ⟨hb1, hb0⟩ := half_bit hp2 hodd
  have hne : r * w % p ≠ 0 := by rcases hcases with h1 | h1 <;> omega
  have hneg := neg_mul_mod hp.pos hr hne
  unfold bitFromSqrt
  simp only [Bool.false_eq_true, if_false]
  rw [hneg]
  rcases hcases with h1 | h1
  · rw [h1, hb1]
    have : p - 1 + 1 = p := by omega
    rw [show p - 1 = p - 1 from rfl, hb0]
  · rw [h1, hb0]
    have : p - (p - 1) = 1 := by omega
    rw [this, hb1]

theorem pm_one_mul {p a v : Nat} (hp2 : 2 ≤ p) (ha : a = 1 ∨ a = p - 1) (hv : v = 1 ∨ v = p - 1) :
    a * v % p = 1 ∨ a * v % p = p - 1 := by
  have hsq : (p - 1) * (p - 1) % p = 1 := by
    obtain ⟨m, rfl⟩ : ∃ m, p = m + 2 := ⟨p - 2, by omega⟩
    have : (m + 2 - 1) * (m + 2 - 1) = (m + 2) * m + 1 := by
      have : m + 2 - 1 = m + 1 := by omega
      rw [this]; ring
    rw [this, Nat.mul_add_mod, Nat.mod_eq_of_lt (by omega)]
  rcases ha with rfl | rfl <;> rcases hv with rfl | rfl
  · left; simp [Nat.mod_eq_of_lt (by omega : 1 < p)]
  · right; simp [Nat.mod_eq_of_lt (by omega : p - 1 < p)]
  · right; simp [Nat.mod_eq_of_lt (by omega : p - 1 < p)]
  · left; exact hsq

theorem foldl_pm_one {p : Nat} (hp2 : 2 ≤ p) : ∀ (vals : List Nat) (a : Nat), (a = 1 ∨ a = p - 1) →
    (∀ v ∈ vals, v = 1 ∨ v = p - 1) →
    (vals.foldl (fun a v => a * v % p) a = 1 ∨ vals.foldl (fun a v => a * v % p) a = p - 1) := by
  intro vals
  induction vals with
  | nil => intro a ha _; exact ha
  | cons v vals ih =>
    intro a ha hv
    simp only [List.foldl_cons]
    exact ih _ (pm_one_mul hp2 ha (hv v (by simp))) (fun v' hv' => hv v' (List.mem_cons_of_mem _ hv'))

/-- no-PRSS branch: a product of ±1 values is ±1, the unsigned bit is 0 or 1 -/
theorem bitFromProd_spec {p : Nat} {vals : List Nat} (hp2 : 2 ≤ p) (hodd : p % 2 = 1)
    (hv : ∀ v ∈ vals, v = 1 ∨ v = p - 1) :
    (bitFromProd p vals false = 0 ∨ bitFromProd p vals false = 1) ∧
    (bitFromProd p vals true = 1 ∨ bitFromProd p vals true = p - 1) := by
  have hcases := foldl_pm_one hp2 vals 1 (Or.inl rfl) hv
  obtain ⟨hb1, hb0⟩ := half_bit hp2 hodd
  unfold bitFromProd
  simp only [Bool.false_eq_true, if_false, if_true]
  refine ⟨?_, hcases⟩
  rcases hcases with h1 | h1
  · right; rw [h1]; exact hb1
  · left; rw [h1]; exact hb0

end MpycV.Random
