/-
Finite, kernel-checked tables for the Tonelli–Shanks branch of `ExtensionFieldElement._sqrt` (q ≡ 1 mod 4):
every element of GF(9), GF(25), GF(49), GF(81), GF(121), GF(125) with the moduli `find_irreducible` picks.
-/
import MpycV.Model.ExtF

namespace MpycV.ExtF

/-- the C21 clauses for one element, as a Boolean check on the model -/
def sqrtCheck (p : Nat) (m a : GFpX.Poly) : Bool :=
  match isSqr p m a with
  | .ok true =>
    (match sqrt p m a false with
     | .ok r => decide (r.length < m.length) && mul p m r r == a &&
        (match sqrt p m a true with
         | .ok r' => a != [] && decide (r'.length < m.length) && mul p m r' r == [1]
         | .error e => a == [] && e == .zeroDivision)
     | .error _ => false)
  | .ok false => true     -- not a square: the property does not constrain `sqrt`
  | .error _ => false

/-- all class-invariant values: base-p digits of 0 .. p^d - 1 -/
def allElems (p : Nat) (m : GFpX.Poly) : List GFpX.Poly := (List.range (order p m)).map (GFpX.digits p)

def checkField (p : Nat) (m : GFpX.Poly) : Bool :=
  GFpX.isIrreducible p m && (allElems p m).all (sqrtCheck p m)

theorem ts_9 : checkField 3 [1, 0, 1] = true := by decide +kernel
theorem ts_25 : checkField 5 [2, 0, 1] = true := by decide +kernel
theorem ts_49 : checkField 7 [1, 0, 1] = true := by decide +kernel
theorem ts_81 : checkField 3 [2, 1, 0, 0, 1] = true := by decide +kernel
theorem ts_121 : checkField 11 [1, 0, 1] = true := by decide +kernel
theorem ts_125 : checkField 5 [1, 1, 0, 1] = true := by decide +kernel

end MpycV.ExtF
