/-
Agreement of the bitmask model `MpycV.BinPoly` (≙ gfpx.py `BinaryPolynomial`, polynomials over GF(2) as
nonnegative integers) with the list model `MpycV.GFpX` at `p = 2`, through the bridge
`toList : ℕ → GFpX.Poly` (bit i ↦ coefficient i).
-/
import MpycV.Lemmas.GFpXDiv
import MpycV.Model.BinPoly
import Mathlib.Data.Nat.Bitwise
import Mathlib.Algebra.CharP.Two

open Polynomial

namespace MpycV.BinPoly

open MpycV.GFpX (Poly WF Reduced Normalised toPoly)

local instance : Fact (Nat.Prime 2) := Nat.fact_prime_two

/-! ### `bitLen` -/

@[simp] theorem bitLen_zero : bitLen 0 = 0 := by simp [bitLen]

theorem bitLen_of_ne_zero {a : ℕ} (h : a ≠ 0) : bitLen a = Nat.log2 a + 1 := by simp [bitLen, h]

theorem bitLen_eq_zero_iff {a : ℕ} : bitLen a = 0 ↔ a = 0 := by
  unfold bitLen; split <;> simp_all

theorem bitLen_succ_div {a : ℕ} (h : a ≠ 0) : bitLen a = bitLen (a / 2) + 1 := by
  rw [bitLen_of_ne_zero h, Nat.log2_def]
  by_cases h2 : 2 ≤ a
  · rw [if_pos h2, bitLen_of_ne_zero (by omega)]
  · have : a = 1 := by omega
    subst this
    simp

theorem lt_two_pow_bitLen (a : ℕ) : a < 2 ^ bitLen a := by
  by_cases h : a = 0
  · subst h; simp
  · rw [bitLen_of_ne_zero h]; exact Nat.lt_log2_self

theorem bitLen_le_iff {a k : ℕ} : bitLen a ≤ k ↔ a < 2 ^ k := by
  by_cases h : a = 0
  · subst h; simp
  · rw [bitLen_of_ne_zero h, Nat.succ_le_iff, Nat.log2_lt h]

theorem testBit_bitLen_sub_one {a : ℕ} (h : a ≠ 0) : a.testBit (bitLen a - 1) = true := by
  rw [bitLen_of_ne_zero h, Nat.add_sub_cancel]; exact Nat.testBit_log2 h

theorem two_pow_le_of_ne_zero {a : ℕ} (h : a ≠ 0) : 2 ^ (bitLen a - 1) ≤ a := by
  rw [bitLen_of_ne_zero h, Nat.add_sub_cancel]; exact Nat.log2_self_le h

theorem bitLen_shiftLeft {a : ℕ} (h : a ≠ 0) (k : ℕ) : bitLen (a <<< k) = bitLen a + k := by
  have hne : a <<< k ≠ 0 := by
    rw [Nat.shiftLeft_eq]; exact Nat.mul_ne_zero h (by positivity)
  apply le_antisymm
  · rw [bitLen_le_iff, Nat.shiftLeft_eq, pow_add]
    exact Nat.mul_lt_mul_of_lt_of_le (lt_two_pow_bitLen a) le_rfl (by positivity)
  · by_contra hlt
    have h1 : bitLen (a <<< k) ≤ bitLen a + k - 1 := by omega
    rw [bitLen_le_iff, Nat.shiftLeft_eq] at h1
    have h2 := two_pow_le_of_ne_zero h
    have hpos : 0 < bitLen a := Nat.pos_of_ne_zero (fun h0 => h (bitLen_eq_zero_iff.mp h0))
    have : bitLen a + k - 1 = (bitLen a - 1) + k := by omega
    rw [this, pow_add] at h1
    have := Nat.mul_le_mul_right (2 ^ k) h2
    omega

/-! ### `toList` -/

theorem toListAux_fuel : ∀ (f g a : ℕ), a ≤ f → a ≤ g → toListAux f a = toListAux g a := by
  intro f
  induction f with
  | zero =>
    intro g a h _
    have : a = 0 := by omega
    subst this
    cases g <;> simp [toListAux]
  | succ f ih =>
    intro g a hf hg
    cases g with
    | zero =>
      have : a = 0 := by omega
      subst this
      simp [toListAux]
    | succ g =>
      simp only [toListAux]
      split
      · rfl
      · rw [ih g (a / 2) (by omega) (by omega)]

@[simp] theorem toList_zero : toList 0 = [] := rfl

theorem toList_of_ne_zero {a : ℕ} (h : a ≠ 0) : toList a = a % 2 :: toList (a / 2) := by
  unfold toList
  obtain ⟨n, rfl⟩ := Nat.exists_eq_succ_of_ne_zero h
  rw [toListAux, if_neg h]
  rw [toListAux_fuel n ((n + 1) / 2) ((n + 1) / 2) (by omega) le_rfl]

theorem toList_eq_nil_iff {a : ℕ} : toList a = [] ↔ a = 0 := by
  constructor
  · intro h
    by_contra h0
    rw [toList_of_ne_zero h0] at h
    simp at h
  · rintro rfl; rfl

theorem toList_one : toList 1 = [1] := by decide
theorem toList_two : toList 2 = [0, 1] := by decide

theorem toList_div_two (a : ℕ) : toList (a / 2) = (toList a).tail := by
  by_cases h : a = 0
  · subst h; rfl
  · rw [toList_of_ne_zero h]; rfl

theorem toList_length (a : ℕ) : (toList a).length = bitLen a := by
  induction a using Nat.strong_induction_on with
  | _ a ih =>
    by_cases h : a = 0
    · subst h; simp
    · rw [toList_of_ne_zero h, bitLen_succ_div h, List.length_cons, ih (a / 2) (by omega)]

theorem toList_getD_div (a i : ℕ) : (toList a).getD i 0 = a / 2 ^ i % 2 := by
  induction i generalizing a with
  | zero =>
    by_cases h : a = 0
    · subst h; simp
    · rw [toList_of_ne_zero h]; simp
  | succ i ih =>
    by_cases h : a = 0
    · subst h; simp
    · rw [toList_of_ne_zero h, List.getD_cons_succ, ih, Nat.div_div_eq_div_mul, pow_succ']

theorem toList_getD (a i : ℕ) : (toList a).getD i 0 = (a.testBit i).toNat := by
  rw [toList_getD_div, Nat.toNat_testBit]

theorem toList_reduced (a : ℕ) : Reduced 2 (toList a) := by
  induction a using Nat.strong_induction_on with
  | _ a ih =>
    by_cases h : a = 0
    · subst h; exact GFpX.reduced_nil
    · rw [toList_of_ne_zero h, GFpX.reduced_cons]
      exact ⟨Nat.mod_lt _ (by omega), ih (a / 2) (by omega)⟩

theorem toList_normalised (a : ℕ) : Normalised (toList a) := by
  induction a using Nat.strong_induction_on with
  | _ a ih =>
    by_cases h : a = 0
    · subst h; exact GFpX.normalised_nil
    · rw [toList_of_ne_zero h]
      by_cases h2 : a / 2 = 0
      · have : a = 1 := by omega
        subst this
        decide
      · have := ih (a / 2) (by omega)
        rw [toList_of_ne_zero h2] at this ⊢
        exact GFpX.normalised_cons_cons.mpr this

theorem toList_wf (a : ℕ) : WF 2 (toList a) := ⟨toList_reduced a, toList_normalised a⟩

theorem fromList_cons (x : ℕ) (l : List ℕ) : fromList (x :: l) = 2 * fromList l + x := by
  simp [fromList, Nat.shiftLeft_eq, Nat.mul_comm]

@[simp] theorem fromList_nil : fromList [] = 0 := rfl

theorem fromList_toList (a : ℕ) : fromList (toList a) = a := by
  induction a using Nat.strong_induction_on with
  | _ a ih =>
    by_cases h : a = 0
    · subst h; rfl
    · rw [toList_of_ne_zero h, fromList_cons, ih (a / 2) (by omega)]
      omega

theorem toList_injective : Function.Injective toList :=
  Function.LeftInverse.injective fromList_toList

theorem toList_fromList {l : List ℕ} (h : WF 2 l) : toList (fromList l) = l := by
  induction l with
  | nil => rfl
  | cons x l ih =>
    have hx : x < 2 := (GFpX.reduced_cons.mp h.1).1
    have hl : WF 2 l := by
      refine ⟨(GFpX.reduced_cons.mp h.1).2, ?_⟩
      cases l with
      | nil => exact GFpX.normalised_nil
      | cons y l => exact GFpX.normalised_cons_cons.mp h.2
    have ih' := ih hl
    have hne : fromList (x :: l) ≠ 0 := by
      rw [fromList_cons]
      cases l with
      | nil =>
        have := GFpX.normalised_singleton.mp h.2
        simp; exact this
      | cons y l =>
        have : fromList (y :: l) ≠ 0 := by
          intro h0
          rw [h0] at ih'
          simp at ih'
        omega
    rw [toList_of_ne_zero hne, fromList_cons]
    have e1 : (2 * fromList l + x) % 2 = x := by omega
    have e2 : (2 * fromList l + x) / 2 = fromList l := by omega
    rw [e1, e2, ih']

theorem degree_agree (a : ℕ) : degree a = GFpX.degree (toList a) := by
  rw [degree, GFpX.degree, toList_length]

theorem getLastD_toList {a : ℕ} (h : a ≠ 0) : (toList a).getLastD 0 = 1 := by
  have hne : toList a ≠ [] := fun h0 => h (toList_eq_nil_iff.mp h0)
  have h1 := GFpX.getLastD_lt (toList_reduced a) hne
  have h2 := (GFpX.normalised_iff_getLastD hne).mp (toList_normalised a)
  omega

/-! ### the polynomial over `ZMod 2` denoted by a bitmask -/

/-- the polynomial over GF(2) denoted by the bitmask `a` -/
noncomputable def binToPoly (a : ℕ) : (ZMod 2)[X] := toPoly 2 (toList a)

local notation "𝓟" => binToPoly

theorem coeff_binToPoly (a i : ℕ) : (𝓟 a).coeff i = if a.testBit i then 1 else 0 := by
  rw [binToPoly, GFpX.coeff_toPoly, toList_getD]
  cases a.testBit i <;> simp

@[simp] theorem binToPoly_zero : 𝓟 0 = 0 := rfl

theorem binToPoly_one : 𝓟 1 = 1 := by
  rw [binToPoly, toList_one]; simp

theorem binToPoly_two : 𝓟 2 = X := by
  rw [binToPoly, toList_two]; simp

theorem binToPoly_eq_zero_iff {a : ℕ} : 𝓟 a = 0 ↔ a = 0 := by
  rw [binToPoly, GFpX.toPoly_eq_zero_iff (toList_wf a), toList_eq_nil_iff]

theorem binToPoly_injective : Function.Injective binToPoly := by
  intro a b h
  exact toList_injective (GFpX.toPoly_inj (toList_wf a) (toList_wf b) h)

/-- a well-formed list denoting the same polynomial as the bitmask `a` is `toList a` -/
theorem toList_eq_of_toPoly_eq {a : ℕ} {l : Poly} (hl : WF 2 l) (h : 𝓟 a = toPoly 2 l) :
    toList a = l := GFpX.toPoly_inj (toList_wf a) hl h

theorem binToPoly_of_ne_zero {a : ℕ} (h : a ≠ 0) :
    𝓟 a = C ((a % 2 : ℕ) : ZMod 2) + X * 𝓟 (a / 2) := by
  rw [binToPoly, toList_of_ne_zero h]; rfl

theorem binToPoly_div_mod (a : ℕ) : 𝓟 a = C ((a % 2 : ℕ) : ZMod 2) + X * 𝓟 (a / 2) := by
  by_cases h : a = 0
  · subst h; simp
  · exact binToPoly_of_ne_zero h

theorem binToPoly_add_self (P : (ZMod 2)[X]) : P + P = 0 := CharTwo.add_self_eq_zero P

theorem binToPoly_xor (a b : ℕ) : 𝓟 (a ^^^ b) = 𝓟 a + 𝓟 b := by
  ext i
  rw [coeff_add, coeff_binToPoly, coeff_binToPoly, coeff_binToPoly, Nat.testBit_xor]
  cases a.testBit i <;> cases b.testBit i <;> simp
  exact (CharTwo.add_self_eq_zero (1 : ZMod 2)).symm

theorem binToPoly_shiftLeft (a n : ℕ) : 𝓟 (a <<< n) = 𝓟 a * X ^ n := by
  ext i
  rw [coeff_mul_X_pow', coeff_binToPoly, coeff_binToPoly, Nat.testBit_shiftLeft]
  by_cases h : n ≤ i <;> simp [h]

theorem binToPoly_two_pow (k : ℕ) : 𝓟 (2 ^ k) = X ^ k := by
  have := binToPoly_shiftLeft 1 k
  rwa [Nat.shiftLeft_eq, one_mul, binToPoly_one, one_mul] at this

theorem degree_binToPoly_lt (a : ℕ) : (𝓟 a).degree < (bitLen a : WithBot ℕ) := by
  have := GFpX.degree_toPoly_lt (p := 2) (toList a)
  rwa [toList_length] at this

theorem degree_binToPoly {a : ℕ} (h : a ≠ 0) : (𝓟 a).degree = ((bitLen a - 1 : ℕ) : WithBot ℕ) := by
  have := GFpX.degree_toPoly (toList_wf a) (fun h0 => h (toList_eq_nil_iff.mp h0))
  rwa [toList_length] at this

/-! ### ring operations -/

theorem toList_add (a b : ℕ) : toList (add a b) = GFpX.add 2 (toList a) (toList b) := by
  apply toList_eq_of_toPoly_eq (GFpX.wf_add (toList_reduced a) (toList_reduced b))
  rw [add, binToPoly_xor, GFpX.toPoly_add]; rfl

theorem toList_sub (a b : ℕ) : toList (sub a b) = GFpX.sub 2 (toList a) (toList b) := by
  apply toList_eq_of_toPoly_eq (GFpX.wf_sub (by omega) (toList_reduced a) (toList_reduced b))
  rw [sub, binToPoly_xor, GFpX.toPoly_sub _ (toList_reduced b), sub_eq_add_neg, CharTwo.neg_eq]; rfl

theorem toList_xor_sub (a b : ℕ) : toList (a ^^^ b) = GFpX.sub 2 (toList a) (toList b) := toList_sub a b

theorem toList_neg (a : ℕ) : toList (neg a) = GFpX.neg 2 (toList a) := by
  apply toList_eq_of_toPoly_eq (GFpX.wf_neg (toList_wf a))
  rw [neg, GFpX.toPoly_neg (toList_reduced a), CharTwo.neg_eq]; rfl

theorem toList_lshift (a n : ℕ) : toList (lshift a n) = GFpX.lshift (toList a) n := by
  apply toList_eq_of_toPoly_eq (GFpX.wf_lshift (toList_wf a) (by omega) n)
  rw [lshift, binToPoly_shiftLeft, GFpX.toPoly_lshift]; rfl

theorem toList_rshift (a n : ℕ) : toList (rshift a n) = GFpX.rshift (toList a) n := by
  unfold rshift GFpX.rshift
  induction n with
  | zero => simp
  | succ n ih =>
    rw [Nat.shiftRight_succ, toList_div_two, ih, List.tail_drop]

/-- loop invariant of `_mul`: `c + a * b` is preserved -/
theorem binToPoly_mulLoop : ∀ (f a b c : ℕ), b ≤ f → 𝓟 (mulLoop f a b c) = 𝓟 c + 𝓟 a * 𝓟 b := by
  intro f
  induction f with
  | zero =>
    intro a b c h
    have : b = 0 := by omega
    subst this
    simp [mulLoop]
  | succ f ih =>
    intro a b c h
    rw [mulLoop]
    split
    · rename_i h0; subst h0; simp
    · rename_i h0
      rw [ih _ _ _ (by rw [Nat.shiftRight_eq_div_pow]; omega), binToPoly_shiftLeft,
        Nat.shiftRight_eq_div_pow, pow_one, pow_one, Nat.and_one_is_mod]
      conv_rhs => rw [binToPoly_div_mod b]
      split
      · rename_i h1
        rw [binToPoly_xor, h1]; simp; ring
      · rename_i h1
        have : b % 2 = 0 := by omega
        rw [this]; simp; ring

theorem or_two_pow_of_lt {c k : ℕ} (h : c < 2 ^ k) : 𝓟 (c ||| 2 ^ k) = 𝓟 c + X ^ k := by
  ext i
  rw [coeff_add, coeff_binToPoly, coeff_binToPoly, Nat.testBit_or, Nat.testBit_two_pow, coeff_X_pow]
  by_cases hik : k = i
  · subst hik
    simp [Nat.testBit_lt_two_pow h]
  · have : ¬ i = k := fun h => hik h.symm
    simp [hik, this]

theorem binToPoly_sq_expand (x : ℕ) (Q : (ZMod 2)[X]) (hx : x < 2) :
    (C ((x : ℕ) : ZMod 2) + X * Q) * (C ((x : ℕ) : ZMod 2) + X * Q)
      = C ((x : ℕ) : ZMod 2) + X ^ 2 * (Q * Q) := by
  rw [CharTwo.add_mul_self]
  have : (C ((x : ℕ) : ZMod 2) : (ZMod 2)[X]) * C ((x : ℕ) : ZMod 2) = C ((x : ℕ) : ZMod 2) := by
    interval_cases x <;> simp
  rw [this]; ring

/-- loop invariant of `_sq` with `d = 2^(2j)` and `c < d` -/
theorem binToPoly_sqLoop : ∀ (f a j c : ℕ), a ≤ f → c < 2 ^ (2 * j) →
    𝓟 (sqLoop f a (2 ^ (2 * j)) c) = 𝓟 c + X ^ (2 * j) * (𝓟 a * 𝓟 a) := by
  intro f
  induction f with
  | zero =>
    intro a j c h _
    have : a = 0 := by omega
    subst this
    simp [sqLoop]
  | succ f ih =>
    intro a j c h hc
    rw [sqLoop]
    split
    · rename_i h0; subst h0; simp
    · rename_i h0
      have hd : (2 ^ (2 * j)) <<< 2 = 2 ^ (2 * (j + 1)) := by
        rw [Nat.shiftLeft_eq, ← pow_add]; rfl
      have hlt : 2 ^ (2 * j) < 2 ^ (2 * (j + 1)) := Nat.pow_lt_pow_right (by omega) (by omega)
      rw [hd, Nat.shiftRight_eq_div_pow, pow_one, Nat.and_one_is_mod]
      conv_rhs => rw [binToPoly_div_mod a, binToPoly_sq_expand _ _ (Nat.mod_lt _ (by omega))]
      split
      · rename_i h1
        rw [ih _ _ _ (by omega) (Nat.or_lt_two_pow (lt_trans hc hlt) hlt), or_two_pow_of_lt hc, h1]
        simp; ring
      · rename_i h1
        have h2 : a % 2 = 0 := by omega
        rw [ih _ _ _ (by omega) (lt_trans hc hlt), h2]
        simp; ring

theorem binToPoly_sq (a : ℕ) : 𝓟 (sq a) = 𝓟 a * 𝓟 a := by
  have := binToPoly_sqLoop a a 0 0 le_rfl (by simp)
  simpa [sq] using this

theorem binToPoly_mul (a b : ℕ) : 𝓟 (mul a b) = 𝓟 a * 𝓟 b := by
  unfold mul
  split
  · rename_i h; subst h; exact binToPoly_sq a
  · split
    · rw [binToPoly_mulLoop _ _ _ _ le_rfl]; simp [mul_comm]
    · rw [binToPoly_mulLoop _ _ _ _ le_rfl]; simp

theorem toList_mul (a b : ℕ) : toList (mul a b) = GFpX.mul 2 (toList a) (toList b) := by
  apply toList_eq_of_toPoly_eq (GFpX.wf_mul (toList_wf a) (toList_wf b))
  rw [binToPoly_mul, GFpX.toPoly_mul]; rfl

theorem toList_sq (a : ℕ) : toList (sq a) = GFpX.sq 2 (toList a) := by
  rw [GFpX.sq_eq_mul_self (by omega)]
  apply toList_eq_of_toPoly_eq (GFpX.wf_mul (toList_wf a) (toList_wf a))
  rw [binToPoly_sq, GFpX.toPoly_mul]; rfl

/-! ### division -/

theorem xor_lt_of_top {x y j : ℕ} (hx : x < 2 ^ (j + 1)) (hy : y < 2 ^ (j + 1))
    (bx : x.testBit j = true) (by' : y.testBit j = true) : x ^^^ y < 2 ^ j := by
  apply Nat.lt_pow_two_of_testBit
  intro i hi
  rw [Nat.testBit_xor]
  rcases Nat.eq_or_lt_of_le hi with h | h
  · subst h; simp [bx, by']
  · have h1 : x < 2 ^ i := lt_of_lt_of_le hx (Nat.pow_le_pow_right (by omega) h)
    have h2 : y < 2 ^ i := lt_of_lt_of_le hy (Nat.pow_le_pow_right (by omega) h)
    simp [Nat.testBit_lt_two_pow h1, Nat.testBit_lt_two_pow h2]

theorem lt_of_top_clear {x j : ℕ} (hx : x < 2 ^ (j + 1)) (bx : x.testBit j = false) : x < 2 ^ j := by
  apply Nat.lt_pow_two_of_testBit
  intro i hi
  rcases Nat.eq_or_lt_of_le hi with h | h
  · subst h; exact bx
  · exact Nat.testBit_lt_two_pow (lt_of_lt_of_le hx (Nat.pow_le_pow_right (by omega) h))

theorem bit_test_iff (a i : ℕ) : ((a >>> i) &&& 1 = 1) ↔ a.testBit i = true := by
  rw [Nat.and_one_is_mod, Nat.shiftRight_eq_div_pow, Nat.testBit_eq_decide_div_mod_eq]
  simp

theorem shiftLeft_succ_shiftRight_one (b k : ℕ) : (b <<< (k + 1)) >>> 1 = b <<< k := by
  rw [Nat.shiftRight_eq_div_pow, Nat.shiftLeft_eq, Nat.shiftLeft_eq, pow_succ, ← Nat.mul_assoc]
  simp

/-- loop invariant of `_divmod` -/
theorem divmodLoop_spec {b0 : ℕ} (hb0 : b0 ≠ 0) : ∀ (k q a : ℕ), a < 2 ^ (bitLen b0 + k - 1) →
    𝓟 (divmodLoop (bitLen b0) k q a (b0 <<< k)).1 * 𝓟 b0 + 𝓟 (divmodLoop (bitLen b0) k q a (b0 <<< k)).2
        = 𝓟 q * X ^ k * 𝓟 b0 + 𝓟 a ∧
      (divmodLoop (bitLen b0) k q a (b0 <<< k)).2 < 2 ^ (bitLen b0 - 1) := by
  have hn : 0 < bitLen b0 := Nat.pos_of_ne_zero (fun h0 => hb0 (bitLen_eq_zero_iff.mp h0))
  intro k
  induction k with
  | zero =>
    intro q a ha
    simp only [divmodLoop, pow_zero, mul_one, true_and]
    simpa using ha
  | succ k ih =>
    intro q a ha
    have hsucc : bitLen b0 + (k + 1) - 1 = (bitLen b0 + k - 1) + 1 := by omega
    rw [hsucc] at ha
    simp only [divmodLoop, shiftLeft_succ_shiftRight_one, bit_test_iff]
    split
    · rename_i hbit
      have hbl : bitLen (b0 <<< k) = (bitLen b0 + k - 1) + 1 := by rw [bitLen_shiftLeft hb0]; omega
      have hbne : b0 <<< k ≠ 0 := by
        intro h0; rw [h0] at hbl; simp at hbl
      have hb1 : b0 <<< k < 2 ^ ((bitLen b0 + k - 1) + 1) := by
        rw [← hbl]; exact lt_two_pow_bitLen _
      have hb2 : (b0 <<< k).testBit (bitLen b0 + k - 1) = true := by
        have := testBit_bitLen_sub_one hbne
        rwa [hbl, Nat.add_sub_cancel] at this
      obtain ⟨g1, g2⟩ := ih (q <<< 1 ^^^ 1) (a ^^^ b0 <<< k) (xor_lt_of_top ha hb1 hbit hb2)
      refine ⟨?_, g2⟩
      rw [g1, binToPoly_xor, binToPoly_xor, binToPoly_shiftLeft, binToPoly_shiftLeft, binToPoly_one]
      linear_combination binToPoly_add_self (X ^ k * 𝓟 b0)
    · rename_i hbit
      have hbit' : a.testBit (bitLen b0 + k - 1) = false := by simpa using hbit
      obtain ⟨g1, g2⟩ := ih (q <<< 1) a (lt_of_top_clear ha hbit')
      refine ⟨?_, g2⟩
      rw [g1, binToPoly_shiftLeft]
      ring

theorem modLoop_eq (n : ℕ) : ∀ (k q a b : ℕ), modLoop n k a b = (divmodLoop n k q a b).2 := by
  intro k
  induction k with
  | zero => intro q a b; rfl
  | succ k ih =>
    intro q a b
    simp only [modLoop, divmodLoop]
    split
    · exact ih _ _ _
    · exact ih _ _ _

/-- `_mod` computes the remainder of `_divmod` -/
theorem modCore_eq_divmodCore_snd (a b : ℕ) : modCore a b = (divmodCore a b).2 := by
  unfold modCore divmodCore
  simp only
  split
  · rfl
  · exact modLoop_eq _ _ _ _ _

/-- **division algorithm** on bitmasks: `a = q*b + r`, `bitLen r < bitLen b` -/
theorem divmodCore_spec (a : ℕ) {b : ℕ} (hb : b ≠ 0) :
    𝓟 a = 𝓟 (divmodCore a b).1 * 𝓟 b + 𝓟 (divmodCore a b).2 ∧
      bitLen (divmodCore a b).2 < bitLen b := by
  have hn : 0 < bitLen b := Nat.pos_of_ne_zero (fun h0 => hb (bitLen_eq_zero_iff.mp h0))
  unfold divmodCore
  simp only
  split
  · rename_i hlt
    exact ⟨by simp, hlt⟩
  · rename_i hge
    have hane : a ≠ 0 := by
      intro h0; subst h0; simp at hge; omega
    have hj : bitLen a = (bitLen a - 1) + 1 := by omega
    have ha1 : a < 2 ^ ((bitLen a - 1) + 1) := by rw [← hj]; exact lt_two_pow_bitLen a
    have hbl : bitLen (b <<< (bitLen a - bitLen b)) = bitLen a := by
      rw [bitLen_shiftLeft hb]; omega
    have hbne : b <<< (bitLen a - bitLen b) ≠ 0 := by
      intro h0; rw [h0] at hbl; simp at hbl; omega
    have hb1 : b <<< (bitLen a - bitLen b) < 2 ^ ((bitLen a - 1) + 1) := by
      exact Nat.lt_of_lt_of_eq (lt_two_pow_bitLen _) (by rw [hbl, ← hj])
    have hb2 : (b <<< (bitLen a - bitLen b)).testBit (bitLen a - 1) = true := by
      have := testBit_bitLen_sub_one hbne
      rwa [hbl] at this
    have hlt := xor_lt_of_top ha1 hb1 (testBit_bitLen_sub_one hane) hb2
    have he : bitLen a - 1 = bitLen b + (bitLen a - bitLen b) - 1 := by omega
    rw [he] at hlt
    obtain ⟨g1, g2⟩ := divmodLoop_spec hb (bitLen a - bitLen b) 1 _ hlt
    refine ⟨?_, ?_⟩
    · rw [g1, binToPoly_xor, binToPoly_shiftLeft, binToPoly_one]
      linear_combination -binToPoly_add_self (X ^ (bitLen a - bitLen b) * 𝓟 b)
    · have := bitLen_le_iff.mpr g2
      omega

theorem euclid_unique {A B Q R : (ZMod 2)[X]} (hB : B ≠ 0) (h1 : A = Q * B + R)
    (h2 : R.degree < B.degree) : R = A % B ∧ Q = A / B := by
  have hm : R = A % B := by
    conv_rhs => rw [h1, add_mod, EuclideanDomain.mod_eq_zero.mpr (dvd_mul_left _ _), zero_add,
      (mod_eq_self_iff hB).mpr h2]
  refine ⟨hm, ?_⟩
  have h3 := EuclideanDomain.div_add_mod A B
  rw [← hm] at h3
  have h4 : B * (A / B) = B * Q := by
    have : B * (A / B) + R = B * Q + R := by
      rw [h3]; conv_lhs => rw [h1]
      ring
    exact add_right_cancel this
  exact (mul_left_cancel₀ hB h4).symm

theorem degree_lt_of_bitLen_lt {r b : ℕ} (h : bitLen r < bitLen b) : (𝓟 r).degree < (𝓟 b).degree := by
  have hb : b ≠ 0 := by
    intro h0; subst h0; simp at h
  rw [degree_binToPoly hb]
  refine lt_of_lt_of_le (degree_binToPoly_lt r) ?_
  have : bitLen r ≤ bitLen b - 1 := by omega
  exact_mod_cast this

theorem binToPoly_divCore (a : ℕ) {b : ℕ} (hb : b ≠ 0) : 𝓟 (divmodCore a b).1 = 𝓟 a / 𝓟 b := by
  obtain ⟨h1, h2⟩ := divmodCore_spec a hb
  exact (euclid_unique (mt binToPoly_eq_zero_iff.mp hb) h1 (degree_lt_of_bitLen_lt h2)).2

theorem binToPoly_modCore (a : ℕ) {b : ℕ} (hb : b ≠ 0) : 𝓟 (modCore a b) = 𝓟 a % 𝓟 b := by
  obtain ⟨h1, h2⟩ := divmodCore_spec a hb
  rw [modCore_eq_divmodCore_snd]
  exact (euclid_unique (mt binToPoly_eq_zero_iff.mp hb) h1 (degree_lt_of_bitLen_lt h2)).1

theorem bitLen_modCore_lt (a : ℕ) {b : ℕ} (hb : b ≠ 0) : bitLen (modCore a b) < bitLen b := by
  rw [modCore_eq_divmodCore_snd]; exact (divmodCore_spec a hb).2

theorem toList_ne_nil {b : ℕ} (hb : b ≠ 0) : toList b ≠ [] := fun h => hb (toList_eq_nil_iff.mp h)

theorem toList_modCore (a : ℕ) {b : ℕ} (hb : b ≠ 0) :
    toList (modCore a b) = GFpX.modCore 2 (toList a) (toList b) := by
  apply toList_eq_of_toPoly_eq (GFpX.wf_modCore (toList_wf a) (toList_wf b) (toList_ne_nil hb))
  rw [binToPoly_modCore a hb, GFpX.toPoly_modCore (toList_wf a) (toList_wf b) (toList_ne_nil hb)]
  rfl

theorem toList_divmodCore_fst (a : ℕ) {b : ℕ} (hb : b ≠ 0) :
    toList (divmodCore a b).1 = (GFpX.divmodCore 2 (toList a) (toList b)).1 := by
  apply toList_eq_of_toPoly_eq
    (GFpX.divmodCore_spec (toList_wf a) (toList_wf b) (toList_ne_nil hb)).2.2.1
  rw [binToPoly_divCore a hb, GFpX.toPoly_divCore (toList_wf a) (toList_wf b) (toList_ne_nil hb)]
  rfl

theorem toList_divmodCore_snd (a : ℕ) {b : ℕ} (hb : b ≠ 0) :
    toList (divmodCore a b).2 = (GFpX.divmodCore 2 (toList a) (toList b)).2 := by
  rw [← modCore_eq_divmodCore_snd, ← GFpX.modCore_eq_divmodCore_snd, toList_modCore a hb]

/-- componentwise bridge on pairs -/
def toList2 (x : ℕ × ℕ) : Poly × Poly := (toList x.1, toList x.2)

theorem toList_divmodCore (a : ℕ) {b : ℕ} (hb : b ≠ 0) :
    toList2 (divmodCore a b) = GFpX.divmodCore 2 (toList a) (toList b) :=
  Prod.ext (toList_divmodCore_fst a hb) (toList_divmodCore_snd a hb)

theorem toList_mod (a b : ℕ) : (mod a b).map toList = GFpX.mod 2 (toList a) (toList b) := by
  unfold mod GFpX.mod
  by_cases hb : b = 0
  · subst hb; rfl
  · rw [if_neg hb, if_neg (toList_ne_nil hb), ← toList_modCore a hb]; rfl

theorem toList_divmod (a b : ℕ) : (divmod a b).map toList2 = GFpX.divmod 2 (toList a) (toList b) := by
  unfold divmod GFpX.divmod
  by_cases hb : b = 0
  · subst hb; rfl
  · rw [if_neg hb, if_neg (toList_ne_nil hb), ← toList_divmodCore a hb]; rfl

theorem toList_floordiv (a b : ℕ) :
    (floordiv a b).map toList = GFpX.floordiv 2 (toList a) (toList b) := by
  unfold floordiv GFpX.floordiv
  rw [← toList_divmod]
  cases divmod a b <;> rfl

theorem toList_modOpt (a : ℕ) (m : Option ℕ) :
    (modOpt a m).map toList = GFpX.modOpt 2 (toList a) (m.map toList) := by
  cases m with
  | none => rfl
  | some b => exact toList_mod a b

/-! ### gcd -/

theorem toList_gcdLoop : ∀ (f a b : ℕ),
    toList (gcdLoop f a b) = GFpX.gcdLoop 2 f (toList a) (toList b) := by
  intro f
  induction f with
  | zero => intro a b; rfl
  | succ f ih =>
    intro a b
    simp only [gcdLoop, GFpX.gcdLoop]
    by_cases hb : b = 0
    · subst hb; simp
    · rw [if_neg hb, if_neg (toList_ne_nil hb), ih, toList_modCore a hb]

theorem monicInv_of_getLastD_one {l : Poly} (hne : l ≠ []) (h : l.getLastD 0 = 1) :
    GFpX.monicInv 2 l = (l, 1) := by
  cases l with
  | nil => exact absurd rfl hne
  | cons x l => simp only [GFpX.monicInv, h, if_true]

/-- over GF(2) every nonzero polynomial is monic: `_monic` is the identity -/
theorem monicInv_toList (a : ℕ) : GFpX.monicInv 2 (toList a) = (toList a, if a = 0 then 0 else 1) := by
  by_cases h : a = 0
  · subst h; rfl
  · rw [if_neg h, monicInv_of_getLastD_one (toList_ne_nil h) (getLastD_toList h)]

theorem monic_toList (a : ℕ) : GFpX.monic 2 (toList a) = toList a := by
  rw [GFpX.monic, monicInv_toList]

theorem toList_gcd (a b : ℕ) : toList (gcd a b) = GFpX.gcd 2 (toList a) (toList b) := by
  rw [gcd, GFpX.gcd, toList_length, ← toList_gcdLoop, monic_toList]

/-! ### irreducibility -/

theorem list_powmod_two (b a : Poly) (ha : a ≠ []) :
    GFpX.powmod 2 b ((2 : ℕ) : ℤ) (some a) = .ok (GFpX.modCore 2 (GFpX.sq 2 b) a) := by
  have hbits : GFpX.bitsMSB 2 = [true, false] := by decide
  simp [GFpX.powmod, GFpX.powLoop, GFpX.powStep, GFpX.modOpt, GFpX.mod, ha, hbits]

theorem toList_eq_one_iff {x : ℕ} : toList x = [1] ↔ x = 1 := by
  rw [← toList_one]; exact toList_injective.eq_iff

theorem toList_irrLoop {a : ℕ} (ha : a ≠ 0) : ∀ (k b : ℕ),
    irrLoop a k b = GFpX.irrLoop 2 (toList a) k (toList b) := by
  intro k
  induction k with
  | zero => intro b; rfl
  | succ k ih =>
    intro b
    simp only [irrLoop, GFpX.irrLoop]
    rw [list_powmod_two _ _ (toList_ne_nil ha)]
    simp only
    have hm : mul b b = sq b := by simp [mul]
    have e1 : GFpX.modCore 2 (GFpX.sq 2 (toList b)) (toList a) = toList (modCore (mul b b) a) := by
      rw [hm, toList_modCore _ ha, toList_sq]
    rw [e1, ← toList_two, ← toList_xor_sub, ← toList_gcd, ← ih]
    have hiff : (toList (gcd (modCore (mul b b) a ^^^ 2) a) ≠ [1])
        ↔ (gcd (modCore (mul b b) a ^^^ 2) a ≠ 1) := not_congr toList_eq_one_iff
    simp only [hiff]

theorem isIrreducible_agree (a : ℕ) : isIrreducible a = GFpX.isIrreducible 2 (toList a) := by
  unfold isIrreducible GFpX.isIrreducible
  rw [toList_length]
  have hiff : bitLen a ≤ 1 ↔ a ≤ 1 := by
    rw [bitLen_le_iff]; omega
  by_cases h : a ≤ 1
  · rw [if_pos h, if_pos (hiff.mpr h)]
  · rw [if_neg h, if_neg (mt hiff.mp h), toList_irrLoop (by omega), toList_two]

/-! ### invert, gcdext -/

theorem toList_step (s q s1 : ℕ) :
    toList (s ^^^ mul q s1) = GFpX.sub 2 (toList s) (GFpX.mul 2 (toList q) (toList s1)) := by
  rw [toList_xor_sub, toList_mul]

theorem toList_invertLoop : ∀ (f a b s s1 : ℕ),
    toList2 (invertLoop f a b s s1)
      = GFpX.invertLoop 2 f (toList a) (toList b) (toList s) (toList s1) := by
  intro f
  induction f with
  | zero => intro a b s s1; rfl
  | succ f ih =>
    intro a b s s1
    simp only [invertLoop, GFpX.invertLoop]
    by_cases hb : b = 0
    · subst hb; simp [toList2]
    · rw [if_neg hb, if_neg (toList_ne_nil hb), ih, toList_step, toList_divmodCore_fst a hb,
        toList_divmodCore_snd a hb]

theorem scale_one_of_reduced {l : Poly} (h : Reduced 2 l) : GFpX.scale 2 1 l = l := by
  unfold GFpX.scale
  conv_rhs => rw [← List.map_id l]
  apply List.map_congr_left
  intro x hx
  have := h x hx
  simp only [mul_one, id]
  omega

theorem invModP_two_one : GFpX.invModP 2 1 = 1 := by decide

theorem toList_invert (a b : ℕ) : (invert a b).map toList = GFpX.invert 2 (toList a) (toList b) := by
  unfold invert GFpX.invert
  by_cases hb : b = 0
  · subst hb; rfl
  · rw [if_neg hb, if_neg (toList_ne_nil hb), toList_length]
    have hl := toList_invertLoop (bitLen b + 1) a b 1 0
    rw [toList_one, toList_zero] at hl
    simp only
    rw [← hl]
    simp only [toList2]
    by_cases h1 : (invertLoop (bitLen b + 1) a b 1 0).1 = 1
    · rw [h1, toList_one, if_neg (by simp)]
      simp only [invModP_two_one, scale_one_of_reduced (toList_reduced _)]
      rfl
    · rw [if_pos h1]
      split
      · rename_i c hc
        exfalso
        have hwf := toList_wf (invertLoop (bitLen b + 1) a b 1 0).1
        rw [hc] at hwf
        have hc1 : c < 2 := (GFpX.reduced_cons.mp hwf.1).1
        have hc2 := GFpX.normalised_singleton.mp hwf.2
        have : c = 1 := by omega
        subst this
        exact h1 (toList_eq_one_iff.mp hc)
      · rfl

/-- componentwise bridge on triples -/
def toList3 (x : ℕ × ℕ × ℕ) : Poly × Poly × Poly := (toList x.1, toList x.2.1, toList x.2.2)

theorem toList_gcdextLoop : ∀ (f a b s s1 t t1 : ℕ),
    toList3 (gcdextLoop f a b s s1 t t1)
      = GFpX.gcdextLoop 2 f (toList a) (toList b) (toList s) (toList s1) (toList t) (toList t1) := by
  intro f
  induction f with
  | zero => intro a b s s1 t t1; rfl
  | succ f ih =>
    intro a b s s1 t t1
    simp only [gcdextLoop, GFpX.gcdextLoop]
    by_cases hb : b = 0
    · subst hb; simp [toList3]
    · rw [if_neg hb, if_neg (toList_ne_nil hb), ih, toList_step, toList_step,
        toList_divmodCore_fst a hb, toList_divmodCore_snd a hb]

theorem toList_gcdext (a b : ℕ) : toList3 (gcdext a b) = GFpX.gcdext 2 (toList a) (toList b) := by
  unfold gcdext GFpX.gcdext
  have hl := toList_gcdextLoop (bitLen b + 1) a b 1 0 0 1
  rw [toList_one, toList_zero] at hl
  rw [toList_length, ← hl]
  simp only [toList3, monicInv_toList]
  rw [if_neg]
  split <;> omega

theorem toList_gcdext_fst (a b : ℕ) :
    toList (gcdext a b).1 = (GFpX.gcdext 2 (toList a) (toList b)).1 :=
  congrArg (·.1) (toList_gcdext a b)

theorem toList_gcdext_snd_fst (a b : ℕ) :
    toList (gcdext a b).2.1 = (GFpX.gcdext 2 (toList a) (toList b)).2.1 :=
  congrArg (·.2.1) (toList_gcdext a b)

theorem toList_gcdext_snd_snd (a b : ℕ) :
    toList (gcdext a b).2.2 = (GFpX.gcdext 2 (toList a) (toList b)).2.2 :=
  congrArg (·.2.2) (toList_gcdext a b)

/-! ### powmod -/

theorem except_map_bind {ε α β α' β' : Type} (x : Except ε α) (f : α → Except ε β) (g : β → β')
    (h : α → α') (f' : α' → Except ε β') (hf : ∀ y, (f y).map g = f' (h y)) :
    (x >>= f).map g = (x.map h) >>= f' := by
  cases x with
  | error e => rfl
  | ok y => exact hf y

theorem toList_powStep (a : ℕ) (m : Option ℕ) (b : ℕ) (bit : Bool) :
    (powStep a m b bit).map toList
      = GFpX.powStep 2 (toList a) (m.map toList) (toList b) bit := by
  unfold powStep GFpX.powStep
  rw [← toList_sq, ← toList_modOpt]
  apply except_map_bind
  intro y
  cases bit with
  | false => rfl
  | true =>
    simp only [if_true]
    rw [toList_modOpt, toList_mul]

theorem toList_powLoop (a : ℕ) (m : Option ℕ) : ∀ (bits : List Bool) (b : ℕ),
    (powLoop a m bits b).map toList
      = GFpX.powLoop 2 (toList a) (m.map toList) bits (toList b) := by
  intro bits
  induction bits with
  | nil => intro b; rfl
  | cons bit bits ih =>
    intro b
    unfold powLoop GFpX.powLoop
    rw [← toList_powStep]
    apply except_map_bind
    intro y
    exact ih y

theorem toList_powmod (a : ℕ) (n : ℤ) (m : Option ℕ) :
    (powmod a n m).map toList = GFpX.powmod 2 (toList a) n (m.map toList) := by
  unfold powmod GFpX.powmod
  by_cases h0 : n = 0
  · rw [if_pos h0, if_pos h0]; rfl
  · rw [if_neg h0, if_neg h0]
    by_cases hn : n < 0
    · rw [if_pos hn, if_pos hn]
      cases m with
      | none => rfl
      | some b =>
        simp only [Option.map_some]
        rw [← toList_invert]
        apply except_map_bind
        intro y
        exact toList_powLoop y (some b) _ y
    · rw [if_neg hn, if_neg hn]
      exact toList_powLoop a m _ a

/-! ### order, integer value -/

theorem toInt_agree (a : ℕ) : toInt a = GFpX.toInt 2 (toList a) := by
  unfold toInt GFpX.toInt
  induction a using Nat.strong_induction_on with
  | _ a ih =>
    by_cases h : a = 0
    · subst h; rfl
    · rw [toList_of_ne_zero h, List.foldr_cons, ← ih (a / 2) (by omega)]
      omega

/-- value of a most-significant-first bit list with initial accumulator `s` -/
def valMSB (s : ℕ) (r : List ℕ) : ℕ := r.foldl (fun s x => 2 * s + x) s

theorem valMSB_cons (s x : ℕ) (r : List ℕ) : valMSB s (x :: r) = valMSB (2 * s + x) r := rfl

theorem valMSB_eq (s : ℕ) (r : List ℕ) : valMSB s r = s * 2 ^ r.length + valMSB 0 r := by
  induction r generalizing s with
  | nil => simp [valMSB]
  | cons x r ih =>
    rw [valMSB_cons, valMSB_cons, ih (2 * s + x), ih (2 * 0 + x), List.length_cons, pow_succ]
    ring

theorem valMSB_lt {r : List ℕ} (h : ∀ x ∈ r, x < 2) : valMSB 0 r < 2 ^ r.length := by
  induction r with
  | nil => simp [valMSB]
  | cons x r ih =>
    have hx := h x (by simp)
    have := ih (fun y hy => h y (by simp [hy]))
    rw [valMSB_cons, valMSB_eq, List.length_cons, pow_succ]
    have : (2 * 0 + x) * 2 ^ r.length ≤ 1 * 2 ^ r.length := Nat.mul_le_mul_right _ (by omega)
    omega

theorem ltRev_eq : ∀ (r1 r2 : List ℕ) (s : ℕ), r1.length = r2.length → (∀ x ∈ r1, x < 2) →
    (∀ x ∈ r2, x < 2) → GFpX.ltRev r1 r2 = decide (valMSB s r1 < valMSB s r2) := by
  intro r1
  induction r1 with
  | nil =>
    intro r2 s hl _ _
    have : r2 = [] := List.length_eq_zero_iff.mp hl.symm
    subst this
    simp [GFpX.ltRev, valMSB]
  | cons x r1 ih =>
    intro r2 s hl h1 h2
    cases r2 with
    | nil => simp at hl
    | cons y r2 =>
      have hl' : r1.length = r2.length := by simpa using hl
      have h1' : ∀ z ∈ r1, z < 2 := fun z hz => h1 z (by simp [hz])
      have h2' : ∀ z ∈ r2, z < 2 := fun z hz => h2 z (by simp [hz])
      rw [GFpX.ltRev, valMSB_cons, valMSB_cons]
      by_cases hxy : x = y
      · subst hxy
        rw [if_pos rfl]
        exact ih r2 _ hl' h1' h2'
      · rw [if_neg hxy]
        have hx := h1 x (by simp)
        have hy := h2 y (by simp)
        have b1 := valMSB_lt h1'
        have b2 := valMSB_lt h2'
        rw [valMSB_eq (2 * s + x), valMSB_eq (2 * s + y), hl'] at *
        by_cases hlt : x < y
        · have hx0 : x = 0 := by omega
          have hy1 : y = 1 := by omega
          subst hx0 hy1
          simp only [hlt, decide_true, add_zero]
          symm
          rw [decide_eq_true_iff]
          have : (2 * s + 1) * 2 ^ r2.length = 2 * s * 2 ^ r2.length + 2 ^ r2.length := by ring
          omega
        · have hx1 : x = 1 := by omega
          have hy0 : y = 0 := by omega
          subst hx1 hy0
          simp only [hlt, decide_false, add_zero]
          symm
          rw [decide_eq_false_iff_not]
          have : (2 * s + 1) * 2 ^ r2.length = 2 * s * 2 ^ r2.length + 2 ^ r2.length := by ring
          omega

theorem valMSB_reverse_toList (a : ℕ) : valMSB 0 (toList a).reverse = a := by
  unfold valMSB
  rw [List.foldl_reverse]
  have := fromList_toList a
  unfold fromList at this
  conv_rhs => rw [← this]
  congr 1

theorem lt_agree (a b : ℕ) : lt a b = GFpX.lt (toList a) (toList b) := by
  unfold lt GFpX.lt
  rw [toList_length, toList_length]
  by_cases hl : bitLen a = bitLen b
  · rw [if_neg (by simpa using hl)]
    rw [ltRev_eq _ _ 0 (by simp [toList_length, hl])
      (fun x hx => toList_reduced a x (List.mem_reverse.mp hx))
      (fun x hx => toList_reduced b x (List.mem_reverse.mp hx)),
      valMSB_reverse_toList, valMSB_reverse_toList]
  · rw [if_pos hl]
    by_cases hlt : bitLen a < bitLen b
    · have h1 : a < b := by
        by_contra hge
        have : bitLen b ≤ bitLen a := by
          rw [bitLen_le_iff]; exact lt_of_le_of_lt (by omega) (lt_two_pow_bitLen a)
        omega
      simp [hlt, h1]
    · have h1 : ¬ a < b := by
        intro hab
        have : bitLen a ≤ bitLen b := by
          rw [bitLen_le_iff]; exact lt_trans hab (lt_two_pow_bitLen b)
        omega
      simp [hlt, h1]

/-! ### evaluation -/

theorem parityAux_fuel : ∀ (f g a : ℕ), a ≤ f → a ≤ g → parityAux f a = parityAux g a := by
  intro f
  induction f with
  | zero =>
    intro g a h _
    have : a = 0 := by omega
    subst this
    cases g <;> simp [parityAux]
  | succ f ih =>
    intro g a hf hg
    cases g with
    | zero =>
      have : a = 0 := by omega
      subst this
      simp [parityAux]
    | succ g =>
      simp only [parityAux]
      split
      · rfl
      · rw [ih g (a / 2) (by omega) (by omega)]

theorem parity_of_ne_zero {a : ℕ} (h : a ≠ 0) :
    parityAux a a = (a % 2 + parityAux (a / 2) (a / 2)) % 2 := by
  obtain ⟨n, rfl⟩ := Nat.exists_eq_succ_of_ne_zero h
  rw [parityAux, if_neg h]
  rw [parityAux_fuel n ((n + 1) / 2) ((n + 1) / 2) (by omega) le_rfl]

theorem parity_eq_eval_one (a : ℕ) :
    parityAux a a = (toList a).foldr (fun c y => (y * 1 + c) % 2) 0 := by
  induction a using Nat.strong_induction_on with
  | _ a ih =>
    by_cases h : a = 0
    · subst h; rfl
    · rw [toList_of_ne_zero h, List.foldr_cons, ← ih (a / 2) (by omega), parity_of_ne_zero h]
      congr 1
      omega

/-- the bitmask `__call__` agrees with Horner evaluation at odd arguments -/
theorem eval_agree_odd (a : ℕ) (x : ℤ) (hx : x % 2 = 1) : eval a x = GFpX.eval 2 (toList a) x := by
  unfold eval GFpX.eval
  rw [if_pos hx]
  have : (x % ((2 : ℕ) : ℤ)).toNat = 1 := by
    have : x % ((2 : ℕ) : ℤ) = 1 := hx
    rw [this]; rfl
  simp only [this]
  exact parity_eq_eval_one a

/-- ... and disagrees at even arguments for polynomials with constant term 1
(gfpx.py:869 returns 0 for every even `x`) -/
theorem eval_disagree_even : eval 1 0 ≠ GFpX.eval 2 (toList 1) 0 := by decide

/-- at even arguments the list model returns the constant term, the bitmask model 0 -/
theorem eval_even (a : ℕ) (x : ℤ) (hx : x % 2 = 0) :
    eval a x = 0 ∧ GFpX.eval 2 (toList a) x = a % 2 := by
  unfold eval GFpX.eval
  constructor
  · rw [if_neg (by omega)]
  · have : (x % ((2 : ℕ) : ℤ)).toNat = 0 := by
      have : x % ((2 : ℕ) : ℤ) = 0 := hx
      rw [this]; rfl
    simp only [this]
    by_cases h : a = 0
    · subst h; rfl
    · rw [toList_of_ne_zero h, List.foldr_cons]
      simp

end MpycV.BinPoly
