/-
Lemmas for the seclist model, part 4: one step and whole histories refine the Python list; the
shape of the work is a function of public data.
-/
import MpycV.Lemmas.SecListQuery
import MpycV.Lemmas.SecListUnit

namespace MpycV.SecList
open Py

/-! ### the guard is decidable (used by the non-vacuity examples) -/

instance (f : Nat) (k : Key) (bound : Nat) : Decidable (KeyOk f k bound) := by
  cases k with
  | pub i => exact isTrue trivial
  | sec a => exact inferInstanceAs (Decidable (a % 2 ^ f = 0 ∧ 0 ≤ a / 2 ^ f ∧ a / 2 ^ f < bound))
  | vec off u => exact inferInstanceAs (Decidable (∃ p, p < bound ∧ List.replicate off 0 ++ u = unitVec p bound))

instance (f : Nat) (x : List Int) (op : Op) : Decidable (Guard f x op) := by
  cases op <;> simp only [Guard] <;> exact inferInstance

instance guardAllDecidable (f : Nat) : (x : List Int) → (ops : List Op) → Decidable (GuardAll f x ops)
  | _, [] => isTrue trivial
  | x, op :: ops =>
    have := guardAllDecidable f (pyStep f x op).2 ops
    inferInstanceAs (Decidable (Guard f x op ∧ GuardAll f (pyStep f x op).2 ops))

/-! ### keys under the in-range guard -/

theorem idxOf_one_unitVec (p n : Nat) (h : p < n) : (unitVec p n).idxOf 1 = p := by
  induction n generalizing p with
  | zero => omega
  | succ n ih =>
    cases p with
    | zero => simp [unitVec_zero_succ, List.idxOf_cons]
    | succ p =>
      rw [unitVec_succ_succ, List.idxOf_cons]
      have : ((0 : Int) == 1) = false := by decide
      rw [this, cond_false, ih p (by omega)]

/-- a secret key satisfying the guard resolves to a unit vector `e_p`, `p < bound`, and denotes `p` -/
theorem keyOk_resolve (f : Nat) (k : Key) (bound : Nat) (h : KeyOk f k bound) (hk : ∀ i, k ≠ .pub i) :
    ∃ p : Nat, p < bound ∧ k.idx f = (p : Int) ∧ keyVec f k bound = .ok (unitVec p bound) := by
  cases k with
  | pub i => exact absurd rfl (hk i)
  | sec a =>
    obtain ⟨h1, h2, h3⟩ := h
    obtain ⟨q, hq⟩ : ∃ q : Nat, a / 2 ^ f = (q : Int) := ⟨(a / 2 ^ f).toNat, by omega⟩
    refine ⟨q, by omega, ?_, ?_⟩
    · simp only [Key.idx, hq]
    · simp only [keyVec, h1, if_true, hq]
      rw [unitVector_spec _ _ (by omega)]
  | vec off u =>
    obtain ⟨p, hp, he⟩ := h
    refine ⟨p, hp, ?_, ?_⟩
    · simp only [Key.idx, he, idxOf_one_unitVec p bound hp]
    · simp only [keyVec, he]

theorem normIdx_natCast (p n : Nat) (h : p < n) : normIdx (p : Int) n = some p := by
  unfold normIdx
  have h1 : ¬ (p : Int) < 0 := by omega
  have h2 : 0 ≤ (p : Int) ∧ (p : Int) < n := by omega
  simp [h1, h2]

theorem clampIdx_natCast (p n : Nat) (h : p ≤ n) : clampIdx (p : Int) n = p := by
  unfold clampIdx
  have h1 : ¬ (p : Int) < 0 := by omega
  have h2 : ¬ (p : Int) > n := by omega
  simp [h1, h2]

theorem bind_ok {α β : Type} (u : α) (g : α → Except Err β) : (Except.ok u >>= g) = g u := rfl

/-! ### one step -/

theorem step_getitem (cfg : Cfg) (x : List Int) (k : Key) (h : KeyOk cfg.f k x.length) :
    step cfg x (.getitem k) = pyStep cfg.f x (.getitem k) := by
  cases k with
  | pub i => rfl
  | sec a =>
    obtain ⟨p, hp, hi, hv⟩ := keyOk_resolve cfg.f (.sec a) x.length h (by simp)
    simp only [step, pyStep, hv, bind_ok, hi, normIdx_natCast p _ hp, getVec_unitVec, ret]
  | vec off u =>
    obtain ⟨p, hp, hi, hv⟩ := keyOk_resolve cfg.f (.vec off u) x.length h (by simp)
    simp only [step, pyStep, hv, bind_ok, hi, normIdx_natCast p _ hp, getVec_unitVec, ret]

theorem step_setitem (cfg : Cfg) (x : List Int) (k : Key) (v : Int) (h : KeyOk cfg.f k x.length) :
    step cfg x (.setitem k v) = pyStep cfg.f x (.setitem k v) := by
  cases k with
  | pub i => rfl
  | sec a =>
    obtain ⟨p, hp, hi, hv⟩ := keyOk_resolve cfg.f (.sec a) x.length h (by simp)
    simp only [step, pyStep, hv, bind_ok, hi, normIdx_natCast p _ hp, setVec_unitVec, upd]
  | vec off u =>
    obtain ⟨p, hp, hi, hv⟩ := keyOk_resolve cfg.f (.vec off u) x.length h (by simp)
    simp only [step, pyStep, hv, bind_ok, hi, normIdx_natCast p _ hp, setVec_unitVec, upd]

theorem step_delitem (cfg : Cfg) (x : List Int) (k : Key) (h : KeyOk cfg.f k x.length) :
    step cfg x (.delitem k) = pyStep cfg.f x (.delitem k) := by
  cases k with
  | pub i => rfl
  | sec a =>
    obtain ⟨p, hp, hi, hv⟩ := keyOk_resolve cfg.f (.sec a) x.length h (by simp)
    simp only [step, pyStep, hv, bind_ok, hi, normIdx_natCast p _ hp, delVec_unitVec x p hp, upd]
  | vec off u =>
    obtain ⟨p, hp, hi, hv⟩ := keyOk_resolve cfg.f (.vec off u) x.length h (by simp)
    simp only [step, pyStep, hv, bind_ok, hi, normIdx_natCast p _ hp, delVec_unitVec x p hp, upd]

theorem step_insert (cfg : Cfg) (x : List Int) (k : Key) (v : Int) (h : KeyOk cfg.f k (x.length + 1)) :
    step cfg x (.insert k v) = pyStep cfg.f x (.insert k v) := by
  cases k with
  | pub i => rfl
  | sec a =>
    obtain ⟨p, hp, hi, hv⟩ := keyOk_resolve cfg.f (.sec a) (x.length + 1) h (by simp)
    simp only [step, pyStep, hv, bind_ok, hi, clampIdx_natCast p _ (by omega : p ≤ x.length),
      insVec_unitVec x p v (by omega), upd]
  | vec off u =>
    obtain ⟨p, hp, hi, hv⟩ := keyOk_resolve cfg.f (.vec off u) (x.length + 1) h (by simp)
    simp only [step, pyStep, hv, bind_ok, hi, clampIdx_natCast p _ (by omega : p ≤ x.length),
      insVec_unitVec x p v (by omega), upd]

theorem step_pop (cfg : Cfg) (x : List Int) (k : Key) (h : KeyOk cfg.f k x.length) :
    step cfg x (.pop k) = pyStep cfg.f x (.pop k) := by
  cases k with
  | pub i => rfl
  | sec a =>
    obtain ⟨p, hp, hi, hv⟩ := keyOk_resolve cfg.f (.sec a) x.length h (by simp)
    simp only [step, pyStep, hv, bind_ok, hi, normIdx_natCast p _ hp, popVec_unitVec x p hp]
  | vec off u =>
    obtain ⟨p, hp, hi, hv⟩ := keyOk_resolve cfg.f (.vec off u) x.length h (by simp)
    simp only [step, pyStep, hv, bind_ok, hi, normIdx_natCast p _ hp, popVec_unitVec x p hp]

theorem remove_eq (x : List Int) (v : Int) :
    remove x v = if v ∈ x then .ok (x.erase v) else .error Err.ValueError := by
  unfold remove
  simp only [find_eq]
  by_cases h : v ∈ x
  · have hne : ¬ pyFind x v = -1 := fun e => (pyFind_neg_iff x v).mp e h
    have hlt : x.idxOf v < x.length := List.idxOf_lt_length_of_mem h
    simp only [hne, if_false, h, if_true]
    have : pyFind x v = ((x.idxOf v : Nat) : Int) := by simp [pyFind, h]
    rw [this, unitVector_spec _ _ hlt, delVec_unitVec x _ hlt, erase_eq_eraseIdx_idxOf]
  · have : pyFind x v = -1 := (pyFind_neg_iff x v).mpr h
    simp [this, h]

theorem step_refines (cfg : Cfg) (hs : SortSpec cfg.srt) (x : List Int) (op : Op) (hg : Guard cfg.f x op) :
    step cfg x op = pyStep cfg.f x op := by
  cases op with
  | getitem k => exact step_getitem cfg x k hg
  | setitem k v => exact step_setitem cfg x k v hg
  | delitem k => exact step_delitem cfg x k hg
  | insert k v => exact step_insert cfg x k v hg
  | pop k => exact step_pop cfg x k hg
  | getslice s => rfl
  | setslice s vs => rfl
  | delslice s => rfl
  | append v => rfl
  | extend vs => rfl
  | add vs => rfl
  | radd vs => rfl
  | mul n => rfl
  | imul n => rfl
  | copy => rfl
  | count v => simp only [step, pyStep, count_eq]
  | contains v => simp only [step, pyStep, contains_eq]
  | find v => simp only [step, pyStep, find_eq]
  | index v =>
    simp only [step, pyStep, index_eq]
    by_cases h : v ∈ x <;> simp [h, ret]
  | remove v =>
    simp only [step, pyStep, remove_eq]
    by_cases h : v ∈ x <;> simp [h, upd]
  | sort r => simp only [step, pyStep, sortOp_eq cfg.srt hs]
  | cmp o y => simp only [step, pyStep, cmp_eq]

/-! ### histories -/

theorem history_refines (cfg : Cfg) (hs : SortSpec cfg.srt) (x : List Int) (ops : List Op)
    (hg : GuardAll cfg.f x ops) : run (step cfg) x ops = run (pyStep cfg.f) x ops := by
  induction ops generalizing x with
  | nil => rfl
  | cons op ops ih =>
    obtain ⟨h1, h2⟩ := hg
    simp only [run]
    rw [step_refines cfg hs x op h1, ih _ h2]

/-! ### only `len` is public -/

theorem map_const_length {α : Type} (c : α) (x x' : List Int) (h : x.length = x'.length) :
    x.map (fun _ => c) = x'.map (fun _ => c) := by
  rw [List.map_const', List.map_const', h]

theorem normTrace_length (s s' : List Int) (h : s.length = s'.length) : normTrace s = normTrace s' := by
  induction hn : s.length using Nat.strongRecOn generalizing s s' with
  | _ n ih =>
    rw [normTrace.eq_def, normTrace.eq_def s']
    by_cases hlt : s.length < 2
    · have : s'.length < 2 := by omega
      simp [hlt, this]
    · have h' : ¬ s'.length < 2 := by omega
      simp only [hlt, h', if_false]
      rw [ih (s.take (s.length / 2)).length (by simp; omega) (s.take (s.length / 2)) (s'.take (s'.length / 2))
            (by simp; omega) rfl,
          ih (s.drop (s.length / 2)).length (by simp; omega) (s.drop (s.length / 2)) (s'.drop (s'.length / 2))
            (by simp; omega) rfl]

theorem lessTrace_length (x y x' y' : List Int) (hx : x.length = x'.length) (hy : y.length = y'.length) :
    lessTrace x y = lessTrace x' y' := by
  unfold lessTrace
  have hl : (List.zipWith (fun a b => sgn (a - b)) x y).length
      = (List.zipWith (fun a b => sgn (a - b)) x' y').length := by simp [hx, hy]
  have hnil : (List.zipWith (fun a b => sgn (a - b)) x y = []) ↔ (List.zipWith (fun a b => sgn (a - b)) x' y' = []) := by
    rw [← List.length_eq_zero_iff, ← List.length_eq_zero_iff, hl]
  by_cases h : List.zipWith (fun a b => sgn (a - b)) x y = []
  · simp only [h, hnil.mp h, if_true]
  · have h' : ¬ List.zipWith (fun a b => sgn (a - b)) x' y' = [] := fun e => h (hnil.mpr e)
    simp only [h, h', if_false]
    rw [map_const_length Ev.sgn _ _ hl, hl, normTrace_length _ _ hl]

theorem keyTrace_shape (f : Nat) (k k' : Key) (n : Nat) (h : k.shape f = k'.shape f) :
    keyTrace f k n = keyTrace f k' n := by
  cases k <;> cases k' <;> simp only [Key.shape, KeyShape.pub.injEq, KeyShape.sec.injEq, KeyShape.vec.injEq,
    reduceCtorEq] at h
  · rfl
  · rename_i a a'
    simp only [keyTrace]
    by_cases h1 : a % 2 ^ f = 0
    · have h2 : a' % 2 ^ f = 0 := by simpa [h1] using h
      simp only [h1, h2, if_true]
      rw [unitVector_length_indep (a / 2 ^ f) (a' / 2 ^ f) n]
    · have h2 : ¬ a' % 2 ^ f = 0 := by simpa [h1] using h
      simp only [h1, h2, if_false]
  · simp only [keyTrace, h]

theorem nil_iff_of_length {x x' : List Int} (h : x.length = x'.length) : x = [] ↔ x' = [] := by
  rw [← List.length_eq_zero_iff, ← List.length_eq_zero_iff, h]

/-- the runtime calls made by an operation are determined by public data: the length of the list, the
public shape of the operation (kind, public arguments, lengths of list arguments, integrality flag of a
fixed-point index) and — for `remove` — the outcome of its public test `eq_public(find(v), -1)` -/
theorem only_len_public (cfg : Cfg) (x x' : List Int) (op op' : Op)
    (hlen : x.length = x'.length) (hshape : op.shape cfg.f = op'.shape cfg.f)
    (hpub : pubBit x op = pubBit x' op') : trace cfg x op = trace cfg x' op' := by
  have hnil := nil_iff_of_length hlen
  cases op <;> cases op' <;> simp only [Op.shape, reduceCtorEq, OpShape.getitem.injEq, OpShape.getslice.injEq,
    OpShape.setitem.injEq, OpShape.setslice.injEq, OpShape.delitem.injEq, OpShape.delslice.injEq,
    OpShape.insert.injEq, OpShape.pop.injEq, OpShape.extend.injEq, OpShape.add.injEq, OpShape.radd.injEq,
    OpShape.mul.injEq, OpShape.imul.injEq, OpShape.sort.injEq, OpShape.cmp.injEq] at hshape
  case getitem.getitem k k' =>
    have hk := keyTrace_shape cfg.f k k' x.length hshape
    cases k <;> cases k' <;> simp only [Key.shape, reduceCtorEq] at hshape <;>
      simp only [trace, hk, ← hlen]
  case setitem.setitem k _ k' _ =>
    have hk := keyTrace_shape cfg.f k k' x.length hshape
    cases k <;> cases k' <;> simp only [Key.shape, reduceCtorEq] at hshape <;>
      simp only [trace, hk, ← hlen]
  case delitem.delitem k k' =>
    have hk := keyTrace_shape cfg.f k k' x.length hshape
    cases k <;> cases k' <;> simp only [Key.shape, reduceCtorEq] at hshape <;>
      simp only [trace, hk, ← hlen]
  case insert.insert k _ k' _ =>
    have hk := keyTrace_shape cfg.f k k' (x.length + 1) hshape
    cases k <;> cases k' <;> simp only [Key.shape, reduceCtorEq] at hshape <;>
      simp only [trace, hk, ← hlen]
  case pop.pop k k' =>
    have hk := keyTrace_shape cfg.f k k' x.length hshape
    cases k <;> cases k' <;> simp only [Key.shape, reduceCtorEq] at hshape <;>
      simp only [trace, hk, ← hlen]
  case count.count => simp only [trace, map_const_length Ev.eq x x' hlen, hlen]
  case contains.contains =>
    simp only [trace, map_const_length Ev.eq x x' hlen, hlen]
    by_cases h : x = []
    · simp [h, hnil.mp h]
    · have h' : ¬ x' = [] := fun e => h (hnil.mpr e)
      simp [h, h']
  case find.find =>
    simp only [trace, hlen]
    by_cases h : x = []
    · simp [h, hnil.mp h]
    · have h' : ¬ x' = [] := fun e => h (hnil.mpr e)
      simp [h, h']
  case index.index => simp only [trace, hlen]
  case remove.remove v v' =>
    simp only [pubBit, decide_eq_decide] at hpub
    simp only [trace, hlen]
    have hx : (if x = [] then ([] : List Ev) else [Ev.find x'.length]) = (if x' = [] then [] else [Ev.find x'.length]) := by
      by_cases h : x = []
      · simp [h, hnil.mp h]
      · have h' : ¬ x' = [] := fun e => h (hnil.mpr e)
        simp [h, h']
    rw [hx]
    by_cases h2 : find x v = -1
    · have h2' : find x' v' = -1 := hpub.mp h2
      simp only [h2, h2', if_true]
    · have h2' : ¬ find x' v' = -1 := fun e => h2 (hpub.mpr e)
      simp only [h2, h2', if_false]
  case sort.sort => simp only [trace, hlen]
  case cmp.cmp o y o' y' =>
    obtain ⟨rfl, hy⟩ := hshape
    cases o <;> simp only [trace]
    · exact lessTrace_length x y x' y' hlen hy
    · exact lessTrace_length y x y' x' hy hlen
    · have hl : (List.zipWith eqBit x y).length = (List.zipWith eqBit x' y').length := by simp [hlen, hy]
      simp only [hlen, hy, map_const_length Ev.eq _ _ hl]
    · exact lessTrace_length x y x' y' hlen hy
    · exact lessTrace_length y x y' x' hy hlen
    · have hl : (List.zipWith eqBit x y).length = (List.zipWith eqBit x' y').length := by simp [hlen, hy]
      simp only [hlen, hy, map_const_length Ev.eq _ _ hl]
  all_goals first | rfl | skip

end MpycV.SecList
