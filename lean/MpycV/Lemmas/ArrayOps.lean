/-
Lemmas about matmul, reshape, transpose, concatenate/split, roll and the declared-shape functions of
`MpycV/Model/Array.lean`.
-/
import Mathlib.Tactic.Ring
import MpycV.Lemmas.Array

namespace MpycV.Arr

/-! ### matmul -/

theorem matmulShape_2d (n k m : Nat) : matmulShape [n, k] [k, m] = some (some [n, m]) := by
  simp [matmulShape, bcRev]

theorem matmulShape_1d_1d (k : Nat) : matmulShape [k] [k] = some none := by
  simp [matmulShape, bcRev]

theorem matmulShape_2d_1d (n k : Nat) : matmulShape [n, k] [k] = some (some [n]) := by
  simp [matmulShape, bcRev]

theorem matmulShape_1d_2d (k m : Nat) : matmulShape [k] [k, m] = some (some [m]) := by
  simp [matmulShape, bcRev]

theorem matmulShape_mismatch (n k k' m : Nat) (h : k ≠ k') : matmulShape [n, k] [k', m] = none := by
  simp [matmulShape, h]

theorem matmulShape_0d_left (b : Shape) : matmulShape [] b = none := by
  simp [matmulShape]

/-- batched matmul: the batch dimensions broadcast, the last two behave like a 2-D product -/
theorem matmulShape_batch (ba bb s : Shape) (n k m : Nat) (h : broadcastShape ba bb = some s) :
    matmulShape (ba ++ [n, k]) (bb ++ [k, m]) = some (some (s ++ [n, m])) := by
  simp only [broadcastShape, Option.map_eq_some_iff] at h
  obtain ⟨r, hr, rfl⟩ := h
  simp [matmulShape, hr]

theorem flatIndex_2d (n k i l : Nat) : flatIndex [n, k] [i, l] = i * k + l := by
  simp [flatIndex, size]

theorem getD_row (k : Nat) (a : List Int) (i l : Nat) (h : l < k) :
    (row k a i).getD l 0 = a.getD (i * k + l) 0 := by
  simp [row, List.getD_eq_getElem?_getD, List.getElem?_map, List.getElem?_range h]

theorem getD_col (k m : Nat) (b : List Int) (j l : Nat) (h : l < k) :
    (col k m b j).getD l 0 = b.getD (l * m + j) 0 := by
  simp [col, List.getD_eq_getElem?_getD, List.getElem?_map, List.getElem?_range h]

theorem dot_row_col (k m : Nat) (a b : List Int) (i j : Nat) :
    dot (row k a i) (col k m b j) =
      ((List.range k).map fun l => a.getD (i * k + l) 0 * b.getD (l * m + j) 0).sum := by
  simp [dot, row, col, List.zipWith_map, List.zipWith_self]

/-- entry `(i, j)` of the 2-D product is the dot product of row `i` and column `j` -/
theorem matmul2_entry (n k m : Nat) (a b : List Int) {i j : Nat} (hi : i < n) (hj : j < m) :
    (matmul2 n k m a b).get [i, j] = dot (row k a i) (col k m b j) := by
  have hlt : i * m + j < n * m := by
    calc i * m + j < i * m + m := by omega
      _ = (i + 1) * m := by rw [Nat.add_mul, Nat.one_mul]
      _ ≤ n * m := Nat.mul_le_mul_right _ hi
  have hm : 0 < m := by omega
  have h1 : (i * m + j) / m = i := by
    rw [Nat.add_comm, Nat.add_mul_div_right _ _ hm, Nat.div_eq_of_lt hj, Nat.zero_add]
  have h2 : (i * m + j) % m = j := by
    rw [Nat.add_comm, Nat.add_mul_mod_self_right, Nat.mod_eq_of_lt hj]
  simp [matmul2, Arr.get, flatIndex_2d, List.getD_eq_getElem?_getD, List.getElem?_map,
    List.getElem?_range hlt, h1, h2]

theorem matmul2_wf (n k m : Nat) (a b : List Int) : (matmul2 n k m a b).WF := by
  simp [matmul2, Arr.WF, size]

/-! ### reshape -/

theorem foldr_toNat_filter (shape : List Int) (v : Nat) (h1 : shape.count (-1) = 1) :
    size (shape.map fun d => if d = -1 then v else d.toNat) =
      v * (shape.filter (· ≠ -1)).foldr (fun d acc => d.toNat * acc) 1 := by
  induction shape with
  | nil => simp at h1
  | cons d t ih =>
    by_cases hd : d = -1
    · subst hd
      have h0 : t.count (-1) = 0 := by simpa [List.count_cons] using h1
      have hnot : ∀ x ∈ t, x ≠ -1 := by
        intro x hx hx1; subst hx1
        exact absurd (List.count_pos_iff.mpr hx) (by omega)
      have e1 : t.filter (· ≠ -1) = t := by
        apply List.filter_eq_self.mpr; intro x hx; simp [hnot x hx]
      have e2 : (t.map fun d => if d = -1 then v else d.toNat) = t.map Int.toNat := by
        apply List.map_congr_left; intro x hx; simp [hnot x hx]
      simp only [List.map_cons, if_true, size, e2]
      have e3 : (List.filter (fun x => decide (x ≠ -1)) ((-1 : Int) :: t)) = t := by
        rw [List.filter_cons_of_neg (by simp)]; exact e1
      rw [e3]
      congr 1
      clear ih e1 e2 e3 h0 h1
      induction t with
      | nil => rfl
      | cons y t iht =>
        simp only [List.map_cons, size, List.foldr_cons]
        rw [iht (fun x hx => hnot x (List.mem_cons_of_mem _ hx))]
    · have h1' : t.count (-1) = 1 := by
        have : (d == -1) = false := by simpa using hd
        simpa [List.count_cons, this] using h1
      simp only [List.map_cons, hd, if_false, size, ih h1']
      have : (List.filter (fun x => decide (x ≠ -1)) (d :: t)) = d :: t.filter (· ≠ -1) := by
        simp [List.filter_cons, hd]
      rw [this, List.foldr_cons]
      ring

/-- whatever `reshapeShape` accepts has exactly `n` elements -/
theorem reshapeShape_size {n : Nat} {shape : List Int} {s : Shape} (h : reshapeShape n shape = .ok s) :
    size s = n := by
  unfold reshapeShape at h
  dsimp only at h
  split at h
  · cases h
  · split at h
    · cases h
    · split at h
      · rename_i h2
        split at h
        · cases h
        · split at h
          · cases h
          · rename_i h4
            injection h with h
            subst h
            rw [foldr_toNat_filter shape _ h2]
            simp only [ne_eq, Decidable.not_not] at h4
            exact Nat.div_mul_cancel (Nat.dvd_of_mod_eq_zero h4)
      · split at h
        · rename_i h5
          injection h with h
          subst h; exact h5
        · cases h

theorem Arr.reshape_wf {α : Type} {a b : Arr α} {shape : List Int} (h : a.reshape shape = .ok b) :
    b.WF ∧ b.data = a.data := by
  unfold Arr.reshape at h
  cases hs : reshapeShape a.data.length shape with
  | error e => simp [hs] at h
  | ok s =>
    simp [hs] at h; subst h
    exact ⟨by simp [Arr.WF, reshapeShape_size hs], rfl⟩

/-- reshape ∘ reshape = reshape: the intermediate shape is irrelevant -/
theorem Arr.reshape_reshape {α : Type} {a b : Arr α} {s1 s2 : List Int} (h : a.reshape s1 = .ok b) :
    b.reshape s2 = a.reshape s2 := by
  have := (Arr.reshape_wf h).2
  unfold Arr.reshape
  rw [this]

/-- index map of reshape: the element at multi-index `idx` of the reshaped array is the element of the
source whose row-major position is the row-major position of `idx` in the new shape -/
theorem Arr.reshape_get {α : Type} [Inhabited α] {a b : Arr α} {shape : List Int} (ha : a.WF)
    (h : a.reshape shape = .ok b) {idx : List Nat} (hi : inRange b.shape idx = true) :
    b.get idx = a.get (unflatten a.shape (flatIndex b.shape idx)) := by
  obtain ⟨hb, hd⟩ := Arr.reshape_wf h
  have hlt : flatIndex b.shape idx < size a.shape := by
    have := flatIndex_lt hi
    rw [← hb, hd, ha] at this; exact this
  simp [Arr.get, hd, flatIndex_unflatten _ _ hlt]

/-! ### transpose -/

theorem length_transposeRev (s : Shape) : (transposeRev s).length = size s := by
  simp [transposeRev, length_gatherBy, size_reverse]

theorem transposeRev_get (s : Shape) {idx : List Nat} (h : inRange s.reverse idx = true) :
    (transposeRev s).getD (flatIndex s.reverse idx) 0 = flatIndex s idx.reverse :=
  getD_gatherBy _ _ h

theorem transposeRev_lt (s : Shape) : ∀ k ∈ transposeRev s, k < size s := by
  intro k hk
  simp only [transposeRev, gatherBy, List.mem_map, List.mem_range] at hk
  obtain ⟨t, ht, rfl⟩ := hk
  apply flatIndex_lt
  have := inRange_unflatten _ _ ht
  rw [← inRange_reverse] at this
  simpa using this

/-- transposing twice is the identity gather map -/
theorem transposeRev_involution (s : Shape) :
    compose (transposeRev s.reverse) (transposeRev s) = List.range (size s) := by
  apply List.ext_getElem
  · simp [compose, length_transposeRev, size_reverse]
  · intro k h1 h2
    simp only [List.length_range] at h2
    have hr := inRange_unflatten s k h2
    have hr' : inRange s.reverse (unflatten s k).reverse = true := (inRange_reverse _ _).mpr hr
    simp only [compose, transposeRev, gatherBy, List.reverse_reverse, List.getElem_map,
      List.getElem_range]
    have := transposeRev_get s hr'
    simp only [transposeRev, gatherBy, List.reverse_reverse] at this
    rw [this, flatIndex_unflatten s k h2]

theorem gather_range {α : Type} [Inhabited α] (d : List α) : gather (List.range d.length) d = d := by
  apply List.ext_getElem
  · simp [gather]
  · intro k h1 h2
    simp [gather, List.getD_eq_getElem?_getD, List.getElem?_eq_getElem h2]

/-- data level: `a.T.T = a` -/
theorem transpose_transpose {α : Type} [Inhabited α] (s : Shape) (d : List α) (h : d.length = size s) :
    gather (transposeRev s.reverse) (gather (transposeRev s) d) = d := by
  rw [gather_compose _ _ _ (by
    intro k hk
    have := transposeRev_lt s.reverse k hk
    rwa [size_reverse, ← length_transposeRev] at this)]
  rw [transposeRev_involution, ← h, gather_range]

/-! ### concatenate / split -/

theorem splitChunks_concatChunks {α : Type} : ∀ (o ca cb : Nat) (a b : List α),
    a.length = o * ca → b.length = o * cb →
    splitChunks o ca cb (concatChunks o ca cb a b) = (a, b)
  | 0, ca, cb, a, b, ha, hb => by
    simp at ha hb; subst ha hb; rfl
  | o + 1, ca, cb, a, b, ha, hb => by
    have hla : ca ≤ a.length := by rw [ha, Nat.add_mul]; omega
    have hlb : cb ≤ b.length := by rw [hb, Nat.add_mul]; omega
    have ih := splitChunks_concatChunks o ca cb (a.drop ca) (b.drop cb)
      (by rw [List.length_drop, ha, Nat.add_mul]; omega)
      (by rw [List.length_drop, hb, Nat.add_mul]; omega)
    have t1 : (a.take ca).length = ca := by simp [hla]
    have t2 : (b.take cb).length = cb := by simp [hlb]
    simp only [concatChunks, splitChunks]
    have e1 : (List.take ca a ++ (List.take cb b ++ concatChunks o ca cb (List.drop ca a) (List.drop cb b))).drop
        (ca + cb) = concatChunks o ca cb (a.drop ca) (b.drop cb) := by
      rw [← List.append_assoc, List.drop_append_of_le_length (by simp [t1, t2])]
      rw [List.drop_of_length_le (by simp [t1, t2])]
      simp
    have e2 : (List.take ca a ++ (List.take cb b ++ concatChunks o ca cb (List.drop ca a) (List.drop cb b))).take
        ca = a.take ca := by
      rw [List.take_append_of_le_length (by simp [t1])]
      simp [List.take_take]
    have e3 : ((List.take ca a ++ (List.take cb b ++ concatChunks o ca cb (List.drop ca a) (List.drop cb b))).drop
        ca).take cb = b.take cb := by
      rw [List.drop_append_of_le_length (by simp [t1]), List.drop_of_length_le (by simp [t1])]
      simp only [List.nil_append]
      rw [List.take_append_of_le_length (by simp [t2])]
      simp [List.take_take]
    rw [e1, e2, e3, ih]
    simp

theorem length_concatChunks {α : Type} : ∀ (o ca cb : Nat) (a b : List α),
    a.length = o * ca → b.length = o * cb → (concatChunks o ca cb a b).length = o * (ca + cb)
  | 0, _, _, _, _, _, _ => by simp [concatChunks]
  | o + 1, ca, cb, a, b, ha, hb => by
    have hla : ca ≤ a.length := by rw [ha, Nat.add_mul]; omega
    have hlb : cb ≤ b.length := by rw [hb, Nat.add_mul]; omega
    have ih := length_concatChunks o ca cb (a.drop ca) (b.drop cb)
      (by rw [List.length_drop, ha, Nat.add_mul]; omega)
      (by rw [List.length_drop, hb, Nat.add_mul]; omega)
    simp only [concatChunks, List.length_append, List.length_take, ih, Nat.min_eq_left hla,
      Nat.min_eq_left hlb]
    rw [Nat.add_mul]; omega

theorem size_take_drop (s : Shape) (i : Nat) : size (s.take i) * size (s.drop i) = size s := by
  rw [← size_append, List.take_append_drop]

theorem size_drop_succ (s : Shape) (i : Nat) (h : i < s.length) :
    size (s.drop i) = s.getD i 0 * size (s.drop (i + 1)) := by
  rw [List.drop_eq_getElem_cons h]
  simp [size, List.getD_eq_getElem?_getD, List.getElem?_eq_getElem h]

/-- `np.split(np.concatenate((a, b), axis=i), …, axis=i)` gives back `a` and `b` -/
theorem split2_concat2 {α : Type} (sa sb : Shape) (i : Nat) (a b : List α)
    (hi : i < sa.length) (hlen : sb.length = sa.length)
    (hpre : sb.take i = sa.take i) (hpost : sb.drop (i + 1) = sa.drop (i + 1))
    (ha : a.length = size sa) (hb : b.length = size sb) :
    split2 (concat2 sa sb i a b).shape i (sa.getD i 0) (sb.getD i 0) (concat2 sa sb i a b).data = (a, b) := by
  have hib : i < sb.length := by omega
  simp only [split2, concat2]
  have e1 : (sa.set i (sa.getD i 0 + sb.getD i 0)).take i = sa.take i := by
    simp [List.take_set_of_le]
  have e2 : (sa.set i (sa.getD i 0 + sb.getD i 0)).drop (i + 1) = sa.drop (i + 1) := by
    simp [List.drop_set_of_lt]
  rw [e1, e2, ← size_drop_succ sa i hi]
  have : sb.getD i 0 * size (sa.drop (i + 1)) = size (sb.drop i) := by
    rw [← hpost, ← size_drop_succ sb i hib]
  rw [this]
  apply splitChunks_concatChunks
  · rw [ha, size_take_drop]
  · rw [hb, ← hpre, size_take_drop]

/-! ### roll -/

theorem length_roll {α : Type} (shift : Int) (l : List α) : (roll shift l).length = l.length := by
  unfold roll
  by_cases h : l.length = 0
  · simp [h]
  · simp only [h, if_false, List.length_append, List.length_drop, List.length_take]
    omega

theorem roll_zero {α : Type} (l : List α) : roll 0 l = l := by
  unfold roll
  by_cases h : l.length = 0
  · simp [h]
  · simp [h]

/-- `np.roll(a, s)[i] = a[(i - s) mod n]` -/
theorem roll_getElem {α : Type} (shift : Int) (l : List α) (i : Nat) (h : i < (roll shift l).length) :
    (roll shift l)[i] = l[(((i : Int) - shift) % (l.length : Int)).toNat]'(by
      rw [length_roll] at h
      have hn : (0 : Int) < l.length := by omega
      have := Int.emod_lt_of_pos ((i : Int) - shift) hn
      have := Int.emod_nonneg ((i : Int) - shift) (by omega : (l.length : Int) ≠ 0)
      omega) := by
  have hlen := length_roll shift l
  rw [hlen] at h
  have hn : (0 : Int) < l.length := by omega
  have hn0 : l.length ≠ 0 := by omega
  have hs1 := Int.emod_lt_of_pos shift hn
  have hs0 := Int.emod_nonneg shift (by omega : (l.length : Int) ≠ 0)
  -- s = shift mod n as a natural number
  obtain ⟨s, hs⟩ : ∃ s : Nat, shift % (l.length : Int) = s := ⟨(shift % l.length).toNat, by omega⟩
  have hsn : s < l.length := by omega
  have key : (((i : Int) - shift) % (l.length : Int)).toNat =
      if i < s then l.length - s + i else i - s := by
    have : ((i : Int) - shift) % (l.length : Int) = ((i : Int) - (s : Int)) % (l.length : Int) := by
      have hq := Int.emod_add_mul_ediv shift (l.length : Int)
      rw [hs] at hq
      have e : (i : Int) - shift = (i : Int) - s - (l.length : Int) * (shift / l.length) := by linarith
      rw [e, Int.sub_mul_emod_self_left]
    rw [this]
    split_ifs with hlt
    · have : ((i : Int) - s) % (l.length : Int) = (i : Int) - s + l.length := by
        rw [← Int.add_emod_right, Int.emod_eq_of_lt (by omega) (by omega)]
      omega
    · have : ((i : Int) - s) % (l.length : Int) = (i : Int) - s := by
        rw [Int.emod_eq_of_lt (by omega) (by omega)]
      omega
  simp only [key]
  unfold roll
  simp only [hn0, if_false, hs, Int.toNat_natCast]
  by_cases hlt : i < s
  · simp only [hlt, if_true]
    rw [List.getElem_append_left (by simp; omega)]
    simp [List.getElem_drop]
  · simp only [hlt, if_false]
    rw [List.getElem_append_right (by simp; omega)]
    simp only [List.length_drop, List.getElem_take]
    congr 1
    omega

/-- rolling by the length is the identity -/
theorem roll_length {α : Type} (l : List α) : roll (l.length : Int) l = l := by
  unfold roll
  by_cases h : l.length = 0
  · simp [h]
  · simp [h]

/-- rolls compose additively -/
theorem roll_roll {α : Type} (s1 s2 : Int) (l : List α) : roll s2 (roll s1 l) = roll (s1 + s2) l := by
  apply List.ext_getElem
  · simp [length_roll]
  · intro i h1 h2
    rw [roll_getElem, roll_getElem, roll_getElem]
    congr 1
    simp only [length_roll]
    by_cases hn : l.length = 0
    · simp [length_roll, hn] at h2
    have hn' : (0 : Int) < l.length := by omega
    have e1 := Int.emod_nonneg ((i : Int) - s2) (by omega : (l.length : Int) ≠ 0)
    rw [Int.toNat_of_nonneg e1]
    rw [Int.sub_emod, Int.emod_emod_of_dvd _ (dvd_refl _), ← Int.sub_emod]
    congr 2
    ring

/-! ### declared shape of `np_stack` vs NumPy -/

/-- for every valid axis `-(ndim+1) ≤ axis ≤ ndim` the declared shape is NumPy's -/
theorem stackShape_eq_np (s : Shape) (n : Nat) (ax : Int)
    (h1 : -((s.length : Int) + 1) ≤ ax) (h2 : ax ≤ (s.length : Int)) :
    npStackShape s n ax = some (stackShape s n ax) := by
  unfold npStackShape stackShape pyInsert normAxis
  by_cases hneg : ax < 0
  · have e : ax % ((s.length : Int) + 1) = ax + ((s.length : Int) + 1) := by
      rw [← Int.add_emod_right, Int.emod_eq_of_lt (by omega) (by omega)]
    have c1 : ¬ (0 ≤ ax ∧ ax < ((s.length + 1 : Nat) : Int)) := by omega
    have c2 : -((s.length + 1 : Nat) : Int) ≤ ax ∧ ax < 0 := by constructor <;> omega
    have c3 : ¬ (ax + ((s.length : Int) + 1) < 0) := by omega
    have c4 : ¬ (ax + ((s.length : Int) + 1) > (s.length : Int)) := by omega
    simp only [e, c1, c2, c3, c4, if_false, if_true, and_self]
    have : (ax + ((s.length + 1 : Nat) : Int)).toNat = (ax + ((s.length : Int) + 1)).toNat := by
      congr 1
    simp [this]
  · have e : ax % ((s.length : Int) + 1) = ax := Int.emod_eq_of_lt (by omega) (by omega)
    have c1 : 0 ≤ ax ∧ ax < ((s.length + 1 : Nat) : Int) := by constructor <;> omega
    have c4 : ¬ (ax > (s.length : Int)) := by omega
    simp only [e, c1, hneg, c4, if_false, if_true, and_self]

end MpycV.Arr
