/-
M6 `SecInt`, gcd family (`_gcd`, `gcd`, `_divsteps`, `inverse`, `gcdext` ≙ runtime.py:1919-2024): proofs about the
integer-level model of `MpycV.Model.SecInt`.

What is proved (all for ARBITRARY bit length `l` and ANY number of loop iterations):
* `gcdStep_invariant` (★ divstep invariant), `gcdLoop_invariant`: an iteration of `_gcd` keeps `f` odd and keeps
  `gcd(f, g)`; `gcd_of_terminated`: if the loop ends with `g = 0` then `|f|` is the gcd of the start values.
* `gcp2I_spec`, `gcp2I_odd`: meaning of the common power of two that is divided out first.
* `gcd_partial`: `gcd(a, b)` is correct IF the loop terminated (`Terminates`); `gcd_zero_zero`.
* `divStep_bezout` (★), `divsteps_bezout`: Bézout bookkeeping of `_divsteps`; `gcdext_partial`, `inverse_congr_partial`,
  `inverse_partial` under the corresponding termination hypotheses.

What is NOT proved: that `_iterations(l)` rounds suffice (Bernstein–Yang, eprint 2019/266, Thm 11.2) — this is the
explicit hypothesis `Terminates` / `ExtTerminates` / `InvTerminates` of every `…_partial` theorem — and the bound
`-2b ≤ u < 2b` behind the two final range corrections of `inverse` (hypothesis `hrange` of `inverse_partial`).
For the bit lengths `l ≤ 5` termination is discharged by the finite tables of `MpycV.Lemmas.SecIntGcdTable`
(last section: `gcd_correct_small`, `gcdext_correct_small`, `inverse_congr_small`).
-/
import MpycV.Model.SecInt
import MpycV.Lemmas.SecIntGcdTable
import Mathlib.Tactic.Ring
import Mathlib.Tactic.LinearCombination
import Mathlib.Tactic.Linarith
import Mathlib.Tactic.SplitIfs

namespace MpycV.SecInt

/-! ### parity and gcd -/

theorem gcd_two_of_odd {f : Int} (h : f % 2 = 1) : Int.gcd f 2 = 1 := by
  obtain ⟨k, rfl⟩ : ∃ k, f = 1 + 2 * k := ⟨f / 2, by omega⟩
  rw [Int.gcd_comm, Int.gcd_add_mul_left_right]; rfl

/-- halving an even number does not change the gcd with an odd number -/
theorem gcd_half {f x : Int} (hf : f % 2 = 1) (hx : x % 2 = 0) :
    Int.gcd f (x / 2) = Int.gcd f x := by
  have h2 := gcd_two_of_odd hf
  obtain ⟨k, rfl⟩ : ∃ k, x = 2 * k := ⟨x / 2, by omega⟩
  rw [Int.mul_ediv_cancel_left _ (by decide : (2 : Int) ≠ 0)]
  exact (Int.gcd_mul_right_right_of_gcd_eq_one h2).symm

/-! ### one iteration of `_gcd` -/

theorem gcdStep_f (l i : Nat) (s : GcdSt) :
    (gcdStep l i s).f = if (decide (s.delta > 0) && (s.g % 2 == 1)) = true then s.g else s.f := rfl

theorem gcdStep_g (l i : Nat) (s : GcdSt) :
    (gcdStep l i s).g =
      ((if (decide (s.delta > 0) && (s.g % 2 == 1)) = true then -s.f else s.g)
        + s.g % 2 * (if (decide (s.delta > 0) && (s.g % 2 == 1)) = true then s.g else s.f)) / 2 := rfl

/-- ★ `divstep_invariant`: one iteration keeps `f` odd and keeps `gcd(f, g)` -/
theorem gcdStep_invariant (l i : Nat) (s : GcdSt) (hf : s.f % 2 = 1) :
    (gcdStep l i s).f % 2 = 1 ∧
      Int.gcd (gcdStep l i s).f (gcdStep l i s).g = Int.gcd s.f s.g := by
  rw [gcdStep_f, gcdStep_g]
  by_cases hsw : (decide (s.delta > 0) && (s.g % 2 == 1)) = true
  · -- swap: f' = g, g' = (g - f)/2
    have hg : s.g % 2 = 1 := by
      simp only [Bool.and_eq_true, beq_iff_eq] at hsw; exact hsw.2
    simp only [if_pos hsw]
    refine ⟨hg, ?_⟩
    rw [hg, Int.one_mul, gcd_half hg (by omega), Int.gcd_add_self_right, Int.gcd_neg, Int.gcd_comm]
  · simp only [if_neg hsw]
    refine ⟨hf, ?_⟩
    rcases Int.emod_two_eq_zero_or_one s.g with h0 | h1
    · rw [h0, Int.zero_mul, Int.add_zero, gcd_half hf h0]
    · rw [h1, Int.one_mul, gcd_half hf (by omega), Int.gcd_add_self_right]

/-- the invariant for any number of iterations -/
theorem gcdLoop_invariant (l n i : Nat) (s : GcdSt) (hf : s.f % 2 = 1) :
    (gcdLoop l n i s).f % 2 = 1 ∧
      Int.gcd (gcdLoop l n i s).f (gcdLoop l n i s).g = Int.gcd s.f s.g := by
  induction n generalizing i s with
  | zero => exact ⟨hf, rfl⟩
  | succ n ih =>
    have h1 := gcdStep_invariant l i s hf
    have h2 := ih (i + 1) (gcdStep l i s) h1.1
    exact ⟨h2.1, h2.2.trans h1.2⟩

/-- if the loop ends with `g = 0`, then `|f|` is the gcd of the start values -/
theorem gcd_of_terminated (l n i : Nat) (st : GcdSt) (hf : st.f % 2 = 1)
    (hg : (gcdLoop l n i st).g = 0) :
    (gcdLoop l n i st).f.natAbs = Int.gcd st.f st.g := by
  have h := (gcdLoop_invariant l n i st hf).2
  rw [hg, Int.gcd_zero_right] at h
  exact h

/-- the degenerate start `f = g = 0` stays there -/
theorem gcdStep_zero (l i : Nat) (s : GcdSt) (hf : s.f = 0) (hg : s.g = 0) :
    (gcdStep l i s).f = 0 ∧ (gcdStep l i s).g = 0 := by
  rw [gcdStep_f, gcdStep_g, hf, hg]
  constructor
  · split <;> rfl
  · split <;> rfl

theorem gcdLoop_zero (l n i : Nat) (s : GcdSt) (hf : s.f = 0) (hg : s.g = 0) :
    (gcdLoop l n i s).f = 0 ∧ (gcdLoop l n i s).g = 0 := by
  induction n generalizing i s with
  | zero => exact ⟨hf, hg⟩
  | succ n ih =>
    have h1 := gcdStep_zero l i s hf hg
    exact ih (i + 1) (gcdStep l i s) h1.1 h1.2


/-! ### `gcp2`: the greatest common power of two -/

theorem gcp2Exp_spec (fuel t : Nat) (a b : Int) (ha : (2 : Int) ^ t ∣ a) (hb : (2 : Int) ^ t ∣ b) :
    t ≤ gcp2Exp fuel t a b ∧ gcp2Exp fuel t a b ≤ t + fuel ∧
    (2 : Int) ^ (gcp2Exp fuel t a b) ∣ a ∧ (2 : Int) ^ (gcp2Exp fuel t a b) ∣ b ∧
    (gcp2Exp fuel t a b < t + fuel →
      ¬ ((2 : Int) ^ (gcp2Exp fuel t a b + 1) ∣ a ∧ (2 : Int) ^ (gcp2Exp fuel t a b + 1) ∣ b)) := by
  induction fuel generalizing t with
  | zero => exact ⟨Nat.le_refl _, Nat.le_refl _, ha, hb, fun h => absurd h (Nat.lt_irrefl _)⟩
  | succ fuel ih =>
    simp only [gcp2Exp]
    split
    · rename_i h
      obtain ⟨h1, h2, h3, h4, h5⟩ :=
        ih (t + 1) (Int.dvd_of_emod_eq_zero h.1) (Int.dvd_of_emod_eq_zero h.2)
      exact ⟨by omega, by omega, h3, h4, fun hlt => h5 (by omega)⟩
    · rename_i h
      exact ⟨Nat.le_refl _, by omega, ha, hb,
        fun _ hh => h ⟨Int.emod_eq_zero_of_dvd hh.1, Int.emod_eq_zero_of_dvd hh.2⟩⟩

/-- `gcp2I_spec`: with `t := gcp2Exp l 0 a b` (so `gcp2I l a b = 2^t`): `t ≤ l`, `2^t` divides both, and
`2^(t+1)` does not divide both unless the search stopped at the cap `l` -/
theorem gcp2I_spec (l : Nat) (a b : Int) :
    gcp2Exp l 0 a b ≤ l ∧ (2 : Int) ^ (gcp2Exp l 0 a b) ∣ a ∧ (2 : Int) ^ (gcp2Exp l 0 a b) ∣ b ∧
    (gcp2Exp l 0 a b < l →
      ¬ ((2 : Int) ^ (gcp2Exp l 0 a b + 1) ∣ a ∧ (2 : Int) ^ (gcp2Exp l 0 a b + 1) ∣ b)) := by
  have h1 : (2 : Int) ^ 0 ∣ a := by rw [Int.pow_zero]; exact Int.one_dvd _
  have h2 : (2 : Int) ^ 0 ∣ b := by rw [Int.pow_zero]; exact Int.one_dvd _
  obtain ⟨_, h4, h5, h6, h7⟩ := gcp2Exp_spec l 0 a b h1 h2
  exact ⟨by omega, h5, h6, fun h => h7 (by omega)⟩

theorem gcp2I_pos (l : Nat) (a b : Int) : 0 < gcp2I l a b := Int.pow_pos (by decide)

theorem gcp2I_dvd (l : Nat) (a b : Int) : gcp2I l a b ∣ a ∧ gcp2I l a b ∣ b :=
  ⟨(gcp2I_spec l a b).2.1, (gcp2I_spec l a b).2.2.1⟩

theorem eq_zero_of_mul_small {P k : Int} (h1 : -P < P * k) (h2 : P * k < P) : k = 0 := by
  have hP : 0 < P := by
    by_contra h
    have : P ≤ 0 := by omega
    nlinarith
  by_contra h
  have : k ≥ 1 ∨ k ≤ -1 := by omega
  rcases this with h | h <;> nlinarith

/-- after dividing out `gcp2`, one of the two numbers is odd (numbers of absolute value below `2^l`,
not both zero) -/
theorem gcp2I_odd (l : Nat) (a b : Int) (ha : -(2 : Int) ^ l < a ∧ a < (2 : Int) ^ l)
    (hb : -(2 : Int) ^ l < b ∧ b < (2 : Int) ^ l) (hab : ¬ (a = 0 ∧ b = 0)) :
    (a / gcp2I l a b) % 2 = 1 ∨ (b / gcp2I l a b) % 2 = 1 := by
  obtain ⟨h1, h2, h3, h4⟩ := gcp2I_spec l a b
  unfold gcp2I
  generalize gcp2Exp l 0 a b = t at *
  have hp : (2 : Int) ^ t ≠ 0 := Int.ne_of_gt (Int.pow_pos (by decide))
  obtain ⟨a1, rfl⟩ := h2
  obtain ⟨b1, rfl⟩ := h3
  rw [Int.mul_ediv_cancel_left _ hp, Int.mul_ediv_cancel_left _ hp]
  by_contra hne
  obtain ⟨a2, rfl⟩ : ∃ k, a1 = 2 * k := ⟨a1 / 2, by omega⟩
  obtain ⟨b2, rfl⟩ : ∃ k, b1 = 2 * k := ⟨b1 / 2, by omega⟩
  have e : ∀ k : Int, (2 : Int) ^ (t + 1) * k = (2 : Int) ^ t * (2 * k) := fun k => by
    rw [Int.pow_succ]; ring
  rcases Nat.lt_or_ge t l with hlt | hge
  · exact h4 hlt ⟨Dvd.intro a2 (e a2), Dvd.intro b2 (e b2)⟩
  · have htl : t = l := by omega
    subst htl
    apply hab
    have ea : 2 * a2 = 0 := eq_zero_of_mul_small ha.1 ha.2
    have eb : 2 * b2 = 0 := eq_zero_of_mul_small hb.1 hb.2
    rw [ea, eb]
    exact ⟨Int.mul_zero _, Int.mul_zero _⟩

/-- the range of `l`-bit secure integers, `-2^(l-1) ≤ a ≤ 2^(l-1)`, is inside `(-2^l, 2^l)` -/
theorem range_lt (l : Nat) (hl : 1 ≤ l) (a : Int)
    (ha : -(2 : Int) ^ (l - 1) ≤ a ∧ a ≤ (2 : Int) ^ (l - 1)) :
    -(2 : Int) ^ l < a ∧ a < (2 : Int) ^ l := by
  obtain ⟨k, rfl⟩ : ∃ k, l = k + 1 := ⟨l - 1, by omega⟩
  rw [Nat.add_sub_cancel] at ha
  have hp : (0 : Int) < 2 ^ k := Int.pow_pos (by decide)
  rw [Int.pow_succ]
  omega

/-! ### `_gcd`, `gcd` -/

/-- termination of the loop of `_gcd` within `_iterations(l)` steps (Bernstein–Yang, Thm 11.2; NOT proved
here for general `l`, only the finite tables of `SecIntGcdTable` for small `l`) -/
def Terminates (l : Nat) (a b : Int) : Prop := (gcdRaw l a b).2.1 = 0

theorem gcd_core (l n : Nat) (p a b : Int) (hp : 0 < p) (hda : p ∣ a) (hdb : p ∣ b)
    (hodd : (a / p) % 2 = 1 ∨ (b / p) % 2 = 1)
    (hterm : (gcdLoop l n 0
      (if (a / p) % 2 = 1 then ⟨1, a / p, b / p, true⟩ else ⟨1, b / p, a / p, true⟩)).g = 0) :
    (p * (gcdLoop l n 0
      (if (a / p) % 2 = 1 then ⟨1, a / p, b / p, true⟩ else ⟨1, b / p, a / p, true⟩)).f).natAbs
      = Int.gcd a b := by
  obtain ⟨a1, rfl⟩ := hda
  obtain ⟨b1, rfl⟩ := hdb
  have hp0 : p ≠ 0 := Int.ne_of_gt hp
  rw [Int.mul_ediv_cancel_left _ hp0, Int.mul_ediv_cancel_left _ hp0] at hodd hterm ⊢
  rw [Int.natAbs_mul, Int.gcd_mul_left]
  congr 1
  by_cases h1 : a1 % 2 = 1
  · rw [if_pos h1] at hterm ⊢
    exact gcd_of_terminated l n 0 ⟨1, a1, b1, true⟩ h1 hterm
  · rw [if_neg h1] at hterm ⊢
    have h2 : b1 % 2 = 1 := by omega
    rw [gcd_of_terminated l n 0 ⟨1, b1, a1, true⟩ h2 hterm]
    exact Int.gcd_comm _ _

/-- `_gcd` returns `± gcd(a, b)`, provided the loop terminated -/
theorem gcdRaw_natAbs (l : Nat) (a b : Int)
    (hodd : (a / gcp2I l a b) % 2 = 1 ∨ (b / gcp2I l a b) % 2 = 1)
    (hterm : Terminates l a b) :
    ((gcdRaw l a b).1).natAbs = Int.gcd a b :=
  gcd_core l (iterations l) (gcp2I l a b) a b (gcp2I_pos l a b) (gcp2I_dvd l a b).1
    (gcp2I_dvd l a b).2 hodd hterm

theorem gcdModel_eq_natAbs (l : Nat) (a b : Int) :
    gcdModel l a b = ((gcdRaw l a b).1).natAbs := by
  show (if (gcdRaw l a b).1 < 0 then -(gcdRaw l a b).1 else (gcdRaw l a b).1) = _
  split <;> omega

/-- `gcd` is correct whenever the loop terminated (hypothesis form: oddness after `gcp2` is assumed) -/
theorem gcd_partial_of_odd (l : Nat) (a b : Int)
    (hodd : (a / gcp2I l a b) % 2 = 1 ∨ (b / gcp2I l a b) % 2 = 1)
    (hterm : Terminates l a b) :
    gcdModel l a b = Int.gcd a b := by
  rw [gcdModel_eq_natAbs, gcdRaw_natAbs l a b hodd hterm]

/-- `gcd` is correct for `l`-bit inputs, not both zero, whenever the loop terminated.
"partial": sufficiency of `_iterations(l)` (Bernstein–Yang, Thm 11.2) is the hypothesis `Terminates`. -/
theorem gcd_partial (l : Nat) (a b : Int)
    (ha : -(2 : Int) ^ l < a ∧ a < (2 : Int) ^ l) (hb : -(2 : Int) ^ l < b ∧ b < (2 : Int) ^ l)
    (hab : ¬ (a = 0 ∧ b = 0)) (hterm : Terminates l a b) :
    gcdModel l a b = Int.gcd a b :=
  gcd_partial_of_odd l a b (gcp2I_odd l a b ha hb hab) hterm

/-- `gcd(0, 0) = 0` (no termination hypothesis needed) -/
theorem gcd_zero_zero (l : Nat) : gcdModel l 0 0 = 0 ∧ Terminates l 0 0 := by
  have e : (if ((0 : Int) / gcp2I l 0 0) % 2 = 1 then
      (⟨1, 0 / gcp2I l 0 0, 0 / gcp2I l 0 0, true⟩ : GcdSt)
      else ⟨1, 0 / gcp2I l 0 0, 0 / gcp2I l 0 0, true⟩) = ⟨1, 0, 0, true⟩ := by
    rw [Int.zero_ediv]; rfl
  have hz := gcdLoop_zero l (iterations l) 0 ⟨1, 0, 0, true⟩ rfl rfl
  constructor
  · rw [gcdModel_eq_natAbs]
    show ((gcp2I l 0 0 * (gcdLoop l (iterations l) 0 _).f).natAbs : Int) = 0
    rw [e, hz.1, Int.mul_zero]; rfl
  · show (gcdLoop l (iterations l) 0 _).g = 0
    rw [e]; exact hz.2

set_option maxRecDepth 8192 in
example : gcdModel 4 6 (-4) = 2 := by decide
set_option maxRecDepth 8192 in
example : Terminates 4 6 (-4) := by unfold Terminates; decide
set_option maxRecDepth 8192 in
example : gcdModel 4 (-8) 8 = 8 := by decide


/-! ### `_divsteps`: Bézout bookkeeping -/

/-- making `r` even by adding the odd `a` keeps `g = q·a + r·b` (with `q - b` for `q`) -/
theorem fix_r {a b g q r : Int} (ha : a % 2 = 1) (h : g = q * a + r * b) :
    (if r % 2 = 1 then r + a else r) % 2 = 0 ∧
    ∃ q', g = q' * a + (if r % 2 = 1 then r + a else r) * b := by
  by_cases hr : r % 2 = 1
  · simp only [if_pos hr]
    exact ⟨by omega, q - b, by rw [h]; ring⟩
  · simp only [if_neg hr]
    exact ⟨by omega, q, h⟩

/-- `g = q·a + r·b` with `g`, `r` even and `a` odd: `q` is even as well, so the relation can be halved -/
theorem halve_bezout {a b g q r : Int} (ha : a % 2 = 1) (hg : g % 2 = 0) (hr : r % 2 = 0)
    (h : g = q * a + r * b) : ∃ q', g / 2 = q' * a + (r / 2) * b := by
  obtain ⟨g4, rfl⟩ : ∃ k, g = 2 * k := ⟨g / 2, by omega⟩
  obtain ⟨r4, rfl⟩ : ∃ k, r = 2 * k := ⟨r / 2, by omega⟩
  obtain ⟨a4, rfl⟩ : ∃ k, a = 2 * k + 1 := ⟨a / 2, by omega⟩
  rw [Int.mul_ediv_cancel_left _ (by decide : (2 : Int) ≠ 0),
    Int.mul_ediv_cancel_left _ (by decide : (2 : Int) ≠ 0)]
  exact ⟨g4 - q * a4 - r4 * b, by linear_combination (-a4) * h⟩

theorem halve_fix {a b g q r : Int} (ha : a % 2 = 1) (hg : g % 2 = 0) (h : g = q * a + r * b) :
    ∃ q', g / 2 = q' * a + ((if r % 2 = 1 then r + a else r) / 2) * b := by
  obtain ⟨h1, q', h2⟩ := fix_r (b := b) ha h
  exact halve_bezout ha hg h1 h2

/-- the swap condition `delta_gt0 * g_0` -/
def swB (s : DivSt) : Bool := decide (s.delta > 0) && (s.g % 2 == 1)

theorem divStep_f (l : Nat) (a : Int) (i : Nat) (s : DivSt) :
    (divStep l a i s).f = if swB s = true then s.g else s.f := rfl

theorem divStep_v (l : Nat) (a : Int) (i : Nat) (s : DivSt) :
    (divStep l a i s).v = if swB s = true then s.r else s.v := rfl

theorem divStep_g (l : Nat) (a : Int) (i : Nat) (s : DivSt) :
    (divStep l a i s).g =
      (if s.g % 2 = 1 then (if swB s = true then -s.f else s.g) + (if swB s = true then s.g else s.f)
        else (if swB s = true then -s.f else s.g)) / 2 := rfl

theorem divStep_r (l : Nat) (a : Int) (i : Nat) (s : DivSt) :
    (divStep l a i s).r =
      (if (if s.g % 2 = 1 then (if swB s = true then -s.v else s.r) + (if swB s = true then s.r else s.v)
            else (if swB s = true then -s.v else s.r)) % 2 = 1
        then (if s.g % 2 = 1 then (if swB s = true then -s.v else s.r) + (if swB s = true then s.r else s.v)
            else (if swB s = true then -s.v else s.r)) + a
        else (if s.g % 2 = 1 then (if swB s = true then -s.v else s.r) + (if swB s = true then s.r else s.v)
            else (if swB s = true then -s.v else s.r))) / 2 := rfl

/-- ★ one iteration of `_divsteps` (first argument `a` odd) keeps: `f` odd, `f = u·a + v·b` for some `u`,
`g = q·a + r·b` for some `q`, and `gcd(f, g)` -/
theorem divStep_bezout (l : Nat) (a b : Int) (i : Nat) (s : DivSt) (ha : a % 2 = 1)
    (hf : s.f % 2 = 1) (hu : ∃ u, s.f = u * a + s.v * b) (hq : ∃ q, s.g = q * a + s.r * b) :
    (divStep l a i s).f % 2 = 1 ∧
    (∃ u, (divStep l a i s).f = u * a + (divStep l a i s).v * b) ∧
    (∃ q, (divStep l a i s).g = q * a + (divStep l a i s).r * b) ∧
    Int.gcd (divStep l a i s).f (divStep l a i s).g = Int.gcd s.f s.g := by
  obtain ⟨u, hu⟩ := hu
  obtain ⟨q, hq⟩ := hq
  rw [divStep_f, divStep_v, divStep_g, divStep_r]
  by_cases hsw : swB s = true
  · have hg : s.g % 2 = 1 := by
      unfold swB at hsw
      simp only [Bool.and_eq_true, beq_iff_eq] at hsw
      exact hsw.2
    simp only [if_pos hsw, if_pos hg]
    refine ⟨hg, ⟨q, hq⟩, ?_, ?_⟩
    · exact halve_fix ha (by omega)
        (show -s.f + s.g = (-u + q) * a + (-s.v + s.r) * b by linear_combination hq - hu)
    · rw [gcd_half hg (by omega), Int.gcd_add_self_right, Int.gcd_neg, Int.gcd_comm]
  · simp only [if_neg hsw]
    rcases Int.emod_two_eq_zero_or_one s.g with h0 | h1
    · have hn : ¬ s.g % 2 = 1 := by omega
      simp only [if_neg hn]
      exact ⟨hf, ⟨u, hu⟩, halve_fix ha h0 hq, gcd_half hf h0⟩
    · simp only [if_pos h1]
      refine ⟨hf, ⟨u, hu⟩, ?_, ?_⟩
      · exact halve_fix ha (by omega)
          (show s.g + s.f = (q + u) * a + (s.r + s.v) * b by linear_combination hq + hu)
      · rw [gcd_half hf (by omega), Int.gcd_add_self_right]

theorem divLoop_bezout (l : Nat) (a b : Int) (n i : Nat) (s : DivSt) (ha : a % 2 = 1)
    (hf : s.f % 2 = 1) (hu : ∃ u, s.f = u * a + s.v * b) (hq : ∃ q, s.g = q * a + s.r * b) :
    (divLoop l a n i s).f % 2 = 1 ∧
    (∃ u, (divLoop l a n i s).f = u * a + (divLoop l a n i s).v * b) ∧
    (∃ q, (divLoop l a n i s).g = q * a + (divLoop l a n i s).r * b) ∧
    Int.gcd (divLoop l a n i s).f (divLoop l a n i s).g = Int.gcd s.f s.g := by
  induction n generalizing i s with
  | zero => exact ⟨hf, hu, hq, rfl⟩
  | succ n ih =>
    obtain ⟨h1, h2, h3, h4⟩ := divStep_bezout l a b i s ha hf hu hq
    obtain ⟨k1, k2, k3, k4⟩ := ih (i + 1) (divStep l a i s) h1 h2 h3
    exact ⟨k1, k2, k3, k4.trans h4⟩

/-- `_divsteps(a, b)` for odd `a`: the returned `f, v` satisfy `f = u·a + v·b` for some `u`, `f` is odd,
`gcd(f, g) = gcd(a, b)`, and if the loop ended with `g = 0` then `|f| = gcd(a, b)` -/
theorem divsteps_bezout (l : Nat) (a b : Int) (ha : a % 2 = 1) :
    (∃ u, (divsteps l a b).f = u * a + (divsteps l a b).v * b) ∧
    (divsteps l a b).f % 2 = 1 ∧
    Int.gcd (divsteps l a b).f (divsteps l a b).g = Int.gcd a b ∧
    ((divsteps l a b).g = 0 → (divsteps l a b).f.natAbs = Int.gcd a b) := by
  obtain ⟨h1, h2, _, h4⟩ := divLoop_bezout l a b (iterations l) 0 ⟨1, a, 0, b, 1, true⟩ ha ha
    ⟨1, by show a = 1 * a + 0 * b; ring⟩ ⟨0, by show b = 0 * a + 1 * b; ring⟩
  refine ⟨h2, h1, h4, fun hg => ?_⟩
  have h := h4
  unfold divsteps at hg ⊢
  rw [hg, Int.gcd_zero_right] at h
  exact h

/-- the degenerate start `a = b = 0` of `_divsteps`: `f = g = 0` throughout -/
theorem divStep_zero (l : Nat) (a : Int) (i : Nat) (s : DivSt) (hf : s.f = 0) (hg : s.g = 0) :
    (divStep l a i s).f = 0 ∧ (divStep l a i s).g = 0 := by
  rw [divStep_f, divStep_g, hf, hg, if_neg (by decide : ¬ (0 : Int) % 2 = 1)]
  constructor
  · split <;> rfl
  · split <;> rfl

theorem divLoop_zero (l : Nat) (a : Int) (n i : Nat) (s : DivSt) (hf : s.f = 0) (hg : s.g = 0) :
    (divLoop l a n i s).f = 0 ∧ (divLoop l a n i s).g = 0 := by
  induction n generalizing i s with
  | zero => exact ⟨hf, hg⟩
  | succ n ih =>
    have h1 := divStep_zero l a i s hf hg
    exact ih (i + 1) (divStep l a i s) h1.1 h1.2


/-! ### `gcdext` -/

/-- the part of `gcdext` after the conditional swap (runtime.py:2017-2021); `a'` is the odd argument -/
def extSg (f : Int) : Int := f % 2 - 2 * (if f < 0 then 1 else 0)

def extCore (l : Nat) (a' b' : Int) : Int × Int × Int :=
  (extSg (divsteps l a' b').f * (divsteps l a' b').f,
   (extSg (divsteps l a' b').f * (divsteps l a' b').f
      - extSg (divsteps l a' b').f * (divsteps l a' b').v * b') / (a' + 1 - (divsteps l a' b').f % 2),
   extSg (divsteps l a' b').f * (divsteps l a' b').v)

theorem extCore_spec (l : Nat) (a' b' : Int) (ha : a' % 2 = 1) (hterm : (divsteps l a' b').g = 0) :
    (extCore l a' b').1 = Int.gcd a' b' ∧
    (extCore l a' b').2.1 * a' + (extCore l a' b').2.2 * b' = (extCore l a' b').1 := by
  obtain ⟨⟨u, hu⟩, hodd, _, hn⟩ := divsteps_bezout l a' b' ha
  have hn := hn hterm
  unfold extCore extSg
  simp only [hodd]
  generalize (divsteps l a' b').f = f at hu hn hodd ⊢
  generalize (divsteps l a' b').v = v at hu ⊢
  generalize hsg : (1 - 2 * (if f < 0 then (1 : Int) else 0)) = sg
  have ha0 : a' ≠ 0 := by omega
  have e1 : a' + 1 - 1 = a' := by omega
  have e2 : (sg * f - sg * v * b') / a' = sg * u :=
    Int.ediv_eq_of_eq_mul_right ha0 (by linear_combination sg * hu)
  rw [e1, e2]
  constructor
  · rw [← hn, ← hsg]
    split <;> omega
  · linear_combination (-sg) * hu

def extA (l : Nat) (a b : Int) : Int :=
  if 1 - (a / gcp2I l a b) % 2 = 1 then b / gcp2I l a b else a / gcp2I l a b

def extB (l : Nat) (a b : Int) : Int :=
  if 1 - (a / gcp2I l a b) % 2 = 1 then a / gcp2I l a b else b / gcp2I l a b

theorem gcdextModel_eq (l : Nat) (a b : Int) :
    gcdextModel l a b =
      (gcp2I l a b * (extCore l (extA l a b) (extB l a b)).1,
       if 1 - (a / gcp2I l a b) % 2 = 1 then (extCore l (extA l a b) (extB l a b)).2.2
         else (extCore l (extA l a b) (extB l a b)).2.1,
       if 1 - (a / gcp2I l a b) % 2 = 1 then (extCore l (extA l a b) (extB l a b)).2.1
         else (extCore l (extA l a b) (extB l a b)).2.2) := rfl

/-- termination of the `_divsteps` call made by `gcdext` -/
def ExtTerminates (l : Nat) (a b : Int) : Prop := (divsteps l (extA l a b) (extB l a b)).g = 0

theorem gcd_eq_mul_of_dvd {p a b : Int} (hp : 0 < p) (hda : p ∣ a) (hdb : p ∣ b) :
    (Int.gcd a b : Int) = p * (Int.gcd (a / p) (b / p) : Int) := by
  obtain ⟨a1, rfl⟩ := hda
  obtain ⟨b1, rfl⟩ := hdb
  have hp0 : p ≠ 0 := Int.ne_of_gt hp
  rw [Int.mul_ediv_cancel_left _ hp0, Int.mul_ediv_cancel_left _ hp0, Int.gcd_mul_left]
  rw [Int.natCast_mul, Int.natAbs_of_nonneg (Int.le_of_lt hp)]

/-- `gcdext(a, b) = (g, s, t)` with `g = gcd(a, b) = s·a + t·b`, provided the loop terminated
("partial": sufficiency of `_iterations(l)` is the hypothesis `ExtTerminates`) -/
theorem gcdext_partial_of_odd (l : Nat) (a b : Int)
    (hodd : (a / gcp2I l a b) % 2 = 1 ∨ (b / gcp2I l a b) % 2 = 1)
    (hterm : ExtTerminates l a b) :
    (gcdextModel l a b).1 = Int.gcd a b ∧
    (gcdextModel l a b).2.1 * a + (gcdextModel l a b).2.2 * b = (gcdextModel l a b).1 := by
  have hp := gcp2I_pos l a b
  obtain ⟨hda, hdb⟩ := gcp2I_dvd l a b
  have hG := gcd_eq_mul_of_dvd hp hda hdb
  have hA : a = gcp2I l a b * (a / gcp2I l a b) := (Int.mul_ediv_cancel' hda).symm
  have hB : b = gcp2I l a b * (b / gcp2I l a b) := (Int.mul_ediv_cancel' hdb).symm
  rw [gcdextModel_eq, hG]
  unfold ExtTerminates at hterm
  unfold extA extB at hterm ⊢
  by_cases hc : 1 - (a / gcp2I l a b) % 2 = 1
  · simp only [if_pos hc] at hterm ⊢
    have hb1 : (b / gcp2I l a b) % 2 = 1 := by omega
    obtain ⟨h1, h2⟩ := extCore_spec l _ _ hb1 hterm
    rw [h1, Int.gcd_comm] at h2 ⊢
    refine ⟨rfl, ?_⟩
    generalize (extCore l (b / gcp2I l a b) (a / gcp2I l a b)).2.1 = s at h2 ⊢
    generalize (extCore l (b / gcp2I l a b) (a / gcp2I l a b)).2.2 = t at h2 ⊢
    calc t * a + s * b
        = t * (gcp2I l a b * (a / gcp2I l a b)) + s * (gcp2I l a b * (b / gcp2I l a b)) := by
          rw [← hA, ← hB]
      _ = gcp2I l a b * (s * (b / gcp2I l a b) + t * (a / gcp2I l a b)) := by ring
      _ = _ := by rw [h2]
  · simp only [if_neg hc] at hterm ⊢
    have ha1 : (a / gcp2I l a b) % 2 = 1 := by omega
    obtain ⟨h1, h2⟩ := extCore_spec l _ _ ha1 hterm
    rw [h1] at h2 ⊢
    refine ⟨rfl, ?_⟩
    generalize (extCore l (a / gcp2I l a b) (b / gcp2I l a b)).2.1 = s at h2 ⊢
    generalize (extCore l (a / gcp2I l a b) (b / gcp2I l a b)).2.2 = t at h2 ⊢
    calc s * a + t * b
        = s * (gcp2I l a b * (a / gcp2I l a b)) + t * (gcp2I l a b * (b / gcp2I l a b)) := by
          rw [← hA, ← hB]
      _ = gcp2I l a b * (s * (a / gcp2I l a b) + t * (b / gcp2I l a b)) := by ring
      _ = _ := by rw [h2]

theorem gcdext_partial (l : Nat) (a b : Int)
    (ha : -(2 : Int) ^ l < a ∧ a < (2 : Int) ^ l) (hb : -(2 : Int) ^ l < b ∧ b < (2 : Int) ^ l)
    (hab : ¬ (a = 0 ∧ b = 0)) (hterm : ExtTerminates l a b) :
    (gcdextModel l a b).1 = Int.gcd a b ∧
    (gcdextModel l a b).2.1 * a + (gcdextModel l a b).2.2 * b = (gcdextModel l a b).1 :=
  gcdext_partial_of_odd l a b (gcp2I_odd l a b ha hb hab) hterm

/-- `gcdext(0, 0) = (0, s, t)` (any `s, t` do: `s·0 + t·0 = 0`); no termination hypothesis needed -/
theorem gcdext_zero_zero (l : Nat) :
    (gcdextModel l 0 0).1 = Int.gcd 0 0 ∧
    (gcdextModel l 0 0).2.1 * 0 + (gcdextModel l 0 0).2.2 * 0 = (gcdextModel l 0 0).1 := by
  have hz : (divsteps l 0 0).f = 0 :=
    (divLoop_zero l 0 (iterations l) 0 ⟨1, 0, 0, 0, 1, true⟩ rfl rfl).1
  have e1 : extA l 0 0 = 0 := by unfold extA; rw [Int.zero_ediv]; split <;> rfl
  have e2 : extB l 0 0 = 0 := by unfold extB; rw [Int.zero_ediv]; split <;> rfl
  have e : (gcdextModel l 0 0).1 = 0 := by
    rw [gcdextModel_eq, e1, e2]
    show gcp2I l 0 0 * (extCore l 0 0).1 = 0
    unfold extCore extSg
    simp only [hz]
    rw [Int.mul_zero, Int.mul_zero]
  rw [e]
  exact ⟨by rw [Int.gcd_zero_right]; rfl, by rw [Int.mul_zero, Int.mul_zero]; rfl⟩


/-! ### `inverse` -/

/-- `a, b_ = c.if_swap(a, b)` with `c = 1 - a%2` -/
def invA (a b : Int) : Int := if 1 - a % 2 = 1 then b else a

def invB (a b : Int) : Int := if 1 - a % 2 = 1 then a else b

/-- the value `u = c.if_else(t, s)` of `inverse` before the two range corrections (runtime.py:1998-2002) -/
def invRaw (l : Nat) (a b : Int) : Int :=
  if 1 - a % 2 = 1 then
    (divsteps l (invA a b) (invB a b)).f * ((divsteps l (invA a b) (invB a b)).v - invA a b)
  else
    (1 - (divsteps l (invA a b) (invB a b)).f * ((divsteps l (invA a b) (invB a b)).v - invA a b)
      * invB a b) / invA a b

/-- the two range corrections `u = (u < 0).if_else(u + 2*b, u)`, `u = (u >= b).if_else(u - b, u)` -/
def invAdjust (b u : Int) : Int :=
  if (if u < 0 then u + 2 * b else u) ≥ b then (if u < 0 then u + 2 * b else u) - b
  else (if u < 0 then u + 2 * b else u)

theorem inverseModel_eq (l : Nat) (a b : Int) :
    inverseModel l a b = invAdjust b (invRaw l a b) := rfl

/-- termination of the `_divsteps` call made by `inverse` -/
def InvTerminates (l : Nat) (a b : Int) : Prop := (divsteps l (invA a b) (invB a b)).g = 0

theorem invAdjust_congr (b u : Int) : ∃ k, invAdjust b u = u + k * b := by
  have h : invAdjust b u = u + 1 * b ∨ invAdjust b u = u + 2 * b ∨ invAdjust b u = u + (-1) * b
      ∨ invAdjust b u = u + 0 * b := by
    unfold invAdjust
    split_ifs <;> omega
  rcases h with h | h | h | h <;> exact ⟨_, h⟩

theorem invAdjust_range (b u : Int) (h : -(2 * b) ≤ u ∧ u < 2 * b) :
    0 ≤ invAdjust b u ∧ invAdjust b u < b := by
  unfold invAdjust
  split_ifs <;> omega

theorem odd_of_gcd_one_of_even {a b : Int} (h : Int.gcd a b = 1) (ha : a % 2 = 0) : b % 2 = 1 := by
  by_contra hb
  have hb0 : b % 2 = 0 := by omega
  have h2 : (2 : Int) ∣ (Int.gcd a b : Int) :=
    Int.dvd_coe_gcd (Int.dvd_of_emod_eq_zero ha) (Int.dvd_of_emod_eq_zero hb0)
  rw [h] at h2
  omega

/-- with `t = g·(v - a')` and `s = (1 - t·b')/a'` (odd `a'`, `gcd(a', b') = 1`, loop terminated): the field
division is exact and `t·b' + s·a' = 1` -/
theorem inv_core (l : Nat) (a' b' : Int) (ha : a' % 2 = 1) (hg : Int.gcd a' b' = 1)
    (hterm : (divsteps l a' b').g = 0) :
    (divsteps l a' b').f * ((divsteps l a' b').v - a') * b'
      + ((1 - (divsteps l a' b').f * ((divsteps l a' b').v - a') * b') / a') * a' = 1 := by
  obtain ⟨⟨u, hu⟩, _, _, hn⟩ := divsteps_bezout l a' b' ha
  have hn := hn hterm
  rw [hg] at hn
  generalize (divsteps l a' b').f = f at hu hn ⊢
  generalize (divsteps l a' b').v = v at hu ⊢
  have hff : f * f = 1 := by
    have : f = 1 ∨ f = -1 := by omega
    rcases this with rfl | rfl <;> rfl
  have ha0 : a' ≠ 0 := by omega
  have e : (1 - f * (v - a') * b') / a' = f * u + f * b' :=
    Int.ediv_eq_of_eq_mul_right ha0 (by linear_combination f * hu - hff)
  rw [e]
  linear_combination hff - f * hu

theorem ex_of_bez {X Y a b : Int} (h : X * a + Y * b = 1) : ∃ k, X * a = 1 + k * b :=
  ⟨-Y, by linear_combination h⟩

theorem ex_of_bez' {X Y a b : Int} (h : X * b + Y * a = 1) : ∃ k, Y * a = 1 + k * b :=
  ⟨-X, by linear_combination h⟩

theorem invRaw_bezout (l : Nat) (a b : Int) (hab : Int.gcd a b = 1) (hterm : InvTerminates l a b) :
    ∃ k, invRaw l a b * a = 1 + k * b := by
  unfold InvTerminates at hterm
  unfold invRaw
  unfold invA invB at hterm ⊢
  by_cases hc : 1 - a % 2 = 1
  · simp only [if_pos hc] at hterm ⊢
    have hbodd : b % 2 = 1 := odd_of_gcd_one_of_even hab (by omega)
    exact ex_of_bez (inv_core l b a hbodd (by rw [Int.gcd_comm]; exact hab) hterm)
  · simp only [if_neg hc] at hterm ⊢
    have haodd : a % 2 = 1 := by omega
    exact ex_of_bez' (inv_core l a b haodd hab hterm)

/-- `inverse(a, b)·a ≡ 1 (mod b)` for coprime `a, b`, provided the loop terminated -/
theorem inverse_congr_partial (l : Nat) (a b : Int) (hab : Int.gcd a b = 1)
    (hterm : InvTerminates l a b) :
    (inverseModel l a b * a) % b = 1 % b := by
  obtain ⟨k, hk⟩ := invRaw_bezout l a b hab hterm
  obtain ⟨k', hk'⟩ := invAdjust_congr b (invRaw l a b)
  rw [inverseModel_eq, hk']
  have e : (invRaw l a b + k' * b) * a = 1 + (k + k' * a) * b := by linear_combination hk
  rw [e, Int.add_mul_emod_self_right]

/-- `inverse`: congruence and range.  "partial" twice: (1) termination of the loop is the hypothesis
`InvTerminates`; (2) the bound `-2b ≤ u < 2b` on the value before the two range corrections (it follows from
bounds on the coefficient `v` of `_divsteps`, which are not derived here) is the hypothesis `hrange`. -/
theorem inverse_partial (l : Nat) (a b : Int) (hab : Int.gcd a b = 1)
    (hterm : InvTerminates l a b)
    (hrange : -(2 * b) ≤ invRaw l a b ∧ invRaw l a b < 2 * b) :
    (inverseModel l a b * a) % b = 1 % b ∧ 0 ≤ inverseModel l a b ∧ inverseModel l a b < b :=
  ⟨inverse_congr_partial l a b hab hterm, by rw [inverseModel_eq]; exact invAdjust_range b _ hrange⟩

set_option maxRecDepth 8192 in
example : inverseModel 4 3 7 = 5 := by decide
set_option maxRecDepth 8192 in
example : InvTerminates 4 3 7 := by unfold InvTerminates; decide
set_option maxRecDepth 8192 in
example : gcdextModel 4 6 (-4) = (2, -1, -2) := by decide
set_option maxRecDepth 8192 in
example : ExtTerminates 4 6 (-4) := by unfold ExtTerminates; decide


/-! ### small bit lengths `l ≤ 5`: unconditional statements (termination from the FINITE TABLES of
`MpycV.Lemmas.SecIntGcdTable`) -/

/-- `gcd` is correct for all `l`-bit inputs, `l ≤ 5` -/
theorem gcd_correct_small (l : Nat) (hl : 1 ≤ l ∧ l ≤ 5) (a b : Int)
    (ha : -(2 : Int) ^ (l - 1) ≤ a ∧ a ≤ (2 : Int) ^ (l - 1))
    (hb : -(2 : Int) ^ (l - 1) ≤ b ∧ b ≤ (2 : Int) ^ (l - 1)) :
    gcdModel l a b = Int.gcd a b := by
  by_cases hab : a = 0 ∧ b = 0
  · obtain ⟨rfl, rfl⟩ := hab
    rw [(gcd_zero_zero l).1, Int.gcd_zero_right]; rfl
  · exact gcd_partial l a b (range_lt l hl.1 a ha) (range_lt l hl.1 b hb) hab
      (gcd_terminates_small l hl a b ha hb).1

theorem ediv_range {p a M : Int} (hp : 0 < p) (hd : p ∣ a) (h : -M ≤ a ∧ a ≤ M) :
    -M ≤ a / p ∧ a / p ≤ M := by
  obtain ⟨k, rfl⟩ := hd
  rw [Int.mul_ediv_cancel_left _ (Int.ne_of_gt hp)]
  by_cases hk : 0 ≤ k
  · have : k ≤ p * k := by nlinarith
    omega
  · have : p * k ≤ k := by nlinarith
    omega

theorem extTerminates_small (l : Nat) (hl : 1 ≤ l ∧ l ≤ 5) (a b : Int)
    (ha : -(2 : Int) ^ (l - 1) ≤ a ∧ a ≤ (2 : Int) ^ (l - 1))
    (hb : -(2 : Int) ^ (l - 1) ≤ b ∧ b ≤ (2 : Int) ^ (l - 1)) :
    ExtTerminates l a b := by
  have hp := gcp2I_pos l a b
  obtain ⟨hda, hdb⟩ := gcp2I_dvd l a b
  have ra := ediv_range hp hda ha
  have rb := ediv_range hp hdb hb
  have hcase : ((a / gcp2I l a b) % 2 = 1 ∨ (b / gcp2I l a b) % 2 = 1)
      ∨ (a / gcp2I l a b = 0 ∧ b / gcp2I l a b = 0) := by
    by_cases hab : a = 0 ∧ b = 0
    · obtain ⟨rfl, rfl⟩ := hab
      exact Or.inr ⟨Int.zero_ediv _, Int.zero_ediv _⟩
    · exact Or.inl (gcp2I_odd l a b (range_lt l hl.1 a ha) (range_lt l hl.1 b hb) hab)
  unfold ExtTerminates extA extB
  by_cases hc : 1 - (a / gcp2I l a b) % 2 = 1
  · simp only [if_pos hc]
    refine (divsteps_terminates_small l hl _ _ rb ra ?_).1
    rcases hcase with (h | h) | h
    · omega
    · exact Or.inl h
    · exact Or.inr ⟨h.2, h.1⟩
  · simp only [if_neg hc]
    exact (divsteps_terminates_small l hl _ _ ra rb (Or.inl (by omega))).1

/-- `gcdext` is correct for all `l`-bit inputs, `l ≤ 5` -/
theorem gcdext_correct_small (l : Nat) (hl : 1 ≤ l ∧ l ≤ 5) (a b : Int)
    (ha : -(2 : Int) ^ (l - 1) ≤ a ∧ a ≤ (2 : Int) ^ (l - 1))
    (hb : -(2 : Int) ^ (l - 1) ≤ b ∧ b ≤ (2 : Int) ^ (l - 1)) :
    (gcdextModel l a b).1 = Int.gcd a b ∧
    (gcdextModel l a b).2.1 * a + (gcdextModel l a b).2.2 * b = (gcdextModel l a b).1 := by
  by_cases hab : a = 0 ∧ b = 0
  · obtain ⟨rfl, rfl⟩ := hab
    exact gcdext_zero_zero l
  · exact gcdext_partial l a b (range_lt l hl.1 a ha) (range_lt l hl.1 b hb) hab
      (extTerminates_small l hl a b ha hb)

theorem invTerminates_small (l : Nat) (hl : 1 ≤ l ∧ l ≤ 5) (a b : Int)
    (ha : -(2 : Int) ^ (l - 1) ≤ a ∧ a ≤ (2 : Int) ^ (l - 1))
    (hb : -(2 : Int) ^ (l - 1) ≤ b ∧ b ≤ (2 : Int) ^ (l - 1))
    (hab : Int.gcd a b = 1) : InvTerminates l a b := by
  unfold InvTerminates invA invB
  by_cases hc : 1 - a % 2 = 1
  · simp only [if_pos hc]
    exact (divsteps_terminates_small l hl b a hb ha
      (Or.inl (odd_of_gcd_one_of_even hab (by omega)))).1
  · simp only [if_neg hc]
    exact (divsteps_terminates_small l hl a b ha hb (Or.inl (by omega))).1

/-- `inverse(a, b)·a ≡ 1 (mod b)` for all coprime `l`-bit inputs, `l ≤ 5` -/
theorem inverse_congr_small (l : Nat) (hl : 1 ≤ l ∧ l ≤ 5) (a b : Int)
    (ha : -(2 : Int) ^ (l - 1) ≤ a ∧ a ≤ (2 : Int) ^ (l - 1))
    (hb : -(2 : Int) ^ (l - 1) ≤ b ∧ b ≤ (2 : Int) ^ (l - 1))
    (hab : Int.gcd a b = 1) :
    (inverseModel l a b * a) % b = 1 % b :=
  inverse_congr_partial l a b hab (invTerminates_small l hl a b ha hb hab)

end MpycV.SecInt
