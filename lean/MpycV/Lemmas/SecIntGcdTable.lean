/-
M6 `SecInt`, gcd family: FINITE TABLES (kernel evaluation, `decide +kernel`) for the bit lengths `l = 1..5`.

For every pair `(a, b)` with `-2^(l-1) ≤ a, b ≤ 2^(l-1)` the loop of `_gcd` (runtime.py:1936-1941), run for
`_iterations(l)` rounds, ends with `g = 0`, and every reduced-bit-length comparison
`sgn((delta-1-(i%2))/2, l=min(i,l).bit_length())` that is used (i.e. when `g` is odd) has its argument in range
(`gcdTableOk`); the same for `_divsteps` (runtime.py:1975-1983) with an odd first argument, or `a = b = 0`
(`divTableOk`).  These tables are NOT a proof of the Bernstein–Yang bound (Thm 11.2 of eprint 2019/266) for general
`l`; they confirm it for `l ≤ 5` only (`l = 6`: 4225 pairs x 22 rounds, the kernel needed more than 7 CPU minutes and
5 GB, not included).  Core Lean only.
-/
import MpycV.Model.SecInt

namespace MpycV.SecInt

/-! ### the tables -/

theorem gcd_table_1 : gcdTableOk 1 = true := by decide +kernel
theorem gcd_table_2 : gcdTableOk 2 = true := by decide +kernel
theorem gcd_table_3 : gcdTableOk 3 = true := by decide +kernel
theorem gcd_table_4 : gcdTableOk 4 = true := by decide +kernel
theorem gcd_table_5 : gcdTableOk 5 = true := by decide +kernel

theorem div_table_1 : divTableOk 1 = true := by decide +kernel
theorem div_table_2 : divTableOk 2 = true := by decide +kernel
theorem div_table_3 : divTableOk 3 = true := by decide +kernel
theorem div_table_4 : divTableOk 4 = true := by decide +kernel
theorem div_table_5 : divTableOk 5 = true := by decide +kernel

/-! ### what a table says, for any `l` -/

theorem gcdTableOk_spec (l : Nat) (hl : 1 ≤ l) (h : gcdTableOk l = true) (a b : Int)
    (ha : -(2 : Int) ^ (l - 1) ≤ a ∧ a ≤ (2 : Int) ^ (l - 1))
    (hb : -(2 : Int) ^ (l - 1) ≤ b ∧ b ≤ (2 : Int) ^ (l - 1)) :
    (gcdRaw l a b).2.1 = 0 ∧ (gcdRaw l a b).2.2 = true := by
  obtain ⟨k, rfl⟩ : ∃ k, l = k + 1 := ⟨l - 1, by omega⟩
  unfold gcdTableOk at h
  simp only [Nat.add_sub_cancel, List.all_eq_true, List.mem_range] at h ha hb
  have hpow : (2 : Nat) ^ (k + 1) = 2 * 2 ^ k := by rw [Nat.pow_succ]; omega
  have hcast : (((2 : Nat) ^ k : Nat) : Int) = (2 : Int) ^ k := by simp
  rw [hpow] at h
  generalize (2 : Int) ^ k = P at h ha hb hcast
  generalize (2 : Nat) ^ k = Q at h hcast
  have hi := h (a + P).toNat (by omega) (b + P).toNat (by omega)
  have ea : -P + (((a + P).toNat : Nat) : Int) = a := by omega
  have eb : -P + (((b + P).toNat : Nat) : Int) = b := by omega
  rw [ea, eb] at hi
  simp only [Bool.and_eq_true, beq_iff_eq] at hi
  exact hi

theorem divTableOk_spec (l : Nat) (hl : 1 ≤ l) (h : divTableOk l = true) (a b : Int)
    (ha : -(2 : Int) ^ (l - 1) ≤ a ∧ a ≤ (2 : Int) ^ (l - 1))
    (hb : -(2 : Int) ^ (l - 1) ≤ b ∧ b ≤ (2 : Int) ^ (l - 1))
    (hab : a % 2 = 1 ∨ (a = 0 ∧ b = 0)) :
    (divsteps l a b).g = 0 ∧ (divsteps l a b).ok = true := by
  obtain ⟨k, rfl⟩ : ∃ k, l = k + 1 := ⟨l - 1, by omega⟩
  unfold divTableOk at h
  simp only [Nat.add_sub_cancel, List.all_eq_true, List.mem_range] at h ha hb
  have hpow : (2 : Nat) ^ (k + 1) = 2 * 2 ^ k := by rw [Nat.pow_succ]; omega
  have hcast : (((2 : Nat) ^ k : Nat) : Int) = (2 : Int) ^ k := by simp
  rw [hpow] at h
  generalize (2 : Int) ^ k = P at h ha hb hcast
  generalize (2 : Nat) ^ k = Q at h hcast
  have hi := h (a + P).toNat (by omega) (b + P).toNat (by omega)
  have ea : -P + (((a + P).toNat : Nat) : Int) = a := by omega
  have eb : -P + (((b + P).toNat : Nat) : Int) = b := by omega
  rw [ea, eb] at hi
  rw [if_pos hab] at hi
  simp only [Bool.and_eq_true, beq_iff_eq] at hi
  exact hi

/-! ### termination for the small bit lengths -/

/-- `_gcd` terminates (final `g = 0`) and all reduced comparisons are in range, for `l ≤ 5` (finite table) -/
theorem gcd_terminates_small (l : Nat) (hl : 1 ≤ l ∧ l ≤ 5) (a b : Int)
    (ha : -(2 : Int) ^ (l - 1) ≤ a ∧ a ≤ (2 : Int) ^ (l - 1))
    (hb : -(2 : Int) ^ (l - 1) ≤ b ∧ b ≤ (2 : Int) ^ (l - 1)) :
    (gcdRaw l a b).2.1 = 0 ∧ (gcdRaw l a b).2.2 = true := by
  have h : l = 1 ∨ l = 2 ∨ l = 3 ∨ l = 4 ∨ l = 5 := by omega
  rcases h with rfl | rfl | rfl | rfl | rfl
  · exact gcdTableOk_spec 1 (by decide) gcd_table_1 a b ha hb
  · exact gcdTableOk_spec 2 (by decide) gcd_table_2 a b ha hb
  · exact gcdTableOk_spec 3 (by decide) gcd_table_3 a b ha hb
  · exact gcdTableOk_spec 4 (by decide) gcd_table_4 a b ha hb
  · exact gcdTableOk_spec 5 (by decide) gcd_table_5 a b ha hb

/-- `_divsteps` (first argument odd, or both zero) terminates and all reduced comparisons are in range, for
`l ≤ 5` (finite table) -/
theorem divsteps_terminates_small (l : Nat) (hl : 1 ≤ l ∧ l ≤ 5) (a b : Int)
    (ha : -(2 : Int) ^ (l - 1) ≤ a ∧ a ≤ (2 : Int) ^ (l - 1))
    (hb : -(2 : Int) ^ (l - 1) ≤ b ∧ b ≤ (2 : Int) ^ (l - 1))
    (hab : a % 2 = 1 ∨ (a = 0 ∧ b = 0)) :
    (divsteps l a b).g = 0 ∧ (divsteps l a b).ok = true := by
  have h : l = 1 ∨ l = 2 ∨ l = 3 ∨ l = 4 ∨ l = 5 := by omega
  rcases h with rfl | rfl | rfl | rfl | rfl
  · exact divTableOk_spec 1 (by decide) div_table_1 a b ha hb hab
  · exact divTableOk_spec 2 (by decide) div_table_2 a b ha hb hab
  · exact divTableOk_spec 3 (by decide) div_table_3 a b ha hb hab
  · exact divTableOk_spec 4 (by decide) div_table_4 a b ha hb hab
  · exact divTableOk_spec 5 (by decide) div_table_5 a b ha hb hab

end MpycV.SecInt
