/-
Bridge: the mirror of the translator output (Lemmas/CommSrcMirror.lean) equals the hand-written routing model
MpycV.Comm (Model/Comm.lean) definition by definition.
-/
import MpycV.Lemmas.CommSrcMirror

namespace MpycV.CommMirror
open MpycV.Comm

private theorem dne (x pid : Nat) : decide (x ≠ pid) = (x != pid) := by
  by_cases h : x = pid <;> simp [h]

private theorem dnn (x pid : Nat) : decide (¬ (x = pid)) = (x != pid) := dne x pid

private theorem deq (x pid : Nat) : decide (x = pid) = (x == pid) := by
  by_cases h : x = pid <;> simp [h]

private theorem filter_map_comp (f g : Nat → Nat) (pid : Nat) (l : List Nat) :
    ((l.map f).filter (fun p => decide (g p ≠ pid))).map g = (l.map (fun k => g (f k))).filter (· != pid) := by
  induction l with
  | nil => rfl
  | cons k l ih =>
    simp only [dne] at ih
    simp only [List.map_cons, List.filter_cons, dne]
    split
    · simp only [List.map_cons, ih]
    · exact ih

theorem transferMySenders_eq : @CommMirror.transferMySenders = @Comm.transferMySenders := rfl
theorem transferMyReceivers_eq : @CommMirror.transferMyReceivers = @Comm.transferMyReceivers := rfl

theorem dictMySenders_eq (pid : Nat) (d : List (Nat × List Nat)) :
    CommMirror.dictMySenders pid d = Comm.dictMySenders pid d := rfl

theorem dictMyReceivers_eq (pid : Nat) (d : List (Nat × List Nat)) :
    CommMirror.dictMyReceivers pid d = Comm.dictMyReceivers pid d := rfl

theorem arcsMySenders_eq (pid : Nat) (arcs : List (Nat × Nat)) :
    CommMirror.arcsMySenders pid arcs = Comm.arcsMySenders pid arcs := by
  unfold CommMirror.arcsMySenders Comm.arcsMySenders
  congr 1

theorem arcsMyReceivers_eq (pid : Nat) (arcs : List (Nat × Nat)) :
    CommMirror.arcsMyReceivers pid arcs = Comm.arcsMyReceivers pid arcs := by
  unfold CommMirror.arcsMyReceivers Comm.arcsMyReceivers
  congr 1

theorem transferSends_eq (pid : Nat) (l : List Nat) : CommMirror.transferSends pid l = Comm.transferSends pid l := by
  unfold CommMirror.transferSends Comm.transferSends
  apply List.filter_congr
  intro x _
  exact dne x pid

theorem transferRecvs_eq (pid : Nat) (l : List Nat) : CommMirror.transferRecvs pid l = Comm.transferRecvs pid l := by
  unfold CommMirror.transferRecvs Comm.transferRecvs
  apply List.filter_congr
  intro x _
  exact dnn x pid

theorem outSends_eq : @CommMirror.outSends = @Comm.outSends := rfl
theorem outRecvs_eq : @CommMirror.outRecvs = @Comm.outRecvs := rfl
theorem outPoints_eq : @CommMirror.outPoints = @Comm.outPoints := rfl

theorem reshSends_eq (m t pid uci : Nat) : CommMirror.reshSends m t pid uci = Comm.reshSends m t pid uci := by
  unfold CommMirror.reshSends Comm.reshSends
  split
  · apply List.filter_congr
    intro x _
    exact dne x pid
  · rfl

theorem reshRecvs_eq (m t pid uci : Nat) : CommMirror.reshRecvs m t pid uci = Comm.reshRecvs m t pid uci := by
  unfold CommMirror.reshRecvs Comm.reshRecvs
  exact filter_map_comp (fun k => uci + k) (fun p => p % m) pid _

theorem distSends_eq (m pid : Nat) (s : List Nat) : CommMirror.distSends m pid s = Comm.distSends m pid s := by
  unfold CommMirror.distSends Comm.distSends
  have h1 : s.filter (fun x => decide (x = pid)) = s.filter (· == pid) := by
    apply List.filter_congr; intro x _; exact deq x pid
  have h2 : (List.range m).filter (fun x => decide (¬ (x = pid))) = (List.range m).filter (· != pid) := by
    apply List.filter_congr; intro x _; exact dnn x pid
  rw [h1, h2]

theorem distRecvs_eq (pid : Nat) (s : List Nat) : CommMirror.distRecvs pid s = Comm.distRecvs pid s := by
  unfold CommMirror.distRecvs Comm.distRecvs
  apply List.filter_congr
  intro x _
  exact dnn x pid

end MpycV.CommMirror
