/-
Bridge, part: the translated `_degree`, `_to_int`, `_from_int` equal the model `GFpX.degree`, `toInt`, `fromInt`.
-/
import MpycV.Lemmas.GfpxSrcMirror
import MpycV.Lemmas.GfpxSrcLoops
import MpycV.Lemmas.GFpXInt

namespace MpycV.GfpxBridge
open MpycV.PyList MpycV.PyLoop MpycV.PyPoly MpycV.GFpX

theorem degree_eq (a : List Nat) : GfpxMirror.degree (up a) = .ok (GFpX.degree a) := by
  simp [GfpxMirror.degree, GFpX.degree]

theorem foldr_toInt_cast (p : Nat) (a : List Nat) :
    List.foldr (fun (x y : Int) => y * (p : Int) + x) 0 (up a) = ((toInt p a : Nat) : Int) := by
  unfold toInt
  induction a with
  | nil => rfl
  | cons x a ih => simp only [up_cons, List.foldr_cons, ih]; push_cast; ring

theorem to_int_eq (p : Nat) (a : List Nat) : GfpxMirror.to_int (p : Int) (up a) = .ok ((toInt p a : Nat) : Int) := by
  unfold GfpxMirror.to_int
  have key := pyFor_eq_foldl (ε := TErr) (fun (_ : Int) => True) (fun (s : Int) (ai : Int) => s * (p : Int) + ai)
    (fun it_ st_ => match it_, st_ with
      | ai, s =>
        let s := (s * (p : Int))
        let s := (s + ai)
        .ok s) (List.reverse (up a)) 0 trivial (fun s x _ _ => ⟨rfl, trivial⟩)
  dsimp only
  rw [key.1, List.foldl_reverse, foldr_toInt_cast]

/-- digit transformation of `_from_int` for negative arguments -/
def negDigit (p : Nat) (neg : Bool) (r : Nat) : Nat := if neg = true ∧ r ≠ 0 then p - r else r

theorem negDigit_cast (p : Nat) (neg : Bool) {r : Nat} (hr : r < p) :
    (if (neg = true ∧ ((r : Nat) : Int) ≠ 0) then ((p : Int) - (r : Int)) else (r : Int)) = ((negDigit p neg r : Nat) : Int) := by
  unfold negDigit
  by_cases hc : neg = true ∧ r ≠ 0
  · have hc' : neg = true ∧ ((r : Nat) : Int) ≠ 0 := ⟨hc.1, by exact_mod_cast hc.2⟩
    rw [if_pos hc', if_pos hc]; omega
  · have hc' : ¬ (neg = true ∧ ((r : Nat) : Int) ≠ 0) := by
      intro h'; exact hc ⟨h'.1, by exact_mod_cast h'.2⟩
    rw [if_neg hc', if_neg hc]

theorem from_int_loop (p : Nat) (hp : 1 < p) (neg : Bool) : ∀ (fuel n : Nat) (c : List Int), n < fuel →
    loop (σ := Int × List Int) (ρ := Empty) TErr.fuel (fun st_ => match st_ with
      | (a, c) =>
        if a ≠ 0 then
          let (a, r) := (a / (p : Int), a % (p : Int))
          let c := c ++ [(if (neg = true ∧ r ≠ 0) then ((p : Int) - r) else r)]
          .ok (.next (a, c))
        else
          .ok (.brk (a, c))) fuel ((n : Int), c)
      = .ok (.done (0, c ++ up ((Nat.digits p n).map (negDigit p neg)))) := by
  intro fuel
  induction fuel with
  | zero => intro n c h; omega
  | succ f ih =>
    intro n c h
    rw [loop]
    by_cases hn : n = 0
    · subst hn; simp
    · have hn' : (n : Int) ≠ 0 := by exact_mod_cast hn
      have hdiv : n / p < n := Nat.div_lt_self (Nat.pos_of_ne_zero hn) hp
      have hlt : n % p < p := Nat.mod_lt _ (by omega)
      have hf : n / p < f := by omega
      simp only [hn', ne_eq, not_false_eq_true, if_true]
      have e1 : (n : Int) / (p : Int) = ((n / p : Nat) : Int) := by push_cast; rfl
      have e2 : (n : Int) % (p : Int) = ((n % p : Nat) : Int) := by push_cast; rfl
      rw [e1, e2, negDigit_cast p neg hlt, ih (n / p) _ hf, Nat.digits_def' hp (Nat.pos_of_ne_zero hn)]
      simp only [List.map_cons, up_cons, List.append_assoc, List.singleton_append]

/-- `_from_int` of the pinned source = the model, for every integer -/
theorem from_int_eq (p : Nat) (hp : 1 < p) (z : Int) :
    GfpxMirror.from_int (p : Int) z = .ok (up (GFpX.fromInt p z)) := by
  unfold GfpxMirror.from_int GFpX.fromInt
  dsimp only
  generalize hneg : decide (z < 0) = neg
  obtain ⟨n, hn⟩ : ∃ n : Nat, (if neg = true then -z else z) = (n : Int) := by
    cases neg with
    | true => exact ⟨z.natAbs, by simp at hneg; rw [if_pos rfl]; omega⟩
    | false => exact ⟨z.natAbs, by simp at hneg; rw [if_neg (by simp)]; omega⟩
  have hnat : z.natAbs = n := by
    cases neg with
    | true => simp at hneg hn; omega
    | false => simp at hneg hn; omega
  rw [hn, Int.natAbs_natCast, from_int_loop p hp neg (n + 1) n [] (by omega)]
  simp only [onLoop, List.nil_append, digits_eq hp, hnat]
  congr 2
  cases neg with
  | true =>
    have hz : z < 0 := by simpa using hneg
    rw [if_pos hz]
    apply List.map_congr_left
    intro r _
    by_cases hr : r = 0 <;> simp [negDigit, hr]
  | false =>
    have hz : ¬ z < 0 := by simpa using hneg
    rw [if_neg hz]
    conv_rhs => rw [← List.map_id (Nat.digits p n)]
    apply List.map_congr_left
    intro r _
    simp [negDigit]

end MpycV.GfpxBridge
