/-
C23, source tie: the Lean definitions GENERATED from the current mpyc/gfpx.py by harness/py2lean_gfpx.py (MpycV.GfpxSrc,
regenerated on every run of `check.py C23` / `C24`; class `Polynomial`, coefficient lists as `List Int`) agree with the
hand-written model MpycV.Model.GFpX (on `List Nat`), about which the C23 theorems are proved.

Each `f_src_eq` has two steps:
  1. `GfpxSrc.f = GfpxMirror.f` by `rfl` — the mirror (Lemmas/GfpxSrcMirror.lean) is the translator output for the pinned
     source; `rfl` survives renaming of locals, reordering of independent assignments, comments; it fails as soon as the
     translated term changes (operand, index, bound, guard, a dropped strip, loop nesting, …);
  2. `GfpxMirror.f (up a) … = up (model …)` — proved once in Lemmas/GfpxSrcBridge*.lean (`up : List Nat → List Int`;
     in-place loops as folds with a length invariant, `while` loops by induction on the model's fuel, the index guards shown
     never to fire).
Preconditions are those of the class invariant: coefficients reduced (`WF p`, p prime) where the code relies on it.
`_is_irreducible`, `_next_irreducible`: PropsGen/C24Src.lean.  Not translated: `_lt` (walrus), string conversions,
`_reverse/_truncate/_deriv`, the public wrappers (type dispatch).  `BinaryPolynomial` (bitmasks, `b_*_src_eq` below):
`_degree, _sq, _mul, _mod, _divmod, _gcd, _gcdext, _invert` against the model MpycV.Model.BinPoly.
-/
import MpycV.Generated.GfpxSrc
import MpycV.Lemmas.GfpxSrcBridgePow
import MpycV.Lemmas.GfpxSrcBridgeBin

namespace MpycV.C23Src
open MpycV MpycV.GFpX MpycV.GfpxBridge MpycV.PyList

variable {p : ℕ}

theorem add_src_eq (p : ℕ) (a b : List ℕ) : GfpxSrc.add (p : Int) (up a) (up b) = .ok (up (GFpX.add p a b)) := by
  rw [show @GfpxSrc.add = @GfpxMirror.add from rfl]; exact add_eq p a b

theorem sub_src_eq (p : ℕ) (a : List ℕ) {b : List ℕ} (hb : Reduced p b) :
    GfpxSrc.sub (p : Int) (up a) (up b) = .ok (up (GFpX.sub p a b)) := by
  rw [show @GfpxSrc.sub = @GfpxMirror.sub from rfl]; exact sub_eq p a hb

theorem sq_src_eq (p : ℕ) (a : List ℕ) : GfpxSrc.sq (p : Int) (up a) = .ok (up (GFpX.sq p a)) := by
  rw [show @GfpxSrc.sq = @GfpxMirror.sq from rfl]; exact sq_eq p a

/-- `_mul` for two distinct objects (`a is b` false), including the zero-operand guard after the swap -/
theorem mul_src_eq (p : ℕ) (a b : List ℕ) :
    GfpxSrc.mul (p : Int) false (up a) (up b) = .ok (up (GFpX.mul p a b)) := by
  rw [show @GfpxSrc.mul = @GfpxMirror.mul from rfl]; exact mul_eq p a b

/-- `_mul` when `a is b`: the `_sq` path; by `C23.sq_eq_mul_self` the value does not depend on the identity test -/
theorem mul_same_src_eq (hp : 0 < p) (a : List ℕ) :
    GfpxSrc.mul (p : Int) true (up a) (up a) = GfpxSrc.mul (p : Int) false (up a) (up a) := by
  rw [show @GfpxSrc.mul = @GfpxMirror.mul from rfl, mul_same_eq, mul_eq, GFpX.sq_eq_mul_self hp]

theorem divmod_src_eq [Fact p.Prime] (a : List ℕ) {b : List ℕ} (hb : WF p b) :
    GfpxSrc.divmod (p : Int) (up a) (up b) = liftE (fun qr => (up qr.1, up qr.2)) (GFpX.divmod p a b) := by
  rw [show @GfpxSrc.divmod = @GfpxMirror.divmod from rfl]; exact divmod_eq p a hb

theorem mod_src_eq [Fact p.Prime] (a : List ℕ) {b : List ℕ} (hb : WF p b) :
    GfpxSrc.mod (p : Int) (up a) (up b) = liftE up (GFpX.mod p a b) := by
  rw [show @GfpxSrc.mod = @GfpxMirror.mod from rfl]; exact mod_eq p a hb

/-- `_mod(a, None)` (used by `_powmod` without modulus) returns `a` -/
theorem mod_N_src_eq (p : Int) (a : List Int) : GfpxSrc.mod_N p a = .ok a := by
  rw [show @GfpxSrc.mod_N = @GfpxMirror.mod_N from rfl]; exact mod_N_eq p a

theorem monic_src_eq [Fact p.Prime] {a : List ℕ} (ha : WF p a) :
    GfpxSrc.monic (p : Int) (up a) = .ok (up (GFpX.monic p a)) := by
  rw [show @GfpxSrc.monic = @GfpxMirror.monic from rfl]; exact monic_eq p ha

theorem monic_lc_src_eq [Fact p.Prime] {a : List ℕ} (ha : WF p a) :
    GfpxSrc.monic_lc (p : Int) (up a) = .ok (up (monicInv p a).1, ((monicInv p a).2 : Int)) := by
  rw [show @GfpxSrc.monic_lc = @GfpxMirror.monic_lc from rfl]; exact monic_lc_eq p ha

theorem gcd_src_eq [Fact p.Prime] {a b : List ℕ} (ha : WF p a) (hb : WF p b) :
    GfpxSrc.gcd (p : Int) (up a) (up b) = .ok (up (GFpX.gcd p a b)) := by
  rw [show @GfpxSrc.gcd = @GfpxMirror.gcd from rfl]; exact gcd_eq ha hb

theorem gcdext_src_eq [Fact p.Prime] {a b : List ℕ} (ha : WF p a) (hb : WF p b) :
    GfpxSrc.gcdext (p : Int) (up a) (up b) =
      .ok (up (GFpX.gcdext p a b).1, up (GFpX.gcdext p a b).2.1, up (GFpX.gcdext p a b).2.2) := by
  rw [show @GfpxSrc.gcdext = @GfpxMirror.gcdext from rfl]; exact gcdext_eq ha hb

theorem invert_src_eq [Fact p.Prime] {a b : List ℕ} (ha : WF p a) (hb : WF p b) :
    GfpxSrc.invert (p : Int) (up a) (up b) = liftE up (GFpX.invert p a b) := by
  rw [show @GfpxSrc.invert = @GfpxMirror.invert from rfl]; exact invert_eq ha hb

/-- `_powmod(a, n, modulus)` for every integer exponent (negative ones through `_invert`) -/
theorem powmod_src_eq [Fact p.Prime] {a m : List ℕ} (ha : WF p a) (hm : WF p m) (n : Int) :
    GfpxSrc.powmod (p : Int) (up a) n (up m) = liftE up (GFpX.powmod p a n (some m)) := by
  rw [show @GfpxSrc.powmod = @GfpxMirror.powmod from rfl]; exact powmod_eq ha hm n

/-- `_powmod(a, n)` (modulus None): ValueError for negative exponents -/
theorem powmod_N_src_eq [Fact p.Prime] {a : List ℕ} (ha : WF p a) (n : Int) :
    GfpxSrc.powmod_N (p : Int) (up a) n = liftE up (GFpX.powmod p a n none) := by
  rw [show @GfpxSrc.powmod_N = @GfpxMirror.powmod_N from rfl]; exact powmod_N_eq ha n

theorem degree_src_eq (a : List ℕ) : GfpxSrc.degree (up a) = .ok (GFpX.degree a) := by
  rw [show @GfpxSrc.degree = @GfpxMirror.degree from rfl]; exact degree_eq a

theorem to_int_src_eq (p : ℕ) (a : List ℕ) : GfpxSrc.to_int (p : Int) (up a) = .ok ((toInt p a : ℕ) : Int) := by
  rw [show @GfpxSrc.to_int = @GfpxMirror.to_int from rfl]; exact to_int_eq p a

theorem from_int_src_eq (hp : 1 < p) (z : Int) : GfpxSrc.from_int (p : Int) z = .ok (up (GFpX.fromInt p z)) := by
  rw [show @GfpxSrc.from_int = @GfpxMirror.from_int from rfl]; exact from_int_eq p hp z

/-- example of the chain source → model → theorem: the `divmod` of the CURRENT source satisfies the division algorithm -/
theorem divmod_src_spec [Fact p.Prime] {a b : List ℕ} (ha : WF p a) (hb : WF p b) (hbne : b ≠ []) :
    ∃ q r : List ℕ, GfpxSrc.divmod (p : Int) (up a) (up b) = .ok (up q, up r) ∧
      toPoly p a = toPoly p q * toPoly p b + toPoly p r ∧ r.length < b.length := by
  obtain ⟨h1, _, _, _, h5⟩ := divmodCore_spec ha hb hbne
  exact ⟨_, _, by rw [divmod_src_eq a hb]; simp [GFpX.divmod, hbne, liftE], h1, h5⟩

/-! ### class BinaryPolynomial (bitmasks) = the model MpycV.BinPoly, for all naturals -/

theorem b_degree_src_eq (a : ℕ) : GfpxSrc.b_degree (a : Int) = .ok (BinPoly.degree a) := by
  rw [show @GfpxSrc.b_degree = @GfpxMirror.b_degree from rfl]; exact b_degree_eq a

theorem b_sq_src_eq (a : ℕ) : GfpxSrc.b_sq (a : Int) = .ok ((BinPoly.sq a : ℕ) : Int) := by
  rw [show @GfpxSrc.b_sq = @GfpxMirror.b_sq from rfl]; exact b_sq_eq a

theorem b_mul_src_eq (a b : ℕ) : GfpxSrc.b_mul (a : Int) (b : Int) = .ok ((BinPoly.mul a b : ℕ) : Int) := by
  rw [show @GfpxSrc.b_mul = @GfpxMirror.b_mul from rfl]; exact b_mul_eq a b

theorem b_mod_src_eq (a b : ℕ) :
    GfpxSrc.b_mod (a : Int) (b : Int) = liftE (fun (x : ℕ) => (x : Int)) (BinPoly.mod a b) := by
  rw [show @GfpxSrc.b_mod = @GfpxMirror.b_mod from rfl]; exact b_mod_eq a b

theorem b_divmod_src_eq (a b : ℕ) : GfpxSrc.b_divmod (a : Int) (b : Int) =
    liftE (fun (qr : ℕ × ℕ) => ((qr.1 : Int), (qr.2 : Int))) (BinPoly.divmod a b) := by
  rw [show @GfpxSrc.b_divmod = @GfpxMirror.b_divmod from rfl]; exact b_divmod_eq a b

theorem b_gcd_src_eq (a b : ℕ) : GfpxSrc.b_gcd (a : Int) (b : Int) = .ok ((BinPoly.gcd a b : ℕ) : Int) := by
  rw [show @GfpxSrc.b_gcd = @GfpxMirror.b_gcd from rfl]; exact b_gcd_eq a b

theorem b_gcdext_src_eq (a b : ℕ) : GfpxSrc.b_gcdext (a : Int) (b : Int) =
    .ok (((BinPoly.gcdext a b).1 : Int), ((BinPoly.gcdext a b).2.1 : Int), ((BinPoly.gcdext a b).2.2 : Int)) := by
  rw [show @GfpxSrc.b_gcdext = @GfpxMirror.b_gcdext from rfl]; exact b_gcdext_eq a b

theorem b_invert_src_eq (a b : ℕ) :
    GfpxSrc.b_invert (a : Int) (b : Int) = liftE (fun (x : ℕ) => (x : Int)) (BinPoly.invert a b) := by
  rw [show @GfpxSrc.b_invert = @GfpxMirror.b_invert from rfl]; exact b_invert_eq a b

end MpycV.C23Src
