/-
C15, source tie: `_f_S_i`, `pseudorandom_share`, `pseudorandom_share_zero` GENERATED from the current mpyc/thresha.py
(MpycV.ThreshaSrc, see PropsGen/C12Src.lean for the method) equal the model's `fSi`, `prssShare`, `prssZero` on the
integer operations `intModP p` (homomorphic image of `ZMod p`: `C12Src.intModP_hom`), about which the C15 theorems are
proved.  The PRF outputs of each subset are an explicit parameter (`prf_S(uci, k)` = the first k of them).
-/
import MpycV.Generated.ThreshaSrc
import MpycV.Lemmas.ThreshaSrcBridgePrss

namespace MpycV.C15Src
open MpycV MpycV.Thresha MpycV.PyList

/-- `_f_S_i` of the current source = the model's `fSi` -/
theorem f_S_i_src_eq (p : ℕ) [Fact p.Prime] (m i : ℕ) (S : List ℕ) (v : List Int)
    (hE : recombVecE (intModP p) ((intModP p).ofNat 0 :: (outside m S).map fun x => (intModP p).ofNat (x + 1))
      ((intModP p).ofNat (i + 1)) = .ok v) :
    ThreshaSrc.f_S_i p (m : Int) (i : Int) (S.map (Nat.cast : ℕ → Int)) = .ok (fSi (intModP p) m i S) := by
  rw [show @ThreshaSrc.f_S_i = @ThreshaMirror.f_S_i from rfl]
  exact f_S_i_eq p m i S v hE

/-- `pseudorandom_share` of the current source (PRF outputs as parameter) = the model's `prssShare` -/
theorem pseudorandom_share_src_eq (p : ℕ) [Fact p.Prime] (m i n : ℕ) (prfs : List (List ℕ × List Int))
    (hE : ∀ Sp ∈ prfs, ∃ v, recombVecE (intModP p)
      ((intModP p).ofNat 0 :: (outside m Sp.1).map fun x => (intModP p).ofNat (x + 1))
      ((intModP p).ofNat (i + 1)) = .ok v)
    (hlen : ∀ Sp ∈ prfs, n ≤ Sp.2.length) :
    ThreshaSrc.pseudorandom_share p (m : Int) (i : Int)
        (prfs.map fun Sp => (Sp.1.map (Nat.cast : ℕ → Int), Sp.2)) (n : Int)
      = .ok (prssShare (intModP p) m i prfs n) := by
  rw [show @ThreshaSrc.pseudorandom_share = @ThreshaMirror.pseudorandom_share from rfl]
  exact pseudorandom_share_eq p m i n prfs hE hlen

/-- `pseudorandom_share_zero` of the current source = the model's `prssZero` -/
theorem pseudorandom_share_zero_src_eq (p : ℕ) [Fact p.Prime] (m i n : ℕ) (prfs : List (List ℕ × List Int))
    (hE : ∀ Sp ∈ prfs, ∃ v, recombVecE (intModP p)
      ((intModP p).ofNat 0 :: (outside m Sp.1).map fun x => (intModP p).ofNat (x + 1))
      ((intModP p).ofNat (i + 1)) = .ok v)
    (hS : ∀ Sp ∈ prfs, Sp.1.length ≤ m)
    (hlen : ∀ Sp ∈ prfs, n * (m - Sp.1.length) ≤ Sp.2.length) :
    ThreshaSrc.pseudorandom_share_zero p (m : Int) (i : Int)
        (prfs.map fun Sp => (Sp.1.map (Nat.cast : ℕ → Int), Sp.2)) (n : Int)
      = .ok (prssZero (intModP p) m i prfs n) := by
  rw [show @ThreshaSrc.pseudorandom_share_zero = @ThreshaMirror.pseudorandom_share_zero from rfl]
  exact pseudorandom_share_zero_eq p m i n prfs hE hS hlen

end MpycV.C15Src
