/-
C29, theorems about the comparator networks EXTRACTED from the running code
(`MpycV.Generated.SortNet`, rewritten by harness/props/c29.py on every run).

* `extracted_nets_sort_all_01`: for every n = 2..24 the comparator sequence really executed by
  `Runtime._sort` sorts all 2^n 0-1 inputs (one bit-sliced kernel evaluation per n), hence by the
  0-1 principle every input — no model in between (`extracted_sorts_every_input`).
* `extracted_eq_model`: the model network `sortNet n` is the executed one for n = 2..32 (the Lean
  driver comparison in harness/props/c29.py extends this to n ≤ 64).
* `seclist_and_np_same_network`: `seclist.sort` and `np_sort` use the same comparator positions.
* `sorted_correct_le_bound`, `np_sorted_correct_le_bound`: the model functions are correct for n ≤ 24.
* `sortNet_sorts_partial`: Batcher's theorem is available only for n ≤ 24 (see the comment there).
-/
import MpycV.Props.C29
import MpycV.Generated.SortNet

namespace MpycV.C29Gen
open MpycV.Sort MpycV.Generated.SortNet

variable {α κ : Type}

/-- the extracted comparator sequence for length n (`[]` if n was not extracted) -/
def netOf (n : Nat) : Net :=
  match sortNets.find? (fun p => p.1 == n) with
  | some p => p.2
  | none => []

def hasNet (n : Nat) : Bool := (sortNets.find? (fun p => p.1 == n)).isSome

/-- the tracer recognised every operation of `_sort` as a compare-exchange -/
theorem extraction_ok : extractionOk = true := by decide

/-- lengths covered: 2..32, and the proved range is 2..24 -/
theorem extraction_covers :
    (List.range' 2 (boundModel - 1)).all hasNet = true ∧ bound01 = 24 ∧ boundModel = 32 := by
  decide +kernel

/-- kernel check: each executed network (n = 2..24) sorts all 2^n 0-1 inputs -/
theorem extracted_nets_sort_all_01 :
    sortNets.all (fun p => decide (bound01 < p.1) || sortsAll01 p.1 p.2) = true := by
  decide +kernel

/-- kernel check: the model network is the executed network, n = 2..32 -/
theorem extracted_eq_model : sortNets.all (fun p => p.2 == sortNet p.1) = true := by
  decide +kernel

/-- `seclist.sort` compares, and `np_sort` updates, exactly the positions of `_sort`'s network
(n = 2..24) -/
theorem seclist_and_np_same_network :
    seclistNets.all (fun p => p.2 == netOf p.1) = true ∧ npNets.all (fun p => p.2 == netOf p.1) = true ∧
    seclistNets.map (·.1) = List.range' 2 (bound01 - 1) ∧ npNets.map (·.1) = List.range' 2 (bound01 - 1) := by
  decide +kernel

theorem netOf_mem {n : Nat} (h : hasNet n = true) : (n, netOf n) ∈ sortNets := by
  unfold hasNet at h
  unfold netOf
  cases hf : sortNets.find? (fun p => p.1 == n) with
  | none => rw [hf] at h; exact Bool.noConfusion h
  | some p =>
    have h1 := List.find?_some hf
    have h2 := List.mem_of_find?_eq_some hf
    simp only [beq_iff_eq] at h1
    simp only
    rw [← h1]; exact h2

theorem hasNet_of_bounds {n : Nat} (h2 : 2 ≤ n) (hn : n ≤ 32) : hasNet n = true := by
  have hmem : n ∈ List.range' 2 (boundModel - 1) := by
    rw [List.mem_range']
    exact ⟨n - 2, by simp [boundModel]; omega, by omega⟩
  exact List.all_eq_true.mp extraction_covers.1 n hmem

theorem netOf_sorts01 {n : Nat} (h2 : 2 ≤ n) (hn : n ≤ 24) : Sorts01 n (netOf n) := by
  have hmem := netOf_mem (hasNet_of_bounds h2 (by omega))
  have h := List.all_eq_true.mp extracted_nets_sort_all_01 _ hmem
  simp only [Bool.or_eq_true] at h
  rcases h with h | h
  · have h' : bound01 < n := of_decide_eq_true h
    simp only [bound01] at h'; omega
  · exact sorts01_of_sortsAll01 h

theorem netOf_eq_sortNet {n : Nat} (h2 : 2 ≤ n) (hn : n ≤ 32) : netOf n = sortNet n := by
  have hmem := netOf_mem (hasNet_of_bounds h2 hn)
  have h := List.all_eq_true.mp extracted_eq_model _ hmem
  simpa using h

/-- the executed network for n = 2..24 sorts EVERY input of that length by key (any linear order, ties
allowed, either comparison direction) and outputs a permutation — no model network involved. -/
theorem extracted_sorts_every_input [LinearOrder κ] {n : Nat} (h2 : 2 ≤ n) (hn : n ≤ 24)
    {keep : α → α → Bool} {key : α → κ} (hk : KeepOk keep key) (x : List α) (hx : x.length = n) :
    ((run keep (netOf n) x).map key).Pairwise (· ≤ ·) ∧ (run keep (netOf n) x).Perm x :=
  Sort.zero_one_principle (netOf_sorts01 h2 hn) hk x hx

example : KeepOk (fun a b : Int => decide (a < b)) (fun a => a) := keepOk_of_ltOk (fun _ _ => by simp)

/-- PARTIAL.  Full statement (Batcher's merge-exchange theorem, Knuth TAOCP 5.2.2M):
`∀ n, 2 ≤ n → Sorts01 n (sortNet n)`.  Proved here only for n ≤ 24, by kernel evaluation of all 2^n
0-1 inputs of the network extracted from the code, which equals `sortNet n`.  Missing: the inductive
argument for general n; for 24 < n ≤ 32 (kernel) / 64 (driver) the model network is only known to be the executed one. -/
theorem sortNet_sorts_partial {n : Nat} (h2 : 2 ≤ n) (hn : n ≤ 24) : Sorts01 n (sortNet n) := by
  rw [← netOf_eq_sortNet h2 (by omega)]; exact netOf_sorts01 h2 hn

example : (2 : Nat) ≤ 17 ∧ 17 ≤ 24 := by decide

/-- `sorted` / `seclist.sort` on lists of length ≤ 24: permutation of the input in ascending
(reverse: descending) key order. -/
theorem sorted_correct_le_bound [LinearOrder κ] {lt : α → α → Bool} {key : α → κ} (hlt : LtOk lt key)
    (x : List α) (hn : x.length ≤ 24) (reverse : Bool) :
    (sorted lt x reverse).Perm x ∧
    (if reverse then ((sorted lt x reverse).map key).Pairwise (· ≥ ·)
     else ((sorted lt x reverse).map key).Pairwise (· ≤ ·)) :=
  C29.sorted_correct_of_sorts01 hlt x (fun h2 => sortNet_sorts_partial h2 hn) reverse

/-- `np_sort` on arrays of length ≤ 24 -/
theorem np_sorted_correct_le_bound [LinearOrder κ] {lt : α → α → Bool} {key : α → κ} (hlt : LtOk lt key)
    (x : List α) (hn : x.length ≤ 24) :
    (npSorted lt x).Perm x ∧ ((npSorted lt x).map key).Pairwise (· ≤ ·) :=
  C29.np_sorted_correct_of_sorts01 hlt x (fun h2 => sortNet_sorts_partial h2 hn)

example : ([5, 3, 9, 3] : List Int).length ≤ 24 := by decide

end MpycV.C29Gen
