/-
C12 (and C13/C15), source tie: the Lean definitions GENERATED from the current mpyc/thresha.py by
harness/py2lean_thresha.py (MpycV.ThreshaSrc, regenerated on every run of `check.py C12`; prime fields, field elements
as integers mod p) agree with the hand-written model MpycV.Model.Thresha, about which the C12/C13/C15 theorems are proved.

Each `f_src_eq` has two steps:
  1. `ThreshaSrc.f = ThreshaMirror.f` by `rfl` — the mirror (Lemmas/ThreshaSrcMirror.lean) is the translator output for the
     pinned source; `rfl` survives renaming of locals, reordering of independent assignments, comments; it fails as soon as
     the translated term changes (operand, index, range bound, guard, loop nesting, …);
  2. `ThreshaMirror.f = model` on the operations `intModP p` (integers mod p, division through the gmpy stub `invert`) —
     proved once in Lemmas/ThreshaSrcBridge*.lean (loop invariants as sequences of states); `intModP_hom` maps these
     operations onto `ZMod p`, so that the field-level theorems of C12/C15 apply to the translated source
     (`*_src_*` corollaries below, e.g. `split_recombine_src`).
The preconditions of the `_src_eq` theorems are exactly those under which the Python code runs without exception (at
least one point, share vectors long enough, enough randomness / PRF outputs, nodes distinct mod p).
`_f_S_i`, `pseudorandom_share`, `pseudorandom_share_zero`: PropsGen/C15Src.lean; `random_split` also in PropsGen/C13Src.lean.
Not translated: np_ variants, PRF.  Extension fields are outside this tie (differential correspondence only).
-/
import MpycV.Generated.ThreshaSrc
import MpycV.Lemmas.ThreshaSrcBridgeModel
import MpycV.Props.C12

namespace MpycV.C12Src
open MpycV MpycV.Thresha MpycV.PyList Polynomial

/-! ### the translated source = the model (on `intModP p`) -/

/-- `_recombination_vector` of the current source = the model's `recombVecE` (incl. the ZeroDivisionError branch) -/
theorem recombination_vector_src_eq (p : ℕ) [Fact p.Prime] (xs : List Int) (xr : Int) :
    ThreshaSrc.recombination_vector p xs xr =
      match recombVecE (intModP p) (xs.map fun x => x % (p : Int)) (xr % (p : Int)) with
      | .ok v => .ok v
      | .error _ => .error .zeroDivisionError := by
  rw [show @ThreshaSrc.recombination_vector = @ThreshaMirror.recombination_vector from rfl]
  exact recombination_vector_eq p xs xr

/-- `random_split` of the current source (draws read from `stream`) = the model's `randomSplit` -/
theorem random_split_src_eq (p : ℕ) [Fact p.Prime] (isField : Bool) (s : List Int) (t m : Int)
    (stream : List Int) (hs : s ≠ []) (hguard : t = 0 ∨ m < (p : Int))
    (hlen : t.toNat * s.length ≤ stream.length)
    (hrange : ∀ v ∈ stream.take (t.toNat * s.length), 0 ≤ v ∧ v < (p : Int)) :
    ThreshaSrc.random_split p isField s t m stream
      = .ok (randomSplit (intModP p) s stream t.toNat m.toNat) := by
  rw [show @ThreshaSrc.random_split = @ThreshaMirror.random_split from rfl]
  exact random_split_eq p isField s t m stream hs hguard hlen hrange

/-- `recombine` (single point) of the current source: `res % p` is the model's `recombine1` (equal if `isField`) -/
theorem recombine_one_src_eq (p : ℕ) [Fact p.Prime] (isField : Bool) (points : List (Int × List Int)) (x_r : Int)
    (hpts : points ≠ []) (N : ℕ) (hN : (pyGet (points.map Prod.snd) 0).length = N) (hN0 : 0 < N)
    (hrows : ∀ sh ∈ points.map Prod.snd, N ≤ sh.length) (v : List Int)
    (hE : recombVecE (intModP p) ((points.map Prod.fst).map fun x => x % (p : Int)) (x_r % (p : Int)) = .ok v) :
    ∃ res, ThreshaSrc.recombine_one p isField points x_r = .ok res ∧
      res.map (fun x => x % (p : Int))
        = recombine1 (intModP p) ((points.map Prod.fst).map fun x => x % (p : Int)) (points.map Prod.snd)
            (x_r % (p : Int)) ∧
      (isField = true → res = recombine1 (intModP p) ((points.map Prod.fst).map fun x => x % (p : Int))
            (points.map Prod.snd) (x_r % (p : Int))) := by
  rw [show @ThreshaSrc.recombine_one = @ThreshaMirror.recombine_one from rfl]
  exact recombine_one_eq p isField points x_r hpts N hN hN0 hrows v hE

/-- `recombine` (list of points) of the current source -/
theorem recombine_list_src_eq (p : ℕ) [Fact p.Prime] (isField : Bool) (points : List (Int × List Int))
    (x_rs : List Int) (hpts : points ≠ []) (N : ℕ) (hN : (pyGet (points.map Prod.snd) 0).length = N) (hN0 : 0 < N)
    (hrows : ∀ sh ∈ points.map Prod.snd, N ≤ sh.length)
    (hE : ∀ xr ∈ x_rs, ∃ v,
      recombVecE (intModP p) ((points.map Prod.fst).map fun x => x % (p : Int)) (xr % (p : Int)) = .ok v) :
    ∃ res, ThreshaSrc.recombine_list p isField points x_rs = .ok res ∧
      res.map (List.map fun x => x % (p : Int))
        = recombine (intModP p) ((points.map Prod.fst).map fun x => x % (p : Int)) (points.map Prod.snd)
            (x_rs.map fun x => x % (p : Int)) ∧
      (isField = true → res = recombine (intModP p) ((points.map Prod.fst).map fun x => x % (p : Int))
            (points.map Prod.snd) (x_rs.map fun x => x % (p : Int))) := by
  rw [show @ThreshaSrc.recombine_list = @ThreshaMirror.recombine_list from rfl]
  exact recombine_list_eq p isField points x_rs hpts N hN hN0 hrows hE

/-! ### from `intModP p` to `ZMod p`: the C12 theorems apply to the translated source -/

/-- the operations of the translated source are a homomorphic image of `ZMod p` -/
theorem intModP_hom (p : ℕ) [Fact p.Prime] : IsHom (intModP p) (Int.cast : Int → ZMod p) := intModP_isHom p

/-- nodes that are distinct mod p: no ZeroDivisionError, the vector is the model's -/
theorem recombVecE_intModP_ok (p : ℕ) [Fact p.Prime] (xs : List Int) (xr : Int)
    (hnd : (xs.map (Int.cast : Int → ZMod p)).Nodup) :
    recombVecE (intModP p) xs xr = .ok (recombVec (intModP p) xs xr) := by
  classical
  have hF := C12.recombVecE_ok (F := ZMod p) (fun n => (((intModP p).ofNat n : Int) : ZMod p)) hnd
    ((xr : Int) : ZMod p)
  unfold recombVecE at hF ⊢
  split at hF
  · cases hF
  · rename_i hany
    rw [if_neg]
    intro hany'
    apply hany
    simp only [List.any_eq_true, decide_eq_true_eq] at hany' ⊢
    obtain ⟨xi, hxi, hd⟩ := hany'
    refine ⟨((xi.1 : Int), xi.2), ?_, ?_⟩
    · rw [List.zipIdx_map]
      exact List.mem_map.2 ⟨xi, hxi, rfl⟩
    · have := map_recombND (intModP_isHom p) xs xr xi.1 xi.2
      have h2 := congrArg Prod.snd this
      simp only [Prod.map_snd] at h2
      show (recombND (imageOps (intModP p) (Int.cast : Int → ZMod p)) _ _ _ _).2 = 0
      rw [← h2, hd]
      simp [intModP]

/-- ★ the translated `_recombination_vector` computes the Lagrange basis values (in `ZMod p`) -/
theorem recombination_vector_src_lagrange (p : ℕ) [Fact p.Prime] (xs : List Int) (xr : Int)
    (hnd : (xs.map (Int.cast : Int → ZMod p)).Nodup) :
    ∃ v, ThreshaSrc.recombination_vector p xs xr = .ok v ∧
      v.map (Int.cast : Int → ZMod p) = (List.range xs.length).map fun i =>
        (Lagrange.basis (Finset.range xs.length) (node (xs.map (Int.cast : Int → ZMod p))) i).eval (xr : ZMod p) := by
  have hnd' : ((xs.map fun x => x % (p : Int)).map (Int.cast : Int → ZMod p)).Nodup := by
    rw [List.map_map]
    have : ((Int.cast : Int → ZMod p) ∘ fun x => x % (p : Int)) = (Int.cast : Int → ZMod p) := by
      funext x; simp [ZMod.intCast_mod]
    rw [this]; exact hnd
  have hok := recombVecE_intModP_ok p (xs.map fun x => x % (p : Int)) (xr % (p : Int)) hnd'
  refine ⟨_, by rw [recombination_vector_src_eq, hok], ?_⟩
  rw [map_recombVec (intModP_isHom p)]
  have := Thresha.recombVec_eq_lagrange (F := ZMod p) (fun n => (((intModP p).ofNat n : Int) : ZMod p))
    ((xs.map fun x => x % (p : Int)).map (Int.cast : Int → ZMod p)) (((xr % (p : Int) : Int)) : ZMod p)
  rw [show imageOps (intModP p) (Int.cast : Int → ZMod p)
    = fieldOps (ZMod p) (fun n => (((intModP p).ofNat n : Int) : ZMod p)) from rfl, this]
  have e : (xs.map fun x => x % (p : Int)).map (Int.cast : Int → ZMod p) = xs.map (Int.cast : Int → ZMod p) := by
    rw [List.map_map]; apply List.map_congr_left; intro x _; simp [ZMod.intCast_mod]
  rw [e, ZMod.intCast_mod]
  simp

lemma map_cast_inj_int (p : ℕ) [Fact p.Prime] : ∀ {a b : List Int},
    (∀ x ∈ a, 0 ≤ x ∧ x < (p : Int)) → (∀ x ∈ b, 0 ≤ x ∧ x < (p : Int)) →
    a.map (Int.cast : Int → ZMod p) = b.map Int.cast → a = b
  | [], [], _, _, _ => rfl
  | [], _ :: _, _, _, h => by simp at h
  | _ :: _, [], _, _, h => by simp at h
  | x :: a, y :: b, ha, hb, h => by
    simp only [List.map_cons, List.cons.injEq] at h
    have hx := ha x (by simp)
    have hy := hb y (by simp)
    have e : x = y := by
      have := emod_eq_of_cast p h.1
      rwa [Int.emod_eq_of_lt hx.1 hx.2, Int.emod_eq_of_lt hy.1 hy.2] at this
    rw [e, map_cast_inj_int p (fun z hz => ha z (List.mem_cons_of_mem _ hz))
      (fun z hz => hb z (List.mem_cons_of_mem _ hz)) h.2]

lemma recombine1_intModP_range (p : ℕ) (hp0 : 0 < (p : Int)) (xs : List Int) (shares : List (List Int)) (xr : Int) :
    ∀ x ∈ recombine1 (intModP p) xs shares xr, 0 ≤ x ∧ x < (p : Int) := by
  intro x hx
  unfold recombine1 recombine at hx
  simp only [List.map_cons, List.map_nil, List.headD_cons] at hx
  obtain ⟨k, _, rfl⟩ := List.mem_map.1 hx
  exact dot_intModP_range p hp0 _ _

lemma imageOps_intModP (p : ℕ) [Fact p.Prime] :
    imageOps (intModP p) (Int.cast : Int → ZMod p) = fieldOps (ZMod p) (embP p) := by
  show fieldOps (ZMod p) _ = _
  congr 1
  funext n
  simp [intModP, embP, ZMod.intCast_mod, ZMod.natCast_mod]

/-- ★ end to end on the TRANSLATED SOURCE (prime field GF(p), m < p parties): the shares produced by the current
`random_split` (any secrets, any threshold t, any coefficient stream in range), taken from any more than t distinct
parties in any order and handed to the current `recombine` at x = 0, give back the secrets (mod p). -/
theorem split_recombine_src (p : ℕ) [Fact p.Prime] (isField isField' : Bool) (s : List Int) (t : Int) (m : ℕ)
    (hm : m < p) (stream : List Int) (hs : s ≠ []) (hlen : t.toNat * s.length ≤ stream.length)
    (hrange : ∀ v ∈ stream.take (t.toNat * s.length), 0 ≤ v ∧ v < (p : Int))
    (ps : List ℕ) (hps : ps.Nodup) (hpm : ∀ i ∈ ps, i < m) (ht : t.toNat < ps.length) :
    ∃ shares res, ThreshaSrc.random_split p isField s t (m : Int) stream = .ok shares ∧
      ThreshaSrc.recombine_one p isField' (ps.map fun i => (((i + 1 : ℕ) : Int), shares.getD i [])) 0 = .ok res ∧
      res.map (fun x => x % (p : Int)) = s.map (fun x => x % (p : Int)) := by
  have hp0 : 0 < (p : Int) := by exact_mod_cast (Fact.out : p.Prime).pos
  have hsplit := random_split_src_eq p isField s t (m : Int) stream hs (Or.inr (by exact_mod_cast hm)) hlen hrange
  rw [Int.toNat_natCast] at hsplit
  set shares := randomSplit (intModP p) s stream t.toNat m with hshares
  refine ⟨shares, ?_⟩
  set points := ps.map fun i => (((i + 1 : ℕ) : Int), shares.getD i []) with hpoints
  have hne : ps ≠ [] := by rintro rfl; simp at ht
  have hfst : points.map Prod.fst = ps.map fun i => ((i + 1 : ℕ) : Int) := by
    simp [hpoints, Function.comp_def]
  have hsnd : points.map Prod.snd = ps.map fun i => shares.getD i [] := by
    simp [hpoints, Function.comp_def]
  have hrow : ∀ i ∈ ps, (shares.getD i []).length = s.length := by
    intro i hi
    rw [hshares, randomSplit_row _ s stream t.toNat m (hpm i hi)]; simp
  obtain ⟨p0, ps', rfl⟩ := List.exists_cons_of_ne_nil hne
  have hN : (pyGet (points.map Prod.snd) 0).length = s.length := by
    rw [hsnd]
    have e := pyGet_nat (List.map (fun i => shares.getD i []) (p0 :: ps')) (k := 0) (by simp)
    simp only [Nat.cast_zero] at e
    rw [e]
    simpa using hrow p0 (by simp)
  have hrows : ∀ sh ∈ points.map Prod.snd, s.length ≤ sh.length := by
    rw [hsnd]
    intro sh hsh
    obtain ⟨i, hi, rfl⟩ := List.mem_map.1 hsh
    exact (hrow i hi).ge
  have hnodes : (((points.map Prod.fst).map fun x => x % (p : Int)).map (Int.cast : Int → ZMod p))
      = (p0 :: ps').map fun i => embP p (i + 1) := by
    rw [hfst, List.map_map, List.map_map]
    apply List.map_congr_left
    intro i _
    simp [embP, ZMod.intCast_mod, ZMod.natCast_mod]
  have hnd : (((points.map Prod.fst).map fun x => x % (p : Int)).map (Int.cast : Int → ZMod p)).Nodup := by
    rw [hnodes]
    exact nodup_map_emb (embP_injOn p hm) hps hpm
  have hE := recombVecE_intModP_ok p ((points.map Prod.fst).map fun x => x % (p : Int)) (0 % (p : Int)) hnd
  obtain ⟨res, hres, hmod, _⟩ := recombine_one_src_eq p isField' points 0 (by simp [hpoints]) s.length hN
    (List.length_pos_iff.2 hs) hrows _ hE
  refine ⟨res, hsplit, hres, ?_⟩
  rw [hmod]
  apply map_cast_inj_int p
  · exact recombine1_intModP_range p hp0 _ _ _
  · intro x hx
    obtain ⟨y, _, rfl⟩ := List.mem_map.1 hx
    exact ⟨Int.emod_nonneg _ (by omega), Int.emod_lt_of_pos _ hp0⟩
  · rw [map_recombine1 (intModP_isHom p), imageOps_intModP, hnodes, hsnd, List.map_map]
    have h2 : ((p0 :: ps').map (List.map (Int.cast : Int → ZMod p) ∘ fun i => shares.getD i []))
        = (p0 :: ps').map fun i => (randomSplit (fieldOps (ZMod p) (embP p)) (s.map Int.cast)
            (stream.map Int.cast) t.toNat m).getD i [] := by
      apply List.map_congr_left
      intro i _
      simp only [Function.comp]
      rw [getD_map_nil, hshares, map_randomSplit (intModP_isHom p), imageOps_intModP]
    rw [h2]
    have hz : (((0 % (p : Int) : Int)) : ZMod p) = embP p 0 := by simp [embP]
    rw [hz, recombine_randomSplit_zero (embP p) (embP_zero p) (embP_injOn p hm) _ _ t.toNat hps hpm ht, List.map_map]
    apply List.map_congr_left
    intro x _
    simp [ZMod.intCast_mod]

end MpycV.C12Src
