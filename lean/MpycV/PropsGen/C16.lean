/-
C16 — kernel-checked statements about the key tables extracted from real `Runtime` objects after
real handshakes run in the simulator (lean/MpycV/Generated/Keys.lean is regenerated from /repo on
every run by harness/props/c16.py).  `tableOK_sound` (MpycV.C16) turns the decidable check into the
property statement.
-/
import MpycV.Generated.Keys
import MpycV.Props.C16

namespace MpycV.C16Gen
open MpycV.Comb MpycV.Generated.Keys

/-- every extracted table: each party holds exactly the subsets it belongs to, and every key held
equals the key held by the subset's lowest member -/
theorem extracted_tables_ok : tables.all (fun x => tableOK x.1 x.2.1 x.2.2) = true := by
  decide +kernel

/-- the model, replaying the recorded tokens and handshake events (completion order, chunk cuts),
yields exactly the extracted tables -/
theorem extracted_runs_match_model :
    runs.all (fun r => decide (modelTable r.1 r.2.1 r.2.2.1 r.2.2.2.1 = r.2.2.2.2)) = true := by
  decide +kernel

/-- no required configuration is missing from the extraction -/
theorem extracted_configs_cover :
    required.all (fun c => tables.any fun x => x.1 == c.1 && x.2.1 == c.2) = true
      ∧ required.length ≥ 11 := by
  decide +kernel

/-- the property statement for every extracted table (via `tableOK_sound`) -/
theorem extracted_tables_property (x : Nat × Nat × List (List (Subset × Nat))) (hx : x ∈ tables)
    (i : Nat) (hi : i < x.1) :
    (∀ s, s ∈ (x.2.2.getD i []).map (·.1) ↔ s ∈ subsets x.1 x.2.1 ∧ i ∈ s) ∧
    (∀ e ∈ x.2.2.getD i [], lookupN (x.2.2.getD (hd e.1) []) e.1 = some e.2) := by
  have h := List.all_eq_true.1 extracted_tables_ok x hx
  exact MpycV.C16.tableOK_sound x.1 x.2.1 x.2.2 h i hi

end MpycV.C16Gen
