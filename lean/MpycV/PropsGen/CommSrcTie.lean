/-
C07 / C19, source tie: the routing definitions GENERATED from the current mpyc/runtime.py by harness/py2lean_comm.py
(MpycV.CommSrc, regenerated on every run of `check.py C07` / `check.py C19`) agree with the hand-written routing model
MpycV.Comm, so the theorems of Props/C07.lean and Props/C19.lean hold for what the code says now.

Each `f_src_eq` has two steps:
  1. `CommSrc.f = CommMirror.f` by `rfl` — the mirror (Lemmas/CommSrcMirror.lean) is the translator output for the pinned
     source; `rfl` survives renamings and moved lines, it fails as soon as a translated routing expression changes (or the
     statement shape around a send/receive call is no longer recognised: the definition is then missing);
  2. `CommMirror.f = Comm.f` — Lemmas/CommSrcBridge.lean.
The arithmetic translation rules for Python's `(a - b) % m` are justified over the integers in Lemmas/CommSrcRules.lean.
-/
import MpycV.Generated.CommSrc
import MpycV.Lemmas.CommSrcBridge
import MpycV.Lemmas.CommSrcRules
import MpycV.Props.C07
import MpycV.Props.C19

namespace MpycV.CommSrcTie
open MpycV

theorem transferMySenders_src_eq : @CommSrc.transferMySenders = @Comm.transferMySenders := by
  rw [show @CommSrc.transferMySenders = @CommMirror.transferMySenders from rfl]; exact CommMirror.transferMySenders_eq
theorem transferMyReceivers_src_eq : @CommSrc.transferMyReceivers = @Comm.transferMyReceivers := by
  rw [show @CommSrc.transferMyReceivers = @CommMirror.transferMyReceivers from rfl]; exact CommMirror.transferMyReceivers_eq
theorem dictMySenders_src_eq : @CommSrc.dictMySenders = @Comm.dictMySenders := by
  rw [show @CommSrc.dictMySenders = @CommMirror.dictMySenders from rfl]; funext p d; exact CommMirror.dictMySenders_eq p d
theorem dictMyReceivers_src_eq : @CommSrc.dictMyReceivers = @Comm.dictMyReceivers := by
  rw [show @CommSrc.dictMyReceivers = @CommMirror.dictMyReceivers from rfl]; funext p d; exact CommMirror.dictMyReceivers_eq p d
theorem arcsMySenders_src_eq : @CommSrc.arcsMySenders = @Comm.arcsMySenders := by
  rw [show @CommSrc.arcsMySenders = @CommMirror.arcsMySenders from rfl]; funext p a; exact CommMirror.arcsMySenders_eq p a
theorem arcsMyReceivers_src_eq : @CommSrc.arcsMyReceivers = @Comm.arcsMyReceivers := by
  rw [show @CommSrc.arcsMyReceivers = @CommMirror.arcsMyReceivers from rfl]; funext p a; exact CommMirror.arcsMyReceivers_eq p a
theorem transferSends_src_eq : @CommSrc.transferSends = @Comm.transferSends := by
  rw [show @CommSrc.transferSends = @CommMirror.transferSends from rfl]; funext p l; exact CommMirror.transferSends_eq p l
theorem transferRecvs_src_eq : @CommSrc.transferRecvs = @Comm.transferRecvs := by
  rw [show @CommSrc.transferRecvs = @CommMirror.transferRecvs from rfl]; funext p l; exact CommMirror.transferRecvs_eq p l
theorem outSends_src_eq : @CommSrc.outSends = @Comm.outSends := by
  rw [show @CommSrc.outSends = @CommMirror.outSends from rfl]; exact CommMirror.outSends_eq
theorem outRecvs_src_eq : @CommSrc.outRecvs = @Comm.outRecvs := by
  rw [show @CommSrc.outRecvs = @CommMirror.outRecvs from rfl]; exact CommMirror.outRecvs_eq
theorem outPoints_src_eq : @CommSrc.outPoints = @Comm.outPoints := by
  rw [show @CommSrc.outPoints = @CommMirror.outPoints from rfl]; exact CommMirror.outPoints_eq
theorem reshSends_src_eq : @CommSrc.reshSends = @Comm.reshSends := by
  rw [show @CommSrc.reshSends = @CommMirror.reshSends from rfl]; funext m t p u; exact CommMirror.reshSends_eq m t p u
theorem reshRecvs_src_eq : @CommSrc.reshRecvs = @Comm.reshRecvs := by
  rw [show @CommSrc.reshRecvs = @CommMirror.reshRecvs from rfl]; funext m t p u; exact CommMirror.reshRecvs_eq m t p u
theorem distSends_src_eq : @CommSrc.distSends = @Comm.distSends := by
  rw [show @CommSrc.distSends = @CommMirror.distSends from rfl]; funext m p s; exact CommMirror.distSends_eq m p s
theorem distRecvs_src_eq : @CommSrc.distRecvs = @Comm.distRecvs := by
  rw [show @CommSrc.distRecvs = @CommMirror.distRecvs from rfl]; funext p s; exact CommMirror.distRecvs_eq p s

/-! ### the property theorems, restated for the generated definitions -/

/-- C19 for the generated `output` routing: a party outside the receivers gets no share and awaits none -/
theorem output_nonreceiver_silent_src (m t j : Nat) (R : List Nat) (hj : j ∉ R) :
    (∀ i, j ∉ CommSrc.outSends m t i R) ∧ CommSrc.outRecvs m t j R = [] := by
  rw [outSends_src_eq, outRecvs_src_eq]; exact C19.output_nonreceiver_silent m t j R hj

/-- C19 for the generated `transfer` routing (sender / receiver lists) -/
theorem transfer_nonreceiver_silent_src (i j : Nat) (S R : List Nat) (hj : j ∉ R) :
    j ∉ CommSrc.transferSends i (CommSrc.transferMyReceivers i S R) ∧ CommSrc.transferMySenders j S R = [] := by
  rw [transferSends_src_eq, transferMyReceivers_src_eq, transferMySenders_src_eq]
  exact C19.transfer_nonreceiver_silent i j S R hj

/-- C19 for the generated `transfer` routing (arbitrary graph given as arcs) -/
theorem transfer_arcs_nonreceiver_silent_src (i j : Nat) (arcs : List (Nat × Nat)) (hj : ∀ a, (a, j) ∉ arcs) :
    j ∉ CommSrc.transferSends i (CommSrc.arcsMyReceivers i arcs) ∧ CommSrc.arcsMySenders j arcs = [] := by
  rw [transferSends_src_eq, arcsMyReceivers_src_eq, arcsMySenders_src_eq]
  exact C19.transfer_arcs_nonreceiver_silent i j arcs hj

/-- the dict form of the graph routes like the list of its arcs (node a ↦ receivers bs gives the arcs (a, b), b ∈ bs):
a node that occurs in no receiver list has no designated sender -/
theorem transfer_dict_nonreceiver_silent_src (j : Nat) (d : List (Nat × List Nat)) (hj : ∀ e ∈ d, j ∉ e.2) :
    CommSrc.dictMySenders j d = [] := by
  rw [dictMySenders_src_eq]
  unfold Comm.dictMySenders
  rw [List.map_eq_nil_iff, List.filter_eq_nil_iff]
  intro e he
  simpa using hj e he

/-- C07 for the generated `output` routing: every share sent is awaited by exactly its addressee -/
theorem output_exactly_one_consumer_src (m t i j : Nat) (R : List Nat)
    (hi : i < m) (hj : j < m) (ht : t < m) (hR : R.Nodup) :
    (j ∈ CommSrc.outSends m t i R ↔ i ∈ CommSrc.outRecvs m t j R) ∧
    (CommSrc.outSends m t i R).Nodup ∧ (CommSrc.outRecvs m t j R).Nodup ∧ i ∉ CommSrc.outSends m t i R := by
  rw [outSends_src_eq, outRecvs_src_eq]; exact C07.output_exactly_one_consumer m t i j R hi hj ht hR

/-- C07 for the generated recombination points of `output` -/
theorem output_points_src (m t j : Nat) (hj : j < m) (ht : t < m) :
    (CommSrc.outPoints m t j).length = t + 1 ∧ (CommSrc.outPoints m t j).Nodup ∧
      ∀ x ∈ CommSrc.outPoints m t j, 1 ≤ x ∧ x ≤ m := by
  rw [outPoints_src_eq]; exact C07.output_points m t j hj ht

/-- C07 for the generated `transfer` routing -/
theorem transfer_exactly_one_consumer_src (i j : Nat) (S R : List Nat) (hne : i ≠ j) :
    j ∈ CommSrc.transferSends i (CommSrc.transferMyReceivers i S R) ↔
      i ∈ CommSrc.transferRecvs j (CommSrc.transferMySenders j S R) := by
  rw [transferSends_src_eq, transferMyReceivers_src_eq, transferRecvs_src_eq, transferMySenders_src_eq]
  exact C07.transfer_exactly_one_consumer i j S R hne

theorem transfer_arcs_exactly_one_consumer_src (i j : Nat) (arcs : List (Nat × Nat)) (hne : i ≠ j) :
    (j ∈ CommSrc.transferSends i (CommSrc.arcsMyReceivers i arcs) ↔ (i, j) ∈ arcs) ∧
    (i ∈ CommSrc.transferRecvs j (CommSrc.arcsMySenders j arcs) ↔ (i, j) ∈ arcs) := by
  rw [transferSends_src_eq, arcsMyReceivers_src_eq, transferRecvs_src_eq, arcsMySenders_src_eq]
  exact C07.transfer_arcs_exactly_one_consumer i j arcs hne

/-- the dict form and the arc form of one graph give every party the same designated receivers and the same designated
senders up to order (dict order of the keys vs order of the arcs) -/
theorem transfer_dict_mem_src (i j : Nat) (d : List (Nat × List Nat)) :
    i ∈ CommSrc.dictMySenders j d ↔ ∃ e ∈ d, e.1 = i ∧ j ∈ e.2 := by
  rw [dictMySenders_src_eq]
  unfold Comm.dictMySenders
  simp only [List.mem_map, List.mem_filter, decide_eq_true_eq]
  constructor
  · rintro ⟨e, ⟨he, hj⟩, rfl⟩; exact ⟨e, he, rfl, hj⟩
  · rintro ⟨e, he, rfl, hj⟩; exact ⟨e, ⟨he, hj⟩, rfl⟩

/-! ### non-vacuity: the generated definitions compute -/
example : CommSrc.outSends 5 2 3 [0, 1, 4] = [0, 4] ∧ CommSrc.outRecvs 5 2 0 [0, 1, 4] = [3, 4] ∧
    CommSrc.outPoints 5 2 0 = [4, 5, 1] ∧ CommSrc.reshSends 5 2 1 7 = [0, 2, 3, 4] ∧ CommSrc.reshRecvs 5 1 0 7 = [2, 3, 4] ∧
    CommSrc.dictMySenders 2 [(0, [1, 2]), (1, []), (2, [0])] = [0] ∧ CommSrc.dictMyReceivers 0 [(0, [1, 2]), (1, [])] = [1, 2] ∧
    CommSrc.arcsMySenders 2 [(0, 1), (0, 2), (2, 0)] = [0] ∧ CommSrc.distSends 3 1 [0, 1] = [0, 2] := by decide

end MpycV.CommSrcTie
