/-
C25, source tie: the Lean definitions GENERATED from the current mpyc/gmpy.py by harness/py2lean.py (MpycV.GmpySrc,
regenerated on every run of `check.py C25`) agree with the hand-written model MpycV.Model.NumTh, about which the C25
theorems are proved.

Each `f_src_eq` has two steps:
  1. `GmpySrc.f = GmpyMirror.f` by `rfl` — the mirror (Lemmas/NumThSrcMirror.lean) is the translator output for the pinned
     source; `rfl` survives renaming of locals, reordering of independent assignments, comments; it fails as soon as the
     translated term changes (operand, constant, guard, statement order with a data dependency, …);
  2. `GmpyMirror.f = NumTh.f` — proved once in Lemmas/NumThSrcBridge.lean (loop lemmas by induction on the fuel).
Not translated: `is_prime` (random bases, for/else, nested loops with `continue`) and `powmod`, `powmod_*_list`
(CPython `pow`): they stay tied by the differential correspondence only.
-/
import MpycV.Generated.GmpySrc
import MpycV.Lemmas.NumThSrcBridge

namespace MpycV.C25Src
open MpycV

theorem isqrt_src_eq (x : Int) : GmpySrc.isqrt x = NumTh.isqrt x := by
  rw [show @GmpySrc.isqrt = @GmpyMirror.isqrt from rfl]; exact GmpyMirror.isqrt_eq x

theorem is_square_src_eq (x : Int) : GmpySrc.is_square x = NumTh.isSquare x := by
  rw [show @GmpySrc.is_square = @GmpyMirror.is_square from rfl]; exact GmpyMirror.is_square_eq x

theorem iroot_src_eq (x n : Int) : GmpySrc.iroot x n = NumTh.iroot x n := by
  rw [show @GmpySrc.iroot = @GmpyMirror.iroot from rfl]; exact GmpyMirror.iroot_eq x n

theorem gcdext_src_eq (a b : Int) : GmpySrc.gcdext a b = NumTh.gcdext a b := by
  rw [show @GmpySrc.gcdext = @GmpyMirror.gcdext from rfl]; exact GmpyMirror.gcdext_eq a b

theorem invert_src_eq (x m : Int) : GmpySrc.invert x m = NumTh.invert x m := by
  rw [show @GmpySrc.invert = @GmpyMirror.invert from rfl]; exact GmpyMirror.invert_eq x m

theorem jacobi_src_eq (x y : Int) : GmpySrc.jacobi x y = NumTh.jacobi x y := by
  rw [show @GmpySrc.jacobi = @GmpyMirror.jacobi from rfl]; exact GmpyMirror.jacobi_eq x y

theorem legendre_src_eq (x y : Int) : GmpySrc.legendre x y = NumTh.legendre x y := by
  rw [show @GmpySrc.legendre = @GmpyMirror.legendre from rfl]; exact GmpyMirror.legendre_eq x y

theorem kronecker_src_eq (x y : Int) : GmpySrc.kronecker x y = NumTh.kronecker x y := by
  rw [show @GmpySrc.kronecker = @GmpyMirror.kronecker from rfl]; exact GmpyMirror.kronecker_eq x y

theorem next_prime_src_eq (isP : Int → Bool) (x : Int) : GmpySrc.next_prime isP x = NumTh.nextPrime isP x := by
  rw [show @GmpySrc.next_prime = @GmpyMirror.next_prime from rfl]; exact GmpyMirror.next_prime_eq isP x

theorem prev_prime_src_eq (isP : Int → Bool) (x : Int) : GmpySrc.prev_prime isP x = NumTh.prevPrime isP x := by
  rw [show @GmpySrc.prev_prime = @GmpyMirror.prev_prime from rfl]; exact GmpyMirror.prev_prime_eq isP x

theorem ratrec_src_eq (x y : Int) (N D : Option Int) : GmpySrc.ratrec x y N D = NumTh.ratrec x y N D := by
  rw [show @GmpySrc.ratrec = @GmpyMirror.ratrec from rfl]; exact GmpyMirror.ratrec_eq x y N D

/-- the generated code returns the exponent as a Python int, the model as a `Nat` -/
theorem factor_prime_power_src_eq (isP : Int → Bool) (x : Int) :
    GmpySrc.factor_prime_power isP x =
      match NumTh.factorPrimePower isP x with
      | .error e => .error e
      | .ok (p, d) => .ok (p, (d : Int)) := by
  rw [show @GmpySrc.factor_prime_power = @GmpyMirror.factor_prime_power from rfl]
  exact GmpyMirror.factor_prime_power_eq isP x

end MpycV.C25Src
