/-
C13, source tie: `random_split` GENERATED from the current mpyc/thresha.py (MpycV.ThreshaSrc, see PropsGen/C12Src.lean
for the method) equals the model's `randomSplit` on `intModP p`; in particular it draws exactly `t` coefficients per
secret, each with `secrets.randbelow(order)` (the generated code fails with `streamError` on a value outside range(p) or
on a shorter stream), uses every one of them and nothing else.
-/
import MpycV.Generated.ThreshaSrc
import MpycV.Lemmas.ThreshaSrcBridgeSplit

namespace MpycV.C13Src
open MpycV MpycV.Thresha MpycV.PyList

/-- `random_split` of the current source (draws read from `stream`) = the model's `randomSplit` -/
theorem random_split_src_eq (p : ℕ) [Fact p.Prime] (isField : Bool) (s : List Int) (t m : Int)
    (stream : List Int) (hs : s ≠ []) (hguard : t = 0 ∨ m < (p : Int))
    (hlen : t.toNat * s.length ≤ stream.length)
    (hrange : ∀ v ∈ stream.take (t.toNat * s.length), 0 ≤ v ∧ v < (p : Int)) :
    ThreshaSrc.random_split p isField s t m stream
      = .ok (randomSplit (intModP p) s stream t.toNat m.toNat) := by
  rw [show @ThreshaSrc.random_split = @ThreshaMirror.random_split from rfl]
  exact random_split_eq p isField s t m stream hs hguard hlen hrange

/-- … and the current source REFUSES to deal over a field with at most `m` elements when `t ≠ 0` (one party's evaluation
point would be 0: its share would be the secret, `MpycV.C14.last_row_is_secret_when_m_eq_p`): the guard under which
the uniformity statement holds is the guard the code enforces -/
theorem random_split_src_refuses (p : ℕ) (isField : Bool) (s : List Int) (t m : Int) (stream : List Int)
    (ht : t ≠ 0) (hm : (p : Int) ≤ m) :
    ThreshaSrc.random_split p isField s t m stream = .error .valueError := by
  unfold ThreshaSrc.random_split
  simp -iota only []
  rw [if_pos ⟨ht, hm⟩]

/-- ★ dichotomy for the current source, for EVERY threshold and number of parties: `random_split` either refuses
(exactly when `t ≠ 0` and the field has at most `m` elements, where a share would be the secret) or it is the model's
`randomSplit`, to which the uniformity theorems of MpycV.C13 apply — there is no third behaviour -/
theorem random_split_src_dichotomy (p : ℕ) [Fact p.Prime] (isField : Bool) (s : List Int) (t m : Int)
    (stream : List Int) (hs : s ≠ []) (hlen : t.toNat * s.length ≤ stream.length)
    (hrange : ∀ v ∈ stream.take (t.toNat * s.length), 0 ≤ v ∧ v < (p : Int)) :
    (t ≠ 0 ∧ (p : Int) ≤ m ∧ ThreshaSrc.random_split p isField s t m stream = .error .valueError) ∨
    ((t = 0 ∨ m < (p : Int)) ∧
      ThreshaSrc.random_split p isField s t m stream = .ok (randomSplit (intModP p) s stream t.toNat m.toNat)) := by
  by_cases h : t ≠ 0 ∧ (p : Int) ≤ m
  · exact Or.inl ⟨h.1, h.2, random_split_src_refuses p isField s t m stream h.1 h.2⟩
  · have hg : t = 0 ∨ m < (p : Int) := by
      by_cases ht : t = 0
      · exact Or.inl ht
      · right
        by_contra hm
        exact h ⟨ht, not_lt.1 hm⟩
    exact Or.inr ⟨hg, random_split_src_eq p isField s t m stream hs hg hlen hrange⟩

/-- every share of the current source is `shareAt` of the model: the value of the secret's polynomial whose
coefficients are the `t` stream values drawn for that secret -/
theorem random_split_src_entry (p : ℕ) [Fact p.Prime] (isField : Bool) (s : List Int) (t : Int) (m : ℕ)
    (stream : List Int) (hs : s ≠ []) (hguard : t = 0 ∨ (m : Int) < (p : Int))
    (hlen : t.toNat * s.length ≤ stream.length)
    (hrange : ∀ v ∈ stream.take (t.toNat * s.length), 0 ≤ v ∧ v < (p : Int)) :
    ∃ shares, ThreshaSrc.random_split p isField s t (m : Int) stream = .ok shares ∧
      ∀ i < m, ∀ h < s.length, (shares.getD i []).getD h 0
        = shareAt (intModP p) (s.getD h 0) (coeffsFor stream t.toNat h) (i + 1) := by
  refine ⟨_, random_split_src_eq p isField s t m stream hs hguard hlen hrange, ?_⟩
  intro i hi h hh
  rw [Int.toNat_natCast]
  exact randomSplit_entry _ s stream t.toNat m hi hh 0 0

end MpycV.C13Src
