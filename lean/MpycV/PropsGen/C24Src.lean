/-
C24, source tie: `_is_irreducible` and `_next_irreducible` GENERATED from the current mpyc/gfpx.py
(harness/py2lean_gfpx.py, MpycV.GfpxSrc) agree with the model functions `GFpX.isIrreducible`, `GFpX.nextIrreducible`
about which the C24 theorems are proved (same two-step structure as PropsGen/C23Src.lean: `rfl` against the pinned
mirror, bridge lemma proved once in Lemmas/GfpxSrcBridgePow.lean).
-/
import MpycV.Generated.GfpxSrc
import MpycV.Lemmas.GfpxSrcBridgePow
import MpycV.Lemmas.GfpxSrcBridgeBin
import MpycV.Lemmas.GFpXIrr

namespace MpycV.C24Src
open MpycV MpycV.GFpX MpycV.GfpxBridge MpycV.PyList

variable {p : ℕ}

theorem is_irreducible_src_eq [Fact p.Prime] {a : List ℕ} (ha : WF p a) :
    GfpxSrc.is_irreducible (p : Int) (up a) = .ok (isIrreducible p a) := by
  rw [show @GfpxSrc.is_irreducible = @GfpxMirror.is_irreducible from rfl]; exact is_irreducible_eq ha

/-- `fuel` = maximal number of passes of the `while True` loop (`fuel-exhausted` = the Python loop would still be running) -/
theorem next_irreducible_src_eq [Fact p.Prime] (fuel : ℕ) (a : List ℕ) :
    GfpxSrc.next_irreducible (p : Int) fuel (up a) =
      match nextIrreducible p fuel a with
      | some c => .ok (up c)
      | none => .error TErr.fuel := by
  rw [show @GfpxSrc.next_irreducible = @GfpxMirror.next_irreducible from rfl]; exact next_irreducible_eq fuel a

/-- the chain source → model → theorem: the irreducibility test of the CURRENT source decides irreducibility -/
theorem is_irreducible_src_correct [Fact p.Prime] {a : List ℕ} (ha : WF p a) :
    GfpxSrc.is_irreducible (p : Int) (up a) = .ok true ↔ Irreducible (toPoly p a) := by
  rw [is_irreducible_src_eq ha, ← isIrreducible_iff ha]
  simp

/-! ### class BinaryPolynomial -/

theorem b_is_irreducible_src_eq (a : ℕ) : GfpxSrc.b_is_irreducible (a : Int) = .ok (BinPoly.isIrreducible a) := by
  rw [show @GfpxSrc.b_is_irreducible = @GfpxMirror.b_is_irreducible from rfl]; exact b_is_irreducible_eq a

theorem b_next_irreducible_src_eq (fuel a : ℕ) : GfpxSrc.b_next_irreducible fuel (a : Int) =
    match BinPoly.nextIrreducible fuel a with
    | some c => .ok ((c : ℕ) : Int)
    | none => .error TErr.fuel := by
  rw [show @GfpxSrc.b_next_irreducible = @GfpxMirror.b_next_irreducible from rfl]; exact b_next_irreducible_eq fuel a

end MpycV.C24Src
