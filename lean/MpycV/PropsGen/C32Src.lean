/-
C32, source tie: the Lean definitions GENERATED from the current mpyc/mpctools.py by harness/py2lean_tools.py
(MpycV.MpctoolsSrc, regenerated on every run of `check.py C32`; polymorphic in the element type, `f` a parameter) agree with
the hand-written model MpycV.Model.Tools, so the C32 theorems hold for the generated code.

Each `f_src_eq` has two steps:
  1. `MpctoolsSrc.f = MpctoolsMirror.f` by `rfl` — the mirror (Lemmas/ToolsSrcMirror.lean) is the translator output for the
     pinned source; `rfl` survives renaming of locals and comments; it fails as soon as the translated term changes;
  2. `MpctoolsMirror.f = model` — proved once in Lemmas/ToolsSrcBridge.lean for every `f`.
The remaining theorems chain this with Props/C32.lean.
-/
import MpycV.Generated.MpctoolsSrc
import MpycV.Lemmas.ToolsSrcBridge
import MpycV.Props.C32

namespace MpycV.C32Src
open MpycV MpycV.Tools MpycV.PyTools

variable {α : Type}

/-- generated `reduce` = model `reduce` (`none` ≙ TypeError), every `f` -/
theorem reduce_src_eq (f : α → α → α) (x : List α) (initial : Option α) :
    MpctoolsSrc.reduce f x initial = match Tools.reduce f x initial with
      | some r => .ok r
      | none => .error .typeError := by
  rw [show @MpctoolsSrc.reduce = @MpctoolsMirror.reduce from rfl]; exact MpctoolsMirror.reduce_eq f x initial

/-- the lifted nested functions are recursive, so `generated = mirror` is shown by induction on the fuel: one unfolding of
both sides, the recursive calls rewritten by the induction hypothesis, the rest by `rfl` -/
theorem acc_1_src_mirror (f : α → α → α) : ∀ (fuel : Nat) (x : List α) (i j : Int),
    MpctoolsSrc.accumulate.acc_1 f fuel x i j = MpctoolsMirror.accumulate.acc_1 f fuel x i j := by
  intro fuel
  induction fuel with
  | zero => intros; rfl
  | succ n ih =>
    intro x i j
    rw [MpctoolsSrc.accumulate.acc_1, MpctoolsMirror.accumulate.acc_1]
    simp only [ih]
    rfl

theorem acc_2_src_mirror (f : α → α → α) : ∀ (fuel : Nat) (x : List α) (i j : Int),
    MpctoolsSrc.accumulate.acc_2 f fuel x i j = MpctoolsMirror.accumulate.acc_2 f fuel x i j := by
  intro fuel
  induction fuel with
  | zero => intros; rfl
  | succ n ih =>
    intro x i j
    rw [MpctoolsSrc.accumulate.acc_2, MpctoolsMirror.accumulate.acc_2]
    simp only [ih]
    rfl

/-- the lifted nested functions of `accumulate` = the in-place recursions of the model -/
theorem acc_brentkung_src_eq (f : α → α → α) (fuel : Nat) (x : List α) (i j : Nat) (hij : i ≤ j) (hj : j ≤ x.length)
    (hf : j - i < fuel) : MpctoolsSrc.accumulate.acc_1 f fuel x (i : Int) (j : Int) = .ok (accBK f x i j) := by
  rw [acc_1_src_mirror]; exact MpctoolsMirror.acc_1_eq f fuel x i j hij hj hf

theorem acc_sklansky_src_eq (f : α → α → α) (fuel : Nat) (x : List α) (i j : Nat) (hij : i ≤ j) (hj : j ≤ x.length)
    (hf : j - i < fuel) : MpctoolsSrc.accumulate.acc_2 f fuel x (i : Int) (j : Int) = .ok (accSkl f x i j) := by
  rw [acc_2_src_mirror]; exact MpctoolsMirror.acc_2_eq f fuel x i j hij hj hf

/-- generated `accumulate` = model `accumulate` with the method named by the string, or chosen by the default heuristic
from `no_prss` and the length (initial value included); any other string is the ValueError branch -/
theorem accumulate_src_eq (f : α → α → α) (no_prss : Bool) (x : List α) (initial : Option α) (method : Option String) :
    MpctoolsSrc.accumulate f no_prss x initial method =
      match method with
      | none => .ok (Tools.accumulate f x initial (defaultMethod no_prss (withInitial initial x).length))
      | some m =>
        if m = "Brent-Kung" then .ok (Tools.accumulate f x initial .brentKung)
        else if m = "Sklansky" then .ok (Tools.accumulate f x initial .sklansky)
        else .error .valueError := by
  have e1 : MpctoolsSrc.accumulate.acc_1 f = MpctoolsMirror.accumulate.acc_1 f := by
    funext fuel x i j; exact acc_1_src_mirror f fuel x i j
  have e2 : MpctoolsSrc.accumulate.acc_2 f = MpctoolsMirror.accumulate.acc_2 f := by
    funext fuel x i j; exact acc_2_src_mirror f fuel x i j
  have hgen : MpctoolsSrc.accumulate f no_prss x initial method
      = MpctoolsMirror.accumulate f no_prss x initial method := by
    unfold MpctoolsSrc.accumulate MpctoolsMirror.accumulate
    rw [e1, e2]
    rfl
  rw [hgen]
  exact MpctoolsMirror.accumulate_eq f no_prss x initial method

/-! ### the C32 theorems for the generated code (any type, any associative `f`) -/

theorem reduce_src_eq_foldl {f : α → α → α} (hf : ∀ a b c, f (f a b) c = f a (f b c)) (a : α) (l : List α) :
    MpctoolsSrc.reduce f (a :: l) none = .ok (List.foldl f a l) := by
  rw [reduce_src_eq, C32.reduce_eq_foldl hf]

theorem reduce_src_initial_eq_foldl {f : α → α → α} (hf : ∀ a b c, f (f a b) c = f a (f b c)) (a : α) (l : List α) :
    MpctoolsSrc.reduce f l (some a) = .ok (List.foldl f a l) := by
  rw [reduce_src_eq, C32.reduce_initial_eq_foldl hf]

theorem reduce_src_empty_typeError (f : α → α → α) : MpctoolsSrc.reduce f [] none = .error .typeError := by
  rw [reduce_src_eq, C32.reduce_empty_typeError]

example : (∀ a b c : List Nat, (a ++ b) ++ c = a ++ (b ++ c)) := List.append_assoc

/-- generated `accumulate` = `itertools.accumulate` for every valid way to choose the method -/
theorem accumulate_src_eq_scan {f : α → α → α} (hf : ∀ a b c, f (f a b) c = f a (f b c)) (no_prss : Bool)
    (x : List α) (initial : Option α) (method : Option String)
    (hm : method = none ∨ method = some "Brent-Kung" ∨ method = some "Sklansky") :
    MpctoolsSrc.accumulate f no_prss x initial method = .ok (C32.pyAccumulate f x initial) := by
  rw [accumulate_src_eq]
  rcases hm with rfl | rfl | rfl
  · simp only [C32.accumulate_eq_scan hf]
  · simp only [if_true, C32.accumulate_eq_scan hf]
  · have : ¬ ("Sklansky" = "Brent-Kung") := by decide
    simp only [this, if_false, if_true, C32.accumulate_eq_scan hf]

example : (none : Option String) = none ∨ (none : Option String) = some "Brent-Kung" ∨
    (none : Option String) = some "Sklansky" := Or.inl rfl

theorem accumulate_src_invalid_method (f : α → α → α) (no_prss : Bool) (x : List α) (initial : Option α) (m : String)
    (h1 : m ≠ "Brent-Kung") (h2 : m ≠ "Sklansky") :
    MpctoolsSrc.accumulate f no_prss x initial (some m) = .error .valueError := by
  rw [accumulate_src_eq]
  simp only [h1, h2, if_false]

example : "Kogge-Stone" ≠ "Brent-Kung" ∧ "Kogge-Stone" ≠ "Sklansky" := by decide

end MpycV.C32Src
