/-
Line-protocol driver for the program-counter machine (hop = CPython tuple hash).
  run step*        step = <path>:<w>:<acts>    path "-" (root) or "0.3.1"; w = 1 wrapped / 0 unwrapped;
                   acts "-" or comma list of  f | u | s<peer> | r<peer>
  -> for every task with events, sorted by first appearance:  <path>=<ev>,<ev>,.. joined by ';' then '|wf=0/1'
     ev = K<ctr>/<depth> | U<label> | S<peer>:<label> | R<peer>:<label>
  hop <ctr> <depth> -> hash((ctr, depth))
-/
import MpycV.Model.Pc
import MpycV.Model.Util
open MpycV MpycV.Pc MpycV.Util

def parsePath? (s : String) : Option Path :=
  if s == "-" then some [] else (s.splitOn ".").mapM parseNat?

def parseAct? (s : String) : Option Act :=
  if s == "f" then some Act.fork
  else if s == "u" then some Act.uci
  else if s.startsWith "s" then (parseNat? (s.drop 1).toString).map Act.send
  else if s.startsWith "r" then (parseNat? (s.drop 1).toString).map Act.recv
  else none

def parseStep? (s : String) : Option Step :=
  match s.splitOn ":" with
  | [p, w, a] => do
    let path ← parsePath? p
    let acts ← if a == "-" then some [] else (a.splitOn ",").mapM parseAct?
    if w == "1" then pure { task := path, wrapped := true, acts := acts }
    else if w == "0" then pure { task := path, wrapped := false, acts := acts }
    else none
  | _ => none

def showPath (p : Path) : String := if p.isEmpty then "-" else ".".intercalate (p.map toString)

def showEv : Ev → String
  | Ev.forked pc => s!"K{pc.ctr}/{pc.depth}"
  | Ev.uci l => s!"U{l}"
  | Ev.sent p l => s!"S{p}:{l}"
  | Ev.recvd p l => s!"R{p}:{l}"

def dedup (l : List Path) : List Path := l.foldl (fun acc x => if acc.contains x then acc else acc ++ [x]) []

def step (line : String) : String :=
  match tokens line with
  | "run" :: ss =>
    match ss.mapM parseStep? with
    | some steps =>
      let s := Party.run hopCPython Party.init steps
      let tasks := dedup (steps.map (·.task))
      let parts := tasks.filterMap fun τ =>
        let es := s.events τ
        if es.isEmpty then none else some s!"{showPath τ}={",".intercalate (es.map showEv)}"
      let wf := if wfRunB hopCPython Party.init steps then "1" else "0"
      ";".intercalate parts ++ s!"|wf={wf}"
    | none => "bad-op"
  | ["hop", c, d] =>
    match parseInt? c, parseNat? d with
    | some c, some d => toString (hopCPython c d)
    | _, _ => "bad-op"
  | _ => "bad-op"

def main : IO Unit := do
  loop (← IO.getStdin) step
