/-
Line-protocol driver for the models of mpyc/random.py (MpycV.Model.Random) and mpyc/statistics.py
(MpycV.Model.Stats).

Bit streams and public transcripts are strings over {0,1} ("-" = empty); integer lists are "1,2,3" ("-" = empty).
Answers of the random functions:  `ok <value> o=<opened> c=<number of stream bits consumed>` |
`exhausted` | `fuel` | `error:<PythonException>`.

Statistics:  mean X | var X M|- c | std l X M|- c | isqrt l a | fsqrt l f a EPS | qs X KS ROUNDS | med X mid|low|high ROUNDS
  qks ld n inclusive|exclusive | cut ld n METHOD i | quant X n METHOD ROUNDS | mode l priv X | cov X Y
  ROUNDS = "p:BITS;p:BITS;..." ("-" = none); answers `ok <value(s)> [used=<rounds consumed>]` | `error:<Name>`

  getrandbits k BITS | randbelow n BITS | randbelowbits n BITS | ruv n BITS
  randrange start stop step BITS | randint a b BITS
  choice SEQ BITS | choicesu POP k BITS | choicesw POP CUM k BITS
  shuffle X BITS | sample X k BITS | samplerange start stop step k BITS | derange X BITS
  random f BITS | uniform f A n sgn BITS
  bitsqrt p r w signed | bitprod p VALS signed
-/
import MpycV.Model.Random
import MpycV.Model.Stats
import MpycV.Model.Util
open MpycV MpycV.Util MpycV.Random

def parseBits? (s : String) : Option (List Bool) :=
  if s == "-" then some [] else
    s.toList.mapM fun c => if c == '0' then some false else if c == '1' then some true else none

def showBits (l : List Bool) : String :=
  if l.isEmpty then "-" else String.ofList (l.map fun b => if b then '1' else '0')

def showRes {α : Type} (shw : α → String) (inLen : Nat) : Res α → String
  | .ok o => s!"ok {shw o.val} o={showBits o.opened} c={inLen - o.rest.length}"
  | .exhausted => "exhausted"
  | .fuel => "fuel"
  | .error e => s!"error:{e}"

def showNat (n : Nat) : String := toString n
def showInt (n : Int) : String := toString n

def randStep (toks : List String) : Option String :=
  match toks with
  | ["getrandbits", k, bits] => do
      let k ← parseNat? k; let s ← parseBits? bits
      pure (showRes showNat s.length (getrandbits k s))
  | ["randbelow", n, bits] => do
      let n ← parseNat? n; let s ← parseBits? bits
      pure (showRes showNat s.length (randbelow n s))
  | ["randbelowbits", n, bits] => do
      let n ← parseNat? n; let s ← parseBits? bits
      pure (showRes showBits s.length (randbelowBits n s))
  | ["ruv", n, bits] => do
      let n ← parseNat? n; let s ← parseBits? bits
      pure (showRes showIntList s.length (randomUnitVector n s))
  | ["randrange", a, b, c, bits] => do
      let a ← parseInt? a; let b ← parseInt? b; let c ← parseInt? c; let s ← parseBits? bits
      pure (showRes showInt s.length (randrange a b c s))
  | ["randint", a, b, bits] => do
      let a ← parseInt? a; let b ← parseInt? b; let s ← parseBits? bits
      pure (showRes showInt s.length (randint a b s))
  | ["choice", seq, bits] => do
      let seq ← parseIntList? seq; let s ← parseBits? bits
      pure (showRes showInt s.length (choice seq s))
  | ["choicesu", pop, k, bits] => do
      let pop ← parseIntList? pop; let k ← parseNat? k; let s ← parseBits? bits
      pure (showRes showIntList s.length (choicesUniform pop k s))
  | ["choicesw", pop, cum, k, bits] => do
      let pop ← parseIntList? pop; let cum ← parseIntList? cum; let k ← parseNat? k; let s ← parseBits? bits
      pure (showRes showIntList s.length (choicesWeighted pop cum k s))
  | ["shuffle", x, bits] => do
      let x ← parseIntList? x; let s ← parseBits? bits
      pure (showRes showIntList s.length (shuffle x s))
  | ["sample", x, k, bits] => do
      let x ← parseIntList? x; let k ← parseNat? k; let s ← parseBits? bits
      pure (showRes showIntList s.length (sampleList x k s))
  | ["samplerange", a, b, c, k, bits] => do
      let a ← parseInt? a; let b ← parseInt? b; let c ← parseInt? c; let k ← parseNat? k
      let s ← parseBits? bits
      pure (showRes showIntList s.length (sampleRange a b c k s))
  | ["derange", x, bits] => do
      let x ← parseIntList? x; let s ← parseBits? bits
      pure (showRes showIntList s.length (randomDerangement x s))
  | ["random", f, bits] => do
      let f ← parseNat? f; let s ← parseBits? bits
      pure (showRes showNat s.length (MpycV.Random.random f s))
  | ["uniform", f, a, n, sg, bits] => do
      let f ← parseNat? f; let a ← parseInt? a; let n ← parseNat? n; let sg ← parseInt? sg
      let s ← parseBits? bits
      pure (showRes showInt s.length (uniform f a n sg s))
  | ["bitsqrt", p, r, w, sg] => do
      let p ← parseNat? p; let r ← parseNat? r; let w ← parseNat? w; let sg ← parseNat? sg
      pure (toString (bitFromSqrt p r w (sg == 1)))
  | ["bitprod", p, vals, sg] => do
      let p ← parseNat? p; let vals ← parseNatList? vals; let sg ← parseNat? sg
      pure (toString (bitFromProd p vals (sg == 1)))
  | _ => none

open MpycV.Stats in
def parseRounds? (s : String) : Option (List Round) :=
  if s == "-" then some [] else
    (s.splitOn ";").mapM fun r =>
      match r.splitOn ":" with
      | [p, b] => do
          let p ← parseNat? p; let b ← parseBits? b
          pure ⟨p, b⟩
      | _ => none

open MpycV.Stats in
def parseMethod? (s : String) : Option Method :=
  if s == "inclusive" then some .inclusive else if s == "exclusive" then some .exclusive else none

open MpycV.Stats in
def parseMed? (s : String) : Option Med :=
  if s == "mid" then some .mid else if s == "low" then some .low else if s == "high" then some .high else none

def parseOptInt? (s : String) : Option (Option Int) :=
  if s == "-" then some none else (parseInt? s).map some

def showR {α : Type} (shw : α → String) : MpycV.Stats.R α → String
  | .ok v => s!"ok {shw v}"
  | .error e => s!"error:{e}"

def showSel (nIn : Nat) (p : List Int × List MpycV.Stats.Round) : String :=
  s!"{showIntList p.1} used={nIn - p.2.length}"

open MpycV.Stats in
def statStep (toks : List String) : Option String :=
  match toks with
  | ["mean", x] => do
      let x ← parseIntList? x
      pure (showR showInt (meanInt x))
  | ["var", x, m, c] => do
      let x ← parseIntList? x; let m ← parseOptInt? m; let c ← parseNat? c
      pure (showR showInt (varInt x m c))
  | ["std", l, x, m, c] => do
      let l ← parseNat? l; let x ← parseIntList? x; let m ← parseOptInt? m; let c ← parseNat? c
      pure (showR showInt (stdInt l x m c))
  | ["isqrt", l, a] => do
      let l ← parseNat? l; let a ← parseInt? a
      pure (showInt (isqrt l a))
  | ["fsqrt", l, f, a, eps] => do
      let l ← parseNat? l; let f ← parseNat? f; let a ← parseInt? a; let eps ← parseBits? eps
      if eps.length ≠ (l + f - 1) / 2 + 1 then none else pure (showInt (fsqrt l f a eps))
  | ["qs", x, ks, rounds] => do
      let x ← parseIntList? x; let ks ← parseNatList? ks; let rounds ← parseRounds? rounds
      pure (showR (showSel rounds.length) (quickselect x.length x ks rounds))
  | ["med", x, kind, rounds] => do
      let x ← parseIntList? x; let kind ← parseMed? kind; let rounds ← parseRounds? rounds
      pure (showR (fun (p : Int × List Round) => s!"{p.1} used={rounds.length - p.2.length}") (medInt x kind rounds))
  | ["qks", ld, n, method] => do
      let ld ← parseNat? ld; let n ← parseNat? n; let method ← parseMethod? method
      pure (showNatList (quantileKs ld n method))
  | ["cut", ld, n, method, i] => do
      let ld ← parseNat? ld; let n ← parseNat? n; let method ← parseMethod? method; let i ← parseNat? i
      let (j, d) := cutIndex ld n method i
      pure s!"{j} {d}"
  | ["quant", x, n, method, rounds] => do
      let x ← parseIntList? x; let n ← parseInt? n; let method ← parseMethod? method
      let rounds ← parseRounds? rounds
      pure (showR (showSel rounds.length) (quantilesInt x n.toNat method rounds))
  | ["mode", l, priv, x] => do
      let l ← parseNat? l; let priv ← parseNat? priv; let x ← parseIntList? x
      pure (showR showInt (modeInt l priv x))
  | ["cov", x, y] => do
      let x ← parseIntList? x; let y ← parseIntList? y
      pure (showR showInt (covInt x y))
  | _ => none

def step (line : String) : String :=
  let toks := tokens line
  match randStep toks with
  | some r => r
  | none =>
    match statStep toks with
    | some r => r
    | none => "bad-op"

def main : IO Unit := do
  loop (← IO.getStdin) step
