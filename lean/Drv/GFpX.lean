/-
Line-protocol driver for the models `MpycV.GFpX` (lists) and `MpycV.BinPoly` (bitmasks).
Request:  `<op> <args...>`; polynomials over GF(p) are comma separated coefficient lists ("-" = []),
binary polynomials are decimal integers.  Answers: list / integer / `True|False` / tuple joined by `|` /
exception class name / `nofuel` / `bad-op`.

List ops (first argument p):  neg add sub mul sq lshift rshift reverse(p a d|N) truncate(p a n) divmod mod floordiv monic monicinv gcd gcdext
  invert powmod(p a n m|N) irr xgf(p a) nextirr(p fuel a) findirr(p d fuel) toint fromint(p n) eval(p a x) fromlist(a)
  lt(a b) degree(a) terms(a) wf(p a)
Bitmask ops (prefix `b.`), same names; plus `b.tolist`, `b.fromlist`.
-/
import MpycV.Model.GFpX
import MpycV.Model.BinPoly
import MpycV.Model.Util

open MpycV MpycV.Util

namespace Drv.GFpX

def showP (a : List Nat) : String := showNatList a
def showB (b : Bool) : String := if b then "True" else "False"

def showE {α} (f : α → String) : Except GFpX.Err α → String
  | .ok x => f x
  | .error e => e.toString

def showO {α} (f : α → String) : Option α → String
  | some x => f x
  | none => "nofuel"

def P (s : String) : Option (List Nat) := parseNatList? s
def N (s : String) : Option Nat := parseNat? s
def Z (s : String) : Option Int := parseInt? s

/-- optional modulus: "N" = None -/
def PM (s : String) : Option (Option (List Nat)) := if s == "N" then some none else (P s).map some
def NM (s : String) : Option (Option Nat) := if s == "N" then some none else (N s).map some

def orBad (o : Option String) : String := o.getD "bad-op"

def stepList (op : String) (args : List String) : Option String :=
  match op, args with
  | "neg", [p, a] => do let p ← N p; let a ← P a; pure (showP (GFpX.neg p a))
  | "add", [p, a, b] => do let p ← N p; let a ← P a; let b ← P b; pure (showP (GFpX.add p a b))
  | "sub", [p, a, b] => do let p ← N p; let a ← P a; let b ← P b; pure (showP (GFpX.sub p a b))
  | "mul", [p, a, b] => do let p ← N p; let a ← P a; let b ← P b; pure (showP (GFpX.mul p a b))
  | "sq", [p, a] => do let p ← N p; let a ← P a; pure (showP (GFpX.sq p a))
  | "lshift", [_, a, n] => do let a ← P a; let n ← N n; pure (showP (GFpX.lshift a n))
  | "rshift", [_, a, n] => do let a ← P a; let n ← N n; pure (showP (GFpX.rshift a n))
  | "reverse", [_, a, d] => do
      let a ← P a
      if d == "N" then pure (showP (GFpX.reverse a none)) else do
        let d ← Z d
        if d < -1 then none else pure (showP (GFpX.reverse a (some (d + 1).toNat)))
  | "truncate", [_, a, n] => do let a ← P a; let n ← N n; pure (showP (GFpX.truncate a n))
  | "divmod", [p, a, b] => do
      let p ← N p; let a ← P a; let b ← P b
      pure (showE (fun qr => showP qr.1 ++ "|" ++ showP qr.2) (GFpX.divmod p a b))
  | "mod", [p, a, b] => do let p ← N p; let a ← P a; let b ← P b; pure (showE showP (GFpX.mod p a b))
  | "floordiv", [p, a, b] => do let p ← N p; let a ← P a; let b ← P b; pure (showE showP (GFpX.floordiv p a b))
  | "monic", [p, a] => do let p ← N p; let a ← P a; pure (showP (GFpX.monic p a))
  | "monicinv", [p, a] => do
      let p ← N p; let a ← P a
      let r := GFpX.monicInv p a
      pure (showP r.1 ++ "|" ++ toString r.2)
  | "gcd", [p, a, b] => do let p ← N p; let a ← P a; let b ← P b; pure (showP (GFpX.gcd p a b))
  | "gcdext", [p, a, b] => do
      let p ← N p; let a ← P a; let b ← P b
      let r := GFpX.gcdext p a b
      pure (showP r.1 ++ "|" ++ showP r.2.1 ++ "|" ++ showP r.2.2)
  | "invert", [p, a, b] => do let p ← N p; let a ← P a; let b ← P b; pure (showE showP (GFpX.invert p a b))
  | "powmod", [p, a, n, m] => do
      let p ← N p; let a ← P a; let n ← Z n; let m ← PM m
      pure (showE showP (GFpX.powmod p a n m))
  | "irr", [p, a] => do let p ← N p; let a ← P a; pure (showB (GFpX.isIrreducible p a))
  | "xgf", [p, a] => do
      let p ← N p; let a ← P a
      pure (showE (fun r => toString r.1 ++ "|" ++ toString r.2) (GFpX.xGF p a))
  | "nextirr", [p, f, a] => do
      let p ← N p; let f ← N f; let a ← P a
      pure (showO showP (GFpX.nextIrreducible p f a))
  | "findirr", [p, d, f] => do
      let p ← N p; let d ← N d; let f ← N f
      pure (showO showP (GFpX.findIrreducible p d f))
  | "toint", [p, a] => do let p ← N p; let a ← P a; pure (toString (GFpX.toInt p a))
  | "fromint", [p, n] => do let p ← N p; let n ← Z n; pure (showP (GFpX.fromInt p n))
  | "eval", [p, a, x] => do let p ← N p; let a ← P a; let x ← Z x; pure (toString (GFpX.eval p a x))
  | "fromlist", [a] => do let a ← P a; pure (showP (GFpX.fromList a))
  | "lt", [a, b] => do let a ← P a; let b ← P b; pure (showB (GFpX.lt a b))
  | "degree", [a] => do let a ← P a; pure (toString (GFpX.degree a))
  | "terms", [a] => do let a ← P a; pure (GFpX.toTerms a)
  | "wf", [p, a] => do let p ← N p; let a ← P a; pure (showB (decide (GFpX.WF p a)))
  | _, _ => none

def stepBin (op : String) (args : List String) : Option String :=
  match op, args with
  | "neg", [a] => do let a ← N a; pure (toString (BinPoly.neg a))
  | "add", [a, b] => do let a ← N a; let b ← N b; pure (toString (BinPoly.add a b))
  | "sub", [a, b] => do let a ← N a; let b ← N b; pure (toString (BinPoly.sub a b))
  | "mul", [a, b] => do let a ← N a; let b ← N b; pure (toString (BinPoly.mul a b))
  | "sq", [a] => do let a ← N a; pure (toString (BinPoly.sq a))
  | "lshift", [a, n] => do let a ← N a; let n ← N n; pure (toString (BinPoly.lshift a n))
  | "rshift", [a, n] => do let a ← N a; let n ← N n; pure (toString (BinPoly.rshift a n))
  | "reverse", [a, d] => do
      let a ← N a
      if d == "N" then pure (toString (BinPoly.reverse a none)) else do
        let d ← Z d
        if d < -1 then none else pure (toString (BinPoly.reverse a (some (d + 1).toNat)))
  | "truncate", [a, n] => do let a ← N a; let n ← N n; pure (toString (BinPoly.truncate a n))
  | "divmod", [a, b] => do
      let a ← N a; let b ← N b
      pure (showE (fun qr => toString qr.1 ++ "|" ++ toString qr.2) (BinPoly.divmod a b))
  | "mod", [a, b] => do let a ← N a; let b ← N b; pure (showE toString (BinPoly.mod a b))
  | "floordiv", [a, b] => do let a ← N a; let b ← N b; pure (showE toString (BinPoly.floordiv a b))
  | "gcd", [a, b] => do let a ← N a; let b ← N b; pure (toString (BinPoly.gcd a b))
  | "gcdext", [a, b] => do
      let a ← N a; let b ← N b
      let r := BinPoly.gcdext a b
      pure (toString r.1 ++ "|" ++ toString r.2.1 ++ "|" ++ toString r.2.2)
  | "invert", [a, b] => do let a ← N a; let b ← N b; pure (showE toString (BinPoly.invert a b))
  | "powmod", [a, n, m] => do
      let a ← N a; let n ← Z n; let m ← NM m
      pure (showE toString (BinPoly.powmod a n m))
  | "irr", [a] => do let a ← N a; pure (showB (BinPoly.isIrreducible a))
  | "xgf", [a] => do
      let a ← N a
      pure (showE (fun r => toString r.1 ++ "|" ++ toString r.2) (BinPoly.xGF a))
  | "nextirr", [f, a] => do let f ← N f; let a ← N a; pure (showO toString (BinPoly.nextIrreducible f a))
  | "findirr", [d, f] => do let d ← N d; let f ← N f; pure (showO toString (BinPoly.findIrreducible d f))
  | "toint", [a] => do let a ← N a; pure (toString (BinPoly.toInt a))
  | "fromint", [n] => do let n ← Z n; pure (toString (BinPoly.fromInt n))
  | "eval", [a, x] => do let a ← N a; let x ← Z x; pure (toString (BinPoly.eval a x))
  | "fromlist", [a] => do let a ← P a; pure (toString (BinPoly.fromList a))
  | "tolist", [a] => do let a ← N a; pure (showP (BinPoly.toList a))
  | "lt", [a, b] => do let a ← N a; let b ← N b; pure (showB (BinPoly.lt a b))
  | "degree", [a] => do let a ← N a; pure (toString (BinPoly.degree a))
  | "terms", [a] => do let a ← N a; pure (BinPoly.toTerms a)
  | _, _ => none

def step (line : String) : String :=
  match tokens line with
  | [] => "bad-op"
  | op :: args =>
    if op.startsWith "b." then orBad (stepBin (op.drop 2).toString args) else orBad (stepList op args)

end Drv.GFpX

def main : IO Unit := do MpycV.Util.loop (← IO.getStdin) Drv.GFpX.step
