/-
Line-protocol driver for the secure-integer value layer (MpycV.Model.SecInt).

bits   = string of 0/1, little endian, or `-` (empty);  list = `1,2,3` or `-`;  matrix = rows separated by `;`
requests (answers):
  sgn p l a bits rDivl sSign rz lt|eq|full   -> `c b g z`     (opened in sgn, opened in is_zero_public, g, result)
  lsb p l a b r                              -> `c x`
  mod p l b a bits rDivb sSign rz            -> `c bo g z r`
  izp p a r                                  -> `c 0|1`
  trunc p d l x bits rdiv                    -> `c y`         (Fxp.truncE: secure-integer truncation, l = bit length)
  divmod p a b r                             -> `q r`
  prod p xs | all p xs | any p xs | sum p xs -> integer (signed representative)
  inprod p xs ys                             -> integer
  pow p a n | pown p a n                     -> integer       (n ≥ 0; pown: exponent -n)
  ifelse p c x y -> integer ; ifswap p c x y -> `u v` ; abs p a s -> integer
  min xs | max xs -> integer | ValueError ; minmax xs -> `a b` | ValueError
  matprod p tr A B -> matrix ; matsym p A -> matrix ; tri i j -> index
  gcdraw l a b -> `v g ok` ; gcd l a b | lcm l a b | inverse l a b -> integer ; gcdext l a b -> `g s t`
  divsteps l a b -> `f v g ok` ; iterations l -> n ; table l -> 0|1
  eval env prog…                             -> integer | none   (prefix notation, see `parseE`)
-/
import MpycV.Model.SecInt
import MpycV.Model.Util
open MpycV MpycV.SecInt MpycV.Util
open MpycV.Fxp (norm truncE)

def parseBits? (s : String) : Option (List Int) :=
  if s == "-" then some [] else
  s.toList.mapM (fun c => if c == '0' then some (0 : Int) else if c == '1' then some 1 else none)

def parseMat? (s : String) : Option (List (List Int)) :=
  if s == "-" then some [] else (s.splitOn ";").mapM parseIntList?

def showMat (m : List (List Int)) : String :=
  if m.isEmpty then "-" else ";".intercalate (m.map showIntList)

def parseMode? (s : String) : Option Mode :=
  if s == "lt" then some .lt else if s == "eq" then some .eq else if s == "full" then some .full else none

def showB (b : Bool) : String := if b then "1" else "0"

def parseUn? (s : String) : Option UnOp :=
  match s with
  | "neg" => some .neg | "pos" => some .pos | "abs" => some .abs | "sgn" => some .sgn
  | "lsb" => some .lsb | "not" => some .not | _ => none

def parseBin? (s : String) : Option BinOp :=
  match s with
  | "add" => some .add | "sub" => some .sub | "mul" => some .mul | "lt" => some .lt | "le" => some .le
  | "eq" => some .eq | "ne" => some .ne | "ge" => some .ge | "gt" => some .gt
  | "and" => some .and | "or" => some .or | "xor" => some .xor | _ => none

def parseN? (s : String) : Option NOp :=
  match s with
  | "sum" => some .sum | "prod" => some .prod | "all" => some .all | "any" => some .any
  | "min" => some .min | "max" => some .max | "minmax0" => some .minmax0 | "minmax1" => some .minmax1
  | _ => none

def parseG? (s : String) : Option GOp :=
  match s with
  | "gcd" => some .gcd | "lcm" => some .lcm | "inverse" => some .inverse
  | "gcdext0" => some .gcdext0 | "gcdext1" => some .gcdext1 | "gcdext2" => some .gcdext2 | _ => none

def parseBool? (s : String) : Option Bool :=
  if s == "1" then some true else if s == "0" then some false else none

/- prefix notation:
  v i | c n | u op E | b op E E | d floordiv|mod E n | p E n | ie C X Y | is 0|1 C X Y |
  n op cnt E… | ip cnt X… Y… | mp n1 n n2 tr sym i j cntA A… cntB B… | g op A B -/
mutual
partial def parseE : List String → Option (Expr × List String)
  | "v" :: i :: rest => do pure (.var (← parseNat? i), rest)
  | "c" :: n :: rest => do pure (.const (← parseInt? n), rest)
  | "u" :: op :: rest => do
      let o ← parseUn? op
      let (e, r) ← parseE rest
      pure (.un o e, r)
  | "b" :: op :: rest => do
      let o ← parseBin? op
      let (x, r1) ← parseE rest
      let (y, r2) ← parseE r1
      pure (.bin o x y, r2)
  | "d" :: op :: rest => do
      let o ← if op == "floordiv" then some DivOp.floordiv else if op == "mod" then some DivOp.mod else none
      let (x, r1) ← parseE rest
      match r1 with
      | n :: r2 => pure (.pdiv o x (← parseInt? n), r2)
      | [] => none
  | "p" :: rest => do
      let (x, r1) ← parseE rest
      match r1 with
      | n :: r2 => pure (.pow x (← parseNat? n), r2)
      | [] => none
  | "ie" :: rest => do
      let (c, r1) ← parseE rest
      let (x, r2) ← parseE r1
      let (y, r3) ← parseE r2
      pure (.ifelse c x y, r3)
  | "is" :: k :: rest => do
      let second ← parseBool? k
      let (c, r1) ← parseE rest
      let (x, r2) ← parseE r1
      let (y, r3) ← parseE r2
      pure (.ifswap second c x y, r3)
  | "n" :: op :: cnt :: rest => do
      let o ← parseN? op
      let (xs, r) ← parseL (← parseNat? cnt) rest
      pure (.nary o xs, r)
  | "ip" :: cnt :: rest => do
      let k ← parseNat? cnt
      let (xs, r1) ← parseL k rest
      let (ys, r2) ← parseL k r1
      pure (.inprod xs ys, r2)
  | "mp" :: n1 :: n :: n2 :: tr :: sym :: i :: j :: cntA :: rest => do
      let (A, r1) ← parseL (← parseNat? cntA) rest
      match r1 with
      | cntB :: r2 =>
        let (B, r3) ← parseL (← parseNat? cntB) r2
        pure (.matprod A B (← parseNat? n1) (← parseNat? n) (← parseNat? n2) (← parseBool? tr) (← parseBool? sym)
                (← parseNat? i) (← parseNat? j), r3)
      | [] => none
  | "g" :: op :: rest => do
      let o ← parseG? op
      let (x, r1) ← parseE rest
      let (y, r2) ← parseE r1
      pure (.gop o x y, r2)
  | _ => none
partial def parseL : Nat → List String → Option (ExprL × List String)
  | 0, rest => some (.nil, rest)
  | k + 1, rest => do
      let (e, r1) ← parseE rest
      let (es, r2) ← parseL k r1
      pure (.cons e es, r2)
end

def showOptInt (o : Option Int) : String := match o with | some v => toString v | none => "none"

def step (line : String) : String :=
  match tokens line with
  | ["sgn", p, l, a, bits, rd, s, rz, mode] =>
    match parseNat? p, parseNat? l, parseInt? a, parseBits? bits, parseInt? rd, parseInt? s, parseInt? rz, parseMode? mode with
    | some p, some l, some a, some bits, some rd, some s, some rz, some mode =>
      if p < 3 then "bad-op" else
      let o := sgnModel p l a bits rd s rz mode
      s!"{o.c} {o.b} {showB o.g} {o.z}"
    | _, _, _, _, _, _, _, _ => "bad-op"
  | ["lsb", p, l, a, b, r] =>
    match parseNat? p, parseNat? l, parseInt? a, parseInt? b, parseInt? r with
    | some p, some l, some a, some b, some r =>
      if p < 3 then "bad-op" else
      let o := lsbModel p l a b r
      s!"{o.1} {o.2}"
    | _, _, _, _, _ => "bad-op"
  | ["mod", p, l, b, a, bits, rd, s, rz] =>
    match parseNat? p, parseNat? l, parseInt? b, parseInt? a, parseBits? bits, parseInt? rd, parseInt? s, parseInt? rz with
    | some p, some l, some b, some a, some bits, some rd, some s, some rz =>
      if p < 3 then "bad-op" else if b ≤ 0 then "ValueError" else
      let o := modModel p l b a bits rd s rz
      s!"{o.c} {o.b} {showB o.g} {o.z} {o.r}"
    | _, _, _, _, _, _, _, _ => "bad-op"
  | ["izp", p, a, r] =>
    match parseNat? p, parseInt? a, parseInt? r with
    | some p, some a, some r =>
      if p < 2 then "bad-op" else
      let o := isZeroPublic p a r
      s!"{o.1} {showB o.2}"
    | _, _, _ => "bad-op"
  | ["trunc", p, d, l, x, bits, rdiv] =>
    match parseNat? p, parseNat? d, parseNat? l, parseInt? x, parseBits? bits, parseInt? rdiv with
    | some p, some d, some l, some x, some bits, some rdiv =>
      if p < 3 then "bad-op" else
      let o := truncE p d l x bits rdiv
      s!"{o.1} {o.2}"
    | _, _, _, _, _, _ => "bad-op"
  | ["divmod", p, a, b, r] =>
    match parseNat? p, parseInt? a, parseInt? b, parseInt? r with
    | some p, some a, some b, some r =>
      if p < 3 then "bad-op" else if b % (p : Int) = 0 then "ZeroDivisionError" else
      let o := divmodModel p a b r
      s!"{o.1} {o.2}"
    | _, _, _, _ => "bad-op"
  | ["matsym", p, A] =>
    match parseNat? p, parseMat? A with
    | some p, some A => if p < 3 then "bad-op" else showMat ((matrixProdSym A).map (fun r => r.map (norm p)))
    | _, _ => "bad-op"
  | ["tri", i, j] =>
    match parseNat? i, parseNat? j with
    | some i, some j => toString (triIndex i j)
    | _, _ => "bad-op"
  | [op, p, xs] =>
    match parseNat? p, parseIntList? xs with
    | some p, some xs =>
      if p < 3 then "bad-op" else
      match op with
      | "prod" => toString (norm p (prodTree xs))
      | "all" => toString (norm p (allTree xs))
      | "any" => toString (norm p (anyModel xs))
      | "sum" => toString (norm p (sumI xs))
      | _ => "bad-op"
    | _, _ => "bad-op"
  | ["inprod", p, xs, ys] =>
    match parseNat? p, parseIntList? xs, parseIntList? ys with
    | some p, some xs, some ys => if p < 3 then "bad-op" else toString (norm p (dot xs ys))
    | _, _, _ => "bad-op"
  | ["pow", p, a, n] =>
    match parseNat? p, parseInt? a, parseNat? n with
    | some p, some a, some n => if p < 3 then "bad-op" else toString (norm p (powModel a n))
    | _, _, _ => "bad-op"
  | ["pown", p, a, n] =>
    match parseNat? p, parseInt? a, parseNat? n with
    | some p, some a, some n =>
      if p < 3 then "bad-op" else if a % (p : Int) = 0 then "ZeroDivisionError" else toString (powNegModel p a n)
    | _, _, _ => "bad-op"
  | ["ifelse", p, c, x, y] =>
    match parseNat? p, parseInt? c, parseInt? x, parseInt? y with
    | some p, some c, some x, some y => if p < 3 then "bad-op" else toString (norm p (ifElse c x y))
    | _, _, _, _ => "bad-op"
  | ["ifswap", p, c, x, y] =>
    match parseNat? p, parseInt? c, parseInt? x, parseInt? y with
    | some p, some c, some x, some y =>
      if p < 3 then "bad-op" else let o := ifSwap c x y; s!"{norm p o.1} {norm p o.2}"
    | _, _, _, _ => "bad-op"
  | ["abs", p, a, s] =>
    match parseNat? p, parseInt? a, parseInt? s with
    | some p, some a, some s => if p < 3 then "bad-op" else toString (norm p (absModel a s))
    | _, _, _ => "bad-op"
  | ["min", xs] => match parseIntList? xs with
    | some xs => match minModel xs with | some v => toString v | none => "ValueError"
    | none => "bad-op"
  | ["max", xs] => match parseIntList? xs with
    | some xs => match maxModel xs with | some v => toString v | none => "ValueError"
    | none => "bad-op"
  | ["minmax", xs] => match parseIntList? xs with
    | some xs => match minMaxModel xs with | some v => s!"{v.1} {v.2}" | none => "ValueError"
    | none => "bad-op"
  | ["matprod", p, tr, A, B] =>
    match parseNat? p, parseBool? tr, parseMat? A, parseMat? B with
    | some p, some tr, some A, some B =>
      if p < 3 then "bad-op" else showMat ((matrixProd A B tr).map (fun r => r.map (norm p)))
    | _, _, _, _ => "bad-op"
  | ["gcdraw", l, a, b] =>
    match parseNat? l, parseInt? a, parseInt? b with
    | some l, some a, some b => let o := gcdRaw l a b; s!"{o.1} {o.2.1} {showB o.2.2}"
    | _, _, _ => "bad-op"
  | ["gcd", l, a, b] =>
    match parseNat? l, parseInt? a, parseInt? b with
    | some l, some a, some b => toString (gcdModel l a b)
    | _, _, _ => "bad-op"
  | ["lcm", l, a, b] =>
    match parseNat? l, parseInt? a, parseInt? b with
    | some l, some a, some b => toString (lcmModel l a b)
    | _, _, _ => "bad-op"
  | ["inverse", l, a, b] =>
    match parseNat? l, parseInt? a, parseInt? b with
    | some l, some a, some b => toString (inverseModel l a b)
    | _, _, _ => "bad-op"
  | ["gcdext", l, a, b] =>
    match parseNat? l, parseInt? a, parseInt? b with
    | some l, some a, some b => let o := gcdextModel l a b; s!"{o.1} {o.2.1} {o.2.2}"
    | _, _, _ => "bad-op"
  | ["divsteps", l, a, b] =>
    match parseNat? l, parseInt? a, parseInt? b with
    | some l, some a, some b => let o := divsteps l a b; s!"{o.f} {o.v} {o.g} {showB o.ok}"
    | _, _, _ => "bad-op"
  | ["iterations", l] => match parseNat? l with | some l => toString (iterations l) | none => "bad-op"
  | ["table", l] => match parseNat? l with
    | some l => if l > 8 then "bad-op" else showB (gcdTableOk l && divTableOk l)
    | none => "bad-op"
  | "eval" :: env :: prog =>
    match parseIntList? env, parseE prog with
    | some env, some (e, []) => showOptInt (evalSpec env e)
    | _, _ => "bad-op"
  | _ => "bad-op"

def main : IO Unit := do
  loop (← IO.getStdin) step
