/-
Line-protocol driver for the frame parser model.
request:  run <server|client:PEER> <noprss:0|1> <keylenA> <keylenB> op*      with keyLen pid = keylenA * ((pid * 7) % 5) + keylenB
          op = f:<hex chunk> | r:<pc>          (feed a chunk / call receive(pc))
          enc <pc> <hex payload>               -> hex of encodeMsg
answer:   events separated by ';' then '|buf=..|peer=..|buffers=..'
-/
import MpycV.Model.Frame
import MpycV.Model.Util
open MpycV MpycV.Frame MpycV.Util

def showEvent : Event → String
  | Event.handshake p k => s!"H:{p}:{showHex k}"
  | Event.stored pc p => s!"S:{pc}:{showHex p}"
  | Event.resolved f pc p => s!"R:{f}:{pc}:{showHex p}"
  | Event.dupError pc => s!"E:{pc}"

def showSlot : Int × Slot → String
  | (pc, Slot.payload b) => s!"{pc}=P{showHex b}"
  | (pc, Slot.waiting f) => s!"{pc}=F{f}"

def insertSorted (x : Int × Slot) : List (Int × Slot) → List (Int × Slot)
  | [] => [x]
  | y :: ys => if x.1 ≤ y.1 then x :: y :: ys else y :: insertSorted x ys

def showState (s : Parser) : String :=
  let bs := (s.buffers.foldl (fun acc x => insertSorted x acc) []).map showSlot
  let peer := match s.peer with | none => "-" | some p => toString p
  s!"|buf={showHex s.buf}|peer={peer}|buffers={",".intercalate bs}"

def runOps (cfg : Cfg) : Parser → Nat → List String → List String → Option (Parser × List String)
  | s, _, [], acc => some (s, acc.reverse)
  | s, fresh, op :: ops, acc =>
    if op.startsWith "f:" then
      match parseHex? (op.drop 2).toString with
      | some bytes =>
        let (s', evs) := feed cfg s bytes
        runOps cfg s' fresh ops ((evs.map showEvent).reverse ++ acc)
      | none => none
    else if op.startsWith "r:" then
      match parseInt? (op.drop 2).toString with
      | some pc =>
        let (s', r) := receive s pc fresh
        match r with
        | Recv.payload p => runOps cfg s' fresh ops (s!"P:{showHex p}" :: acc)
        | Recv.future f => runOps cfg s' (if f == fresh then fresh + 1 else fresh) ops (s!"F:{f}" :: acc)
      | none => none
    else none

def step (line : String) : String :=
  match tokens line with
  | "run" :: role :: np :: ka :: kb :: ops =>
    match parseNat? np, parseNat? ka, parseNat? kb with
    | some np, some ka, some kb =>
      let cfg : Cfg := { noPrss := np == 1, keyLen := fun pid => ka * ((pid * 7) % 5) + kb }
      let init : Option Parser :=
        if role == "server" then some initServer
        else if role.startsWith "client:" then (parseNat? (role.drop 7).toString).map initClient
        else none
      match init with
      | some s0 =>
        match runOps cfg s0 0 ops [] with
        | some (s, out) => ";".intercalate out ++ showState s
        | none => "bad-op"
      | none => "bad-op"
    | _, _, _ => "bad-op"
  | ["enc", pc, pl] =>
    match parseInt? pc, parseHex? pl with
    | some pc, some pl => showHex (encodeMsg pc pl)
    | _, _ => "bad-op"
  | _ => "bad-op"

def main : IO Unit := do
  loop (← IO.getStdin) step
