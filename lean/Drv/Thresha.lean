/-
Line-protocol driver for the thresha model (stateful: the current field is set by a `field` request).

  field p <p>                          -> ok            prime field GF(p) (modP)
  field T <q> <addcsv> <mulcsv>        -> ok            field given by tables (tableOps)
  split <t> <m> <s> <coeffs>           -> matrix | IndexError
  rvec <xs> <xr>                       -> list | ZeroDivisionError
  recomb <xs> <matrix> <xrs>           -> matrix | ValueError | ZeroDivisionError | IndexError
  recomb1 <xs> <matrix> <xr>           -> list   | (same errors)
  fsi <m> <i> <S>                      -> value
  prss <m> <i> <n> <prfs>              -> list          prfs = S:prl|S:prl|...   ("-" = no subsets)
  prss0 <m> <i> <n> <prfs>             -> list
  blen <bound> <keyLen>                -> byte_length
  prf <bound> <keyLen> <n|N> <hex>     -> list (n) / value (N = None) | ZeroDivisionError
lists: csv, "-" = empty; matrix: rows joined by ';', "[]" = no rows. x-coordinates are given as naturals and
embedded with `ofNat` (as `field(x).value` does).
-/
import MpycV.Model.Util
import MpycV.Model.Thresha
open MpycV MpycV.Util MpycV.Thresha

structure St where
  ops : Option (FieldOps Nat)
  order : Nat := 0

def showMatrix (rows : List (List Nat)) : String :=
  if rows.isEmpty then "[]" else ";".intercalate (rows.map showNatList)

def parseMatrix? (s : String) : Option (List (List Nat)) :=
  if s == "[]" then some [] else (s.splitOn ";").mapM parseNatList?

def parsePrfs? (s : String) : Option (List (List Nat × List Nat)) :=
  if s == "-" then some [] else
  (s.splitOn "|").mapM fun e =>
    match e.splitOn ":" with
    | [a, b] => do
        let S ← parseNatList? a
        let prl ← parseNatList? b
        pure (S, prl)
    | _ => none

def showExcept {α} (f : α → String) : Except String α → String
  | .ok a => f a
  | .error e => e

def withOps (st : St) (f : FieldOps Nat → Option String) : String :=
  match st.ops with
  | none => "bad-op"
  | some o => (f o).getD "bad-op"

def step (st : St) (line : String) : St × String :=
  match tokens line with
  | ["field", "p", p] =>
    match parseNat? p with
    | some p => if p ≥ 2 then (⟨some (modP p), p⟩, "ok") else (st, "bad-op")
    | none => (st, "bad-op")
  | ["field", "T", q, a, m] =>
    match parseNat? q, parseNatList? a, parseNatList? m with
    | some q, some a, some m =>
      if q ≥ 2 ∧ a.length = q * q ∧ m.length = q * q then (⟨some (tableOps q a.toArray m.toArray), q⟩, "ok")
      else (st, "bad-op")
    | _, _, _ => (st, "bad-op")
  | ["split", t, m, s, c] => (st, withOps st fun o => do
      let t ← parseNat? t; let m ← parseNat? m
      let s ← parseNatList? s; let c ← parseNatList? c
      pure (showExcept showMatrix (randomSplitE o st.order (s.map o.ofNat) (c.map o.ofNat) t m)))
  | ["rvec", xs, xr] => (st, withOps st fun o => do
      let xs ← parseNatList? xs; let xr ← parseNat? xr
      pure (showExcept showNatList (recombVecE o (xs.map o.ofNat) (o.ofNat xr))))
  | ["recomb", xs, sh, xrs] => (st, withOps st fun o => do
      let xs ← parseNatList? xs; let sh ← parseMatrix? sh; let xrs ← parseNatList? xrs
      pure (showExcept showMatrix
        (recombineE o (xs.map o.ofNat) (sh.map (·.map o.ofNat)) (xrs.map o.ofNat))))
  | ["recomb1", xs, sh, xr] => (st, withOps st fun o => do
      let xs ← parseNatList? xs; let sh ← parseMatrix? sh; let xr ← parseNat? xr
      pure (showExcept (fun r => showNatList (r.headD []))
        (recombineE o (xs.map o.ofNat) (sh.map (·.map o.ofNat)) [o.ofNat xr])))
  | ["fsi", m, i, S] => (st, withOps st fun o => do
      let m ← parseNat? m; let i ← parseNat? i; let S ← parseNatList? S
      pure (toString (fSi o m i S)))
  | ["prss", m, i, n, prfs] => (st, withOps st fun o => do
      let m ← parseNat? m; let i ← parseNat? i; let n ← parseNat? n; let prfs ← parsePrfs? prfs
      pure (showNatList (prssShare o m i (prfs.map fun Sp => (Sp.1, Sp.2.map o.ofNat)) n)))
  | ["prss0", m, i, n, prfs] => (st, withOps st fun o => do
      let m ← parseNat? m; let i ← parseNat? i; let n ← parseNat? n; let prfs ← parsePrfs? prfs
      pure (showNatList (prssZero o m i (prfs.map fun Sp => (Sp.1, Sp.2.map o.ofNat)) n)))
  | ["blen", b, k] =>
    match parseNat? b, parseNat? k with
    | some b, some k => (st, toString (byteLength b k))
    | _, _ => (st, "bad-op")
  | ["prf", b, k, n, hex] =>
    match parseNat? b, parseNat? k, parseHex? hex with
    | some b, some k, some dk =>
      let xof := fun len => dk.take len
      if n == "N" then
        (st, showExcept (fun x => match x with | v :: _ => toString v | [] => "IndexError")
          (prfCallE b k xof none))
      else match parseNat? n with
        | some n => (st, showExcept showNatList (prfCallE b k xof (some n)))
        | none => (st, "bad-op")
    | _, _, _ => (st, "bad-op")
  | _ => (st, "bad-op")

def main : IO Unit := do MpycV.Util.loopS (← IO.getStdin) step ⟨none, 0⟩
