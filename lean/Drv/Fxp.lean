/-
Line-protocol driver for the fixed-point value layer (MpycV.Model.Fxp) and the secure-float pair
operations (MpycV.Model.Flt).

T        = four tokens `l f k p` (bit_length, frac_length, sec_param, modulus)
value    = `A:flag`            (A any integer representative, flag 0/1); output values are `norm p A`
list     = `v,v,…` or `-`      matrix = rows separated by `;`
rnd      = `bits/rdiv`         bits = string of 0/1 (little endian) or `-`; list of rnd `r,r,…` or `-`
float    = `m@e`               the dyadic rational m*2^e

requests (answers):
  norm p x | rsh p n x                      -> integer
  scaleround f m@e                          -> `B z isint`
  trunc p d l x bits rdiv                   -> `c y`   (opened value, result)
  ofint T n | offloat T m@e | offloat0 T m@e -> value
  neg|pos T a ; add|sub T a b ; mulint T a n ; lshift T a n ; mulss T a b rnd ; mulfloat T a m@e rnd
  ifelse T c x y (ValueError unless c.flag) ; ifswap T c x y -> `v v`
  pow T a n rnds
  sum T xs ; inprod T xs ys rnd ; vadd|vsub|vaddold T xs ys ; smul T a xs rnds ; schur T xs ys rnds
  ifelsel T c xs ys ; ifswapl T c xs ys -> `list list` ; matprod T tr A B rndmatrix ; prod T xs rnds ; all T xs
  fltin T m@q e -> `S:flag:E` ; fltneg T a ; fltmul T a b rnd ; fltadd T a b rnd1 rnd2   (float value = `S:flag:E`)
-/
import MpycV.Model.Fxp
import MpycV.Model.Flt
import MpycV.Model.Util
open MpycV MpycV.Fxp MpycV.Util

def parseBool? (s : String) : Option Bool :=
  if s == "1" then some true else if s == "0" then some false else none

def parseV? (s : String) : Option V :=
  match s.splitOn ":" with
  | [a, fl] => do
    let a ← parseInt? a
    let fl ← parseBool? fl
    pure ⟨a, fl⟩
  | _ => none

def parseVList? (s : String) : Option (List V) :=
  if s == "-" then some [] else (s.splitOn ",").mapM parseV?

def parseVMat? (s : String) : Option (List (List V)) :=
  if s == "-" then some [] else (s.splitOn ";").mapM parseVList?

def parseBits? (s : String) : Option (List Int) :=
  if s == "-" then some [] else
  s.toList.mapM (fun c => if c == '0' then some (0 : Int) else if c == '1' then some 1 else none)

def parseRnd? (s : String) : Option Rnd :=
  match s.splitOn "/" with
  | [b, d] => do
    let b ← parseBits? b
    let d ← parseInt? d
    pure (b, d)
  | _ => none

def parseRndList? (s : String) : Option (List Rnd) :=
  if s == "-" then some [] else (s.splitOn ",").mapM parseRnd?

def parseRndMat? (s : String) : Option (List (List Rnd)) :=
  if s == "-" then some [] else (s.splitOn ";").mapM parseRndList?

def parseDy? (s : String) : Option Dy :=
  match s.splitOn "@" with
  | [m, e] => do
    let m ← parseInt? m
    let e ← parseInt? e
    pure ⟨m, e⟩
  | _ => none

def parseTy? (l f k p : String) : Option Ty := do
  let l ← parseNat? l
  let f ← parseNat? f
  let k ← parseNat? k
  let p ← parseNat? p
  if p < 3 || f == 0 || l == 0 then none else pure ⟨l, f, k, p⟩

def showV (t : Ty) (v : V) : String := s!"{norm t.p v.A}:{if v.flag then 1 else 0}"

def showVList (t : Ty) (vs : List V) : String :=
  if vs.isEmpty then "-" else ",".intercalate (vs.map (showV t))

def showVMat (t : Ty) (m : List (List V)) : String :=
  if m.isEmpty then "-" else ";".intercalate (m.map (showVList t))

def parseF? (s : String) : Option MpycV.Flt.F :=
  match s.splitOn ":" with
  | [a, fl, e] => do
    let a ← parseInt? a
    let fl ← parseBool? fl
    let e ← parseInt? e
    pure ⟨⟨a, fl⟩, e⟩
  | _ => none

def showF (t : Ty) (a : MpycV.Flt.F) : String := s!"{showV t a.S}:{a.E}"

def stepT (t : Ty) (op : String) (args : List String) : Option String :=
  match op, args with
  | "fltin", [x, e] => do
    let x ← parseDy? x; let e ← parseInt? e
    pure (showF t (MpycV.Flt.ofFloat t x e))
  | "fltneg", [a] => do let a ← parseF? a; pure (showF t (MpycV.Flt.neg a))
  | "fltmul", [a, b, r] => do
    let a ← parseF? a; let b ← parseF? b; let r ← parseRnd? r
    if t.l < 3 then none else pure (showF t (MpycV.Flt.mul t a b r))
  | "fltadd", [a, b, r1, r2] => do
    let a ← parseF? a; let b ← parseF? b; let r1 ← parseRnd? r1; let r2 ← parseRnd? r2
    if t.l < 3 then none else pure (showF t (MpycV.Flt.add t a b r1 r2))
  | "ofint", [n] => do let n ← parseInt? n; pure (showV t (ofInt t.f n))
  | "offloat", [x] => do let x ← parseDy? x; pure (showV t (ofFloat t.f x))
  | "offloat0", [x] => do let x ← parseDy? x; pure (showV t (ofFloatNoFlag t.f x))
  | "neg", [a] => do let a ← parseV? a; pure (showV t (neg a))
  | "pos", [a] => do let a ← parseV? a; pure (showV t (pos a))
  | "add", [a, b] => do let a ← parseV? a; let b ← parseV? b; pure (showV t (add a b))
  | "sub", [a, b] => do let a ← parseV? a; let b ← parseV? b; pure (showV t (sub a b))
  | "mulint", [a, n] => do let a ← parseV? a; let n ← parseInt? n; pure (showV t (mulInt a n))
  | "lshift", [a, n] => do let a ← parseV? a; let n ← parseNat? n; pure (showV t (lshift t.f a n))
  | "mulss", [a, b, r] => do
    let a ← parseV? a; let b ← parseV? b; let r ← parseRnd? r
    pure (showV t (mulSS t a b r))
  | "mulfloat", [a, x, r] => do
    let a ← parseV? a; let x ← parseDy? x; let r ← parseRnd? r
    pure (showV t (mulFloat t a x r))
  | "ifelse", [c, x, y] => do
    let c ← parseV? c; let x ← parseV? x; let y ← parseV? y
    if !c.flag then pure "ValueError" else pure (showV t (ifElse t c x y))
  | "ifswap", [c, x, y] => do
    let c ← parseV? c; let x ← parseV? x; let y ← parseV? y
    if !c.flag then pure "ValueError" else
    let (u, v) := ifSwap t c x y
    pure s!"{showV t u} {showV t v}"
  | "pow", [a, n, rs] => do
    let a ← parseV? a; let n ← parseNat? n; let rs ← parseRndList? rs
    if n == 0 then none else pure (showV t (pow t a n rs))
  | "sum", [xs] => do
    let xs ← parseVList? xs
    if xs.isEmpty then none else pure (showV t (sum xs))
  | "inprod", [xs, ys, r] => do
    let xs ← parseVList? xs; let ys ← parseVList? ys; let r ← parseRnd? r
    if xs.isEmpty || xs.length != ys.length then none else pure (showV t (inProd t xs ys r))
  | "vadd", [xs, ys] => do
    let xs ← parseVList? xs; let ys ← parseVList? ys
    if xs.length != ys.length then none else pure (showVList t (vectorAdd xs ys))
  | "vsub", [xs, ys] => do
    let xs ← parseVList? xs; let ys ← parseVList? ys
    if xs.length != ys.length then none else pure (showVList t (vectorSub xs ys))
  | "vaddold", [xs, ys] => do
    let xs ← parseVList? xs; let ys ← parseVList? ys
    if xs.length != ys.length then none else pure (showVList t (vectorAddOld xs ys))
  | "smul", [a, xs, rs] => do
    let a ← parseV? a; let xs ← parseVList? xs; let rs ← parseRndList? rs
    if !a.flag && rs.length != xs.length then none else pure (showVList t (scalarMul t a xs rs))
  | "schur", [xs, ys, rs] => do
    let xs ← parseVList? xs; let ys ← parseVList? ys; let rs ← parseRndList? rs
    if xs.length != ys.length then none
    else if !(allFlags xs || allFlags ys) && rs.length != xs.length then none
    else pure (showVList t (schurProd t xs ys rs))
  | "ifelsel", [c, xs, ys] => do
    let c ← parseV? c; let xs ← parseVList? xs; let ys ← parseVList? ys
    if xs.length != ys.length then none
    else if !c.flag then pure "ValueError" else pure (showVList t (ifElseList t c xs ys))
  | "ifswapl", [c, xs, ys] => do
    let c ← parseV? c; let xs ← parseVList? xs; let ys ← parseVList? ys
    if xs.length != ys.length then none
    else if !c.flag then pure "ValueError" else
    let (u, v) := ifSwapList t c xs ys
    pure s!"{showVList t u} {showVList t v}"
  | "matprod", [tr, a, b, rs] => do
    let tr ← parseBool? tr; let a ← parseVMat? a; let b ← parseVMat? b; let rs ← parseRndMat? rs
    if a.isEmpty || b.isEmpty then none else
    let n := (a.headD []).length
    if n == 0 || a.any (·.length != n) then none
    else if tr && b.any (·.length != n) then none
    else if !tr && (b.length != n || b.any (·.length != (b.headD []).length)) then none
    else pure (showVMat t (matrixProd t a b tr rs))
  | "prod", [xs, rs] => do
    let xs ← parseVList? xs; let rs ← parseRndList? rs
    if xs.isEmpty then none else pure (showV t (prod t xs rs))
  | "all", [xs] => do
    let xs ← parseVList? xs
    if xs.isEmpty then none else
    match MpycV.Fxp.all t xs with
    | some v => pure (showV t v)
    | none => pure "ValueError"
  | _, _ => none

def step (line : String) : String :=
  let r : Option String :=
    match tokens line with
    | ["norm", p, x] => do
      let p ← parseNat? p; let x ← parseInt? x
      if p == 0 then none else pure (toString (norm p x))
    | ["rsh", p, n, x] => do
      let p ← parseNat? p; let n ← parseNat? n; let x ← parseInt? x
      if p < 3 then none else pure (toString (rsh p n x))
    | ["scaleround", f, x] => do
      let f ← parseNat? f; let x ← parseDy? x
      let b := scaleRound f x
      pure s!"{b} {zOf f b} {if x.isInteger then 1 else 0}"
    | ["trunc", p, d, l, x, bits, rdiv] => do
      let p ← parseNat? p; let d ← parseNat? d; let l ← parseNat? l; let x ← parseInt? x
      let bits ← parseBits? bits; let rdiv ← parseInt? rdiv
      if p < 3 || l == 0 then none else
      let (c, y) := truncE p d l x bits rdiv
      pure s!"{c} {y}"
    | op :: rest =>
      match rest with
      | l :: f :: k :: p :: args => do
        let t ← parseTy? l f k p
        stepT t op args
      | _ => none
    | _ => none
  r.getD "bad-op"

def main : IO Unit := do
  loop (← IO.getStdin) step
