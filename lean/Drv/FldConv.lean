/-
Line-protocol driver for area FldConv (C04, C06).

field spec  FLD ::= P <p> | B <modulus bitmask> | X <p> <modulus coeffs c0,c1,..>
elements    P, B: decimal Nat;  X: coefficient list "c0,c1,.." ("-" = zero);  lists of elements: ';'-separated, "_" = empty
C04:
  bop  FLD <add|sub|mul> a b            -> element
  recip FLD a rs                        -> "opened;..|result"   (result "loop" = all masks used up, loop continues)
  div  FLD a b rs                       -> same (a / b)
  pow  FLD a n rs                       -> same (a ** n)
  iszero FLD a      eq FLD a b          -> element (0/1) or "loop"
  izp  FLD a r                          -> "opened True|False"
  xor FLD a b       invert FLD qsub a   (qsub = 0: type not lifted)
  tobits FLD a rbits(0/1 list r0,r1,..) [l] -> "c|b0;b1;.." (first l bits; default all)
  and FLD a b ra rb     or FLD a b ra rb
  tobitsp p signed(0|1) x l             -> "b0,b1,.."
  liftin FLD q v    outconv FLD q a (-> int or AssertionError)    liftdeg q m     islifted q m t
  lifted q <cmd> FLD ...                operands/results are ints of the subfield GF(q) (liftIn / outConv); masks and
                                        opened values stay raw elements of FLD
C06:
  conv1 S T x r rModf rDivf rModb rDivb        S, T ::= isFld(0|1) p signed(0|1) bitLength frac
                                        -> "truncOpened opened modOpened result"   ("-" = none)
  conv2 S T pi x r1 rModb1 rDivb1 r2    -> "opened1 modOpened1 result1 opened2 result2"
  bound k l n      viabits ps pt      toint p signed a      shr p a f     trunc p x f l rModf rDivf -> "c y"
-/
import MpycV.Model.SecFld
import MpycV.Model.Convert
import MpycV.Model.Util
open MpycV MpycV.Util

namespace Drv.FldConv
open MpycV.SecFld

def showB (b : Bool) : String := if b then "True" else "False"

structure Codec (α : Type) where
  parse : String → Option α
  show_ : α → String

def natCodec : Codec Nat := ⟨parseNat?, toString⟩
def polyCodec (p : Nat) : Codec (List Nat) :=
  ⟨fun s => (parseNatList? s).bind (fun l => if l.all (· < p) && l.getLast? != some 0 then some l else none),
   showNatList⟩

def parseElems {α} (c : Codec α) (s : String) : Option (List α) :=
  if s == "_" then some [] else (s.splitOn ";").mapM c.parse

def showElems {α} (c : Codec α) (l : List α) : String :=
  if l.isEmpty then "_" else ";".intercalate (l.map c.show_)

def showOpened {α} (c co : Codec α) (r : List α × Option α) : String :=
  showElems co r.1 ++ "|" ++ (match r.2 with | some v => c.show_ v | none => "loop")

def parseBits (s : String) : Option (List Nat) :=
  (parseNatList? s).bind (fun l => if l.all (· < 2) then some l else none)

/-- `c`: codec of the operands/results (for a lifted type: ints of the subfield through `liftIn`/`outConv`);
`co`: codec of masks and opened values (always the raw field) -/
def runF {α} (F : Ops α) (c co : Codec α) (cmd : String) (args : List String) : String :=
  match cmd, args with
  | "bop", [op, a, b] =>
    match c.parse a, c.parse b with
    | some a, some b =>
      if op == "add" then c.show_ (F.add a b) else if op == "sub" then c.show_ (F.sub a b)
      else if op == "mul" then c.show_ (F.mul a b) else "bad-op"
    | _, _ => "bad-op"
  | "recip", [a, rs] =>
    match c.parse a, parseElems co rs with
    | some a, some rs => showOpened c co (reciprocal F a rs)
    | _, _ => "bad-op"
  | "div", [a, b, rs] =>
    match c.parse a, c.parse b, parseElems co rs with
    | some a, some b, some rs => showOpened c co (div F a b rs)
    | _, _, _ => "bad-op"
  | "pow", [a, n, rs] =>
    match c.parse a, parseInt? n, parseElems co rs with
    | some a, some n, some rs => showOpened c co (pow F a n rs)
    | _, _, _ => "bad-op"
  | "iszero", [a] =>
    match c.parse a with
    | some a => (match isZero F a with | some v => c.show_ v | none => "loop")
    | none => "bad-op"
  | "eq", [a, b] =>
    match c.parse a, c.parse b with
    | some a, some b => (match eq F a b with | some v => c.show_ v | none => "loop")
    | _, _ => "bad-op"
  | "izp", [a, r] =>
    match c.parse a, co.parse r with
    | some a, some r => let o := isZeroPublic F a r; s!"{co.show_ o.1} {showB o.2}"
    | _, _ => "bad-op"
  | "xor", [a, b] =>
    match c.parse a, c.parse b with
    | some a, some b => c.show_ (xor F a b)
    | _, _ => "bad-op"
  | "invert", [q, a] =>
    match parseNat? q, c.parse a with
    | some q, some a => c.show_ (invert F (if q == 0 then none else some q) a)
    | _, _ => "bad-op"
  | "tobits", [a, rb] =>
    match c.parse a, parseBits rb with
    | some a, some rb => let o := toBitsBin F a rb; s!"{o.1}|{showElems c o.2}"
    | _, _ => "bad-op"
  | "tobits", [a, rb, l] =>
    match c.parse a, parseBits rb, parseNat? l with
    | some a, some rb, some l => let o := toBitsBin F a rb l; s!"{o.1}|{showElems c o.2}"
    | _, _, _ => "bad-op"
  | "and", [a, b, ra, rb] =>
    match c.parse a, c.parse b, parseBits ra, parseBits rb with
    | some a, some b, some ra, some rb => c.show_ (and_ F a b ra rb)
    | _, _, _, _ => "bad-op"
  | "or", [a, b, ra, rb] =>
    match c.parse a, c.parse b, parseBits ra, parseBits rb with
    | some a, some b, some ra, some rb => c.show_ (or_ F a b ra rb)
    | _, _, _, _ => "bad-op"
  | "liftin", [q, v] =>
    match parseNat? q, parseInt? v with
    | some q, some v => if q == 0 then "bad-op" else c.show_ (liftIn F q v)
    | _, _ => "bad-op"
  | "outconv", [q, a] =>
    match parseNat? q, c.parse a with
    | some q, some a => (match outConv F q a with | some v => toString v | none => "AssertionError")
    | _, _ => "bad-op"
  | _, _ => "bad-op"

def fieldCmds : List String :=
  ["bop", "recip", "div", "pow", "iszero", "eq", "izp", "xor", "invert", "tobits", "and", "or", "liftin", "outconv"]

def parseBool (s : String) : Option Bool := if s == "1" then some true else if s == "0" then some false else none

def parseSType : List String → Option Convert.SType
  | [f, p, sg, b, fr] =>
    match parseBool f, parseNat? p, parseBool sg, parseNat? b, parseNat? fr with
    | some f, some p, some sg, some b, some fr => if p == 0 then none else some ⟨f, p, sg, b, fr⟩
    | _, _, _, _, _ => none
  | _ => none

def showOpt : Option Nat → String
  | some v => toString v
  | none => "-"

/-- codec of a lifted type: ints of the subfield GF(q) in, `out_conv` out -/
def liftedCodec {α} (F : Ops α) (q : Nat) : Codec α :=
  ⟨fun s => (parseInt? s).map (liftIn F q), fun a => match outConv F q a with | some v => toString v | none => "AssertionError"⟩

def runField (lift : Option Nat) (cmd : String) : List String → String
  | "P" :: p :: args =>
    match parseNat? p with
    | some p => if p < 2 then "bad-op" else
        let co : Codec Nat := ⟨fun s => (parseNat? s).bind (fun v => if v < p then some v else none), toString⟩
        runF (primeOps p) (match lift with | some q => liftedCodec (primeOps p) q | none => co) co cmd args
    | none => "bad-op"
  | "B" :: m :: args =>
    match parseNat? m with
    | some m => if m < 2 then "bad-op" else
        let co : Codec Nat := ⟨fun s => (parseNat? s).bind (fun v => if v < BinF.order m then some v else none), toString⟩
        runF (binOps m) (match lift with | some q => liftedCodec (binOps m) q | none => co) co cmd args
    | none => "bad-op"
  | "X" :: p :: m :: args =>
    match parseNat? p, parseNatList? m with
    | some p, some m =>
      if p < 2 || m.length < 2 || !(m.all (· < p)) || m.getLast? == some 0 then "bad-op"
      else
        let co : Codec (List Nat) :=
          ⟨fun s => (polyCodec p).parse s |>.bind (fun l => if l.length < m.length then some l else none), showNatList⟩
        runF (extOps p m) (match lift with | some q => liftedCodec (extOps p m) q | none => co) co cmd args
    | _, _ => "bad-op"
  | _ => "bad-op"

def step (line : String) : String :=
  match tokens line with
  | "lifted" :: q :: cmd :: rest =>
    match parseNat? q with
    | some q => if q < 2 || !(fieldCmds.contains cmd) then "bad-op" else runField (some q) cmd rest
    | none => "bad-op"
  | cmd :: "P" :: rest => if fieldCmds.contains cmd then runField none cmd ("P" :: rest) else "bad-op"
  | cmd :: "B" :: rest => if fieldCmds.contains cmd then runField none cmd ("B" :: rest) else "bad-op"
  | cmd :: "X" :: rest => if fieldCmds.contains cmd then runField none cmd ("X" :: rest) else "bad-op"
  | ["tobitsp", p, sg, x, l] =>
    match parseNat? p, parseBool sg, parseNat? x, parseNat? l with
    | some p, some sg, some x, some l => showNatList (toBitsPrime p sg x l)
    | _, _, _, _ => "bad-op"
  | ["liftdeg", q, m] =>
    match parseNat? q, parseNat? m with
    | some q, some m => if q < 2 then "bad-op" else toString (liftDeg q m)
    | _, _ => "bad-op"
  | ["islifted", q, m, t] =>
    match parseNat? q, parseNat? m, parseNat? t with
    | some q, some m, some t => showB (isLifted q m t)
    | _, _, _ => "bad-op"
  | "conv1" :: rest =>
    if rest.length != 16 then "bad-op" else
    match parseSType (rest.take 5), parseSType ((rest.drop 5).take 5), (rest.drop 10).mapM parseNat? with
    | some s, some t, some [x, r, rModf, rDivf, rModb, rDivb] =>
      let o := Convert.convert1 s t x { r := r, rModf := rModf, rDivf := rDivf, rModb := rModb, rDivb := rDivb }
      s!"{showOpt o.truncOpened} {o.opened} {showOpt o.modOpened} {o.result}"
    | _, _, _ => "bad-op"
  | "conv2" :: rest =>
    if rest.length != 16 then "bad-op" else
    match parseSType (rest.take 5), parseSType ((rest.drop 5).take 5), (rest.drop 10).mapM parseNat? with
    | some s, some t, some [pi, x, r1, rModb1, rDivb1, r2] =>
      if pi == 0 then "bad-op" else
      let o := Convert.convert2 s t pi x { r := r1, rModb := rModb1, rDivb := rDivb1 } { r := r2 }
      s!"{o.1.opened} {showOpt o.1.modOpened} {o.1.result} {o.2.opened} {o.2.result}"
    | _, _, _ => "bad-op"
  | ["bound", k, l, n] =>
    match parseNat? k, parseNat? l, parseNat? n with
    | some k, some l, some n => if n == 0 then "ZeroDivisionError" else toString (Convert.bound k l n)
    | _, _, _ => "bad-op"
  | ["viabits", ps, pt] =>
    match parseNat? ps, parseNat? pt with
    | some ps, some pt => toString (Convert.viaBits ps pt)
    | _, _ => "bad-op"
  | ["toint", p, sg, a] =>
    match parseNat? p, parseBool sg, parseNat? a with
    | some p, some sg, some a => toString (Convert.toInt p sg a)
    | _, _, _ => "bad-op"
  | ["shr", p, a, f] =>
    match parseNat? p, parseNat? a, parseNat? f with
    | some p, some a, some f => if p % 2 == 0 then "bad-op" else toString (Convert.shr p a f)
    | _, _, _ => "bad-op"
  | ["trunc", p, x, f, l, rm, rd] =>
    match [p, x, f, l, rm, rd].mapM parseNat? with
    | some [p, x, f, l, rm, rd] =>
      if p % 2 == 0 then "bad-op" else let o := Convert.trunc p x f l rm rd; s!"{o.1} {o.2}"
    | _ => "bad-op"
  | _ => "bad-op"

end Drv.FldConv

def main : IO Unit := do
  loop (← IO.getStdin) Drv.FldConv.step
