/-
Line-protocol driver for the NumTh / PrimeRoot models (stateless).

  is_prime <x> <bases csv|->          -> True|False        (bases = values drawn by random.randint)
  is_prime_d <x>                      -> True|False        (fixed bases `detBases`)
  next_prime <x> / prev_prime <x>     -> int | ValueError  (isP = isPrimeD)
  powmod <x> <y> <m>                  -> int | ValueError
  invert <x> <m>                      -> int | ZeroDivisionError
  gcdext <a> <b>                      -> g s t
  jacobi|legendre|kronecker <x> <y>   -> int | ValueError
  isqrt <x>                           -> int | ValueError
  is_square <x>                       -> True|False
  iroot <x> <n>                       -> y True|False | ValueError
  fpp <x>                             -> p d | ValueError   (factor_prime_power, isP = isPrimeD)
  ratrec <x> <y> <N|None> <D|None>    -> n d | ValueError | ZeroDivisionError
  fpr <fuel> <l> <0|1 blum> <n>       -> p n w | AssertionError | ValueError     (isP = isPrimeD)
  fpr_o <fuel> <l> <blum> <n> <trues> -> same, with isP x := x ∈ trues (the numbers Python's is_prime accepted)
  pfield <fuel> <l> <f> <k> <p|None> <n> <m> <t>   -> p | ValueError | AssertionError
Every answer may also be `fuel-exhausted` (never expected).  Unknown/ill-formed request -> bad-op.
-/
import MpycV.Model.Util
import MpycV.Model.NumTh
import MpycV.Model.PrimeRoot
open MpycV MpycV.Util MpycV.NumTh MpycV.PrimeRoot

def showB (b : Bool) : String := if b then "True" else "False"

def showE {α} (f : α → String) : Except Err α → String
  | .ok a => f a
  | .error e => e.toString

def parseOptInt? (s : String) : Option (Option Int) :=
  if s == "None" then some none else (parseInt? s).map some

def parseBool? (s : String) : Option Bool :=
  if s == "1" then some true else if s == "0" then some false else none

def show3 : Int × Int × Int → String
  | (a, b, c) => s!"{a} {b} {c}"

def step (line : String) : String :=
  let r : Option String :=
    match tokens line with
    | ["is_prime", x, bs] => do
        let x ← parseInt? x; let bs ← parseNatList? bs
        pure (showB (isPrimeB bs x))
    | ["is_prime_d", x] => do
        let x ← parseInt? x
        pure (showB (isPrimeD x))
    | ["next_prime", x] => do
        let x ← parseInt? x
        pure (showE toString (nextPrime isPrimeD x))
    | ["prev_prime", x] => do
        let x ← parseInt? x
        pure (showE toString (prevPrime isPrimeD x))
    | ["powmod", x, y, m] => do
        let x ← parseInt? x; let y ← parseInt? y; let m ← parseInt? m
        pure (showE toString (powmod x y m))
    | ["invert", x, m] => do
        let x ← parseInt? x; let m ← parseInt? m
        pure (showE toString (invert x m))
    | ["gcdext", a, b] => do
        let a ← parseInt? a; let b ← parseInt? b
        pure (showE show3 (gcdext a b))
    | ["jacobi", x, y] => do
        let x ← parseInt? x; let y ← parseInt? y
        pure (showE toString (jacobi x y))
    | ["legendre", x, y] => do
        let x ← parseInt? x; let y ← parseInt? y
        pure (showE toString (legendre x y))
    | ["kronecker", x, y] => do
        let x ← parseInt? x; let y ← parseInt? y
        pure (showE toString (kronecker x y))
    | ["isqrt", x] => do
        let x ← parseInt? x
        pure (showE toString (isqrt x))
    | ["is_square", x] => do
        let x ← parseInt? x
        pure (showE showB (isSquare x))
    | ["iroot", x, n] => do
        let x ← parseInt? x; let n ← parseInt? n
        pure (showE (fun (r : Int × Bool) => s!"{r.1} {showB r.2}") (iroot x n))
    | ["fpp", x] => do
        let x ← parseInt? x
        pure (showE (fun (r : Int × Nat) => s!"{r.1} {r.2}") (factorPrimePower isPrimeD x))
    | ["ratrec", x, y, N, D] => do
        let x ← parseInt? x; let y ← parseInt? y
        let N ← parseOptInt? N; let D ← parseOptInt? D
        pure (showE (fun (r : Int × Int) => s!"{r.1} {r.2}") (ratrec x y N D))
    | ["fpr", fuel, l, blum, n] => do
        let fuel ← parseNat? fuel; let l ← parseInt? l; let blum ← parseBool? blum; let n ← parseInt? n
        pure (showE show3 (findPrimeRoot isPrimeD fuel l blum n))
    | ["fpr_o", fuel, l, blum, n, trues] => do
        let fuel ← parseNat? fuel; let l ← parseInt? l; let blum ← parseBool? blum; let n ← parseInt? n
        let trues ← parseIntList? trues
        pure (showE show3 (findPrimeRoot (fun x => trues.contains x) fuel l blum n))
    | ["pfield", fuel, l, f, k, p, n, m, t] => do
        let fuel ← parseNat? fuel; let l ← parseInt? l; let f ← parseInt? f; let k ← parseInt? k
        let p ← parseOptInt? p; let n ← parseInt? n; let m ← parseNat? m; let t ← parseNat? t
        pure (showE toString (pfield isPrimeD fuel l f k p n m t))
    | _ => none
  r.getD "bad-op"

def main : IO Unit := do MpycV.Util.loop (← IO.getStdin) step
