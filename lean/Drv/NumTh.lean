/-
Line-protocol driver for the NumTh / PrimeRoot models (stateless).

  is_prime <x> <bases csv|->          -> True|False        (bases = values drawn by random.randint)
  is_prime_d <x>                      -> True|False        (fixed bases `detBases`)
  next_prime <x> / prev_prime <x>     -> int | ValueError  (isP = isPrimeD)
  powmod <x> <y> <m>                  -> int | ValueError
  invert <x> <m>                      -> int | ZeroDivisionError
  gcdext <a> <b>                      -> g s t
  jacobi|legendre|kronecker <x> <y>   -> int | ValueError
  isqrt <x>                           -> int | ValueError
  is_square <x>                       -> True|False
  iroot <x> <n>                       -> y True|False | ValueError
  fpp <x>                             -> p d | ValueError   (factor_prime_power, isP = isPrimeD)
  ratrec <x> <y> <N|None> <D|None>    -> n d | ValueError | ZeroDivisionError
  fpr <fuel> <l> <0|1 blum> <n>       -> p n w | AssertionError | ValueError     (isP = isPrimeD)
  fpr_o <fuel> <l> <blum> <n> <trues> -> same, with isP x := x ∈ trues (the numbers Python's is_prime accepted)
  pfield <fuel> <l> <f> <k> <p|None> <n> <m> <t>   -> p | ValueError | AssertionError
Every answer may also be `fuel-exhausted` (never expected).  Unknown/ill-formed request -> bad-op.
-/
import MpycV.Model.Util
import MpycV.Model.NumTh
import MpycV.Model.PrimeRoot
open MpycV MpycV.Util MpycV.NumTh MpycV.PrimeRoot

def showB (b : Bool) : String := if b then "True" else "False"

def showE {α} (f : α → String) : Except Err α → String
  | .ok a => f a
  | .error e => e.toString

def parseOptInt? (s : String) : Option (Option Int) :=
  if s == "None" then some none else (parseInt? s).map some

def parseBool? (s : String) : Option Bool :=
  if s == "1" then some true else if s == "0" then some false else none

def show3 : Int × Int × Int → String
  | (a, b, c) => s!"{a} {b} {c}"

def opIsPrime : List String → Option String
  | [x, bs] => do
    let x ← parseInt? x; let bs ← parseNatList? bs
    pure (showB (isPrimeB bs x))
  | _ => none

def op1 (f : Int → String) : List String → Option String
  | [x] => do let x ← parseInt? x; pure (f x)
  | _ => none

def op2 (f : Int → Int → String) : List String → Option String
  | [x, y] => do let x ← parseInt? x; let y ← parseInt? y; pure (f x y)
  | _ => none

def op3 (f : Int → Int → Int → String) : List String → Option String
  | [x, y, z] => do let x ← parseInt? x; let y ← parseInt? y; let z ← parseInt? z; pure (f x y z)
  | _ => none

def showPairIB (r : Int × Bool) : String := s!"{r.1} {showB r.2}"
def showPairIN (r : Int × Nat) : String := s!"{r.1} {r.2}"
def showPairII (r : Int × Int) : String := s!"{r.1} {r.2}"

def opRatrec : List String → Option String
  | [x, y, N, D] => do
    let x ← parseInt? x; let y ← parseInt? y
    let N ← parseOptInt? N; let D ← parseOptInt? D
    pure (showE showPairII (ratrec x y N D))
  | _ => none

def opFpr : List String → Option String
  | [fuel, l, blum, n] => do
    let fuel ← parseNat? fuel; let l ← parseInt? l; let blum ← parseBool? blum; let n ← parseInt? n
    pure (showE show3 (findPrimeRoot isPrimeD fuel l blum n))
  | _ => none

def opFprO : List String → Option String
  | [fuel, l, blum, n, trues] => do
    let fuel ← parseNat? fuel; let l ← parseInt? l; let blum ← parseBool? blum; let n ← parseInt? n
    let trues ← parseIntList? trues
    pure (showE show3 (findPrimeRoot (fun x => trues.contains x) fuel l blum n))
  | _ => none

def opPfield : List String → Option String
  | [fuel, l, f, k, p, n, m, t] => do
    let fuel ← parseNat? fuel; let l ← parseInt? l; let f ← parseInt? f; let k ← parseInt? k
    let p ← parseOptInt? p; let n ← parseInt? n; let m ← parseNat? m; let t ← parseNat? t
    pure (showE toString (pfield isPrimeD fuel l f k p n m t))
  | _ => none

def dispatch (op : String) (args : List String) : Option String :=
  if op == "is_prime" then opIsPrime args
  else if op == "is_prime_d" then op1 (fun x => showB (isPrimeD x)) args
  else if op == "next_prime" then op1 (fun x => showE toString (nextPrime isPrimeD x)) args
  else if op == "prev_prime" then op1 (fun x => showE toString (prevPrime isPrimeD x)) args
  else if op == "powmod" then op3 (fun x y m => showE toString (powmod x y m)) args
  else if op == "invert" then op2 (fun x m => showE toString (invert x m)) args
  else if op == "gcdext" then op2 (fun a b => showE show3 (gcdext a b)) args
  else if op == "jacobi" then op2 (fun x y => showE toString (jacobi x y)) args
  else if op == "legendre" then op2 (fun x y => showE toString (legendre x y)) args
  else if op == "kronecker" then op2 (fun x y => showE toString (kronecker x y)) args
  else if op == "isqrt" then op1 (fun x => showE toString (isqrt x)) args
  else if op == "is_square" then op1 (fun x => showE showB (isSquare x)) args
  else if op == "iroot" then op2 (fun x n => showE showPairIB (iroot x n)) args
  else if op == "fpp" then op1 (fun x => showE showPairIN (factorPrimePower isPrimeD x)) args
  else if op == "ratrec" then opRatrec args
  else if op == "fpr" then opFpr args
  else if op == "fpr_o" then opFprO args
  else if op == "pfield" then opPfield args
  else none

def step (line : String) : String :=
  match tokens line with
  | op :: args => (dispatch op args).getD "bad-op"
  | [] => "bad-op"

/-- same contract as `MpycV.Util.loop` (one answer line per request line), output written in blocks -/
partial def loopB (h : IO.FS.Stream) (out : IO.FS.Stream) (acc : String) (k : Nat) : IO Unit := do
  let line ← h.getLine
  if line.isEmpty then
    out.putStr acc
    out.flush
    return ()
  let acc := acc ++ step line ++ "\n"
  if k ≥ 512 then
    out.putStr acc
    loopB h out "" 0
  else loopB h out acc (k + 1)

def main : IO Unit := do loopB (← IO.getStdin) (← IO.getStdout) "" 0
