/-
Line-protocol driver for the level machine.
  hist <events> <indices>    events: comma list of c<id> (task call) | e<id> (early return) | f<id> | r<id>; "-" empty
                             indices: comma list of event counts after which the level is reported; "-" none
  -> wf=<0|1> <levels>
-/
import MpycV.Model.Level
import MpycV.Model.Util
open MpycV MpycV.Level MpycV.Util

def parseEv? (s : String) : Option Ev :=
  let n := parseNat? (s.drop 1).toString
  if s.startsWith "c" then n.map (fun i => Ev.call i Outcome.task)
  else if s.startsWith "e" then n.map (fun i => Ev.call i Outcome.earlyReturn)
  else if s.startsWith "f" then n.map Ev.finish
  else if s.startsWith "r" then n.map Ev.reconcile
  else none

def step (line : String) : String :=
  match tokens line with
  | ["hist", es, idx] =>
    let evs? := if es == "-" then some [] else (es.splitOn ",").mapM parseEv?
    match evs?, parseNatList? idx with
    | some evs, some idxs =>
      let wf := if wfB State.init [] evs then "1" else "0"
      let lv := idxs.map fun k => (run State.init (evs.take k)).level
      s!"wf={wf} {showIntList lv}"
    | _, _ => "bad-op"
  | _ => "bad-op"

def main : IO Unit := do
  loop (← IO.getStdin) step
