/-
Line-protocol driver for area FinFld (C20, C21, C22).
Prime fields (values are Nat):
  bin <op> p a <e|i> o      op ∈ add radd iadd sub rsub isub mul rmul imul truediv rtruediv itruediv
  un <op> p a               op ∈ neg pos reciprocal bool signed unsigned int abs
  sh <op> p a n             op ∈ pow lshift ilshift rshift irshift
  eq p a <e|i> o
  sqrt p a <0|1>            issqr p a
  bytelen order             tobytes order x1,x2,..      frombytes order hex
  pickle <tuple|int|raw> p n w a   class made by GF((p,n,w)) / GF(p) / pGF(p,n,w); element value a
                            -> "p n w value same|differs" (__reduce__ data, value and class identity after rebuild)
Extension fields of odd characteristic (polynomials = coefficient lists "c0,c1,..", "-" = zero; field = p m):
  xbin <op> p m a <e|i|p> o    xun <op> p m a (neg pos reciprocal bool int)    xsh <op> p m a n
  xeq p m a <e|i|p> o          xsqrt p m a <0|1>     xissqr p m a     xof p m x     xorder p m
  xtobytes p m a1|a2|..        xfrombytes p m hex  -> a1|a2|..
Binary fields (polynomials = Nat bitmasks; field = m):
  bbin bun bsh beq bsqrt bissqr bof border btobytes (m v1,v2,..) bfrombytes (m hex -> v1,v2,..)
-/
import MpycV.Model.Util
import MpycV.Model.PrimeF
import MpycV.Model.ExtF

open MpycV MpycV.Util

namespace Drv.FinFld
open MpycV.PrimeF

def showE {α} [ToString α] : Except Err α → String
  | .ok v => toString v
  | .error e => toString e

def showB (b : Bool) : String := if b then "True" else "False"

def binOp (op : String) (p a : Nat) (o : Int) : Option String :=
  match op with
  | "add" => some (toString (add p a o))
  | "radd" => some (toString (radd p a o))
  | "iadd" => some (toString (iadd p a o))
  | "sub" => some (toString (sub p a o))
  | "rsub" => some (toString (rsub p a o))
  | "isub" => some (toString (isub p a o))
  | "mul" => some (toString (mul p a o))
  | "rmul" => some (toString (rmul p a o))
  | "imul" => some (toString (imul p a o))
  | "truediv" => some (showE (truediv p a o))
  | "rtruediv" => some (showE (rtruediv p a o))
  | "itruediv" => some (showE (itruediv p a o))
  | _ => none

def unOp (op : String) (p a : Nat) : Option String :=
  match op with
  | "neg" => some (toString (neg p a))
  | "pos" => some (toString (pos p a))
  | "reciprocal" => some (showE (reciprocal p a))
  | "bool" => some (showB (toBool a))
  | "signed" => some (toString (signed p a))
  | "unsigned" => some (toString (unsigned a))
  | "int" => some (toString (toInt p a))
  | "abs" => some (toString (PrimeF.abs p a))
  | _ => none

def shOp (op : String) (p a : Nat) (n : Int) : Option String :=
  match op with
  | "pow" => some (showE (pow p a n))
  | "lshift" => some (showE (lshift p a n))
  | "ilshift" => some (showE (ilshift p a n))
  | "rshift" => some (showE (rshift p a n))
  | "irshift" => some (showE (irshift p a n))
  | _ => none

def opd? (kind : String) (o : Int) : Option Opd :=
  if kind == "e" then (if 0 ≤ o then some (.elem o.toNat) else none)
  else if kind == "i" then some (.int o) else none

def step (line : String) : String :=
  let bad := "bad-op"
  match tokens line with
  | ["bin", op, p, a, kind, o] =>
    match parseNat? p, parseNat? a, parseInt? o with
    | some p, some a, some o =>
      match opd? kind o with
      | some od => (binOp op p a od.toInt).getD bad
      | none => bad
    | _, _, _ => bad
  | ["un", op, p, a] =>
    match parseNat? p, parseNat? a with
    | some p, some a => (unOp op p a).getD bad
    | _, _ => bad
  | ["sh", op, p, a, n] =>
    match parseNat? p, parseNat? a, parseInt? n with
    | some p, some a, some n => (shOp op p a n).getD bad
    | _, _, _ => bad
  | ["eq", p, a, kind, o] =>
    match parseNat? p, parseNat? a, parseInt? o with
    | some p, some a, some o =>
      match opd? kind o with
      | some od => showB (eq p a od)
      | none => bad
    | _, _, _ => bad
  | ["sqrt", p, a, inv] =>
    match parseNat? p, parseNat? a with
    | some p, some a =>
      if inv == "0" then showE (sqrt p a false) else if inv == "1" then showE (sqrt p a true) else bad
    | _, _ => bad
  | ["issqr", p, a] =>
    match parseNat? p, parseNat? a with
    | some p, some a => match isSqr p a with
      | .ok b => showB b
      | .error e => toString e
    | _, _ => bad
  | ["bytelen", q] =>
    match parseNat? q with
    | some q => toString (byteLength q)
    | none => bad
  | ["tobytes", q, xs] =>
    match parseNat? q, parseIntList? xs with
    | some q, some xs => match toBytes (byteLength q) xs with
      | .ok bs => showHex bs
      | .error e => toString e
    | _, _ => bad
  | ["frombytes", q, hex] =>
    match parseNat? q, parseHex? hex with
    | some q, some bs => match fromBytes (byteLength q) bs with
      | .ok vs => showNatList vs
      | .error e => toString e
    | _, _ => bad
  | ["pickle", kind, p, n, w, a] =>
    match parseNat? p, parseInt? n, parseInt? w, parseNat? a with
    | some p, some n, some w, some a =>
      let F? : Option Fld :=
        if kind == "tuple" then some (GFtuple p n w)        -- GF((p, n, w))
        else if kind == "int" then some (GFint p)           -- GF(p)   (n, w ignored)
        else if kind == "raw" then some ⟨p, n, w⟩           -- pGF(p, n, w) called directly
        else none
      match F? with
      | some F =>
        let d := reduce F a
        let (G, b) := rebuild d
        s!"{d.p} {d.n} {d.w} {b} {if G = F then "same" else "differs"}"
      | none => bad
    | _, _, _, _ => bad
  | _ => bad

/-! extension fields -/

def showP (a : List Nat) : String := showNatList a
def showEP : Except Err (List Nat) → String
  | .ok v => showP v
  | .error e => toString e

def xopd? (kind o : String) : Option ExtF.Opd :=
  if kind == "e" then (parseNatList? o).map .elem
  else if kind == "p" then (parseNatList? o).map .poly
  else if kind == "i" then (parseInt? o).map .int
  else none

def xbinOp (op : String) (p : Nat) (m a o : List Nat) : Option String :=
  match op with
  | "add" => some (showP (ExtF.add p m a o))
  | "radd" => some (showP (ExtF.radd p m a o))
  | "iadd" => some (showP (ExtF.iadd p m a o))
  | "sub" => some (showP (ExtF.sub p m a o))
  | "rsub" => some (showP (ExtF.rsub p m a o))
  | "isub" => some (showP (ExtF.isub p m a o))
  | "mul" => some (showP (ExtF.mul p m a o))
  | "rmul" => some (showP (ExtF.rmul p m a o))
  | "imul" => some (showP (ExtF.imul p m a o))
  | "truediv" => some (showEP (ExtF.truediv p m a o))
  | "rtruediv" => some (showEP (ExtF.rtruediv p m a o))
  | "itruediv" => some (showEP (ExtF.itruediv p m a o))
  | _ => none

def xunOp (op : String) (p : Nat) (m a : List Nat) : Option String :=
  match op with
  | "neg" => some (showP (ExtF.neg p m a))
  | "pos" => some (showP (ExtF.pos p m a))
  | "reciprocal" => some (showEP (ExtF.reciprocal p m a))
  | "bool" => some (showB (ExtF.toBool a))
  | "int" => some (toString (ExtF.toInt p a))
  | _ => none

def xshOp (op : String) (p : Nat) (m a : List Nat) (n : Int) : Option String :=
  match op with
  | "pow" => some (showEP (ExtF.pow p m a n))
  | "lshift" => some (showP (ExtF.lshift p m a n))
  | "ilshift" => some (showP (ExtF.ilshift p m a n))
  | "rshift" => some (showEP (ExtF.rshift p m a n))
  | "irshift" => some (showEP (ExtF.irshift p m a n))
  | _ => none

def parsePolys? (s : String) : Option (List (List Nat)) :=
  if s == "." then some [] else (s.splitOn "|").mapM parseNatList?

def showPolys (l : List (List Nat)) : String :=
  if l.isEmpty then "." else "|".intercalate (l.map showP)

def stepX (toks : List String) : String :=
  let bad := "bad-op"
  match toks with
  | ["xbin", op, p, m, a, kind, o] =>
    match parseNat? p, parseNatList? m, parseNatList? a with
    | some p, some m, some a =>
      match xopd? kind o with
      | some od => (xbinOp op p m a (od.coerce p)).getD bad
      | none => bad
    | _, _, _ => bad
  | ["xun", op, p, m, a] =>
    match parseNat? p, parseNatList? m, parseNatList? a with
    | some p, some m, some a => (xunOp op p m a).getD bad
    | _, _, _ => bad
  | ["xsh", op, p, m, a, n] =>
    match parseNat? p, parseNatList? m, parseNatList? a, parseInt? n with
    | some p, some m, some a, some n => (xshOp op p m a n).getD bad
    | _, _, _, _ => bad
  | ["xeq", p, m, a, kind, o] =>
    match parseNat? p, parseNatList? m, parseNatList? a with
    | some p, some m, some a =>
      match xopd? kind o with
      | some od => showB (ExtF.eq p m a od)
      | none => bad
    | _, _, _ => bad
  | ["xsqrt", p, m, a, inv] =>
    match parseNat? p, parseNatList? m, parseNatList? a with
    | some p, some m, some a =>
      if inv == "0" then showEP (ExtF.sqrt p m a false)
      else if inv == "1" then showEP (ExtF.sqrt p m a true) else bad
    | _, _, _ => bad
  | ["xissqr", p, m, a] =>
    match parseNat? p, parseNatList? m, parseNatList? a with
    | some p, some m, some a => match ExtF.isSqr p m a with
      | .ok b => showB b
      | .error e => toString e
    | _, _, _ => bad
  | ["xof", p, m, x] =>
    match parseNat? p, parseNatList? m, parseInt? x with
    | some p, some m, some x => showP (ExtF.ofInt p m x)
    | _, _, _ => bad
  | ["xorder", p, m] =>
    match parseNat? p, parseNatList? m with
    | some p, some m => s!"{ExtF.order p m} {ExtF.byteLength p m}"
    | _, _ => bad
  | ["xtobytes", p, m, xs] =>
    match parseNat? p, parseNatList? m, parsePolys? xs with
    | some p, some m, some xs => match ExtF.toBytes p m xs with
      | .ok bs => showHex bs
      | .error e => toString e
    | _, _, _ => bad
  | ["xfrombytes", p, m, hex] =>
    match parseNat? p, parseNatList? m, parseHex? hex with
    | some p, some m, some bs => match ExtF.fromBytes p m bs with
      | .ok vs => showPolys vs
      | .error e => toString e
    | _, _, _ => bad
  | _ => bad

/-! binary fields -/

def showEN : Except Err Nat → String
  | .ok v => toString v
  | .error e => toString e

def bopd? (kind o : String) : Option BinF.Opd :=
  if kind == "e" then (parseNat? o).map .elem
  else if kind == "p" then (parseNat? o).map .poly
  else if kind == "i" then (parseInt? o).map .int
  else none

def bbinOp (op : String) (m a o : Nat) : Option String :=
  match op with
  | "add" => some (toString (BinF.add m a o))
  | "radd" => some (toString (BinF.radd m a o))
  | "iadd" => some (toString (BinF.iadd m a o))
  | "sub" => some (toString (BinF.sub m a o))
  | "rsub" => some (toString (BinF.rsub m a o))
  | "isub" => some (toString (BinF.isub m a o))
  | "mul" => some (toString (BinF.mul m a o))
  | "rmul" => some (toString (BinF.rmul m a o))
  | "imul" => some (toString (BinF.imul m a o))
  | "truediv" => some (showEN (BinF.truediv m a o))
  | "rtruediv" => some (showEN (BinF.rtruediv m a o))
  | "itruediv" => some (showEN (BinF.itruediv m a o))
  | _ => none

def bunOp (op : String) (m a : Nat) : Option String :=
  match op with
  | "neg" => some (toString (BinF.neg m a))
  | "pos" => some (toString (BinF.pos m a))
  | "reciprocal" => some (showEN (BinF.reciprocal m a))
  | "bool" => some (showB (BinF.toBool a))
  | "int" => some (toString (BinF.toInt a))
  | _ => none

def bshOp (op : String) (m a : Nat) (n : Int) : Option String :=
  match op with
  | "pow" => some (showEN (BinF.pow m a n))
  | "lshift" => some (showEN (BinF.lshift m a n))
  | "ilshift" => some (showEN (BinF.ilshift m a n))
  | "rshift" => some (showEN (BinF.rshift m a n))
  | "irshift" => some (showEN (BinF.irshift m a n))
  | _ => none

def stepB (toks : List String) : String :=
  let bad := "bad-op"
  match toks with
  | ["bbin", op, m, a, kind, o] =>
    match parseNat? m, parseNat? a, bopd? kind o with
    | some m, some a, some od => (bbinOp op m a od.coerce).getD bad
    | _, _, _ => bad
  | ["bun", op, m, a] =>
    match parseNat? m, parseNat? a with
    | some m, some a => (bunOp op m a).getD bad
    | _, _ => bad
  | ["bsh", op, m, a, n] =>
    match parseNat? m, parseNat? a, parseInt? n with
    | some m, some a, some n => (bshOp op m a n).getD bad
    | _, _, _ => bad
  | ["beq", m, a, kind, o] =>
    match parseNat? m, parseNat? a, bopd? kind o with
    | some m, some a, some od => showB (BinF.eq m a od)
    | _, _, _ => bad
  | ["bsqrt", m, a, inv] =>
    match parseNat? m, parseNat? a with
    | some m, some a =>
      if inv == "0" then showEN (BinF.sqrt m a false)
      else if inv == "1" then showEN (BinF.sqrt m a true) else bad
    | _, _ => bad
  | ["bissqr", m, a] =>
    match parseNat? m, parseNat? a with
    | some _, some a => showB (BinF.isSqr a)
    | _, _ => bad
  | ["bof", m, x] =>
    match parseNat? m, parseInt? x with
    | some m, some x => toString (BinF.ofInt m x)
    | _, _ => bad
  | ["border", m] =>
    match parseNat? m with
    | some m => s!"{BinF.order m} {BinF.byteLength m}"
    | none => bad
  | ["btobytes", m, xs] =>
    match parseNat? m, parseNatList? xs with
    | some m, some xs => match BinF.toBytes m xs with
      | .ok bs => showHex bs
      | .error e => toString e
    | _, _ => bad
  | ["bfrombytes", m, hex] =>
    match parseNat? m, parseHex? hex with
    | some m, some bs => match BinF.fromBytes m bs with
      | .ok vs => showNatList vs
      | .error e => toString e
    | _, _ => bad
  | _ => bad

def stepAll (line : String) : String :=
  match tokens line with
  | [] => "bad-op"
  | t :: rest =>
    if t.startsWith "x" then stepX (t :: rest)
    else if t.startsWith "b" && t != "bin" && t != "bytelen" then stepB (t :: rest)
    else step line

end Drv.FinFld

def main : IO Unit := do MpycV.Util.loop (← IO.getStdin) Drv.FinFld.stepAll
