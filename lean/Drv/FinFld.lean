/-
Line-protocol driver for area FinFld (C20, C21, C22): prime fields.
  bin <op> p a <e|i> o      op ∈ add radd iadd sub rsub isub mul rmul imul truediv rtruediv itruediv
  un <op> p a               op ∈ neg pos reciprocal bool signed unsigned int abs
  sh <op> p a n             op ∈ pow lshift ilshift rshift irshift
  eq p a <e|i> o
  sqrt p a <0|1>            issqr p a
  bytelen order             tobytes order x1,x2,..      frombytes order hex
  pickle <tuple|int|raw> p n w a   class made by GF((p,n,w)) / GF(p) / pGF(p,n,w); element value a
                            -> "p n w value same|differs" (__reduce__ data, value and class identity after rebuild)
-/
import MpycV.Model.Util
import MpycV.Model.PrimeF

open MpycV MpycV.Util

namespace Drv.FinFld
open MpycV.PrimeF

def showE {α} [ToString α] : Except Err α → String
  | .ok v => toString v
  | .error e => toString e

def showB (b : Bool) : String := if b then "True" else "False"

def binOp (op : String) (p a : Nat) (o : Int) : Option String :=
  match op with
  | "add" => some (toString (add p a o))
  | "radd" => some (toString (radd p a o))
  | "iadd" => some (toString (iadd p a o))
  | "sub" => some (toString (sub p a o))
  | "rsub" => some (toString (rsub p a o))
  | "isub" => some (toString (isub p a o))
  | "mul" => some (toString (mul p a o))
  | "rmul" => some (toString (rmul p a o))
  | "imul" => some (toString (imul p a o))
  | "truediv" => some (showE (truediv p a o))
  | "rtruediv" => some (showE (rtruediv p a o))
  | "itruediv" => some (showE (itruediv p a o))
  | _ => none

def unOp (op : String) (p a : Nat) : Option String :=
  match op with
  | "neg" => some (toString (neg p a))
  | "pos" => some (toString (pos p a))
  | "reciprocal" => some (showE (reciprocal p a))
  | "bool" => some (showB (toBool a))
  | "signed" => some (toString (signed p a))
  | "unsigned" => some (toString (unsigned a))
  | "int" => some (toString (toInt p a))
  | "abs" => some (toString (PrimeF.abs p a))
  | _ => none

def shOp (op : String) (p a : Nat) (n : Int) : Option String :=
  match op with
  | "pow" => some (showE (pow p a n))
  | "lshift" => some (showE (lshift p a n))
  | "ilshift" => some (showE (ilshift p a n))
  | "rshift" => some (showE (rshift p a n))
  | "irshift" => some (showE (irshift p a n))
  | _ => none

def opd? (kind : String) (o : Int) : Option Opd :=
  if kind == "e" then (if 0 ≤ o then some (.elem o.toNat) else none)
  else if kind == "i" then some (.int o) else none

def step (line : String) : String :=
  let bad := "bad-op"
  match tokens line with
  | ["bin", op, p, a, kind, o] =>
    match parseNat? p, parseNat? a, parseInt? o with
    | some p, some a, some o =>
      match opd? kind o with
      | some od => (binOp op p a od.toInt).getD bad
      | none => bad
    | _, _, _ => bad
  | ["un", op, p, a] =>
    match parseNat? p, parseNat? a with
    | some p, some a => (unOp op p a).getD bad
    | _, _ => bad
  | ["sh", op, p, a, n] =>
    match parseNat? p, parseNat? a, parseInt? n with
    | some p, some a, some n => (shOp op p a n).getD bad
    | _, _, _ => bad
  | ["eq", p, a, kind, o] =>
    match parseNat? p, parseNat? a, parseInt? o with
    | some p, some a, some o =>
      match opd? kind o with
      | some od => showB (eq p a od)
      | none => bad
    | _, _, _ => bad
  | ["sqrt", p, a, inv] =>
    match parseNat? p, parseNat? a with
    | some p, some a =>
      if inv == "0" then showE (sqrt p a false) else if inv == "1" then showE (sqrt p a true) else bad
    | _, _ => bad
  | ["issqr", p, a] =>
    match parseNat? p, parseNat? a with
    | some p, some a => match isSqr p a with
      | .ok b => showB b
      | .error e => toString e
    | _, _ => bad
  | ["bytelen", q] =>
    match parseNat? q with
    | some q => toString (byteLength q)
    | none => bad
  | ["tobytes", q, xs] =>
    match parseNat? q, parseIntList? xs with
    | some q, some xs => match toBytes (byteLength q) xs with
      | .ok bs => showHex bs
      | .error e => toString e
    | _, _ => bad
  | ["frombytes", q, hex] =>
    match parseNat? q, parseHex? hex with
    | some q, some bs => match fromBytes (byteLength q) bs with
      | .ok vs => showNatList vs
      | .error e => toString e
    | _, _ => bad
  | ["pickle", kind, p, n, w, a] =>
    match parseNat? p, parseInt? n, parseInt? w, parseNat? a with
    | some p, some n, some w, some a =>
      let F? : Option Fld :=
        if kind == "tuple" then some (GFtuple p n w)        -- GF((p, n, w))
        else if kind == "int" then some (GFint p)           -- GF(p)   (n, w ignored)
        else if kind == "raw" then some ⟨p, n, w⟩           -- pGF(p, n, w) called directly
        else none
      match F? with
      | some F =>
        let d := reduce F a
        let (G, b) := rebuild d
        s!"{d.p} {d.n} {d.w} {b} {if G = F then "same" else "differs"}"
      | none => bad
    | _, _, _, _ => bad
  | _ => bad

end Drv.FinFld

def main : IO Unit := do MpycV.Util.loop (← IO.getStdin) Drv.FinFld.step
