/-
Line-protocol driver for area Config (C16: MpycV.Model.Comb, C39: MpycV.Model.SecFldCfg).

C16 requests (subsets are written 0.1.2, lists of subsets joined by ';', '-' = empty list, 'e' = empty tuple)
  comb n k                         -> combinations(range(n), k)
  gen m t pid | to m t pid peer | from m t pid peer | lenpacket m t pid peer
  clientmsg m t pid peer noprss TOKS        TOKS = hex of the party's tokens (16 bytes each) or '-'
                                   -> hex of the bytes written in connection_made
  server m t pid noprss TOKS chunk*          chunks in hex; -> peer=<n|-> rest=<hex> keys=<subset:hex;...> (sorted)
  final m t TOKS0/TOKS1/.. ev*     ev = j>i:c1.c2 (cuts; '-' none)  -> party tables joined by '/'
  tableok m t row0/row1/..         row = subset:decimalkey;...      -> 1 | 0
C39 requests ('-' = None)
  secfld m t ORDER MOD CHAR EXT MINORDER CL1 CL2   MOD = - | i:n | s:c0,c1,.. | p:P:c0,c1,..
          CL1/CL2 = value of math.ceil(math.log(..)) for the ext_deg / lifting call: number | V | Z | - (exact clog)
          -> ok base=c,e,q,MODULUS field=c,e,q,MODULUS sub=0|1 order=.. minorder=..   | ValueError | AssertionError | ..
  thr m T                          -> ok t | AssertionError
  pfield l f k P n m t FP PR       FP = find_prime_root value (or -), PR = 0|1 primality of the modulus -> ok p | error
  isprime n | fpp x | primege c | croot n d | clog b x | bitlen n | irr p c0,c1,.. | findirr p d | outconv p c0,..
-/
import MpycV.Model.Comb
import MpycV.Model.SecFldCfg
import MpycV.Model.Util
open MpycV MpycV.Util

namespace CombDrv
open MpycV.Comb

def showSubset (s : Subset) : String :=
  if s.isEmpty then "e" else ".".intercalate (s.map toString)

def showSubsets (l : List Subset) : String :=
  if l.isEmpty then "-" else ";".intercalate (l.map showSubset)

def parseSubset? (s : String) : Option Subset :=
  if s == "e" then some [] else (s.splitOn ".").mapM parseNat?

/-- tokens: hex string of 16-byte tokens -/
def splitTokens : List Nat → Nat → List Bytes
  | _, 0 => []
  | [], _ + 1 => []
  | bs, fuel + 1 => bs.take 16 :: splitTokens (bs.drop 16) fuel

def tokFun (bs : List Nat) : Nat → Bytes :=
  let l := splitTokens bs (bs.length / 16 + 1)
  fun k => l.getD k []

def showStore (st : Store) : String :=
  let l := (sortStore st).map fun e => s!"{showSubset e.1}:{showHex e.2}"
  if l.isEmpty then "-" else ";".intercalate l

def parseHs? (s : String) : Option Hs :=
  match s.splitOn ":" with
  | [ji, cuts] =>
    match ji.splitOn ">" with
    | [j, i] => do
      let j ← parseNat? j
      let i ← parseNat? i
      let cs ← if cuts == "-" then some [] else (cuts.splitOn ".").mapM parseNat?
      pure ⟨j, i, cs⟩
    | _ => none
  | _ => none

def parseRow? (s : String) : Option (List (Subset × Nat)) :=
  if s == "-" then some [] else
  (s.splitOn ";").mapM fun e =>
    match e.splitOn ":" with
    | [sub, k] => do
      let sub ← parseSubset? sub
      let k ← parseNat? k
      pure (sub, k)
    | _ => none

def step : List String → Option String
  | ["comb", n, k] => do
    let n ← parseNat? n; let k ← parseNat? k
    pure (showSubsets (combinations (List.range n) k))
  | ["gen", m, t, p] => do
    let m ← parseNat? m; let t ← parseNat? t; let p ← parseNat? p
    pure (showSubsets (keysGenerated m t p))
  | ["to", m, t, p, q] => do
    let m ← parseNat? m; let t ← parseNat? t; let p ← parseNat? p; let q ← parseNat? q
    pure (showSubsets (keysToPeer m t p q))
  | ["from", m, t, p, q] => do
    let m ← parseNat? m; let t ← parseNat? t; let p ← parseNat? p; let q ← parseNat? q
    pure (showSubsets (keysFromPeer m t p q))
  | ["lenpacket", m, t, p, q] => do
    let m ← parseNat? m; let t ← parseNat? t; let p ← parseNat? p; let q ← parseNat? q
    pure (toString (lenPacket m t p q))
  | ["clientmsg", m, t, p, q, np, toks] => do
    let m ← parseNat? m; let t ← parseNat? t; let p ← parseNat? p; let q ← parseNat? q
    let np ← parseNat? np; let toks ← parseHex? toks
    let st := if np == 1 then [] else genStore m t p (tokFun toks)
    pure (showHex (clientMsg m t p q (np == 1) st))
  | "server" :: m :: t :: p :: np :: toks :: chunks => do
    let m ← parseNat? m; let t ← parseNat? t; let p ← parseNat? p
    let np ← parseNat? np; let toks ← parseHex? toks
    let chunks ← chunks.mapM parseHex?
    let st := if np == 1 then [] else genStore m t p (tokFun toks)
    let s := Server.feedAll m t p (np == 1) ⟨[], none, st⟩ chunks
    let peer := match s.peer with | none => "-" | some q => toString q
    pure s!"peer={peer} rest={showHex s.buf} keys={showStore s.store}"
  | "final" :: m :: t :: toks :: evs => do
    let m ← parseNat? m; let t ← parseNat? t
    let toks ← (toks.splitOn "/").mapM parseHex?
    let evs ← evs.mapM parseHs?
    let tok := fun p => tokFun (toks.getD p [])
    let g := runHs m t false (initStores m t false tok) evs
    pure ("/".intercalate ((List.range m).map fun i => showStore (g.get i)))
  | ["tableok", m, t, rows] => do
    let m ← parseNat? m; let t ← parseNat? t
    let rows ← (rows.splitOn "/").mapM parseRow?
    pure (if tableOK m t rows then "1" else "0")
  | _ => none

end CombDrv

namespace CfgDrv
open MpycV.SecFldCfg

def parseOpt? (s : String) : Option (Option Nat) :=
  if s == "-" then some none else (parseNat? s).map some

def parseMod? (s : String) : Option Modulus :=
  if s == "-" then some Modulus.none
  else match s.splitOn ":" with
    | ["i", n] => (parseNat? n).map Modulus.int
    | ["s", cs] => (parseNatList? cs).map Modulus.str
    | ["p", p, cs] => do
      let p ← parseNat? p
      let cs ← parseNatList? cs
      pure (Modulus.poly p cs)
    | _ => none

/-- oracle value for the float ceil-log: number, V, Z or '-' (exact) -/
def parseCl? (s : String) : Option (Nat → Nat → Except Err Nat) :=
  if s == "-" then some (fun b x => .ok (clog b x))
  else if s == "V" then some (fun _ _ => .error .valueError)
  else if s == "Z" then some (fun _ _ => .error .zeroDivisionError)
  else (parseNat? s).map fun v => fun _ _ => .ok v

def showField (f : Field) : String :=
  let md := match f.poly with
    | none => toString f.char
    | some p => showNatList p
  s!"{f.char},{f.extDeg},{f.order},{md}"

def oracles (cl : Nat → Nat → Except Err Nat) : Oracles :=
  { irr := irrBrute, findIrr := findIrrBrute, ceilLog := cl }

def showErr (e : Err) : String := e.name

def step : List String → Option String
  | ["secfld", m, t, o, md, c, e, n, cl1, cl2] => do
    let m ← parseNat? m; let t ← parseNat? t
    let o ← parseOpt? o; let md ← parseMod? md; let c ← parseOpt? c; let e ← parseOpt? e
    let n ← parseOpt? n; let cl1 ← parseCl? cl1; let cl2 ← parseCl? cl2
    let r : Except Err String := do
      let (fld, order, minOrder) ← resolve (oracles cl1) ⟨o, md, c, e, n⟩
      let ty ← lift (oracles cl2) m t fld
      let base := ty.subfield.getD ty.field
      pure s!"ok base={showField base} field={showField ty.field} sub={if ty.subfield.isSome then 1 else 0} order={order} minorder={minOrder}"
    pure (match r with | .ok s => s | .error e => showErr e)
  | ["thr", m, t] => do
    let m ← parseInt? m
    let t ← if t == "-" then some none else (parseInt? t).map some
    pure (match setupThreshold m t with | .ok t => s!"ok {t}" | .error e => showErr e)
  | ["pfield", l, f, k, p, n, m, t, fp, pr] => do
    let l ← parseNat? l; let f ← parseNat? f; let k ← parseNat? k; let p ← parseOpt? p
    let n ← parseNat? n; let m ← parseNat? m; let t ← parseNat? t; let fp ← parseOpt? fp
    let pr ← parseNat? pr
    pure (match pfield (fun _ _ => fp.getD 0) (fun _ => pr == 1) l f k p n m t with
      | .ok p => s!"ok {p}" | .error e => showErr e)
  | ["isprime", n] => do
    let n ← parseNat? n
    pure (if isPrime n then "1" else "0")
  | ["fpp", x] => do
    let x ← parseNat? x
    pure (match factorPrimePower x with | some (p, d) => s!"{p} {d}" | none => "ValueError")
  | ["primege", c] => do
    let c ← parseNat? c
    pure (toString (leastPrimeGe c))
  | ["croot", n, d] => do
    let n ← parseNat? n; let d ← parseNat? d
    pure (toString (ceilRoot n d))
  | ["clog", b, x] => do
    let b ← parseNat? b; let x ← parseNat? x
    pure (toString (clog b x))
  | ["bitlen", n] => do
    let n ← parseNat? n
    pure (toString (bitLength n))
  | ["irr", p, cs] => do
    let p ← parseNat? p; let cs ← parseNatList? cs
    pure (if irrBrute p cs then "1" else "0")
  | ["findirr", p, d] => do
    let p ← parseNat? p; let d ← parseNat? d
    pure (showNatList (findIrrBrute p d))
  | ["outconv", p, cs] => do
    let p ← parseNat? p; let cs ← parseNatList? cs
    pure (match outConv p cs with | .ok v => s!"ok {v}" | .error e => showErr e)
  | _ => none

end CfgDrv

def step (line : String) : String :=
  let toks := tokens line
  match CombDrv.step toks with
  | some s => s
  | none =>
    match CfgDrv.step toks with
    | some s => s
    | none => "bad-op"

def main : IO Unit := do
  loop (← IO.getStdin) step
