/-
Line-protocol driver for the share-layer model (stateless; every request names its prime p).

  cons <p> <t> <s0,s1,…>                 -> ok <secret> | bad        consistentB; shares of parties 0..m-1 (any naturals,
                                                                     reduced mod p); needs t < m, else bad-op
  mul <p> <a-shares> <b-shares>          -> pointwise products mod p (csv); lengths must agree, else bad-op
  add|sub <p> <a-shares> <b-shares>      -> pointwise sums / differences mod p
  addc <p> <c> <a-shares>                -> every share + c mod p
  smul <p> <c> <a-shares>                -> every share * c mod p
  reshare <p> <t> <m> <uci> <rows>       -> the m new shares (csv).  rows = ';'-separated "j:v0,v1,…" = dealer j's
                                            subshares for parties 0..m-1.  Party i recombines at 0 the entries i of
                                            the rows of the dealers (uci+k)%m, k=0..2t, at x = dealer+1 (points in the
                                            code's order: received ones first, own last).  Rows of non-dealers are
                                            ignored; a missing/short dealer row, m = 0 or 2t ≥ m -> bad-op
  sumdealt <p> <m> <rows>                -> the m summed shares; rows = ';'-separated "v0,…,v_{m-1}" per sender
  senders <m> <t> <uci>                  -> (uci+i)%m, i=0..t
  maskbound <e> <m> <t> <noprss 0/1>     -> 1 << max(0, ((1<<e) // d).bit_length() - 1), d = t+1 (noprss) / C(m,t)
                                            | ZeroDivisionError (d = 0, i.e. t > m with PRSS)
  maskboundn <bound> <m> <t> <noprss>    -> the same for an arbitrary bound
  convbound <e> <m> <t> <noprss 0/1>     -> (1<<e) // d + 1   (_convert)   | ZeroDivisionError
  choose <n> <k>                         -> C(n,k)
lists: csv, "-" = empty.
-/
import MpycV.Model.Util
import MpycV.Model.Share
open MpycV MpycV.Util MpycV.Thresha MpycV.Share

def parseRows? (s : String) : Option (List (Nat × List Nat)) :=
  if s == "-" then some [] else
  (s.splitOn ";").mapM fun e =>
    match e.splitOn ":" with
    | [a, b] => do pure ((← parseNat? a), (← parseNatList? b))
    | _ => none

def parseMatrix? (s : String) : Option (List (List Nat)) :=
  if s == "-" then some [] else (s.splitOn ";").mapM parseNatList?

def parseBool? (s : String) : Option Bool :=
  if s == "0" then some false else if s == "1" then some true else none

def binop (f : FieldOps Nat → List Nat → List Nat → List Nat) (p a b : String) : String :=
  match parseNat? p, parseNatList? a, parseNatList? b with
  | some p, some a, some b =>
    if p < 2 ∨ a.length ≠ b.length then "bad-op"
    else showNatList (f (modP p) (a.map (· % p)) (b.map (· % p)))
  | _, _, _ => "bad-op"

def step (line : String) : String :=
  match tokens line with
  | ["cons", p, t, s] =>
    match parseNat? p, parseNat? t, parseNatList? s with
    | some p, some t, some s =>
      if p < 2 ∨ s.length ≤ t then "bad-op"
      else match consistentB p t s with
        | some v => s!"ok {v}"
        | none => "bad"
    | _, _, _ => "bad-op"
  | ["mul", p, a, b] => binop mulShares p a b
  | ["add", p, a, b] => binop addShares p a b
  | ["sub", p, a, b] => binop subShares p a b
  | ["addc", p, c, a] =>
    match parseNat? p, parseNat? c, parseNatList? a with
    | some p, some c, some a =>
      if p < 2 then "bad-op" else showNatList (addConst (modP p) (c % p) (a.map (· % p)))
    | _, _, _ => "bad-op"
  | ["smul", p, c, a] =>
    match parseNat? p, parseNat? c, parseNatList? a with
    | some p, some c, some a =>
      if p < 2 then "bad-op" else showNatList (smulShares (modP p) (c % p) (a.map (· % p)))
    | _, _, _ => "bad-op"
  | ["reshare", p, t, m, uci, rows] =>
    match parseNat? p, parseNat? t, parseNat? m, parseNat? uci, parseRows? rows with
    | some p, some t, some m, some uci, some rows =>
      if p < 2 ∨ m = 0 ∨ 2 * t ≥ m then "bad-op"
      else match reshareSharesE (modP p) t m uci (rows.map fun r => (r.1, r.2.map (· % p))) with
        | some y => showNatList y
        | none => "bad-op"
    | _, _, _, _, _ => "bad-op"
  | ["sumdealt", p, m, rows] =>
    match parseNat? p, parseNat? m, parseMatrix? rows with
    | some p, some m, some rows =>
      if p < 2 ∨ rows.any (fun r => r.length < m) then "bad-op"
      else showNatList (sumDealt (modP p) m (rows.map (·.map (· % p))))
    | _, _, _ => "bad-op"
  | ["senders", m, t, uci] =>
    match parseNat? m, parseNat? t, parseNat? uci with
    | some m, some t, some uci => if m = 0 then "bad-op" else showNatList (senders m t uci)
    | _, _, _ => "bad-op"
  | ["maskbound", e, m, t, np] =>
    match parseNat? e, parseNat? m, parseNat? t, parseBool? np with
    | some e, some m, some t, some np =>
      if maskDiv m t np = 0 then "ZeroDivisionError" else toString (maskBoundPow e m t np)
    | _, _, _, _ => "bad-op"
  | ["maskboundn", b, m, t, np] =>
    match parseNat? b, parseNat? m, parseNat? t, parseBool? np with
    | some b, some m, some t, some np =>
      if maskDiv m t np = 0 then "ZeroDivisionError" else toString (maskBound b m t np)
    | _, _, _, _ => "bad-op"
  | ["convbound", e, m, t, np] =>
    match parseNat? e, parseNat? m, parseNat? t, parseBool? np with
    | some e, some m, some t, some np =>
      if maskDiv m t np = 0 then "ZeroDivisionError" else toString (convertBound e m t np)
    | _, _, _, _ => "bad-op"
  | ["choose", n, k] =>
    match parseNat? n, parseNat? k with
    | some n, some k => toString (choose n k)
    | _, _ => "bad-op"
  | _ => "bad-op"

def main : IO Unit := do
  loop (← IO.getStdin) step
