/-
Stateful line-protocol driver for the seclist model (MpycV.SecList).  State = (f, contents).
requests (ints in decimal, lists "1,2,3", "-" = empty list):
  new <f> <list>                       start a new secure list (f = fractional bits, contents scaled)
  get <key> | set <key> <v> | del <key> | insert <key> <v> | pop <key>
      key = p:<int> (public) | s:<int> (secret number, scaled) | u:<off>:<list> (secindex / list of numbers)
  getsl <sl> | setsl <sl> <list> | delsl <sl>      sl = <start>:<stop>:<step> with "_" for None
  append <v> | extend <list> | add <list> | radd <list> | mul <n> | imul <n> | copy
  count <v> | contains <v> | find <v> | index <v> | remove <v> | sort <0|1>
  cmp <lt|le|eq|ge|gt|ne> <list>
  dump
  new2 <list>                          start the companion list (same f); a request prefixed with the token `@2`
                                       acts on the companion list (parallel lists sharing index objects)
  uv <a> <n>                           runtime.unit_vector (stateless)
answer:  R=<none | v:<int> | l:<list> | e:<Error>>;S=<contents>;T=<trace events, comma separated>
-/
import MpycV.Model.SecList
import MpycV.Model.Sort
import MpycV.Model.Util
open MpycV MpycV.SecList MpycV.SecList.Py MpycV.Util

def showErr : Err → String
  | .IndexError => "IndexError"
  | .ValueError => "ValueError"
  | .TypeError => "TypeError"

def showRes : Res → String
  | .none => "none"
  | .val v => s!"v:{v}"
  | .lst l => s!"l:{showIntList l}"
  | .err e => s!"e:{showErr e}"

def showEv : Ev → String
  | .unitVector n => s!"unit_vector/{n}"
  | .inProd n => s!"in_prod/{n}"
  | .vectorAdd n => s!"vector_add/{n}"
  | .vectorSub n => s!"vector_sub/{n}"
  | .scalarMul n => s!"scalar_mul/{n}"
  | .schurProd n => s!"schur_prod/{n}"
  | .sum n => s!"sum/{n}"
  | .eq => "eq"
  | .sgn => "sgn"
  | .ifElse n => s!"if_else/{n}"
  | .find n => s!"find/{n}"
  | .indexOf n => s!"indexOf/{n}"
  | .eqPublic => "eq_public"
  | .all n => s!"all/{n}"
  | .sort n => s!"_sort/{n}"

def showTrace (t : List Ev) : String :=
  if t.isEmpty then "-" else ",".intercalate (t.map showEv)

/-- `runtime._sort`: Batcher merge-exchange with the exact comparison `a < b` (model of C29) -/
def srt (x : List Int) : List Int :=
  MpycV.Sort.run (fun a b => decide (a < b)) (MpycV.Sort.sortNet x.length) x

def parseKey? (s : String) : Option Key :=
  match s.splitOn ":" with
  | ["p", i] => (parseInt? i).map Key.pub
  | ["s", a] => (parseInt? a).map Key.sec
  | ["u", off, l] => do
      let off ← parseNat? off
      let l ← parseIntList? l
      pure (Key.vec off l)
  | _ => none

def parseOptInt? (s : String) : Option (Option Int) :=
  if s == "_" then some none else (parseInt? s).map some

def parseSlice? (s : String) : Option Slice :=
  match s.splitOn ":" with
  | [a, b, c] => do
      let a ← parseOptInt? a
      let b ← parseOptInt? b
      let c ← parseOptInt? c
      pure { start := a, stop := b, step := c }
  | _ => none

def parseCmp? : String → Option CmpOp
  | "lt" => some .lt | "le" => some .le | "eq" => some .eq
  | "ge" => some .ge | "gt" => some .gt | "ne" => some .ne
  | _ => none

def parseOp? : List String → Option Op
  | ["get", k] => (parseKey? k).map Op.getitem
  | ["set", k, v] => do pure (Op.setitem (← parseKey? k) (← parseInt? v))
  | ["del", k] => (parseKey? k).map Op.delitem
  | ["insert", k, v] => do pure (Op.insert (← parseKey? k) (← parseInt? v))
  | ["pop", k] => (parseKey? k).map Op.pop
  | ["getsl", s] => (parseSlice? s).map Op.getslice
  | ["setsl", s, l] => do pure (Op.setslice (← parseSlice? s) (← parseIntList? l))
  | ["delsl", s] => (parseSlice? s).map Op.delslice
  | ["append", v] => (parseInt? v).map Op.append
  | ["extend", l] => (parseIntList? l).map Op.extend
  | ["add", l] => (parseIntList? l).map Op.add
  | ["radd", l] => (parseIntList? l).map Op.radd
  | ["mul", n] => (parseInt? n).map Op.mul
  | ["imul", n] => (parseInt? n).map Op.imul
  | ["copy"] => some Op.copy
  | ["count", v] => (parseInt? v).map Op.count
  | ["contains", v] => (parseInt? v).map Op.contains
  | ["find", v] => (parseInt? v).map Op.find
  | ["index", v] => (parseInt? v).map Op.index
  | ["remove", v] => (parseInt? v).map Op.remove
  | ["sort", "0"] => some (Op.sort false)
  | ["sort", "1"] => some (Op.sort true)
  | ["cmp", o, l] => do pure (Op.cmp (← parseCmp? o) (← parseIntList? l))
  | _ => none

abbrev St := Nat × List Int × List Int

def answer (r : Res) (x : List Int) (t : List Ev) : String :=
  s!"R={showRes r};S={showIntList x};T={showTrace t}"

def stepLine (st : St) (line : String) : St × String :=
  match tokens line with
  | ["new", f, l] =>
    match parseNat? f, parseIntList? l with
    | some f, some l => ((f, l, []), answer Res.none l [])
    | _, _ => (st, "bad-op")
  | ["new2", l] =>
    match parseIntList? l with
    | some l => ((st.1, st.2.1, l), answer Res.none l [])
    | none => (st, "bad-op")
  | ["dump"] => (st, answer Res.none st.2.1 [])
  | ["uv", a, n] =>
    match parseInt? a, parseNat? n with
    | some a, some n => (st, showIntList (unitVector a n))
    | _, _ => (st, "bad-op")
  | "@2" :: toks =>
    match parseOp? toks with
    | some op =>
      let cfg : Cfg := { f := st.1, srt := srt }
      let r := step cfg st.2.2 op
      ((st.1, st.2.1, r.2), answer r.1 r.2 (trace cfg st.2.2 op))
    | none => (st, "bad-op")
  | toks =>
    match parseOp? toks with
    | some op =>
      let cfg : Cfg := { f := st.1, srt := srt }
      let r := step cfg st.2.1 op
      ((st.1, r.2, st.2.2), answer r.1 r.2 (trace cfg st.2.1 op))
    | none => (st, "bad-op")

def main : IO Unit := do
  loopS (← IO.getStdin) stepLine ((0, [], []) : St)
