/-
Line-protocol driver for the Tools area: MpycV.Model.Tools (C32), MpycV.Model.Sort (C29),
MpycV.Model.Bits (C30).  C32 requests (one per line):
  reduce  <n> <init>            init = "-" (no initial value) or a leaf number; leaves 0..n-1
  acc     <n> <init> <method>   method = BK | SK        (in-place layer accBK / accSkl)
  accs    <n> <init> <method>   slice layer bk / skl
  defmeth <noPrss 0|1> <n>
Elements live in the free magma `Tree`; answers are the exact application trees.
-/
import MpycV.Model.Tools
import MpycV.Model.Sort
import MpycV.Model.Bits
import MpycV.Model.Util
open MpycV MpycV.Util MpycV.Tools

def leaves (n : Nat) : List Tree := (List.range n).map Tree.leaf

def parseInit? (s : String) : Option (Option Tree) :=
  if s == "-" then some none else (parseNat? s).map (fun k => some (Tree.leaf k))

def showTrees (l : List Tree) : String :=
  if l.isEmpty then "-" else ";".intercalate (l.map Tree.show)

/-! C29: elements are integer lists ("k,p"), the key is a function of the first component -/

def keyOf (k : String) (a : List Int) : Int :=
  let v := a.headD 0
  if k == "neg" then -v else if k == "sq" then v * v else v

def ltOf (k : String) (a b : List Int) : Bool := decide (keyOf k a < keyOf k b)

def parseElems? (ts : List String) : Option (List (List Int)) := ts.mapM parseIntList?

def showElems (l : List (List Int)) : String :=
  if l.isEmpty then "-" else " ".intercalate (l.map showIntList)

def validKey (k : String) : Bool := k == "id" || k == "neg" || k == "sq"

def stepSort (op k : String) (rest : List String) : String :=
  if !validKey k then "bad-op" else
  match op, rest with
  | "sort", r :: es =>
    match parseElems? es with
    | some x => if r == "0" then showElems (Sort.sorted (ltOf k) x false)
                else if r == "1" then showElems (Sort.sorted (ltOf k) x true) else "bad-op"
    | none => "bad-op"
  | "npsort", es =>
    match parseElems? es with
    | some x => showElems (Sort.npSorted (ltOf k) x)
    | none => "bad-op"
  | "min", es =>
    match parseElems? es with
    | some x => match Sort.tmin (ltOf k) x with | some a => showIntList a | none => "ValueError"
    | none => "bad-op"
  | "max", es =>
    match parseElems? es with
    | some x => match Sort.tmax (ltOf k) x with | some a => showIntList a | none => "ValueError"
    | none => "bad-op"
  | "argmin", es =>
    match parseElems? es with
    | some x => match Sort.targmin (ltOf k) x with
      | some (i, a) => toString i ++ " " ++ showIntList a | none => "ValueError"
    | none => "bad-op"
  | "argmax", es =>
    match parseElems? es with
    | some x => match Sort.targmax (ltOf k) x with
      | some (i, a) => toString i ++ " " ++ showIntList a | none => "ValueError"
    | none => "bad-op"
  | "minmax", es =>
    match parseElems? es with
    | some x => match Sort.minMax (ltOf k) x with
      | some (a, b) => showIntList a ++ " " ++ showIntList b | none => "ValueError"
    | none => "bad-op"
  | _, _ => "bad-op"

def showNet (net : Sort.Net) : String :=
  if net.isEmpty then "-" else " ".intercalate (net.map fun c => toString c.1 ++ ":" ++ toString c.2)

/-! C30: bit-level building blocks; named families for the `f` / `cs_f` arguments of `find` -/

def fFam (name : String) (i : Int) : List Int :=
  if name == "pow2" then [2 ^ i.toNat] else if name == "nmi" then [10 - i]
  else if name == "pair" then [i, 2 ^ i.toNat] else [i]

def csFam (name : String) (b i : Int) : List Int :=
  if name == "pow2" then [(b + 1) * 2 ^ i.toNat] else if name == "nmi" then [10 - i - b]
  else if name == "pair" then [i + b, (b + 1) * 2 ^ i.toNat] else [i + b]

def validFam (n : String) : Bool := n == "id" || n == "pow2" || n == "nmi" || n == "pair"

def parseFSpec? (s : String) : Option Bits.FSpec :=
  if s == "default" then some .default else
  match s.splitOn ":" with
  | ["f", n] => if validFam n then some (.givenF (fFam n)) else none
  | ["cs", n] => if validFam n then some (.givenCs (csFam n)) else none
  | ["fcs", n] => if validFam n then some (.givenCs (csFam n)) else none   -- f and cs_f both given
  | _ => none

def parseMode? (s : String) : Option Bits.AMode :=
  if s == "pub" then some .pubBit else if s == "sec" then some .secBit
  else if s == "gen" then some .general else none

def parseOptInt? (s : String) : Option (Option Int) :=
  if s == "None" then some none else (parseInt? s).map some

def stepBits (ts : List String) : String :=
  match ts with
  | ["addbits", x, y] =>
    match parseIntList? x, parseIntList? y with
    | some x, some y => if x.length == y.length then showIntList (Bits.addBits x y) else "bad-op"
    | _, _ => "bad-op"
  | ["frombits", x] =>
    match parseIntList? x with
    | some x => toString (Bits.fromBits x)
    | none => "bad-op"
  | ["tobits", L, f, integral, a, l, rbits, rdivl] =>
    match parseNat? L, parseNat? f, parseNat? integral, parseInt? a, parseNat? l, parseIntList? rbits,
        parseInt? rdivl with
    | some L, some f, some ig, some a, some l, some rbits, some rdivl =>
      match Bits.toBits L f (ig != 0) a l rbits rdivl with
      | some r => showIntList r
      | none => "AssertionError"
    | _, _, _, _, _, _, _ => "bad-op"
  | ["find", mode, a, e, fk, x] =>
    match parseMode? mode, parseInt? a, parseOptInt? e, parseFSpec? fk, parseIntList? x with
    | some mode, some a, some e, some fs, some x =>
      match Bits.find mode a x e fs with
      | (some nf, y) => toString nf ++ " " ++ showIntList y
      | (none, y) => showIntList y
    | _, _, _, _, _ => "bad-op"
  | ["unitvec", a, n] =>
    match parseInt? a, parseNat? n with
    | some a, some n =>
      if n == 0 then "bad-op" else
      showIntList (Bits.unitVector (Bits.bitsOf a (Bits.bitLength (n - 1))) n)
    | _, _ => "bad-op"
  | ["tz", L, a, l, rbits, rdivl] =>
    match parseNat? L, parseInt? a, parseNat? l, parseIntList? rbits, parseInt? rdivl with
    | some L, some a, some l, some rbits, some rdivl => showIntList (Bits.trailingZeros L a l rbits rdivl)
    | _, _, _, _, _ => "bad-op"
  | ["gcp2", L, a, b, l, ra, rda, rb, rdb] =>
    match parseNat? L, parseInt? a, parseInt? b, parseNat? l, parseIntList? ra, parseInt? rda,
        parseIntList? rb, parseInt? rdb with
    | some L, some a, some b, some l, some ra, some rda, some rb, some rdb =>
      toString (Bits.gcp2 L a b l ra rda rb rdb)
    | _, _, _, _, _, _, _, _ => "bad-op"
  | _ => "bad-op"

def step (line : String) : String :=
  match tokens line with
  | "addbits" :: _ => stepBits (tokens line)
  | "frombits" :: _ => stepBits (tokens line)
  | "tobits" :: _ => stepBits (tokens line)
  | "find" :: _ => stepBits (tokens line)
  | "unitvec" :: _ => stepBits (tokens line)
  | "tz" :: _ => stepBits (tokens line)
  | "gcp2" :: _ => stepBits (tokens line)
  | ["net", n] => match parseNat? n with | some n => showNet (Sort.sortNet n) | none => "bad-op"
  | "sort" :: k :: rest => stepSort "sort" k rest
  | "npsort" :: k :: rest => stepSort "npsort" k rest
  | "min" :: k :: rest => stepSort "min" k rest
  | "max" :: k :: rest => stepSort "max" k rest
  | "argmin" :: k :: rest => stepSort "argmin" k rest
  | "argmax" :: k :: rest => stepSort "argmax" k rest
  | "minmax" :: k :: rest => stepSort "minmax" k rest
  | ["reduce", n, ini] =>
    match parseNat? n, parseInit? ini with
    | some n, some ini =>
      match reduce Tree.node (leaves n) ini with
      | some t => t.show
      | none => "TypeError"
    | _, _ => "bad-op"
  | ["acc", n, ini, m] =>
    match parseNat? n, parseInit? ini with
    | some n, some ini =>
      if m == "BK" then showTrees (accumulate Tree.node (leaves n) ini .brentKung)
      else if m == "SK" then showTrees (accumulate Tree.node (leaves n) ini .sklansky)
      else "ValueError"
    | _, _ => "bad-op"
  | ["accs", n, ini, m] =>
    match parseNat? n, parseInit? ini with
    | some n, some ini =>
      let x := match ini with | some a => a :: leaves n | none => leaves n
      if m == "BK" then showTrees (bk Tree.node none x)
      else if m == "SK" then showTrees (skl Tree.node x)
      else "ValueError"
    | _, _ => "bad-op"
  | ["defmeth", p, n] =>
    match parseNat? p, parseNat? n with
    | some p, some n =>
      match defaultMethod (p != 0) n with
      | .brentKung => "BK"
      | .sklansky => "SK"
    | _, _ => "bad-op"
  | _ => "bad-op"

def main : IO Unit := do MpycV.Util.loop (← IO.getStdin) step
