/-
Line-protocol driver for MpycV.Model.Tools (C32).  Requests (one per line):
  reduce  <n> <init>            init = "-" (no initial value) or a leaf number; leaves 0..n-1
  acc     <n> <init> <method>   method = BK | SK        (in-place layer accBK / accSkl)
  accs    <n> <init> <method>   slice layer bk / skl
  defmeth <noPrss 0|1> <n>
Elements live in the free magma `Tree`; answers are the exact application trees.
-/
import MpycV.Model.Tools
import MpycV.Model.Util
open MpycV MpycV.Util MpycV.Tools

def leaves (n : Nat) : List Tree := (List.range n).map Tree.leaf

def parseInit? (s : String) : Option (Option Tree) :=
  if s == "-" then some none else (parseNat? s).map (fun k => some (Tree.leaf k))

def showTrees (l : List Tree) : String :=
  if l.isEmpty then "-" else ";".intercalate (l.map Tree.show)

def step (line : String) : String :=
  match tokens line with
  | ["reduce", n, ini] =>
    match parseNat? n, parseInit? ini with
    | some n, some ini =>
      match reduce Tree.node (leaves n) ini with
      | some t => t.show
      | none => "TypeError"
    | _, _ => "bad-op"
  | ["acc", n, ini, m] =>
    match parseNat? n, parseInit? ini with
    | some n, some ini =>
      if m == "BK" then showTrees (accumulate Tree.node (leaves n) ini .brentKung)
      else if m == "SK" then showTrees (accumulate Tree.node (leaves n) ini .sklansky)
      else "ValueError"
    | _, _ => "bad-op"
  | ["accs", n, ini, m] =>
    match parseNat? n, parseInit? ini with
    | some n, some ini =>
      let x := match ini with | some a => a :: leaves n | none => leaves n
      if m == "BK" then showTrees (bk Tree.node none x)
      else if m == "SK" then showTrees (skl Tree.node x)
      else "ValueError"
    | _, _ => "bad-op"
  | ["defmeth", p, n] =>
    match parseNat? p, parseNat? n with
    | some p, some n =>
      match defaultMethod (p != 0) n with
      | .brentKung => "BK"
      | .sklansky => "SK"
    | _, _ => "bad-op"
  | _ => "bad-op"

def main : IO Unit := do MpycV.Util.loop (← IO.getStdin) step
