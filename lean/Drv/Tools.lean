/-
Line-protocol driver for the Tools area: MpycV.Model.Tools (C32), MpycV.Model.Sort (C29),
MpycV.Model.Bits (C30).  C32 requests (one per line):
  reduce  <n> <init>            init = "-" (no initial value) or a leaf number; leaves 0..n-1
  acc     <n> <init> <method>   method = BK | SK        (in-place layer accBK / accSkl)
  accs    <n> <init> <method>   slice layer bk / skl
  defmeth <noPrss 0|1> <n>
Elements live in the free magma `Tree`; answers are the exact application trees.
-/
import MpycV.Model.Tools
import MpycV.Model.Sort
import MpycV.Model.Bits
import MpycV.Model.Util
open MpycV MpycV.Util MpycV.Tools

def leaves (n : Nat) : List Tree := (List.range n).map Tree.leaf

def parseInit? (s : String) : Option (Option Tree) :=
  if s == "-" then some none else (parseNat? s).map (fun k => some (Tree.leaf k))

def showTrees (l : List Tree) : String :=
  if l.isEmpty then "-" else ";".intercalate (l.map Tree.show)

/-! C29: elements are integer lists ("k,p"), the key is a function of the first component -/

def keyOf (k : String) (a : List Int) : Int :=
  let v := a.headD 0
  if k == "neg" then -v else if k == "sq" then v * v else v

def ltOf (k : String) (a b : List Int) : Bool := decide (keyOf k a < keyOf k b)

def parseElems? (ts : List String) : Option (List (List Int)) := ts.mapM parseIntList?

def showElems (l : List (List Int)) : String :=
  if l.isEmpty then "-" else " ".intercalate (l.map showIntList)

def validKey (k : String) : Bool := k == "id" || k == "neg" || k == "sq"

def elemOut (r : Option (List Int)) : String :=
  match r with | some a => showIntList a | none => "ValueError"

def stepSort (op k : String) (rest : List String) : String :=
  if !validKey k then "bad-op" else
  if op == "sort" then
    match rest with
    | r :: es => (do
        let x ← parseElems? es
        if r == "0" then pure (showElems (Sort.sorted (ltOf k) x false))
        else if r == "1" then pure (showElems (Sort.sorted (ltOf k) x true)) else none).getD "bad-op"
    | [] => "bad-op"
  else (do
    let x ← parseElems? rest
    if op == "npsort" then pure (showElems (Sort.npSorted (ltOf k) x))
    else if op == "min" then pure (elemOut (Sort.tmin (ltOf k) x))
    else if op == "max" then pure (elemOut (Sort.tmax (ltOf k) x))
    else if op == "argmin" then
      pure ((Sort.targmin (ltOf k) x).elim "ValueError" (fun p => toString p.1 ++ " " ++ showIntList p.2))
    else if op == "argmax" then
      pure ((Sort.targmax (ltOf k) x).elim "ValueError" (fun p => toString p.1 ++ " " ++ showIntList p.2))
    else if op == "minmax" then
      pure ((Sort.minMax (ltOf k) x).elim "ValueError" (fun p => showIntList p.1 ++ " " ++ showIntList p.2))
    else none).getD "bad-op"

def showNet (net : Sort.Net) : String :=
  if net.isEmpty then "-" else " ".intercalate (net.map fun c => toString c.1 ++ ":" ++ toString c.2)

/-! C30: bit-level building blocks; named families for the `f` / `cs_f` arguments of `find` -/

def fFam (name : String) (i : Int) : List Int :=
  if name == "pow2" then [2 ^ i.toNat] else if name == "nmi" then [10 - i]
  else if name == "pair" then [i, 2 ^ i.toNat] else [i]

def csFam (name : String) (b i : Int) : List Int :=
  if name == "pow2" then [(b + 1) * 2 ^ i.toNat] else if name == "nmi" then [10 - i - b]
  else if name == "pair" then [i + b, (b + 1) * 2 ^ i.toNat] else [i + b]

def validFam (n : String) : Bool := n == "id" || n == "pow2" || n == "nmi" || n == "pair"

def parseFSpec? (s : String) : Option Bits.FSpec :=
  if s == "default" then some .default else
  match s.splitOn ":" with
  | ["f", n] => if validFam n then some (.givenF (fFam n)) else none
  | ["cs", n] => if validFam n then some (.givenCs (csFam n)) else none
  | ["fcs", n] => if validFam n then some (.givenCs (csFam n)) else none   -- f and cs_f both given
  | _ => none

def parseMode? (s : String) : Option Bits.AMode :=
  if s == "pub" then some .pubBit else if s == "sec" then some .secBit
  else if s == "gen" then some .general else none

def parseOptInt? (s : String) : Option (Option Int) :=
  if s == "None" then some none else (parseInt? s).map some

def stepBits (ts : List String) : String :=
  match ts with
  | ["addbits", x, y] => (do
      let x ← parseIntList? x
      let y ← parseIntList? y
      if x.length == y.length then pure (showIntList (Bits.addBits x y)) else none).getD "bad-op"
  | ["frombits", x] => (do
      let x ← parseIntList? x
      pure (toString (Bits.fromBits x))).getD "bad-op"
  | ["tobits", L, f, integral, a, l, rbits, rdivl] => (do
      let L ← parseNat? L
      let f ← parseNat? f
      let ig ← parseNat? integral
      let a ← parseInt? a
      let l ← parseNat? l
      let rbits ← parseIntList? rbits
      let rdivl ← parseInt? rdivl
      pure ((Bits.toBits L f (ig != 0) a l rbits rdivl).elim "AssertionError" showIntList)).getD "bad-op"
  | ["find", mode, a, e, fk, x] => (do
      let mode ← parseMode? mode
      let a ← parseInt? a
      let e ← parseOptInt? e
      let fs ← parseFSpec? fk
      let x ← parseIntList? x
      let r := Bits.find mode a x e fs
      pure (r.1.elim (showIntList r.2) (fun nf => toString nf ++ " " ++ showIntList r.2))).getD "bad-op"
  | ["unitvec", a, n] => (do
      let a ← parseInt? a
      let n ← parseNat? n
      if n == 0 then none else
      pure (showIntList (Bits.unitVector (Bits.bitsOf a (Bits.bitLength (n - 1))) n))).getD "bad-op"
  | ["tz", L, a, l, rbits, rdivl] => (do
      let L ← parseNat? L
      let a ← parseInt? a
      let l ← parseNat? l
      let rbits ← parseIntList? rbits
      let rdivl ← parseInt? rdivl
      pure (showIntList (Bits.trailingZeros L a l rbits rdivl))).getD "bad-op"
  | ["gcp2", L, a, b, l, ra, rda, rb, rdb] => (do
      let L ← parseNat? L
      let a ← parseInt? a
      let b ← parseInt? b
      let l ← parseNat? l
      let ra ← parseIntList? ra
      let rda ← parseInt? rda
      let rb ← parseIntList? rb
      let rdb ← parseInt? rdb
      pure (toString (Bits.gcp2 L a b l ra rda rb rdb))).getD "bad-op"
  | _ => "bad-op"

def step (line : String) : String :=
  match tokens line with
  | "addbits" :: _ => stepBits (tokens line)
  | "frombits" :: _ => stepBits (tokens line)
  | "tobits" :: _ => stepBits (tokens line)
  | "find" :: _ => stepBits (tokens line)
  | "unitvec" :: _ => stepBits (tokens line)
  | "tz" :: _ => stepBits (tokens line)
  | "gcp2" :: _ => stepBits (tokens line)
  | ["net", n] => match parseNat? n with | some n => showNet (Sort.sortNet n) | none => "bad-op"
  | "sort" :: k :: rest => stepSort "sort" k rest
  | "npsort" :: k :: rest => stepSort "npsort" k rest
  | "min" :: k :: rest => stepSort "min" k rest
  | "max" :: k :: rest => stepSort "max" k rest
  | "argmin" :: k :: rest => stepSort "argmin" k rest
  | "argmax" :: k :: rest => stepSort "argmax" k rest
  | "minmax" :: k :: rest => stepSort "minmax" k rest
  | ["reduce", n, ini] => (do
      let n ← parseNat? n
      let ini ← parseInit? ini
      pure ((reduce Tree.node (leaves n) ini).elim "TypeError" Tree.show)).getD "bad-op"
  | ["acc", n, ini, m] => (do
      let n ← parseNat? n
      let ini ← parseInit? ini
      if m == "BK" then pure (showTrees (accumulate Tree.node (leaves n) ini .brentKung))
      else if m == "SK" then pure (showTrees (accumulate Tree.node (leaves n) ini .sklansky))
      else pure "ValueError").getD "bad-op"
  | ["accs", n, ini, m] => (do
      let n ← parseNat? n
      let ini ← parseInit? ini
      let x := withInitial ini (leaves n)
      if m == "BK" then pure (showTrees (bk Tree.node none x))
      else if m == "SK" then pure (showTrees (skl Tree.node x))
      else pure "ValueError").getD "bad-op"
  | ["defmeth", p, n] => (do
      let p ← parseNat? p
      let n ← parseNat? n
      pure (match defaultMethod (p != 0) n with | .brentKung => "BK" | .sklansky => "SK")).getD "bad-op"
  | _ => "bad-op"

def main : IO Unit := do MpycV.Util.loop (← IO.getStdin) step
