/-
Line-protocol driver for MpycV.Model.Tools (C32).  Requests (one per line):
  reduce  <n> <init>            init = "-" (no initial value) or a leaf number; leaves 0..n-1
  acc     <n> <init> <method>   method = BK | SK        (in-place layer accBK / accSkl)
  accs    <n> <init> <method>   slice layer bk / skl
  defmeth <noPrss 0|1> <n>
Elements live in the free magma `Tree`; answers are the exact application trees.
-/
import MpycV.Model.Tools
import MpycV.Model.Sort
import MpycV.Model.Util
open MpycV MpycV.Util MpycV.Tools

def leaves (n : Nat) : List Tree := (List.range n).map Tree.leaf

def parseInit? (s : String) : Option (Option Tree) :=
  if s == "-" then some none else (parseNat? s).map (fun k => some (Tree.leaf k))

def showTrees (l : List Tree) : String :=
  if l.isEmpty then "-" else ";".intercalate (l.map Tree.show)

/-! C29: elements are integer lists ("k,p"), the key is a function of the first component -/

def keyOf (k : String) (a : List Int) : Int :=
  let v := a.headD 0
  if k == "neg" then -v else if k == "sq" then v * v else v

def ltOf (k : String) (a b : List Int) : Bool := decide (keyOf k a < keyOf k b)

def parseElems? (ts : List String) : Option (List (List Int)) := ts.mapM parseIntList?

def showElems (l : List (List Int)) : String :=
  if l.isEmpty then "-" else " ".intercalate (l.map showIntList)

def validKey (k : String) : Bool := k == "id" || k == "neg" || k == "sq"

def stepSort (op k : String) (rest : List String) : String :=
  if !validKey k then "bad-op" else
  match op, rest with
  | "sort", r :: es =>
    match parseElems? es with
    | some x => if r == "0" then showElems (Sort.sorted (ltOf k) x false)
                else if r == "1" then showElems (Sort.sorted (ltOf k) x true) else "bad-op"
    | none => "bad-op"
  | "npsort", es =>
    match parseElems? es with
    | some x => showElems (Sort.npSorted (ltOf k) x)
    | none => "bad-op"
  | "min", es =>
    match parseElems? es with
    | some x => match Sort.tmin (ltOf k) x with | some a => showIntList a | none => "ValueError"
    | none => "bad-op"
  | "max", es =>
    match parseElems? es with
    | some x => match Sort.tmax (ltOf k) x with | some a => showIntList a | none => "ValueError"
    | none => "bad-op"
  | "argmin", es =>
    match parseElems? es with
    | some x => match Sort.targmin (ltOf k) x with
      | some (i, a) => toString i ++ " " ++ showIntList a | none => "ValueError"
    | none => "bad-op"
  | "argmax", es =>
    match parseElems? es with
    | some x => match Sort.targmax (ltOf k) x with
      | some (i, a) => toString i ++ " " ++ showIntList a | none => "ValueError"
    | none => "bad-op"
  | "minmax", es =>
    match parseElems? es with
    | some x => match Sort.minMax (ltOf k) x with
      | some (a, b) => showIntList a ++ " " ++ showIntList b | none => "ValueError"
    | none => "bad-op"
  | _, _ => "bad-op"

def showNet (net : Sort.Net) : String :=
  if net.isEmpty then "-" else " ".intercalate (net.map fun c => toString c.1 ++ ":" ++ toString c.2)

def step (line : String) : String :=
  match tokens line with
  | ["net", n] => match parseNat? n with | some n => showNet (Sort.sortNet n) | none => "bad-op"
  | "sort" :: k :: rest => stepSort "sort" k rest
  | "npsort" :: k :: rest => stepSort "npsort" k rest
  | "min" :: k :: rest => stepSort "min" k rest
  | "max" :: k :: rest => stepSort "max" k rest
  | "argmin" :: k :: rest => stepSort "argmin" k rest
  | "argmax" :: k :: rest => stepSort "argmax" k rest
  | "minmax" :: k :: rest => stepSort "minmax" k rest
  | ["reduce", n, ini] =>
    match parseNat? n, parseInit? ini with
    | some n, some ini =>
      match reduce Tree.node (leaves n) ini with
      | some t => t.show
      | none => "TypeError"
    | _, _ => "bad-op"
  | ["acc", n, ini, m] =>
    match parseNat? n, parseInit? ini with
    | some n, some ini =>
      if m == "BK" then showTrees (accumulate Tree.node (leaves n) ini .brentKung)
      else if m == "SK" then showTrees (accumulate Tree.node (leaves n) ini .sklansky)
      else "ValueError"
    | _, _ => "bad-op"
  | ["accs", n, ini, m] =>
    match parseNat? n, parseInit? ini with
    | some n, some ini =>
      let x := match ini with | some a => a :: leaves n | none => leaves n
      if m == "BK" then showTrees (bk Tree.node none x)
      else if m == "SK" then showTrees (skl Tree.node x)
      else "ValueError"
    | _, _ => "bad-op"
  | ["defmeth", p, n] =>
    match parseNat? p, parseNat? n with
    | some p, some n =>
      match defaultMethod (p != 0) n with
      | .brentKung => "BK"
      | .sklansky => "SK"
    | _, _ => "bad-op"
  | _ => "bad-op"

def main : IO Unit := do MpycV.Util.loop (← IO.getStdin) step
