import MpycV.Model.Util
import MpycV.Model.Groups
import MpycV.Model.GroupsDrv
/-! Line-protocol driver for the `Groups` model (C27, C28); protocol documented in
    `MpycV/Model/GroupsDrv.lean` (`step` lives there so that it is precompiled). -/

def main : IO Unit := do MpycV.Util.loop (← IO.getStdin) MpycV.GroupsDrv.step
