/-
Line-protocol driver for the array index model (C37) and the secure-polynomial value model (C38).
Shapes / integer lists are comma separated, "-" = empty list (shape () resp. empty array), "none" = Python None.
One request line in, one answer line out; unknown / ill-formed request -> "bad-op".

C37 requests (answers: shape, "shape|data", gather list, or an exception name):
  bshape A B | bshapes S1 S2 ... | bmap A RS | map2 add|sub|mul SA DA SB DB
  mmshape A B | mm2 n k m DA DB | outer DA DB | convshape m n mode
  reshape n SHAPE | tshape S PERM|none | tmap S PERM|none | swapshape S ax1 ax2
  concatshape AXIS|none S1 S2 .. | npconcatshape AXIS S1 S2 .. | concat2 SA SB i | split2 S i da db
  stackshape S n axis | npstackshape S n axis | vstackshape S.. | hstackshape S.. | colstackshape S.. | dstackshape S..
  splitshape S n axis | sumshape S AXES|none keep | expandshape S AXES | squeezeshape S AXES|none
  diagshape S k | cumsumshape S axisnone | tobitsshape S l | frombitsshape S | flattenshape S
  roll S axis|none shift | flip S axis | flat S IDX | unflat S k
C38 requests:
  padd p A B | psub p A B | pneg p A | pmul p A B | plsh A n | prsh A n | ptrunc A n | peval p A x
  pdeg A | plc A | peq p A B | plt p A B | pstrip A | pget A i | plens m n
-/
import MpycV.Model.Array
import MpycV.Model.SecPol
import MpycV.Model.Util
open MpycV MpycV.Arr MpycV.Util

def showShape (s : List Nat) : String := showNatList s

def showExc {α : Type} (f : α → String) : Except Err α → String
  | .ok x => f x
  | .error e => e.toString

def showArr (a : Arr Int) : String := showShape a.shape ++ "|" ++ showIntList a.data
def showArrN (a : Arr Nat) : String := showShape a.shape ++ "|" ++ showNatList a.data

def parseOptIntList? (s : String) : Option (Option (List Int)) :=
  if s == "none" then some none else (parseIntList? s).map some

def parseOptNatList? (s : String) : Option (Option (List Nat)) :=
  if s == "none" then some none else (parseNatList? s).map some

def parseOptInt? (s : String) : Option (Option Int) :=
  if s == "none" then some none else (parseInt? s).map some

def binop? (s : String) : Option (Int → Int → Int) :=
  if s == "add" then some (· + ·) else if s == "sub" then some (· - ·)
  else if s == "mul" then some (· * ·) else none

def shapesOf (l : List String) : Option (List (List Nat)) := l.mapM parseNatList?

def stepArr (toks : List String) : Option String :=
  match toks with
  | ["bshape", a, b] => do
    let a ← parseNatList? a; let b ← parseNatList? b
    pure (match broadcastShape a b with | some s => showShape s | none => "ValueError")
  | "bshapes" :: ss => do
    let ss ← shapesOf ss
    pure (match broadcastShapes ss with | some s => showShape s | none => "ValueError")
  | ["bmap", a, rs] => do
    let a ← parseNatList? a; let rs ← parseNatList? rs
    pure (showNatList (broadcastMap a rs))
  | ["map2", op, sa, da, sb, db] => do
    let f ← binop? op
    let sa ← parseNatList? sa; let da ← parseIntList? da
    let sb ← parseNatList? sb; let db ← parseIntList? db
    pure (match map2 f (⟨sa, da⟩ : Arr Int) (⟨sb, db⟩ : Arr Int) with
      | some c => showArr c | none => "ValueError")
  | ["mmshape", a, b] => do
    let a ← parseNatList? a; let b ← parseNatList? b
    pure (match matmulShape a b with
      | some (some s) => showShape s | some none => "scalar" | none => "Error")
  | ["mm2", n, k, m, da, db] => do
    let n ← parseNat? n; let k ← parseNat? k; let m ← parseNat? m
    let da ← parseIntList? da; let db ← parseIntList? db
    pure (showArr (matmul2 n k m da db))
  | ["outer", da, db] => do
    let da ← parseIntList? da; let db ← parseIntList? db
    pure (showArr (outer da db))
  | ["convshape", m, n, mode] => do
    let m ← parseNat? m; let n ← parseNat? n
    pure (showShape (convolveShape m n mode))
  | ["reshape", n, sh] => do
    let n ← parseNat? n; let sh ← parseIntList? sh
    pure (showExc showShape (reshapeShape n sh))
  | ["tshape", s, perm] => do
    let s ← parseNatList? s; let perm ← parseOptNatList? perm
    pure (showShape (transposeShape s perm))
  | ["tmap", s, perm] => do
    let s ← parseNatList? s; let perm ← parseOptNatList? perm
    pure (showNatList (match perm with | none => transposeRev s | some p => transposeMap s p))
  | ["swapshape", s, a1, a2] => do
    let s ← parseNatList? s; let a1 ← parseInt? a1; let a2 ← parseInt? a2
    pure (showExc showShape (swapaxesShape s a1 a2))
  | "concatshape" :: ax :: ss => do
    let ax ← parseOptInt? ax; let ss ← shapesOf ss
    pure (showExc showShape (concatShape ss ax))
  | "npconcatshape" :: ax :: ss => do
    let ax ← parseInt? ax; let ss ← shapesOf ss
    pure (showExc showShape (npConcatShape ss ax))
  | ["concat2", sa, sb, i] => do
    let sa ← parseNatList? sa; let sb ← parseNatList? sb; let i ← parseNat? i
    let a := List.range (size sa)
    let b := (List.range (size sb)).map (· + size sa)
    pure (showArrN (concat2 sa sb i a b))
  | ["split2", s, i, da, db] => do
    let s ← parseNatList? s; let i ← parseNat? i; let da ← parseNat? da; let db ← parseNat? db
    let r := split2 s i da db (List.range (size s))
    pure (showNatList r.1 ++ "|" ++ showNatList r.2)
  | ["stackshape", s, n, ax] => do
    let s ← parseNatList? s; let n ← parseNat? n; let ax ← parseInt? ax
    pure (showShape (stackShape s n ax))
  | ["npstackshape", s, n, ax] => do
    let s ← parseNatList? s; let n ← parseNat? n; let ax ← parseInt? ax
    pure (match npStackShape s n ax with | some r => showShape r | none => "AxisError")
  | "vstackshape" :: ss => do let ss ← shapesOf ss; pure (showExc showShape (vstackShape ss))
  | "hstackshape" :: ss => do let ss ← shapesOf ss; pure (showExc showShape (hstackShape ss))
  | "colstackshape" :: ss => do let ss ← shapesOf ss; pure (showExc showShape (columnStackShape ss))
  | "dstackshape" :: ss => do let ss ← shapesOf ss; pure (showExc showShape (dstackShape ss))
  | ["splitshape", s, n, ax] => do
    let s ← parseNatList? s; let n ← parseNat? n; let ax ← parseInt? ax
    pure (showExc (fun r => toString r.1 ++ "x" ++ showShape r.2) (splitShape s n ax))
  | ["sumshape", s, axes, keep] => do
    let s ← parseNatList? s; let axes ← parseOptIntList? axes; let keep ← parseNat? keep
    pure (showExc showShape (sumShape s axes (keep == 1)))
  | ["expandshape", s, axes] => do
    let s ← parseNatList? s; let axes ← parseIntList? axes
    pure (showShape (expandDimsShape s axes))
  | ["squeezeshape", s, axes] => do
    let s ← parseNatList? s; let axes ← parseOptIntList? axes
    pure (showShape (squeezeShape s axes))
  | ["diagshape", s, k] => do
    let s ← parseNatList? s; let k ← parseInt? k
    pure (showShape (diagShape s k))
  | ["cumsumshape", s, an] => do
    let s ← parseNatList? s; let an ← parseNat? an
    pure (showShape (cumsumShape s (an == 1)))
  | ["tobitsshape", s, l] => do
    let s ← parseNatList? s; let l ← parseNat? l
    pure (showShape (toBitsShape s l))
  | ["frombitsshape", s] => do
    let s ← parseNatList? s
    pure (match fromBitsShape s with | some r => showShape r | none => "ValueError")
  | ["flattenshape", s] => do
    let s ← parseNatList? s
    pure (showShape (flattenShape s))
  | ["roll", s, ax, sh] => do
    let s ← parseNatList? s; let ax ← parseOptInt? ax; let sh ← parseInt? sh
    let x := List.range (size s)
    match ax with
    | none => pure (showNatList (roll sh x))
    | some a =>
      match normAxis s.length a with
      | some i => pure (showNatList (rollAxis s i sh x))
      | none => pure "AxisError"
  | ["flip", s, ax] => do
    let s ← parseNatList? s; let ax ← parseInt? ax
    match normAxis s.length ax with
    | some i => pure (showNatList (flipAxis s i (List.range (size s))))
    | none => pure "AxisError"
  | ["flat", s, idx] => do
    let s ← parseNatList? s; let idx ← parseNatList? idx
    pure (if inRange s idx then toString (flatIndex s idx) else "IndexError")
  | ["unflat", s, k] => do
    let s ← parseNatList? s; let k ← parseNat? k
    pure (if k < size s then showNatList (unflatten s k) else "IndexError")
  | _ => none

open MpycV.SecPol in
def stepPol (toks : List String) : Option String :=
  match toks with
  | ["padd", p, a, b] => do
    let p ← parseNat? p; let a ← parseNatList? a; let b ← parseNatList? b
    pure (showNatList (SecPol.add p a b))
  | ["psub", p, a, b] => do
    let p ← parseNat? p; let a ← parseNatList? a; let b ← parseNatList? b
    pure (showNatList (SecPol.sub p a b))
  | ["pneg", p, a] => do
    let p ← parseNat? p; let a ← parseNatList? a
    pure (showNatList (SecPol.neg p a))
  | ["pmul", p, a, b] => do
    let p ← parseNat? p; let a ← parseNatList? a; let b ← parseNatList? b
    pure (showNatList (SecPol.mul p a b))
  | ["plsh", a, n] => do
    let a ← parseNatList? a; let n ← parseNat? n
    pure (showNatList (SecPol.lshift a n))
  | ["prsh", a, n] => do
    let a ← parseNatList? a; let n ← parseNat? n
    pure (showNatList (SecPol.rshift a n))
  | ["ptrunc", a, n] => do
    let a ← parseNatList? a; let n ← parseNat? n
    pure (showNatList (SecPol.truncate a n))
  | ["peval", p, a, x] => do
    let p ← parseNat? p; let a ← parseNatList? a; let x ← parseInt? x
    pure (toString (SecPol.eval p a x))
  | ["pdeg", a] => do
    let a ← parseNatList? a
    pure (toString (SecPol.degree a))
  | ["plc", a] => do
    let a ← parseNatList? a
    pure (toString (SecPol.leadingCoeff a))
  | ["peq", p, a, b] => do
    let p ← parseNat? p; let a ← parseNatList? a; let b ← parseNatList? b
    pure (if SecPol.eq p a b then "1" else "0")
  | ["plt", p, a, b] => do
    let p ← parseNat? p; let a ← parseNatList? a; let b ← parseNatList? b
    pure (if SecPol.lt p a b then "1" else "0")
  | ["pstrip", a] => do
    let a ← parseNatList? a
    pure (showNatList (SecPol.strip a))
  | ["pget", a, i] => do
    let a ← parseNatList? a; let i ← parseNat? i
    pure (toString (SecPol.getitem a i))
  | ["plens", m, n] => do
    let m ← parseNat? m; let n ← parseNat? n
    pure (showNatList [addLen m n, mulLen m n, divLen m n, modLen m n])
  | _ => none

def step (line : String) : String :=
  let toks := tokens line
  match stepArr toks with
  | some r => r
  | none =>
    match stepPol toks with
    | some r => r
    | none => "bad-op"

def main : IO Unit := do
  loop (← IO.getStdin) step
