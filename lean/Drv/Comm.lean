/-
Line-protocol driver for the communication-pattern model.
  out m t pid R            -> sends|recvs|points
  resh m t pid uci         -> sends|recvs|points
  dist m pid S             -> sends|recvs
  tr pid S R               -> mySenders|myReceivers|sends|recvs         (lists "1,2,3", "-" = empty)
  arcs pid a:b,c:d,...     -> mySenders|myReceivers|sends|recvs
-/
import MpycV.Model.Comm
import MpycV.Model.Util
open MpycV MpycV.Comm MpycV.Util

def parseArcs? (s : String) : Option (List (Nat × Nat)) :=
  if s == "-" then some [] else
  (s.splitOn ",").mapM fun e =>
    match e.splitOn ":" with
    | [a, b] => do pure ((← parseNat? a), (← parseNat? b))
    | _ => none

def step (line : String) : String :=
  match tokens line with
  | ["out", m, t, pid, r] =>
    match parseNat? m, parseNat? t, parseNat? pid, parseNatList? r with
    | some m, some t, some pid, some r =>
      s!"{showNatList (outSends m t pid r)}|{showNatList (outRecvs m t pid r)}|{showNatList (outPoints m t pid)}"
    | _, _, _, _ => "bad-op"
  | ["resh", m, t, pid, uci] =>
    match parseNat? m, parseNat? t, parseNat? pid, parseNat? uci with
    | some m, some t, some pid, some uci =>
      s!"{showNatList (reshSends m t pid uci)}|{showNatList (reshRecvs m t pid uci)}|{showNatList (reshPoints m t pid uci)}"
    | _, _, _, _ => "bad-op"
  | ["dist", m, pid, s] =>
    match parseNat? m, parseNat? pid, parseNatList? s with
    | some m, some pid, some s => s!"{showNatList (distSends m pid s)}|{showNatList (distRecvs pid s)}"
    | _, _, _ => "bad-op"
  | ["tr", pid, s, r] =>
    match parseNat? pid, parseNatList? s, parseNatList? r with
    | some pid, some s, some r =>
      let ms := transferMySenders pid s r
      let mr := transferMyReceivers pid s r
      s!"{showNatList ms}|{showNatList mr}|{showNatList (transferSends pid mr)}|{showNatList (transferRecvs pid ms)}"
    | _, _, _ => "bad-op"
  | ["arcs", pid, a] =>
    match parseNat? pid, parseArcs? a with
    | some pid, some a =>
      let ms := arcsMySenders pid a
      let mr := arcsMyReceivers pid a
      s!"{showNatList ms}|{showNatList mr}|{showNatList (transferSends pid mr)}|{showNatList (transferRecvs pid ms)}"
    | _, _ => "bad-op"
  | _ => "bad-op"

def main : IO Unit := do
  loop (← IO.getStdin) step
