#!/venv/bin/python
"""CLI:  check.py Cxx [--tier quick|thorough] [--replay path]

Runs the decision procedure for one property against /repo's current working tree:
  1. corpus replays (minimised past failures) on the real code
  2. regenerate tables from the running code (properties with PropsGen), lake build, audit
  3. correspondence model <-> code and independent property oracle (module.run)
  4. failing-input search when the proof or the correspondence broke (module.search)
  5. evidence/<id>.json, exit status
"""
import argparse
import importlib
import json
import os
import re
import sys
import time
import traceback

HERE = os.path.dirname(os.path.abspath(__file__))
sys.path.insert(0, HERE)
import common  # noqa: E402
from common import Ctx, InfraError  # noqa: E402


def main():
    ap = argparse.ArgumentParser()
    ap.add_argument('property')
    ap.add_argument('--tier', default=os.environ.get('VERIF_TIER', 'quick'))
    ap.add_argument('--replay', default=None)
    ap.add_argument('--no-lean', action='store_true', help='skip build/audit (debugging only)')
    args = ap.parse_args()
    pid = args.property.upper()
    tier = 'thorough' if args.tier.startswith('t') else 'quick'
    try:
        seed = int(os.environ.get('VERIF_SEED', '0'))
    except ValueError:
        seed = 0
    os.chdir(common.VERIF)
    try:
        rc = run_check(pid, tier, seed, args)
    except InfraError as exc:
        rc = attributable_to_repo(pid, str(exc))
        if rc == 2:
            print(f'INFRASTRUCTURE-ERROR property={pid}: {exc}')
    except Exception as exc:  # noqa: BLE001
        text = traceback.format_exc()
        rc = attributable_to_repo(pid, text + str(exc))
        if rc == 2:
            print(text)
            print(f'INFRASTRUCTURE-ERROR property={pid}: unexpected exception in the checker')
    sys.stdout.flush()
    os._exit(rc)


ALIAS_PROPS = ('C01', 'C02', 'C03', 'C06', 'C29', 'C30', 'C34')


def attributable_to_repo(pid, text):
    """A checker failure whose innermost reported Python frame lies inside the repository under test (e.g. a traceback a
    worker process sent back) means the implementation raised under inputs that are fine on the unchanged tree: the
    correspondence broke.  Reported as a violation without failing input (exit 1); everything else stays exit 2."""
    import re
    repo_root = os.path.realpath(os.environ.get('VERIF_REPO', '/repo'))
    files = re.findall(r'File "([^"]+)", line (\d+)', text)
    if not files or 'timeout after' in text:
        return 2
    last = os.path.realpath(files[-1][0])
    if not last.startswith(repo_root + os.sep):
        return 2
    rep = {'property': pid, 'kind': 'proof-or-correspondence-broken',
           'broken_obligations': [f'correspondence: the implementation raised inside {os.path.relpath(last, repo_root)}:'
                                  f'{files[-1][1]} while the check was driving it'],
           'detail': text[-3000:],
           'note': 'the check could not finish because the real code raised; no failing input was isolated'}
    path = common.write_replay(pid, rep)
    print(f'  broken obligation: {rep["broken_obligations"][0]}')
    print(f'VIOLATION property={pid} replay={path} no-failing-input-found')
    return 1


def run_check(pid, tier, seed, args):
    t0 = time.time()
    mod = importlib.import_module(f'props.{pid.lower()}')
    ctx = Ctx(pid, tier, seed)
    known = common.load_known_findings()
    open_findings = [k for k in known.get('open', []) if k.get('property') == pid]

    if args.replay:
        data = json.load(open(args.replay))
        if data.get('kind') == 'regression':
            import regress_lib
            ok, msg = regress_lib.replay(data)
        elif data.get('kind') == 'alias':
            import alias_lib
            ok, msg = alias_lib.replay(data)
        else:
            ok, msg = mod.replay(ctx, data)
        print(('REPLAY-PASSES ' if ok else 'REPLAY-FAILS ') + str(msg))
        return 0 if ok else 1

    # 1. corpus -------------------------------------------------------------------------------
    corpus_dir = os.path.join(common.VERIF, 'corpus', pid)
    corpus_run = 0
    if os.path.isdir(corpus_dir) and hasattr(mod, 'replay'):
        for fn in sorted(os.listdir(corpus_dir)):
            if fn.endswith('.json'):
                data = json.load(open(os.path.join(corpus_dir, fn)))
                ok, msg = mod.replay(ctx, data)
                corpus_run += 1
                if not ok:
                    data = dict(data)
                    data['corpus_file'] = fn
                    ctx.violation(f'corpus replay {fn} fails: {msg}', data)

    # 2. Lean: generate, build, audit -----------------------------------------------------------
    modules = list(getattr(mod, 'LEAN_MODULES', [f'MpycV.Props.{pid}']))
    namespaces = list(getattr(mod, 'LEAN_NAMESPACES', [f'MpycV.{pid}']))
    proof = {'built': False, 'obligations': 0, 'discharged': 0, 'bad': [], 'log': ''}
    if not args.no_lean:
        if hasattr(mod, 'generate'):
            mod.generate(ctx)  # writes lean/MpycV/Generated/*.lean from the running code
        # the modules the line-protocol drivers import are built too (a no-op when they are up to date): a driver run with
        # `lean --run` uses the compiled model, which must not be older than the model source
        drv_mods = []
        drv_dir = os.path.join(common.LEAN_DIR, 'Drv')
        for fn_ in sorted(os.listdir(drv_dir)):
            if fn_.endswith('.lean'):
                for mod_ in re.findall(r'^import (MpycV\.\S+)', open(os.path.join(drv_dir, fn_)).read(), re.M):
                    if mod_ not in drv_mods and mod_ not in modules and '.PropsGen.' not in mod_ and '.Generated.' not in mod_:
                        drv_mods.append(mod_)
        ok, log = common.lean_build(modules + drv_mods)
        proof['built'] = ok
        if not ok:
            proof['log'] = log[-3000:]
            # count what still holds: nothing is claimed discharged for a failing build
            proof['bad'].append('lake build failed')
        else:
            hits = common.grep_forbidden(modules)
            if hits:
                proof['bad'].append(f'forbidden constructs: {hits[:5]}')
            thms = common.lean_audit(modules, namespaces)
            proof['obligations'] = len(thms)
            for name, axs in thms.items():
                extra = [a for a in axs if a not in common.ALLOWED_AXIOMS]
                if extra:
                    proof['bad'].append(f'{name} depends on {extra}')
                else:
                    proof['discharged'] += 1
            if not thms:
                proof['bad'].append('no theorem found in ' + ','.join(namespaces))
            want = getattr(mod, 'REQUIRED_THEOREMS', [])
            for w in want:
                if not any(t == w or t.endswith('.' + w) for t in thms):
                    proof['bad'].append(f'required theorem {w} missing')
            if tier == 'thorough' and os.environ.get('VERIF_NO_LEANCHECKER') != '1':
                rc, out = common.sh(['lake', 'env', 'leanchecker'] + modules, cwd=common.LEAN_DIR,
                                    timeout=3600)
                proof['leanchecker_rc'] = rc
                if rc != 0:
                    proof['bad'].append('leanchecker: ' + out[-300:])
    else:
        proof['bad'].append('lean skipped (--no-lean)')

    # 3. correspondence + oracle ----------------------------------------------------------------
    try:
        mod.run(ctx)
        if pid in ALIAS_PROPS:     # shared aliasing checks on caller-owned lists (harness/alias_lib.py)
            import alias_lib
            alias_lib.check(ctx, pid)
        import regress_lib     # failing inputs of the defects repaired in /repo (harness/regress_lib.py)
        regress_lib.check(ctx, pid)
    except InfraError:
        raise
    except Exception as exc:  # noqa: BLE001
        # An exception escaping from the REAL code (innermost frame inside the repository) while the check drives it
        # with inputs that are fine on the unchanged tree is a broken correspondence, not a tooling problem.
        tb = exc.__traceback__
        frames = traceback.extract_tb(tb)
        repo_root = os.path.realpath(os.environ.get('VERIF_REPO', '/repo'))
        inner = frames[-1] if frames else None
        if inner is None or not os.path.realpath(inner.filename).startswith(repo_root + os.sep):
            raise
        ctx.mismatch(f'the implementation raised {type(exc).__name__}: {str(exc)[:200]} at '
                     f'{os.path.relpath(inner.filename, repo_root)}:{inner.lineno} ({inner.name}) under the inputs of the check',
                     {'kind': 'implementation-exception', 'exception': type(exc).__name__, 'message': str(exc)[:300],
                      'where': f'{os.path.relpath(inner.filename, repo_root)}:{inner.lineno}',
                      'traceback': ''.join(traceback.format_tb(tb))[-1500:]})

    # 4. search when proof / correspondence broke ----------------------------------------------
    broke = bool(proof['bad']) or bool(ctx.mismatches)
    known_keys = {k.get('key') for k in open_findings}

    def unlisted():
        return [v for v in ctx.violations
                if not (isinstance(v[1], dict) and v[1].get('finding_key') in known_keys and v[1].get('finding_key') is not None)]
    if broke and not unlisted() and hasattr(mod, 'search'):
        ctx.note('proof or correspondence broke: running failing-input search')
        try:
            mod.search(ctx)
        except InfraError:
            raise
        except Exception as exc:  # noqa: BLE001  the search drives the (possibly broken) implementation: never fatal
            ctx.note(f'failing-input search ended with {type(exc).__name__}: {str(exc)[:200]}')

    # 5. verdict -------------------------------------------------------------------------------
    new_violations = []
    for msg, rep in ctx.violations:
        key = rep.get('finding_key') if isinstance(rep, dict) else None
        listed = next((k for k in open_findings if key is not None and k.get('key') == key), None)
        if listed is not None:
            ctx.known_hits.append(listed)
        else:
            new_violations.append((msg, rep))
    seen = set()
    for k in ctx.known_hits:
        if k['key'] not in seen:
            seen.add(k['key'])
            print(f"KNOWN-FINDING: property={pid} {k.get('what', k['key'])}")

    rc = 0
    lines = []
    if new_violations:
        msg, rep = new_violations[0]
        rep = dict(rep) if isinstance(rep, dict) else {'replay': rep}
        rep.setdefault('property', pid)
        rep['message'] = msg
        path = common.write_replay(pid, rep)
        print(f'  violation: {msg}')
        lines.append(f'VIOLATION property={pid} replay={path}')
        rc = 1
    elif broke:
        rep = {'property': pid, 'kind': 'proof-or-correspondence-broken',
               'broken_obligations': proof['bad'][:10], 'build_log_tail': proof['log'][-1500:],
               'correspondence_mismatches': [{'message': m, 'detail': r} for m, r in ctx.mismatches[:5]],
               'note': 'no failing input was found on the real code by the search; the property is '
                       'no longer shown to hold because the named theorem/correspondence no longer checks'}
        path = common.write_replay(pid, rep)
        for b in proof['bad'][:5]:
            print(f'  broken obligation: {b}')
        for m, r in ctx.mismatches[:3]:
            print(f'  correspondence: {m} {json.dumps(common.json_safe(r))[:400]}')
        lines.append(f'VIOLATION property={pid} replay={path} no-failing-input-found')
        rc = 1

    level = getattr(mod, 'LEVEL', 'proof')
    cov = {
        'evaluations': ctx.evaluations,
        'distinct_nontrivial': len(ctx.nontrivial),
        'rule': getattr(mod, 'RULE', ''),
        'samples': ctx.samples or ['(none)'],
        'obligations': proof['obligations'],
        'discharged': proof['discharged'],
        'checker_cmd': 'cd lean && lake build ' + ' '.join(modules) +
                       ' && lake env lean <generated #print-axioms audit of namespaces ' + ','.join(namespaces) + '>'
                       + (' && lake env leanchecker ' + ' '.join(modules) if tier == 'thorough' else ''),
        'trusted_base': ['Lean 4 kernel', 'Mathlib v4.33 as checked by the kernel',
                         'axioms: propext, Classical.choice, Quot.sound (no native_decide, no bv_decide, no own axioms)',
                         'correspondence harness (Python) tying the hand-written model to /repo',
                         ] + list(getattr(mod, 'TRUSTED', [])),
        'programs': ctx.evaluations,
        'disagreements_checked': ctx.corr_compared,
        'correspondence_lines_compared': ctx.corr_compared,
        'correspondence_mismatches': len(ctx.mismatches),
        'corpus_replays': corpus_run,
        'distribution': ctx.dist,
        'explanation': getattr(mod, 'EXPLANATION', ''),
        'proof_problems': proof['bad'],
        'notes': ctx.notes,
        'exhaustive': bool(getattr(mod, 'EXHAUSTIVE', False)),
    }
    doc = {'property_id': pid, 'tier': tier, 'seed': seed, 'level': level, 'coverage': cov,
           'assumptions': list(getattr(mod, 'ASSUMPTIONS', [])),
           'wall_s': round(time.time() - t0, 2), 'violations': len(new_violations) + (1 if rc and not new_violations else 0)}
    if not args.no_lean:   # debugging runs without the Lean stage never overwrite evidence
        common.write_evidence(pid, doc)
    print(f'{pid} tier={tier} seed={seed}: evaluations={ctx.evaluations} distinct={len(ctx.nontrivial)} '
          f'theorems={proof["discharged"]}/{proof["obligations"]} corr={ctx.corr_compared} '
          f'mismatch={len(ctx.mismatches)} violations={len(new_violations)} wall={doc["wall_s"]}s')
    for ln in lines:
        print(ln)
    return rc


if __name__ == '__main__':
    main()
