"""Independent reference arithmetic for finite fields GF(p^d) (area FldConv, property C04).

Written from the textbook definitions, NOT from the repo code or the Lean model: elements are tuples of d
coefficients in range(p) (least significant first) of polynomials modulo a monic irreducible polynomial of
degree d; multiplication = schoolbook product followed by long division; inverse = exhaustive search for small
fields, Fermat (a^(q-2)) otherwise; the integer code of an element is sum(c_i * p^i) (= bitmask for p = 2).
"""


class Field:
    def __init__(self, p, modulus=None):
        """modulus: list of coefficients (least significant first, monic) or None for the prime field"""
        self.p = p
        self.mod = list(modulus) if modulus else [0, 1]   # x  (degree 1)  -> GF(p)
        self.d = len(self.mod) - 1
        self.q = p ** self.d
        assert self.mod[-1] == 1 and self.d >= 1

    # -- encoding ---------------------------------------------------------------------------------
    def from_code(self, n):
        assert 0 <= n < self.q, 'code out of range'
        out = []
        for _ in range(self.d):
            out.append(n % self.p)
            n //= self.p
        assert n == 0, 'code out of range'
        return tuple(out)

    def code(self, a):
        n = 0
        for c in reversed(a):
            n = n * self.p + c
        return n

    def const(self, v):
        return tuple([v % self.p] + [0] * (self.d - 1))

    @property
    def zero(self):
        return self.const(0)

    @property
    def one(self):
        return self.const(1)

    def elements(self):
        return [self.from_code(n) for n in range(self.q)]

    # -- arithmetic -------------------------------------------------------------------------------
    def add(self, a, b):
        return tuple((x + y) % self.p for x, y in zip(a, b))

    def neg(self, a):
        return tuple((-x) % self.p for x in a)

    def sub(self, a, b):
        return tuple((x - y) % self.p for x, y in zip(a, b))

    def mul(self, a, b):
        prod = [0] * (2 * self.d - 1)
        for i, x in enumerate(a):
            if x:
                for j, y in enumerate(b):
                    prod[i + j] += x * y
        prod = [c % self.p for c in prod]
        # long division by the monic modulus
        for k in range(len(prod) - 1, self.d - 1, -1):
            c = prod[k]
            if c:
                for j in range(self.d + 1):
                    prod[k - self.d + j] = (prod[k - self.d + j] - c * self.mod[j]) % self.p
        return tuple(prod[:self.d])

    def pow(self, a, n):
        if n < 0:
            return self.pow(self.inv(a), -n)
        r = self.one
        base = a
        while n:
            if n & 1:
                r = self.mul(r, base)
            base = self.mul(base, base)
            n >>= 1
        return r

    def inv(self, a):
        if a == self.zero:
            raise ZeroDivisionError
        if self.q <= 1024:
            for b in self.elements():
                if self.mul(a, b) == self.one:
                    return b
            raise AssertionError('no inverse: modulus reducible?')
        return self.pow(a, self.q - 2)

    def div(self, a, b):
        return self.mul(a, self.inv(b))


def bits_of(n, l):
    return [(n >> i) & 1 for i in range(l)]
