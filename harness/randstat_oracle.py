"""Shared machinery of the RandStat area (C33, C34).

1. `BitSource` + `install(net)`: replaces `Runtime.random_bits` of every party of a SimNet by a function that
   returns *secure constants* taken from a controlled bit stream (everything else is the real code).  Streams
   are keyed by a TAG (ContextVar holding a path of call counters) so that the assignment of stream bits to
   calls does not depend on the interleaving of the concurrently running MPyC coroutines:
     * every call of `mpyc.random._randbelow` / `random_unit_vector` / `statistics._quickselect` made through
       the module globals gets the child tag `parent + (counter,)` (counter = number of tagged calls made so far
       by this party under the parent tag, i.e. program order of the calling coroutine);
     * `random_bits` draws from the stream of the tag that is current in the calling coroutine.
   Streams are either given explicitly (enumeration) or generated on demand from a seed (same for all parties).
   Values opened by random.py / statistics.py (`runtime.output`, `runtime.is_zero_public`) are logged per party
   with an order key that reproduces program order.
2. Independent reference definitions used as oracles (chi-square tail, Lagrange recombination of logged
   shares, textbook statistics are taken from Python's `statistics`/`fractions`).
"""
import contextvars
import math
import os
import random as pyrandom
import sys

sys.path.insert(0, os.path.dirname(os.path.abspath(__file__)))
import simnet  # noqa: E402  (also fixes sys.argv for the mpyc import)
import mpyc.random as mpyc_random  # noqa: E402
from mpyc import statistics as mpyc_statistics  # noqa: E402

TAG = contextvars.ContextVar('randstat_tag', default=None)


class BitBudgetExceeded(RuntimeError):
    pass


class BitSource:
    def __init__(self):
        self.reset()

    def reset(self, seed=None):
        self.seed = seed          # None: explicit streams only
        self.limit = 3000         # bits one tagged call may draw (beyond an explicit stream) before we give up
        self.streams = {}         # tag -> list of bits
        self.cur = {}             # (pid, tag) -> number of bits drawn
        self.short = {}           # (pid, tag) -> bits missing at the first exhausted draw
        self.children = {}        # (pid, tag) -> number of tagged child calls
        self.kind = {}            # (pid, tag) -> 'rb' | 'ruv' | 'qs'
        self.args = {}            # (pid, tag) -> call arguments of interest
        self.ret = {}             # (pid, tag) -> returned placeholder(s)
        self.opened = {}          # pid -> list of (order key, root tag, future/value)
        self.seq = 0

    def stream(self, tag, upto):
        s = self.streams.get(tag)
        if s is None:
            s = self.streams[tag] = []
        if self.seed is not None and len(s) < upto:
            rng = pyrandom.Random(f'{self.seed}:{tag!r}:{len(s)}')
            while len(s) < upto:
                s.append(rng.getrandbits(1))
        return s

    def take(self, pid, tag, n):
        c = self.cur.get((pid, tag), 0)
        if c + n > self.limit + len(self.streams.get(tag, ())) * (self.seed is None):
            # a rejection loop that keeps asking for bits (e.g. a code change that rejects everything)
            raise BitBudgetExceeded(f'more than {self.limit} bits drawn by one call (tag {tag})')
        s = self.stream(tag, c + n)
        out = []
        for j in range(c, c + n):
            if j < len(s):
                out.append(s[j])
            else:
                self.short.setdefault((pid, tag), c + n - len(s))
                out.append(0)     # keeps the run finite (all-zero bits are always accepted); result is discarded
        self.cur[(pid, tag)] = c + n
        return out

    def consumed(self, pid, tag):
        return list(self.streams.get(tag, []))[:self.cur.get((pid, tag), 0)]

    def child_tags(self, pid, tag):
        return [tag + (c,) for c in range(self.children.get((pid, tag), 0))]

    def exhausted(self, pid, root):
        return any(k[0] == pid and k[1][:len(root)] == root for k in self.short)

    def flat(self, pid, tag):
        """bits consumed below `tag` in program (depth-first) order; a tag has either direct draws or children"""
        out = list(self.consumed(pid, tag))
        for ch in self.child_tags(pid, tag):
            out += self.flat(pid, ch)
        return out

    def transcript(self, pid, root):
        """truth values opened under `root` by random.py code, in program order"""
        ents = [e for e in self.opened.get(pid, []) if e[1][:len(root)] == root]
        ents.sort(key=lambda e: e[0])
        return [bool(_value(e[2])) for e in ents]


def _value(v):
    if hasattr(v, 'result'):
        v = v.result()
    return v


SRC = BitSource()
_ORIG = {}


def _tagged(kind, orig):
    def wrapper(*args, **kwargs):
        parent = TAG.get()
        if parent is None:
            return orig(*args, **kwargs)
        pid = simnet.CUR.get()
        c = SRC.children.get((pid, parent), 0)
        SRC.children[(pid, parent)] = c + 1
        tag = parent + (c,)
        SRC.kind[(pid, tag)] = kind
        SRC.args[(pid, tag)] = args[1:] if kind != 'qs' else (len(args[0]), list(args[1]))
        tok = TAG.set(tag)
        try:
            r = orig(*args, **kwargs)
        finally:
            TAG.reset(tok)
        SRC.ret[(pid, tag)] = r
        return r
    wrapper.__wrapped__ = orig
    return wrapper


def _patch_modules():
    if _ORIG:
        return
    _ORIG['_randbelow'] = mpyc_random._randbelow
    _ORIG['random_unit_vector'] = mpyc_random.random_unit_vector
    _ORIG['_quickselect'] = mpyc_statistics._quickselect
    mpyc_random._randbelow = _tagged('rb', _ORIG['_randbelow'])
    mpyc_random.random_unit_vector = _tagged('ruv', _ORIG['random_unit_vector'])
    mpyc_statistics._quickselect = _tagged('qs', _ORIG['_quickselect'])


def unpatch_modules():
    if _ORIG:
        mpyc_random._randbelow = _ORIG['_randbelow']
        mpyc_random.random_unit_vector = _ORIG['random_unit_vector']
        mpyc_statistics._quickselect = _ORIG['_quickselect']
        _ORIG.clear()


_LOGGED_FILES = ('random.py', 'statistics.py')


def install(net, control_bits=True):
    """Patch the party runtimes of `net`.  control_bits=False: only tagging + logging (real random_bits)."""
    _patch_modules()
    for rt in net.rts:
        if control_bits:
            def rb(sftype, n, signed=False, _rt=rt, _orig=rt.random_bits):
                tag = TAG.get()
                if tag is None or not sys._getframe(1).f_code.co_filename.endswith(_LOGGED_FILES):
                    return _orig(sftype, n, signed)      # e.g. the masks drawn by secure comparisons
                bits = SRC.take(_rt.pid, tag, n)
                if signed:
                    bits = [2 * b - 1 for b in bits]
                return [sftype(b) for b in bits]
            rt.random_bits = rb

        def out(x, *a, _rt=rt, _orig=rt.output, **k):
            r = _orig(x, *a, **k)
            tag = TAG.get()
            if tag is not None and sys._getframe(1).f_code.co_filename.endswith(_LOGGED_FILES):
                _log_open(_rt.pid, tag, r)
            return r
        rt.output = out

        def izp(a, _rt=rt, _orig=rt.is_zero_public):
            r = _orig(a)
            tag = TAG.get()
            if tag is not None and sys._getframe(1).f_code.co_filename.endswith(_LOGGED_FILES):
                _log_open(_rt.pid, tag, r)
            return r
        rt.is_zero_public = izp


def _log_open(pid, tag, fut):
    SRC.seq += 1
    kind = SRC.kind.get((pid, tag))
    if kind in ('rb', 'ruv'):       # opened inside a tagged rejection sampler: belongs to that child
        key = (tag[-1], 1, SRC.seq)
        root = tag[:-1]
    else:                           # opened by the calling function itself: after the children made so far
        key = (SRC.children.get((pid, tag), 0) - 1, 2, SRC.seq)
        root = tag
    SRC.opened.setdefault(pid, []).append((key, root, fut, tag))


def bits_str(bits):
    return ''.join('1' if b else '0' for b in bits) or '-'


def ints_str(xs):
    return ','.join(str(int(a)) for a in xs) or '-'


# ---------------------------------------------------------------------------------------------
# independent reference definitions
# ---------------------------------------------------------------------------------------------
def chi2_sf(x, df):
    """P(chi-square_df >= x): regularised upper incomplete gamma Q(df/2, x/2) (series / continued fraction)."""
    a, x = df / 2.0, x / 2.0
    if x <= 0:
        return 1.0
    lg = math.lgamma(a)
    if x < a + 1:
        term = s = 1.0 / a
        n = a
        for _ in range(100000):
            n += 1
            term *= x / n
            s += term
            if abs(term) < abs(s) * 1e-17:
                break
        return max(0.0, 1.0 - s * math.exp(-x + a * math.log(x) - lg))
    tiny = 1e-300
    b = x + 1 - a
    c = 1 / tiny
    d = 1 / b
    h = d
    for i in range(1, 100000):
        an = -i * (i - a)
        b += 2
        d = an * d + b
        d = tiny if abs(d) < tiny else d
        c = b + an / c
        c = tiny if abs(c) < tiny else c
        d = 1 / d
        delta = d * c
        h *= delta
        if abs(delta - 1) < 1e-16:
            break
    return math.exp(-x + a * math.log(x) - lg) * h


def chi2_uniform_p(counts):
    """p-value of the chi-square goodness-of-fit test of `counts` against the uniform distribution."""
    n = sum(counts)
    k = len(counts)
    if k < 2 or n == 0:
        return 1.0
    e = n / k
    stat = sum((c - e) ** 2 / e for c in counts)
    return chi2_sf(stat, k - 1)


def lagrange_at_zero(points, p):
    """value at 0 of the polynomial through `points` [(x, y)] over GF(p) (textbook formula)."""
    tot = 0
    for i, (xi, yi) in enumerate(points):
        num = den = 1
        for j, (xj, _) in enumerate(points):
            if j != i:
                num = num * (-xj) % p
                den = den * (xi - xj) % p
        tot = (tot + yi * num * pow(den, -1, p)) % p
    return tot


def recombine_secret(net, objs_per_party):
    """Recover the field value of one secure object from the shares all parties hold (after the run)."""
    pts = []
    p = None
    for pid, o in enumerate(objs_per_party):
        sh = o.share
        if hasattr(sh, 'result'):
            sh = sh.result()
        p = type(sh).modulus
        pts.append((pid + 1, int(sh.value) if hasattr(sh, 'value') else int(sh)))
    return lagrange_at_zero(pts, p), p
