"""Independent reference implementations for the thresha properties C12, C13, C15, C17.

Written from the textbook definitions (Shamir sharing, Lagrange interpolation, GF(p^d) as
GF(p)[x]/(modulus), SHAKE-128 word slicing); it neither imports mpyc nor mirrors the Lean model.
Field elements are represented by their integer encoding: for GF(p) the residue 0..p-1, for GF(p^d)
the number whose base-p digits are the coefficients (digit k = coefficient of x^k).
"""
import hashlib


class OField:
    """GF(p) (mod_digits None) or GF(p)[x]/(modulus) with modulus given by its base-p integer encoding."""

    def __init__(self, p, modulus_int=None):
        self.p = p
        if modulus_int is None:
            self.d = 1
            self.mod = None
            self.q = p
        else:
            self.mod = self._digits(modulus_int)
            self.d = len(self.mod) - 1
            self.q = p ** self.d
            assert self.mod[-1] == 1 or True

    def _digits(self, n):
        out = []
        while n:
            out.append(n % self.p)
            n //= self.p
        return out

    def _undigits(self, ds):
        n = 0
        for c in reversed(ds):
            n = n * self.p + c % self.p
        return n

    # polynomial helpers over GF(p), little-endian coefficient lists
    def _reduce(self, a):
        a = [c % self.p for c in a]
        m = self.mod
        lead_inv = pow(m[-1], -1, self.p)
        while len(a) >= len(m):
            c = a[-1] * lead_inv % self.p
            if c:
                off = len(a) - len(m)
                for k, mk in enumerate(m):
                    a[off + k] = (a[off + k] - c * mk) % self.p
            a.pop()
        while a and a[-1] == 0:
            a.pop()
        return a

    def from_int(self, n):
        """the field element mpyc's field(n) denotes for a non-negative int n"""
        if self.mod is None:
            return n % self.p
        return self._undigits(self._reduce(self._digits(n)))

    def add(self, a, b):
        if self.mod is None:
            return (a + b) % self.p
        x, y = self._digits(a), self._digits(b)
        n = max(len(x), len(y))
        x += [0] * (n - len(x))
        y += [0] * (n - len(y))
        return self._undigits([(u + v) % self.p for u, v in zip(x, y)])

    def neg(self, a):
        if self.mod is None:
            return (-a) % self.p
        return self._undigits([(-u) % self.p for u in self._digits(a)])

    def sub(self, a, b):
        return self.add(a, self.neg(b))

    def mul(self, a, b):
        if self.mod is None:
            return a * b % self.p
        x, y = self._digits(a), self._digits(b)
        if not x or not y:
            return 0
        r = [0] * (len(x) + len(y) - 1)
        for i, u in enumerate(x):
            for j, v in enumerate(y):
                r[i + j] = (r[i + j] + u * v) % self.p
        return self._undigits(self._reduce(r))

    def pow(self, a, e):
        r = 1
        while e:
            if e & 1:
                r = self.mul(r, a)
            a = self.mul(a, a)
            e >>= 1
        return r

    def inv(self, a):
        if a == 0:
            raise ZeroDivisionError
        if self.mod is None:
            return pow(a, -1, self.p)
        return self.pow(a, self.q - 2)

    def sum(self, xs):
        r = 0
        for x in xs:
            r = self.add(r, x)
        return r

    def tables(self):
        q = self.q
        return ([self.add(a, b) for a in range(q) for b in range(q)],
                [self.mul(a, b) for a in range(q) for b in range(q)])


def poly_eval(F, coeffs_low_first, x):
    """naive sum of c_k x^k"""
    r = 0
    xp = F.from_int(1)
    for c in coeffs_low_first:
        r = F.add(r, F.mul(c, xp))
        xp = F.mul(xp, x)
    return r


def lagrange_at(F, pts, x):
    """textbook Lagrange: sum_i y_i prod_{j != i} (x - x_j) / (x_i - x_j); pts = [(x_i, y_i)]"""
    total = 0
    for i, (xi, yi) in enumerate(pts):
        num, den = F.from_int(1), F.from_int(1)
        for j, (xj, _) in enumerate(pts):
            if j != i:
                num = F.mul(num, F.sub(x, xj))
                den = F.mul(den, F.sub(xi, xj))
        total = F.add(total, F.mul(yi, F.mul(num, F.inv(den))))
    return total


def degree_at_most(F, pts, d):
    """do the points (distinct x) lie on a polynomial of degree <= d?"""
    if len(pts) <= d + 1:
        return True
    base = pts[:d + 1]
    return all(lagrange_at(F, base, x) == y for x, y in pts[d + 1:])


def sharing_poly_low_first(secret, c):
    """f(X) = s + c[t-1] X + ... + c[0] X^t  (coefficient list, constant term first)"""
    return [secret] + list(reversed(c))


def prf_reference(key, bound, s, n):
    """n values in range(bound) from SHAKE-128(key + s): byte length rule and little-endian words."""
    if bound < 1:
        raise ValueError
    bits = 0
    while (1 << bits) < bound:
        bits += 1            # bits = ceil(log2(bound)) = (bound-1).bit_length()
    nbytes = -(-bits // 8)
    power_of_two = (1 << bits) == bound
    if not power_of_two:
        nbytes += len(key)
    if n == 0:
        return []
    if nbytes == 0:
        return [0] * n
    dk = hashlib.shake_128(key + s).digest(n * nbytes)
    out = []
    for k in range(n):
        w = dk[k * nbytes:(k + 1) * nbytes]
        v = 0
        for j, byte in enumerate(w):
            v += byte << (8 * j)
        out.append(v % bound)
    return out
