"""Independent oracle for property C01: the Python-integer meaning of a secure-integer program.

Written from the meaning of the operations (Python int arithmetic, `math.gcd`, `min`, `max`, ...), NOT from the
MPyC code and NOT from the Lean model.  A program is a nested list (JSON-able):

  ['v', i]                     input number i
  ['c', n, kind]               public constant n; kind 'int' (Python int operand) | 'sec' (secint(n))
  ['u', op, E]                 op in neg pos abs sgn lsb not
  ['b', op, E1, E2]            op in add sub mul lt le eq ne ge gt and or xor
  ['d', op, E, b, how]         op in floordiv mod; public divisor b > 0; how in 'op' | 'divmod' | 'secb' | 'shift'
  ['p', E, n]                  E ** n, n >= 0
  ['ie', C, X, Y]              if_else(C, X, Y), C a bit
  ['is', k, C, X, Y]           if_swap(C, X, Y)[k]
  ['n', op, [E...], how]       op in sum prod all any min max minmax0 minmax1
  ['ip', [X...], [Y...]|'alias'] in_prod ('alias': the same list object twice)
  ['mp', n1, n, n2, tr, sym, i, j, [A...], [B...]]   entry (i, j) of matrix_prod(A, B, tr) (row-major flat lists)
  ['g', op, A, B]              op in gcd lcm inverse gcdext0 gcdext1 gcdext2
  ['zp', E] / ['eqp', E1, E2]  is_zero_public / eq_public (top level only, public result)
"""
import math


class Undefined(Exception):
    """the program has no Python-integer meaning (precondition of an operation violated)"""


def sign(a):
    return (a > 0) - (a < 0)


def ev(e, env):
    k = e[0]
    if k == 'v':
        return env[e[1]]
    if k == 'c':
        return e[1]
    if k == 'u':
        a = ev(e[2], env)
        op = e[1]
        if op == 'neg':
            return -a
        if op == 'pos':
            return +a
        if op == 'abs':
            return abs(a)
        if op == 'sgn':
            return sign(a)
        if op == 'lsb':
            return a % 2
        if op == 'not':
            if a not in (0, 1):
                raise Undefined('not of a non-bit')
            return int(not a)
        raise KeyError(op)
    if k == 'b':
        a, b = ev(e[2], env), ev(e[3], env)
        op = e[1]
        if op == 'add':
            return a + b
        if op == 'sub':
            return a - b
        if op == 'mul':
            return a * b
        if op == 'lt':
            return int(a < b)
        if op == 'le':
            return int(a <= b)
        if op == 'eq':
            return int(a == b)
        if op == 'ne':
            return int(a != b)
        if op == 'ge':
            return int(a >= b)
        if op == 'gt':
            return int(a > b)
        if op in ('and', 'or', 'xor'):
            if a not in (0, 1) or b not in (0, 1):
                raise Undefined('bit operation on non-bits')
            return {'and': a & b, 'or': a | b, 'xor': a ^ b}[op]
        raise KeyError(op)
    if k == 'd':
        a, b = ev(e[2], env), e[3]
        if b <= 0:
            raise Undefined('public divisor must be positive')
        return a // b if e[1] == 'floordiv' else a % b
    if k == 'p':
        return ev(e[1], env) ** e[2]
    if k == 'ie':
        c, x, y = ev(e[1], env), ev(e[2], env), ev(e[3], env)
        if c not in (0, 1):
            raise Undefined('condition is not a bit')
        return x if c else y
    if k == 'is':
        c, x, y = ev(e[2], env), ev(e[3], env), ev(e[4], env)
        if c not in (0, 1):
            raise Undefined('condition is not a bit')
        pair = (y, x) if c else (x, y)
        return pair[e[1]]
    if k == 'n':
        xs = [ev(x, env) for x in e[2]]
        op = e[1]
        if op == 'sum':
            return sum(xs)
        if op == 'prod':
            return math.prod(xs)
        if op in ('all', 'any'):
            if any(x not in (0, 1) for x in xs):
                raise Undefined('all/any of non-bits')
            return int(all(xs)) if op == 'all' else int(any(xs))
        if not xs:
            raise Undefined('min/max of an empty sequence')
        if op in ('min', 'minmax0'):
            return min(xs)
        if op in ('max', 'minmax1'):
            return max(xs)
        raise KeyError(op)
    if k == 'ip':
        xs = [ev(x, env) for x in e[1]]
        ys = xs if e[2] == 'alias' else [ev(y, env) for y in e[2]]
        return sum(x * y for x, y in zip(xs, ys))
    if k == 'mp':
        _, n1, n, n2, tr, sym, i, j, A, B = e
        av = [ev(x, env) for x in A]
        Am = [av[r * n:(r + 1) * n] for r in range(n1)]
        if sym:
            Bt = Am                                   # B^T rows = rows of A: entry = <A_i, A_j>
        else:
            bv = [ev(x, env) for x in B]
            if tr:
                Bt = [bv[r * n:(r + 1) * n] for r in range(n2)]
            else:
                Bm = [bv[r * n2:(r + 1) * n2] for r in range(n)]
                Bt = [[Bm[r][c] for r in range(n)] for c in range(n2)]
        return sum(x * y for x, y in zip(Am[i], Bt[j]))
    if k == 'g':
        a, b = ev(e[2], env), ev(e[3], env)
        op = e[1]
        if op == 'gcd':
            return math.gcd(a, b)
        if op == 'lcm':
            return math.lcm(a, b)
        if op == 'inverse':
            if a < 0 or b <= 0 or math.gcd(a, b) != 1:
                raise Undefined('inverse needs a >= 0, b > 0, gcd = 1')
            return pow(a, -1, b)
        raise Undefined('gcdext coefficients are not unique: checked as a relation')
    if k == 'zp':
        return int(ev(e[1], env) == 0)
    if k == 'eqp':
        return int(ev(e[1], env) == ev(e[2], env))
    raise KeyError(k)


def subvalues(e, env, out):
    """values of ALL subterms (post-order); Undefined propagates"""
    k = e[0]
    subs = []
    if k in ('u',):
        subs = [e[2]]
    elif k == 'b':
        subs = [e[2], e[3]]
    elif k == 'd':
        subs = [e[2]]
    elif k == 'p':
        subs = [e[1]]
    elif k == 'ie':
        subs = [e[1], e[2], e[3]]
    elif k == 'is':
        subs = [e[2], e[3], e[4]]
    elif k == 'n':
        subs = list(e[2])
    elif k == 'ip':
        subs = list(e[1]) + ([] if e[2] == 'alias' else list(e[2]))
    elif k == 'mp':
        subs = list(e[8]) + ([] if e[5] else list(e[9]))
    elif k == 'g':
        subs = [e[2], e[3]]
    elif k == 'zp':
        subs = [e[1]]
    elif k == 'eqp':
        subs = [e[1], e[2]]
    for s in subs:
        subvalues(s, env, out)
    out.append((e, ev(e, env)))
    return out


def hidden_intermediates(e, env):
    """integer intermediate values the protocols form internally besides the subterm values (they must fit in l
    bits too for the property to apply): partial products of `**`, |a| operands of lcm, ..."""
    k = e[0]
    vals = []
    if k == 'p':
        a = ev(e[1], env)
        n = e[2]
        d, i = a, 0
        while (1 << i) <= n:            # all powers a^(2^i) and the running product
            vals.append(d)
            d = d * d
            i += 1
        vals.append(a ** n)
    if k == 'n' and e[1] == 'prod':
        xs = [ev(x, env) for x in e[2]]
        while len(xs) > 1:                # balanced pairing from the left end (any pairing gives sub-products)
            h = len(xs) % 2
            xs = xs[:h] + [xs[i] * xs[i + 1] for i in range(h, len(xs), 2)]
            vals.extend(xs)
    if k == 'g' and e[1] == 'lcm':
        a, b = ev(e[2], env), ev(e[3], env)
        vals.append(a * b // (math.gcd(a, b) or 1))
    return vals


def tokens(e):
    """prefix token list for the Lean driver's `eval` request"""
    k = e[0]
    if k == 'v':
        return ['v', str(e[1])]
    if k == 'c':
        return ['c', str(e[1])]
    if k == 'u':
        return ['u', e[1]] + tokens(e[2])
    if k == 'b':
        return ['b', e[1]] + tokens(e[2]) + tokens(e[3])
    if k == 'd':
        return ['d', e[1]] + tokens(e[2]) + [str(e[3])]
    if k == 'p':
        return ['p'] + tokens(e[1]) + [str(e[2])]
    if k == 'ie':
        return ['ie'] + tokens(e[1]) + tokens(e[2]) + tokens(e[3])
    if k == 'is':
        # model: second=True -> (x if c else y) ... see Expr.ifswap: component k of [x + d, y - d]
        return ['is', str(e[1])] + tokens(e[2]) + tokens(e[3]) + tokens(e[4])
    if k == 'n':
        return ['n', e[1], str(len(e[2]))] + [t for x in e[2] for t in tokens(x)]
    if k == 'ip':
        ys = e[1] if e[2] == 'alias' else e[2]
        return ['ip', str(len(e[1]))] + [t for x in e[1] for t in tokens(x)] + [t for y in ys for t in tokens(y)]
    if k == 'mp':
        _, n1, n, n2, tr, sym, i, j, A, B = e
        B = [] if sym else B
        return (['mp', str(n1), str(n), str(n2), str(int(bool(tr))), str(int(bool(sym))), str(i), str(j), str(len(A))]
                + [t for x in A for t in tokens(x)] + [str(len(B))] + [t for y in B for t in tokens(y)])
    if k == 'g':
        return ['g', e[1]] + tokens(e[2]) + tokens(e[3])
    raise KeyError(k)
