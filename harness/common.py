"""Shared machinery for all property checks: context, Lean build/audit/driver, evidence, verdict.

Verdict rules (DESIGN.md section 2.4):
  * oracle violation on the real code (not a listed known finding)   -> VIOLATION, replay = failing input
  * Lean build/audit failure or model/code correspondence mismatch   -> run the property's
    failing-input search on the real code; found -> VIOLATION with that replay; not found ->
    VIOLATION ... no-failing-input-found (replay names the theorem / correspondence that broke)
  * listed known finding reproduces                                  -> KNOWN-FINDING line, exit 0
  * infrastructure failure (timeout, missing tool)                   -> exit 2, never a VIOLATION
"""
import hashlib
import json
import os
import random
import re
import subprocess
import sys
import time
import traceback

VERIF = os.path.dirname(os.path.dirname(os.path.abspath(__file__)))
LEAN_DIR = os.path.join(VERIF, 'lean')
EVIDENCE_DIR = os.path.join(VERIF, 'evidence')
REPLAY_DIR = os.path.join(VERIF, 'replays')
WORK_DIR = os.path.join(VERIF, '.work')
ALLOWED_AXIOMS = {'propext', 'Classical.choice', 'Quot.sound'}
FORBIDDEN_RE = re.compile(r'\bsorry\b|\badmit\b|^\s*axiom\s|native_decide|bv_decide|implemented_by|'
                          r'\bunsafe\s|maxHeartbeats\s+0\b|@\[extern')


class InfraError(Exception):
    """Tooling problem: reported with exit code 2, never as a violation."""


def sh(cmd, cwd=None, timeout=3600, input=None, env=None):
    try:
        p = subprocess.run(cmd, cwd=cwd, timeout=timeout, input=input, text=True,
                           stdout=subprocess.PIPE, stderr=subprocess.STDOUT, env=env)
    except subprocess.TimeoutExpired:
        raise InfraError(f'timeout after {timeout}s: {cmd}')
    except FileNotFoundError as exc:
        raise InfraError(f'missing tool: {exc}')
    return p.returncode, p.stdout


# ---------------------------------------------------------------------------------------------
# Lean side
# ---------------------------------------------------------------------------------------------
def strip_lean_comments(text):
    """Remove -- line comments and /- -/ block comments (nesting handled), keep strings."""
    out = []
    i, n, depth = 0, len(text), 0
    while i < n:
        if text.startswith('/-', i):
            depth += 1
            i += 2
        elif depth and text.startswith('-/', i):
            depth -= 1
            i += 2
        elif depth:
            if text[i] == '\n':
                out.append('\n')
            i += 1
        elif text.startswith('--', i):
            while i < n and text[i] != '\n':
                i += 1
        elif text[i] == '"':
            j = i + 1
            while j < n and text[j] != '"':
                j += 2 if text[j] == '\\' else 1
            out.append('""')
            i = j + 1
        else:
            out.append(text[i])
            i += 1
    return ''.join(out)


def import_closure(modules):
    """Files of the given MpycV modules and everything they import from this project (transitively)."""
    seen, todo, files = set(), list(modules), []
    while todo:
        mod = todo.pop()
        if mod in seen or not mod.startswith('MpycV'):
            continue
        seen.add(mod)
        fp = os.path.join(LEAN_DIR, *mod.split('.')) + '.lean'
        if not os.path.exists(fp):
            continue
        files.append(fp)
        for imp in re.findall(r'^\s*(?:public\s+)?import\s+(MpycV\.[\w.]+)', open(fp).read(), re.M):
            todo.append(imp)
    return files


def grep_forbidden(modules=None):
    """Textual audit of the Lean sources a property depends on (its modules' import closure plus all drivers):
    returns list of (file, lineno, line)."""
    hits = []
    if modules is None:
        files = []
        for root in (os.path.join(LEAN_DIR, 'MpycV'), os.path.join(LEAN_DIR, 'Drv')):
            for dp, _dn, fns in os.walk(root):
                files += [os.path.join(dp, fn) for fn in fns if fn.endswith('.lean')]
    else:
        files = import_closure(modules)
        drv = os.path.join(LEAN_DIR, 'Drv')
        for fn in os.listdir(drv):
            if fn.endswith('.lean'):
                files.append(os.path.join(drv, fn))
                files += import_closure(re.findall(r'^import\s+(MpycV\.[\w.]+)', open(os.path.join(drv, fn)).read(), re.M))
    for fp in sorted(set(files)):
        text = strip_lean_comments(open(fp).read())
        for k, line in enumerate(text.split('\n'), 1):
            if FORBIDDEN_RE.search(line):
                hits.append((os.path.relpath(fp, LEAN_DIR), k, line.strip()[:120]))
    return hits


def lean_build(modules, timeout=5400):
    """lake build the given modules. Returns (ok, log)."""
    if not modules:
        return True, ''
    rc, out = sh(['lake', 'build'] + list(modules), cwd=LEAN_DIR, timeout=timeout)
    return rc == 0, out


_AUDIT_TMPL = '''import Lean
{imports}
open Lean Elab Command in
#eval show CommandElabM Unit from do
  let env ← getEnv
  let pfxs : List Name := [{pfxs}]
  let names := env.constants.fold (init := (#[] : Array Name)) fun acc n ci =>
    match ci with
    | .thmInfo _ => if pfxs.any (fun p => p.isPrefixOf n) && !n.isInternalDetail then acc.push n else acc
    | _ => acc
  for n in names.qsort (fun a b => a.toString < b.toString) do
    let axs ← Lean.collectAxioms n
    IO.println s!"AXIOMS {{n}} :: {{axs.toList}}"
'''


def lean_audit(modules, namespaces, timeout=1800):
    """#print-axioms style audit of every theorem in the given namespaces.

    Returns dict theorem -> list of axioms.
    """
    os.makedirs(WORK_DIR, exist_ok=True)
    src = _AUDIT_TMPL.format(imports='\n'.join(f'import {m}' for m in modules),
                             pfxs=', '.join('`' + ns for ns in namespaces))
    tag = hashlib.sha1(src.encode()).hexdigest()[:10]
    fn = os.path.join(WORK_DIR, f'Audit_{tag}_{os.getpid()}.lean')
    with open(fn, 'w') as f:
        f.write(src)
    try:
        rc, out = sh(['lake', 'env', 'lean', fn], cwd=LEAN_DIR, timeout=timeout)
    finally:
        try:
            os.remove(fn)
        except OSError:
            pass
    res = {}
    for line in out.split('\n'):
        mt = re.match(r'AXIOMS (\S+) :: \[(.*)\]', line)
        if mt:
            axs = [a.strip() for a in mt.group(2).split(',') if a.strip()]
            res[mt.group(1)] = axs
    if rc != 0 and not res:
        raise InfraError(f'audit failed to run:\n{out[-2000:]}')
    return res


class LeanDriver:
    """Batch line-protocol driver: lines in, lines out (one output line per input line)."""

    def __init__(self, name):
        self.name = name  # file lean/Drv/<name>.lean
        self.path = os.path.join(LEAN_DIR, 'Drv', name + '.lean')

    def run(self, lines, timeout=3600):
        if not lines:
            return []
        if not os.path.exists(self.path):
            raise InfraError(f'missing driver {self.path}')
        data = '\n'.join(lines) + '\n'
        rc, out = sh(['lake', 'env', 'lean', '--run', self.path], cwd=LEAN_DIR, input=data,
                     timeout=timeout)
        outl = out.split('\n')
        if outl and outl[-1] == '':
            outl.pop()
        if rc != 0 or len(outl) != len(lines):
            return DriverFailure(rc, outl, len(lines))
        return outl


class DriverFailure(list):
    """Returned instead of the output list when the Lean driver did not answer every line."""

    def __init__(self, rc, outl, expected):
        super().__init__(outl)
        self.rc = rc
        self.expected = expected

    def describe(self):
        return f'driver rc={self.rc}, {len(self)} output lines for {self.expected} inputs; tail: {list(self)[-3:]}'


# ---------------------------------------------------------------------------------------------
# Context handed to every property module
# ---------------------------------------------------------------------------------------------
class Ctx:
    def __init__(self, pid, tier, seed):
        self.property_id = pid
        self.tier = tier
        self.seed = seed
        self.rng = random.Random(f'{pid}:{seed}')
        self.evaluations = 0
        self.nontrivial = set()
        self.samples = []
        self.dist = {}
        self.violations = []       # (msg, replay dict)  -- property fails on the real code
        self.mismatches = []       # (msg, replay dict)  -- model and code disagree
        self.known_hits = []       # known findings that reproduced
        self.corr_compared = 0
        self.notes = []
        self.t0 = time.time()

    # sizes by tier
    def scale(self, quick, thorough):
        return thorough if self.tier == 'thorough' else quick

    @property
    def thorough(self):
        return self.tier == 'thorough'

    def subrng(self, *key):
        return random.Random(f'{self.property_id}:{self.seed}:' + ':'.join(map(str, key)))

    def count(self, key, n=1):
        self.dist[key] = self.dist.get(key, 0) + n

    def case(self, key=None, nontrivial=True):
        """Register one explored case; key identifies distinct cases."""
        self.evaluations += 1
        if nontrivial and key is not None:
            if len(self.nontrivial) < 2_000_000:
                self.nontrivial.add(hashlib.blake2b(repr(key).encode(), digest_size=8).digest())

    def sample(self, obj, cap=4):
        if len(self.samples) < cap:
            self.samples.append(obj)

    def violation(self, msg, replay):
        self.violations.append((msg, replay))

    def mismatch(self, msg, replay):
        self.mismatches.append((msg, replay))

    def note(self, msg):
        self.notes.append(msg)

    def compare(self, what, impl_lines, model_lines, inputs=None, max_report=3):
        """Correspondence: compare canonical output lines of implementation and Lean model."""
        if isinstance(model_lines, DriverFailure):
            self.mismatch(f'{what}: Lean driver failure: {model_lines.describe()}',
                          {'kind': 'correspondence', 'what': what, 'driver': model_lines.describe()})
            return False
        ok = True
        rep = 0
        for k, (a, b) in enumerate(zip(impl_lines, model_lines)):
            self.corr_compared += 1
            if a != b:
                ok = False
                if rep < max_report:
                    rep += 1
                    self.mismatch(f'{what}: implementation and model disagree',
                                  {'kind': 'correspondence', 'what': what, 'index': k,
                                   'input': inputs[k] if inputs else None, 'impl': a, 'model': b})
        return ok


def json_safe(obj, depth=0):
    if depth > 8:
        return repr(obj)[:200]
    if isinstance(obj, (str, int, float, bool)) or obj is None:
        if isinstance(obj, int) and abs(obj) > 1 << 62:
            return str(obj)
        if isinstance(obj, float) and obj != obj:
            return 'nan'
        return obj
    if isinstance(obj, (bytes, bytearray)):
        return bytes(obj).hex()
    if isinstance(obj, dict):
        return {str(k): json_safe(v, depth + 1) for k, v in obj.items()}
    if isinstance(obj, (list, tuple, set, frozenset)):
        return [json_safe(v, depth + 1) for v in obj]
    return repr(obj)[:300]


def load_known_findings():
    fn = os.path.join(VERIF, 'known_findings.json')
    if not os.path.exists(fn):
        return {'open': [], 'fixed': []}
    return json.load(open(fn))


def write_replay(pid, replay):
    os.makedirs(REPLAY_DIR, exist_ok=True)
    body = json.dumps(json_safe(replay), indent=1, sort_keys=True)
    tag = hashlib.sha1(body.encode()).hexdigest()[:10]
    fn = os.path.join(REPLAY_DIR, f'{pid}-{tag}.json')
    with open(fn, 'w') as f:
        f.write(body)
    return os.path.relpath(fn, VERIF)


def write_evidence(pid, doc):
    os.makedirs(EVIDENCE_DIR, exist_ok=True)
    fn = os.path.join(EVIDENCE_DIR, f'{pid}.json')
    tmp = fn + f'.tmp{os.getpid()}'
    with open(tmp, 'w') as f:
        json.dump(json_safe(doc), f, indent=1, sort_keys=True)
    os.replace(tmp, fn)
    return fn
