"""Source translator for the ROUTING of mpyc/runtime.py: who sends to whom in transfer / output / _reshare / _distribute.

    python harness/py2lean_comm.py [out.lean]        (reads $VERIF_REPO/mpyc/runtime.py, default /repo)

Output: lean/MpycV/Generated/CommSrc.lean (namespace MpycV.CommSrc).  lean/MpycV/PropsGen/CommSrcTie.lean proves every generated
definition equal to the hand-written model MpycV.Comm (Model/Comm.lean), which the theorems of C07 and C19 are about; the
traffic observed in simulator runs is still compared with that model (the differential tie stays), this file adds the
regenerated-from-source tie for the expressions that DECIDE the routing.

The four coroutines are not translated as programs.  For each of them the translator
  1. MATCHES the statement shape around every `self._send_message` / `self._receive_message` call (which loop, which
     conditions enclose it, which branch of the argument-form dispatch it is in) -- a shape it does not recognise is a
     translation failure (the generated definition becomes `<name>.untranslated`, the tie theorem no longer type-checks, and
     check.py treats that as a broken proof obligation: failing-input search on the real code);
  2. TRANSLATES the expressions found there (loop iterables, conditions, destinations, recombination points) into Lean
     terms over `Nat` / `List Nat`.

Translation rules (the trusted part; everything else is checked by Lean):
* `self.pid` -> `pid`; `m = len(self.parties)` -> `m`; `t` -> `t`; `uci` -> `uci`; int literals; `+`, `*`.
* Python's `(a - b) % m` -> `subMod m a b = (a + m - b % m) % m` and `(a - b + c) % m` -> `(a + m - b % m + c) % m`
  (equal to Python's result for natural a, b, c and m > 0: lemmas `subMod_int`, `subModAdd_int` in Lemmas/CommSrcRules.lean
  prove it over the integers); `a % m` -> `a % m`.
* comparisons and chains (`0 < e <= t`) -> conjunction of Props; `==`/`!=` -> `=`/`≠`; `x in L` -> `x ∈ L`; inside `filter`
  they are wrapped in `decide`.
* `[e for v in L if c]` -> `(L.filter (fun v => decide c)).map (fun v => e)` (no `if`: `L.map`), tuple targets `(a, b)` ->
  `fun ((a, b) : Nat × Nat)`; `D.items()` -> the association list `D : List (Nat × List Nat)`; `D[k]` / `D.get(k, [])` -> `dictGet D k`
  (`[]` for a missing key); `range(n)` -> `List.range n`; `range(a, a + n)` -> `(List.range n).map (a + ·)`;
  `list(x)` -> `x`; `x if c else y` -> `if c then x else y`; `[]` -> `[]`.
* `for v in L: ... if c: self._send_message(v, ..)` -> destinations `L.filter (fun v => decide c)`, in loop order.
* `enumerate(shares)` where `shares = random_split(field, x, t, m)` -> `List.range m` (one row per party: C12/C13).
Argument normalisation in `transfer` / `output` (`None` -> all parties, int -> one-element list, `list(range)`), is NOT
translated: the generated functions take the normalised lists (the simulator runs of C19 cover the other argument forms).
"""
import ast
import os
import sys

HERE = os.path.dirname(os.path.abspath(__file__))
if HERE not in sys.path:
    sys.path.insert(0, HERE)


class Unsupported(Exception):
    pass


# ------------------------------------------------------------------------------------------------ expressions
def is_self_attr(n, attr):
    return isinstance(n, ast.Attribute) and isinstance(n.value, ast.Name) and n.value.id == 'self' and n.attr == attr


def is_call_self(n, name):
    return isinstance(n, ast.Call) and is_self_attr(n.func, name)


class Tx:
    """expression translator; env maps Python names to Lean terms"""

    def __init__(self, env):
        self.env = dict(env)

    def sub(self, **kw):
        e = dict(self.env)
        e.update(kw)
        return Tx(e)

    def term(self, n):
        if isinstance(n, ast.Constant) and isinstance(n.value, int) and not isinstance(n.value, bool) and n.value >= 0:
            return str(n.value)
        if isinstance(n, ast.Name):
            if n.id in self.env:
                return self.env[n.id]
            raise Unsupported(f'name {n.id}')
        if is_self_attr(n, 'pid'):
            return 'pid'
        if isinstance(n, ast.List) and not n.elts:
            return '[]'
        if isinstance(n, ast.BinOp):
            if isinstance(n.op, ast.Mod):
                return self.mod(n.left, n.right)
            if isinstance(n.op, ast.Add):
                return f'{self.term(n.left)} + {self.atom(n.right)}'
            if isinstance(n.op, ast.Mult):
                return f'{self.atom(n.left)} * {self.atom(n.right)}'
            raise Unsupported('operator ' + type(n.op).__name__ + ' outside a % pattern')
        if isinstance(n, ast.IfExp):
            return f'if {self.prop(n.test)} then {self.term(n.body)} else {self.term(n.orelse)}'
        if isinstance(n, ast.ListComp):
            return self.listcomp(n)
        if isinstance(n, ast.Call) and isinstance(n.func, ast.Name) and n.func.id == 'list' and len(n.args) == 1:
            return self.term(n.args[0])
        if isinstance(n, ast.Subscript) and isinstance(n.value, ast.Name) and self.env.get(n.value.id, '').startswith('DICT:'):
            return f'dictGet {self.env[n.value.id][5:]} {self.atom(n.slice)}'
        # D.get(k, []): `[]` for a missing key (what dictGet returns)
        if isinstance(n, ast.Call) and isinstance(n.func, ast.Attribute) and n.func.attr == 'get' and len(n.args) == 2 \
                and isinstance(n.func.value, ast.Name) and self.env.get(n.func.value.id, '').startswith('DICT:') \
                and isinstance(n.args[1], ast.List) and not n.args[1].elts:
            return f'dictGet {self.env[n.func.value.id][5:]} {self.atom(n.args[0])}'
        raise Unsupported(ast.dump(n)[:80])

    def atom(self, n):
        s = self.term(n)
        return s if s.replace('_', '').isalnum() else f'({s})'

    def mod(self, left, right):
        mm = self.atom(right)
        # (a - b) % m
        if isinstance(left, ast.BinOp) and isinstance(left.op, ast.Sub):
            return f'subMod {mm} {self.atom(left.left)} {self.atom(left.right)}'
        # (a - b + c) % m
        if isinstance(left, ast.BinOp) and isinstance(left.op, ast.Add) and isinstance(left.left, ast.BinOp) \
                and isinstance(left.left.op, ast.Sub):
            a, b, c = left.left.left, left.left.right, left.right
            return f'({self.atom(a)} + {mm} - {self.atom(b)} % {mm} + {self.atom(c)}) % {mm}'
        return f'{self.atom(left)} % {mm}'

    def prop(self, n):
        if isinstance(n, ast.Compare):
            parts, left = [], n.left
            for op, right in zip(n.ops, n.comparators):
                a, b = self.term(left), self.term(right)
                if isinstance(op, ast.Eq):
                    parts.append(f'{a} = {b}')
                elif isinstance(op, ast.NotEq):
                    parts.append(f'{a} ≠ {b}')
                elif isinstance(op, ast.Lt):
                    parts.append(f'{a} < {b}')
                elif isinstance(op, ast.LtE):
                    parts.append(f'{a} ≤ {b}')
                elif isinstance(op, ast.In):
                    parts.append(f'{a} ∈ {b}')
                else:
                    raise Unsupported('comparison ' + type(op).__name__)
                left = right
            return ' ∧ '.join(parts)
        if isinstance(n, ast.UnaryOp) and isinstance(n.op, ast.Not):
            return f'¬ ({self.prop(n.operand)})'
        raise Unsupported('condition ' + ast.dump(n)[:80])

    def binder(self, target):
        """returns (lean binder, extended translator)"""
        if isinstance(target, ast.Name):
            return target.id, self.sub(**{target.id: target.id})
        if isinstance(target, ast.Tuple) and len(target.elts) == 2 and all(isinstance(e, ast.Name) for e in target.elts):
            a, b = (e.id for e in target.elts)
            return f'(({a}, {b}) : _ × _)', self.sub(**{a: a, b: b})
        raise Unsupported('loop target ' + ast.dump(target)[:60])

    def iterable(self, n):
        if isinstance(n, ast.Call) and isinstance(n.func, ast.Name) and n.func.id == 'range':
            if len(n.args) == 1:
                return f'List.range {self.atom(n.args[0])}'
            if len(n.args) == 2:
                a, b = n.args
                # range(a, a + n)
                if isinstance(b, ast.BinOp) and isinstance(b.op, ast.Add):
                    flat = []

                    def flatten(x):
                        if isinstance(x, ast.BinOp) and isinstance(x.op, ast.Add):
                            flatten(x.left)
                            flatten(x.right)
                        else:
                            flat.append(x)
                    flatten(b)
                    if ast.dump(flat[0]) == ast.dump(a) and len(flat) >= 2:
                        rest = ' + '.join(self.atom(x) for x in flat[1:])
                        return f'(List.range ({rest})).map (fun k => {self.atom(a)} + k)'
            raise Unsupported('range form')
        if isinstance(n, ast.Call) and isinstance(n.func, ast.Attribute) and n.func.attr == 'items' and not n.args:
            d = self.env.get(n.func.value.id if isinstance(n.func.value, ast.Name) else '', '')
            if d.startswith('DICT:'):
                return d[5:]
        if isinstance(n, ast.Name) and n.id in self.env and not self.env[n.id].startswith('DICT:'):
            return self.env[n.id]
        raise Unsupported('iterable ' + ast.dump(n)[:80])

    def listcomp(self, n, elt=None):
        if len(n.generators) != 1 or n.generators[0].is_async:
            raise Unsupported('comprehension with several generators')
        g = n.generators[0]
        it = self.iterable(g.iter)
        b, tx = self.binder(g.target)
        r = it
        if g.ifs:
            cond = ' ∧ '.join(tx.prop(c) if len(g.ifs) == 1 else f'({tx.prop(c)})' for c in g.ifs)
            r = f'({r}.filter (fun {b} => decide ({cond})))'
        e = tx.term(elt if elt is not None else n.elt)
        if e == b:
            return r
        return f'({r}).map (fun {b} => {e})' if not r.startswith('(') else f'{r}.map (fun {b} => {e})'


# ------------------------------------------------------------------------------------------------ shape matching helpers
def method(tree, name):
    for cls in tree.body:
        if isinstance(cls, ast.ClassDef) and cls.name == 'Runtime':
            for f in cls.body:
                if isinstance(f, (ast.FunctionDef, ast.AsyncFunctionDef)) and f.name == name:
                    return f
    raise Unsupported(f'Runtime.{name} not found')


def walk_no_nested(node):
    """all nodes below `node`, not entering nested function definitions"""
    for child in ast.iter_child_nodes(node):
        if isinstance(child, (ast.FunctionDef, ast.AsyncFunctionDef, ast.Lambda)):
            continue
        yield child
        yield from walk_no_nested(child)


def find_assigns(fn, name):
    return [n for n in walk_no_nested(fn) if isinstance(n, ast.Assign) and len(n.targets) == 1
            and isinstance(n.targets[0], ast.Name) and n.targets[0].id == name]


def calls_in(node, name):
    return [n for n in [node] + list(walk_no_nested(node)) if is_call_self(n, name)]


def count_calls(fn, name):
    return len(calls_in(fn, name))


def only(lst, what):
    if len(lst) != 1:
        raise Unsupported(f'{what}: expected exactly one, found {len(lst)}')
    return lst[0]


def loops_with_call(fn, name):
    """outermost `for` loops (not nested in another for) that contain a call self.<name>(...)"""
    out = []

    def rec(node, in_for):
        for child in ast.iter_child_nodes(node):
            if isinstance(child, (ast.FunctionDef, ast.AsyncFunctionDef, ast.Lambda)):
                continue
            if isinstance(child, ast.For) and not in_for and calls_in(child, name):
                out.append(child)
                rec(child, True)
            else:
                rec(child, in_for)
    rec(fn, False)
    return out


def guarded_call(loop, name):
    """`for v in it: [stmts without the call] if c: [..] self.<name>(dest, ..)` -> (condition node or None, dest node, negated)"""
    sites = []
    for st in loop.body:
        if isinstance(st, ast.If):
            in_body = [c for s in st.body for c in calls_in(s, name)]
            in_else = [c for s in st.orelse for c in calls_in(s, name)]
            if in_body and not in_else:
                sites.append((st.test, only(in_body, 'call in if body'), False, st))
            elif in_else and not in_body:
                sites.append((st.test, only(in_else, 'call in else branch'), True, st))
            elif in_body or in_else:
                raise Unsupported('call in both branches')
        elif calls_in(st, name):
            sites.append((None, only(calls_in(st, name), 'unconditional call'), False, st))
    return only(sites, f'{name} site in loop')


# ------------------------------------------------------------------------------------------------ the four coroutines
def gen_transfer(tree, defs):
    fn = method(tree, 'transfer')
    disp = [n for n in fn.body if isinstance(n, ast.If) and isinstance(n.test, ast.Compare) and isinstance(n.test.left, ast.Name)
            and n.test.left.id == 'sender_receivers' and isinstance(n.test.ops[0], ast.Is)]
    disp = only(disp, 'if sender_receivers is None')
    bip = disp.body
    inner = only([n for n in disp.orelse if isinstance(n, ast.If)], 'isinstance(sender_receivers, dict) dispatch')
    if not (isinstance(inner.test, ast.Call) and getattr(inner.test.func, 'id', '') == 'isinstance'
            and getattr(inner.test.args[1], 'id', '') == 'dict'):
        raise Unsupported('dict dispatch test')
    if len(disp.orelse) != 1:
        raise Unsupported('statements besides the dict/arcs dispatch')

    def assigned(block, name):
        hits = [n for st in block for n in [st] + list(walk_no_nested(st)) if isinstance(n, ast.Assign) and len(n.targets) == 1
                and isinstance(n.targets[0], ast.Name) and n.targets[0].id == name]
        return hits[-1].value if hits else None
    tb = Tx({'senders': 'senders', 'receivers': 'receivers'})
    for nm, lean in (('my_senders', 'transferMySenders'), ('my_receivers', 'transferMyReceivers')):
        v = assigned(bip, nm)
        if v is None:
            raise Unsupported(f'{nm} not assigned in the bipartite branch')
        defs.append((lean, '(pid : Nat) (senders receivers : List Nat) : List Nat', tb.term(v), v.lineno))
    td = Tx({'sender_receivers': 'DICT:d'})
    for nm, lean in (('my_senders', 'dictMySenders'), ('my_receivers', 'dictMyReceivers')):
        v = assigned(inner.body, nm)
        defs.append((lean, '(pid : Nat) (d : List (Nat × List Nat)) : List Nat', td.term(v), v.lineno))
    ta = Tx({'sender_receivers': 'arcs'})
    for nm, lean in (('my_senders', 'arcsMySenders'), ('my_receivers', 'arcsMyReceivers')):
        v = assigned(inner.orelse, nm)
        defs.append((lean, '(pid : Nat) (arcs : List (Nat × Nat)) : List Nat', ta.term(v), v.lineno))
    # nothing after the dispatch reassigns my_senders / my_receivers
    for nm in ('my_senders', 'my_receivers'):
        if len(find_assigns(fn, nm)) != 3:
            raise Unsupported(f'{nm} assigned {len(find_assigns(fn, nm))} times (expected once per argument form)')
    # send loop
    if count_calls(fn, '_send_message') != 1 or count_calls(fn, '_receive_message') != 1:
        raise Unsupported('transfer: number of send/receive call sites changed')
    loop = only(loops_with_call(fn, '_send_message'), 'send loop')
    b, tx = Tx({'my_receivers': 'myReceivers'}).binder(loop.target)
    cond, call, neg, _ = guarded_call(loop, '_send_message')
    if tx.term(call.args[0]) != b or cond is None:
        raise Unsupported('send destination is not the loop variable / unconditional send')
    c = tx.prop(cond)
    defs.append(('transferSends', '(pid : Nat) (myReceivers : List Nat) : List Nat',
                 f'{tx.iterable(loop.iter)}.filter (fun {b} => decide ({"¬ (" + c + ")" if neg else c}))', loop.lineno))
    loop = only(loops_with_call(fn, '_receive_message'), 'receive loop')
    it = loop.iter
    if not (isinstance(it, ast.Call) and getattr(it.func, 'id', '') == 'enumerate' and isinstance(loop.target, ast.Tuple)):
        raise Unsupported('receive loop is not `for i, peer_pid in enumerate(my_senders)`')
    pv = loop.target.elts[1].id
    tx = Tx({'my_senders': 'mySenders', pv: pv})
    cond, call, neg, _ = guarded_call(loop, '_receive_message')
    if tx.term(call.args[0]) != pv or cond is None:
        raise Unsupported('receive source is not the loop variable / unconditional receive')
    c = tx.prop(cond)
    defs.append(('transferRecvs', '(pid : Nat) (mySenders : List Nat) : List Nat',
                 f'{tx.iterable(it.args[0])}.filter (fun {pv} => decide ({"¬ (" + c + ")" if neg else c}))', loop.lineno))


def gen_output(tree, defs):
    fn = method(tree, 'output')
    if count_calls(fn, '_send_message') != 1 or count_calls(fn, '_receive_message') != 1:
        raise Unsupported('output: number of send/receive call sites changed')
    # t = self.threshold if threshold is None else threshold: the model's t is that value
    tas = only(find_assigns(fn, 't'), 'assignment of t')
    if not (isinstance(tas.value, ast.IfExp) and is_self_attr(tas.value.body, 'threshold')):
        raise Unsupported('t is not `self.threshold if threshold is None else threshold`')
    env = {'m': 'm', 't': 't', 'receivers': 'receivers'}
    loop = only(loops_with_call(fn, '_send_message'), 'send loop')
    b, tx = Tx(env).binder(loop.target)
    cond, call, neg, _ = guarded_call(loop, '_send_message')
    if tx.term(call.args[0]) != b or cond is None or neg:
        raise Unsupported('send destination / guard')
    defs.append(('outSends', '(m t pid : Nat) (receivers : List Nat) : List Nat',
                 f'{tx.iterable(loop.iter)}.filter (fun {b} => decide ({tx.prop(cond)}))', loop.lineno))
    # receives: `if self.pid in receivers: shares = [self._receive_message(e) for j in range(t)] ...`
    guard = only([n for n in fn.body if isinstance(n, ast.If) and calls_in(n, '_receive_message')], 'receiver branch')
    if any(calls_in(s, '_receive_message') for s in guard.orelse):
        raise Unsupported('receive in the non-receiver branch')
    comp = only([n for s in guard.body for n in [s] + list(walk_no_nested(s)) if isinstance(n, ast.ListComp)
                 and calls_in(n, '_receive_message')], 'receive comprehension')
    rc = only(calls_in(comp.elt, '_receive_message'), 'receive call')
    if comp.elt is not rc:
        raise Unsupported('receive comprehension element')
    tx = Tx(env)
    defs.append(('outRecvs', '(m t pid : Nat) (receivers : List Nat) : List Nat',
                 f'if {tx.prop(guard.test)} then {tx.listcomp(comp, elt=rc.args[0])} else []', comp.lineno))
    # points = [(x-coordinate, ..) for j in range(t)]; points.append((x-coordinate, x))
    pas = only([n for s in guard.body for n in [s] + list(walk_no_nested(s)) if isinstance(n, ast.Assign)
                and isinstance(n.targets[0], ast.Name) and n.targets[0].id == 'points'], 'points assignment')
    if not (isinstance(pas.value, ast.ListComp) and isinstance(pas.value.elt, ast.Tuple)):
        raise Unsupported('points comprehension')
    app = only([n for s in guard.body for n in [s] + list(walk_no_nested(s)) if isinstance(n, ast.Call)
                and isinstance(n.func, ast.Attribute) and n.func.attr == 'append' and getattr(n.func.value, 'id', '') == 'points'],
               'points.append')
    if not isinstance(app.args[0], ast.Tuple):
        raise Unsupported('points.append argument')
    defs.append(('outPoints', '(m t pid : Nat) : List Nat',
                 f'{tx.listcomp(pas.value, elt=pas.value.elt.elts[0])} ++ [{tx.term(app.args[0].elts[0])}]', pas.lineno))


def gen_reshare(tree, defs):
    fn = method(tree, '_reshare')
    if count_calls(fn, '_send_message') != 1 or count_calls(fn, '_receive_message') != 1:
        raise Unsupported('_reshare: number of send/receive call sites changed')
    uas = only(find_assigns(fn, 'uci'), 'assignment of uci')
    tas = only(find_assigns(fn, 't'), 'assignment of t')
    if not is_self_attr(tas.value, 'threshold'):
        raise Unsupported('t is not self.threshold')
    del uas
    env = {'m': 'm', 't': 't', 'uci': 'uci'}
    tx = Tx(env)
    guard = only([n for n in fn.body if isinstance(n, ast.If) and calls_in(n, '_send_message')], 'dealer branch')
    if any(calls_in(s, '_send_message') for s in guard.orelse):
        raise Unsupported('send in the non-dealer branch')
    # shares = random_split(field, x, t, m): m rows
    sas = only([n for s in guard.body for n in [s] + list(walk_no_nested(s)) if isinstance(n, ast.Assign)
                and isinstance(n.targets[0], ast.Name) and n.targets[0].id == 'shares'], 'shares = random_split(...)')
    if not (isinstance(sas.value, ast.Call) and getattr(sas.value.func, 'id', '') == 'random_split' and len(sas.value.args) == 4
            and tx.term(sas.value.args[2]) == 't' and tx.term(sas.value.args[3]) == 'm'):
        raise Unsupported('shares is not random_split(field, x, t, m)')
    loop = only([n for n in guard.body if isinstance(n, ast.For) and calls_in(n, '_send_message')], 'send loop')
    if not (isinstance(loop.iter, ast.Call) and getattr(loop.iter.func, 'id', '') == 'enumerate'
            and getattr(loop.iter.args[0], 'id', '') == 'shares' and isinstance(loop.target, ast.Tuple)):
        raise Unsupported('send loop is not `for peer_pid, data in enumerate(shares)`')
    pv = loop.target.elts[0].id
    txl = tx.sub(**{pv: pv})
    cond, call, neg, _ = guarded_call(loop, '_send_message')
    if txl.term(call.args[0]) != pv or cond is None:
        raise Unsupported('send destination / guard')
    c = txl.prop(cond)
    defs.append(('reshSends', '(m t pid uci : Nat) : List Nat',
                 f'if {tx.prop(guard.test)} then (List.range m).filter (fun {pv} => decide ({"¬ (" + c + ")" if neg else c})) else []',
                 guard.lineno))
    loop = only(loops_with_call(fn, '_receive_message'), 'receive loop')
    b, txl = tx.binder(loop.target)
    cond, call, neg, _ = guarded_call(loop, '_receive_message')
    if cond is None or neg:
        raise Unsupported('receive guard')
    defs.append(('reshRecvs', '(m t pid uci : Nat) : List Nat',
                 f'(({tx.iterable(loop.iter)}).filter (fun {b} => decide ({txl.prop(cond)}))).map (fun {b} => {txl.term(call.args[0])})',
                 loop.lineno))


def gen_distribute(tree, defs):
    fn = method(tree, '_distribute')
    if count_calls(fn, '_send_message') != 1 or count_calls(fn, '_receive_message') != 1:
        raise Unsupported('_distribute: number of send/receive call sites changed')
    loop = only(loops_with_call(fn, '_send_message'), 'loop over senders')
    if not (isinstance(loop.iter, ast.Call) and getattr(loop.iter.func, 'id', '') == 'enumerate'
            and getattr(loop.iter.args[0], 'id', '') == 'senders' and isinstance(loop.target, ast.Tuple)):
        raise Unsupported('outer loop is not `for i, peer_pid in enumerate(senders)`')
    pv = loop.target.elts[1].id
    tx = Tx({'m': 'm', 'senders': 'senders', pv: pv})
    br = only([s for s in loop.body if isinstance(s, ast.If)], 'own-input branch')
    if len(loop.body) != 1:
        raise Unsupported('statements besides the own-input branch in the loop over senders')
    if not calls_in(ast.Module(body=br.body, type_ignores=[]), '_send_message') or \
            not calls_in(ast.Module(body=br.orelse, type_ignores=[]), '_receive_message'):
        raise Unsupported('send / receive not in the expected branches')
    own = tx.prop(br.test)
    # in_shares = random_split(field, x, t, m): m rows; inner loop over enumerate(in_shares)
    sas = only([n for s in br.body for n in [s] + list(walk_no_nested(s)) if isinstance(n, ast.Assign)
                and isinstance(n.targets[0], ast.Name) and n.targets[0].id == 'in_shares'], 'in_shares = random_split(...)')
    if not (isinstance(sas.value, ast.Call) and getattr(sas.value.func, 'id', '') == 'random_split' and len(sas.value.args) == 4
            and isinstance(sas.value.args[3], ast.Name) and sas.value.args[3].id == 'm'):
        raise Unsupported('in_shares is not random_split(field, x, t, m)')
    mas = [n for s in br.body for n in [s] + list(walk_no_nested(s)) if isinstance(n, ast.Assign)
           and isinstance(n.targets[0], ast.Name) and n.targets[0].id == 'm']
    if mas and not (isinstance(mas[-1].value, ast.Call) and getattr(mas[-1].value.func, 'id', '') == 'len'
                    and is_self_attr(mas[-1].value.args[0], 'parties')):
        raise Unsupported('m is not len(self.parties)')
    inner = only([n for n in br.body if isinstance(n, ast.For) and calls_in(n, '_send_message')], 'inner send loop')
    if not (isinstance(inner.iter, ast.Call) and getattr(inner.iter.func, 'id', '') == 'enumerate'
            and getattr(inner.iter.args[0], 'id', '') == 'in_shares' and isinstance(inner.target, ast.Tuple)):
        raise Unsupported('inner loop is not `for other_pid, data in enumerate(in_shares)`')
    ov = inner.target.elts[0].id
    txi = tx.sub(**{ov: ov})
    cond, call, neg, _ = guarded_call(inner, '_send_message')
    if txi.term(call.args[0]) != ov or cond is None:
        raise Unsupported('send destination / guard')
    c = txi.prop(cond)
    defs.append(('distSends', '(m pid : Nat) (senders : List Nat) : List Nat',
                 f'(senders.filter (fun {pv} => decide ({own}))).flatMap (fun _ => (List.range m).filter '
                 f'(fun {ov} => decide ({"¬ (" + c + ")" if neg else c})))', loop.lineno))
    rc = only(calls_in(ast.Module(body=br.orelse, type_ignores=[]), '_receive_message'), 'receive call')
    if tx.term(rc.args[0]) != pv:
        raise Unsupported('receive source is not the sender')
    defs.append(('distRecvs', '(pid : Nat) (senders : List Nat) : List Nat',
                 f'senders.filter (fun {pv} => decide (¬ ({own})))', rc.lineno))


GENERATORS = [('transfer', gen_transfer, ['transferMySenders', 'transferMyReceivers', 'dictMySenders', 'dictMyReceivers',
                                          'arcsMySenders', 'arcsMyReceivers', 'transferSends', 'transferRecvs']),
              ('output', gen_output, ['outSends', 'outRecvs', 'outPoints']),
              ('_reshare', gen_reshare, ['reshSends', 'reshRecvs']),
              ('_distribute', gen_distribute, ['distSends', 'distRecvs'])]
ORDER = [n for _, _, names in GENERATORS for n in names]

HEADER = '''/-
GENERATED by harness/py2lean_comm.py from mpyc/runtime.py -- do not edit.  Routing expressions of
Runtime.transfer / output / _reshare / _distribute as Lean definitions (see the translator's docstring for the rules).
-/
import MpycV.Model.Comm

namespace MpycV.{ns}
open MpycV.Comm (subMod)

/-- `D[k]` for a dict given as association list; `[]` where the code raises KeyError -/
def dictGet (d : List (Nat × List Nat)) (k : Nat) : List Nat :=
  match d.find? (fun e => e.1 == k) with
  | some e => e.2
  | none => []

'''


def translate_source(text, ns='CommSrc'):
    """returns (lean text, {definition name: problem})"""
    problems = {}
    out = [HEADER.format(ns=ns)]
    try:
        tree = ast.parse(text)
    except SyntaxError as exc:
        tree = None
        problems['*'] = f'syntax error: {exc}'
    for pyname, gen, names in GENERATORS:
        defs = []
        try:
            if tree is None:
                raise Unsupported(problems['*'])
            gen(tree, defs)
            got = [d[0] for d in defs]
            if got != names:
                raise Unsupported(f'definitions {got} instead of {names}')
        except Unsupported as exc:
            for nm in names:
                problems[nm] = f'Runtime.{pyname}: {exc}'
                out.append(f'/-- NOT TRANSLATED: Runtime.{pyname}: {str(exc)[:160]} -/\ndef {nm}.untranslated : String := "untranslated"\n')
            continue
        except Exception as exc:  # noqa: BLE001  (a shape the matcher did not anticipate)
            for nm in names:
                problems[nm] = f'Runtime.{pyname}: {type(exc).__name__}: {exc}'
                out.append(f'/-- NOT TRANSLATED: Runtime.{pyname}: {type(exc).__name__} -/\ndef {nm}.untranslated : String := "untranslated"\n')
            continue
        for nm, sig, body, lineno in defs:
            out.append(f'-- ≙ runtime.py:{lineno}\ndef {nm} {sig} :=\n  {body}\n')
    out.append(f'end MpycV.{ns}\n')
    return '\n'.join(out), problems


def main():
    import repo_path
    src = os.path.join(repo_path.REPO, 'mpyc', 'runtime.py')
    text, problems = translate_source(open(src).read())
    if len(sys.argv) > 1:
        with open(sys.argv[1], 'w') as f:
            f.write(text)
    else:
        sys.stdout.write(text)
    for k, v in problems.items():
        sys.stderr.write(f'NOT TRANSLATED {k}: {v}\n')


if __name__ == '__main__':
    main()
