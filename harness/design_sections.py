#!/venv/bin/python
"""Regenerate the generated regions of DESIGN.md (between <!-- GEN:name --> and <!-- /GEN:name -->):
fixes (8.2), open (8.3), status (8.5), seeds (8.6).  Sources: known_findings.json, harness/props/*.py, evidence/*.json,
seeded/*/meta.json."""
import json, os, re, subprocess, sys
HERE = os.path.dirname(os.path.abspath(__file__))
VERIF = os.path.dirname(HERE)


def out(cmd):
    return subprocess.run([sys.executable, os.path.join(HERE, cmd)], capture_output=True, text=True).stdout.strip()


k = json.load(open(os.path.join(VERIF, 'known_findings.json')))
fixes = '\n'.join('* ' + re.sub(r'^fixed:\s*', '', f) for f in k['fixed'])
opens = '\n'.join(f"* **{o['property']}** `{o['key']}` — {o['what']}" for o in k['open'])
regions = {'fixes': fixes, 'open': opens, 'status': out('design_status.py'), 'seeds': out('seed_table.py')}
p = os.path.join(VERIF, 'DESIGN.md')
s = open(p).read()
for name, body in regions.items():
    pat = re.compile(r'(<!-- GEN:%s -->\n).*?(\n<!-- /GEN:%s -->)' % (name, name), re.S)
    if not pat.search(s):
        print('marker missing:', name)
        continue
    s = pat.sub(lambda m: m.group(1) + body + m.group(2), s)
open(p, 'w').write(s)
print('DESIGN.md regenerated:', {n: len(b.split('\n')) for n, b in regions.items()})
