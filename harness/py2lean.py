"""Source translator: the pure-Python gmpy2 stubs of mpyc/gmpy.py  ->  Lean 4 definitions (stdlib `ast` only).

    python harness/py2lean.py [out.lean]        (reads $VERIF_REPO/mpyc/gmpy.py, default /repo)

The output (lean/MpycV/Generated/GmpySrc.lean, namespace MpycV.GmpySrc) is proved equal to the hand-written model
MpycV.Model.NumTh in lean/MpycV/PropsGen/C25Src.lean, so that an edit of the Python source that really changes a
function breaks a proof obligation of C25.

Python subset: int arithmetic (+ - * // % ** << >> unary -), `x & (2^k - 1)`, `y | z`, comparisons (chained, in / not in
a tuple literal, is None), and/or/not, conditional expressions, (tuple / nested tuple / augmented) assignment,
if/elif/else, while, for-range, break, continue, return, raise, calls to other translated functions,
divmod / abs / int / max / min / math.isqrt / math.gcd / int.bit_length.

Translation rules (the trusted part of the tie; everything else is checked by Lean):
* Python int -> Int.  `a // b`, `a % b`, `divmod(a, b)` -> `Int.fdiv`, `Int.fmod` (floor semantics); with a positive
  integer literal divisor -> `/`, `%` (`Int.ediv/emod`, which coincide with floor division for positive divisors).
  A non-literal divisor first raises ZeroDivisionError when it is 0 (statement-level guard, evaluation order of pure
  integer sub-expressions is irrelevant).
* `x & c` with c + 1 a power of two -> `x % (c+1)` (two's complement);  `(y & -y).bit_length() - 1` -> number of trailing
  zero bits `NumTh.tz`;  `x.bit_length()` -> `NumTh.bitLength`;  `a << k`, `a >> k`, `a ** k` -> `pyShl`, `pyShr`, `pyPow`
  (a negative non-literal shift count first raises ValueError); `a | b` -> `pyOr` (non-negative operands).
* a loop becomes ONE call of `PyLoop.loop` on the tuple of loop-carried variables (variables assigned in the loop that are
  bound before it); the fuel expression of each loop is a hand-written annotation (FUEL below, the termination measures of
  the model); `for v in range(a, b, c)` (literal step c) is the while loop `v = a; while v < b (v > b): ...; v += c`.
* `is_prime(x)` is the oracle parameter `isP : Int -> Bool` of the model; `Optional` parameters (ratrec's N, D) are
  specialised: the body is translated once per None / not-None pattern with `X is None` evaluated statically.
* exceptions -> `Except Err`; `return` inside a loop -> `Ctl.ret`.
"""
import ast
import os
import sys

HERE = os.path.dirname(os.path.abspath(__file__))


class Unsupported(Exception):
    pass


# ---------------------------------------------------------------------------------------------------------
# hand-written annotations: signatures and loop fuels (Lean expressions over the variables in scope; `v₀` = the value of
# parameter v at function entry)
# ---------------------------------------------------------------------------------------------------------
INT, BOOL = 'Int', 'Bool'
FUNCS = {
    # name: (parameters [(name, type)], return component types, needs isP, fuels per loop in source order)
    'gcdext': ([('a', INT), ('b', INT)], [INT, INT, INT], False, ['b₀.natAbs + 2']),
    'invert': ([('x', INT), ('m', INT)], [INT], False, ['m.natAbs + 2']),
    'jacobi': ([('x', INT), ('y', INT)], [INT], False, ['y₀.toNat + 1']),
    'legendre': ([('x', INT), ('y', INT)], [INT], False, []),
    'kronecker': ([('x', INT), ('y', INT)], [INT], False, []),
    'isqrt': ([('x', INT)], [INT], False, []),
    'is_square': ([('x', INT)], [BOOL], False, []),
    'iroot': ([('x', INT), ('n', INT)], [INT, BOOL], False, ['k.toNat + 1']),
    'next_prime': ([('x', INT)], [INT], True, ['x₀.toNat + 2']),
    'prev_prime': ([('x', INT)], [INT], True, ['x₀.toNat']),
    'ratrec': ([('x', INT), ('y', INT), ('N', 'Option Int'), ('D', 'Option Int')], [INT, INT], False, ['y₀.toNat + 2']),
    'factor_prime_power': ([('x', INT)], [INT, INT], True,
                           ['1024', 'x₀.toNat + 1', 'NumTh.bitLength x₀ + 1', '2 * NumTh.bitLength x₀ + 2']),
}
ORDER = ['isqrt', 'is_square', 'iroot', 'gcdext', 'invert', 'jacobi', 'legendre', 'kronecker', 'next_prime',
         'prev_prime', 'ratrec', 'factor_prime_power']
ERRORS = {'ValueError': '.valueError', 'ZeroDivisionError': '.zeroDivisionError', 'AssertionError': '.assertionError'}
LEAN_KEYWORDS = {'at', 'from', 'have', 'show', 'then', 'else', 'do', 'fun', 'end', 'open', 'in', 'let', 'if', 'match'}


def lname(v):
    if v == '_':
        return 'i_'
    return v + '_' if v in LEAN_KEYWORDS else v


def tuple_ty(tys):
    return ' × '.join(tys) if tys else 'Unit'


def tuple_pat(names):
    return names[0] if len(names) == 1 else '(' + ', '.join(names) + ')'


def ind(text, n):
    pad = ' ' * n
    return '\n'.join(pad + ln if ln else ln for ln in text.split('\n'))


def is_pow2(c):
    return c > 0 and c & (c - 1) == 0


class Fn:
    """translation of one function (one None-pattern specialisation)"""

    def __init__(self, name, node, nonepat=()):
        self.name = name
        self.node = node
        self.params, self.rets, self.needs_isp, self.fuels = FUNCS[name]
        self.loop_idx = 0
        self.fresh = 0
        self.nonepat = dict(nonepat)       # optional parameter -> True (is None) / False

    # ---------------- expressions ----------------
    def const_none(self, node, env):
        return isinstance(node, ast.Name) and env.get(node.id, (None, None))[1] == 'None'

    def expr(self, node, env, guards, binds, ctx=None):
        """-> (lean string, type).  guards: list of (condition, error) raised before the statement; binds: hoisted calls;
        ctx: condition under which this sub-expression is evaluated (conditional expressions)"""
        def g(cond, err):
            guards.append((f'({ctx}) ∧ {cond}' if ctx else cond, err))

        if isinstance(node, ast.Constant):
            if isinstance(node.value, bool):
                return ('true' if node.value else 'false'), BOOL
            if isinstance(node.value, int):
                return (str(node.value) if node.value >= 0 else f'({node.value})'), INT
            raise Unsupported(f'constant {node.value!r}')
        if isinstance(node, ast.Name):
            if node.id not in env:
                raise Unsupported(f'name {node.id} is not bound here')
            nm, ty = env[node.id][:2]
            if ty == 'None':
                raise Unsupported(f'{node.id} is None here')
            return nm, ty
        if isinstance(node, ast.UnaryOp):
            if isinstance(node.op, ast.USub):
                a, t = self.expr(node.operand, env, guards, binds, ctx)
                self.want(t, INT, node)
                return f'(-{a})', INT
            if isinstance(node.op, ast.Not):
                return f'decide ({self.cond(node, env, guards, binds, ctx)})', BOOL
            raise Unsupported('unary operator')
        if isinstance(node, ast.BinOp):
            op = node.op
            if isinstance(op, ast.BitAnd):
                if isinstance(node.right, ast.Constant) and isinstance(node.right.value, int) and is_pow2(node.right.value + 1):
                    a, t = self.expr(node.left, env, guards, binds, ctx)
                    self.want(t, INT, node)
                    return f'({a} % {node.right.value + 1})', INT
                raise Unsupported('general bitwise and')
            a, ta = self.expr(node.left, env, guards, binds, ctx)
            b, tb = self.expr(node.right, env, guards, binds, ctx)
            self.want(ta, INT, node)
            self.want(tb, INT, node)
            lit = isinstance(node.right, ast.Constant) and isinstance(node.right.value, int)
            if isinstance(op, ast.Add):
                return f'({a} + {b})', INT
            if isinstance(op, ast.Sub):
                return f'({a} - {b})', INT
            if isinstance(op, ast.Mult):
                return f'({a} * {b})', INT
            if isinstance(op, (ast.FloorDiv, ast.Mod)):
                if lit and node.right.value > 0:
                    return (f'({a} / {b})' if isinstance(op, ast.FloorDiv) else f'({a} % {b})'), INT
                g(f'{b} = 0', '.zeroDivisionError')
                return (f'(Int.fdiv {a} {b})' if isinstance(op, ast.FloorDiv) else f'(Int.fmod {a} {b})'), INT
            if isinstance(op, ast.Pow):
                return f'(pyPow {a} {b})', INT
            if isinstance(op, (ast.LShift, ast.RShift)):
                known = isinstance(node.right, ast.Name) and env.get(node.right.id, (None, None, False))[2:] == (True,)
                if not (lit and node.right.value >= 0) and not known:
                    g(f'{b} < 0', '.valueError')
                return (f'(pyShl {a} {b})' if isinstance(op, ast.LShift) else f'(pyShr {a} {b})'), INT
            if isinstance(op, ast.BitOr):
                return f'(pyOr {a} {b})', INT
            raise Unsupported(f'binary operator {type(op).__name__}')
        if isinstance(node, (ast.Compare, ast.BoolOp)):
            return f'decide ({self.cond(node, env, guards, binds, ctx)})', BOOL
        if isinstance(node, ast.IfExp):
            c = self.cond(node.test, env, guards, binds, ctx)
            cc = f'({ctx}) ∧ ({c})' if ctx else c
            nc = f'({ctx}) ∧ ¬ ({c})' if ctx else f'¬ ({c})'
            a, ta = self.expr(node.body, env, guards, binds, cc)
            b, tb = self.expr(node.orelse, env, guards, binds, nc)
            self.want(ta, tb, node)
            return f'(if {c} then {a} else {b})', ta
        if isinstance(node, ast.Tuple):
            parts = [self.expr(e, env, guards, binds, ctx) for e in node.elts]
            return '(' + ', '.join(p for p, _ in parts) + ')', tuple(t for _, t in parts)
        if isinstance(node, ast.Call):
            return self.call(node, env, guards, binds, ctx)
        raise Unsupported(f'expression {type(node).__name__}')

    def want(self, t, expected, node):
        if t != expected:
            raise Unsupported(f'type {t} where {expected} is expected (line {getattr(node, "lineno", "?")})')

    def call(self, node, env, guards, binds, ctx):
        f = node.func
        args = node.args
        if node.keywords:
            raise Unsupported('keyword arguments')

        def a(i, ty=INT):
            s, t = self.expr(args[i], env, guards, binds, ctx)
            self.want(t, ty, node)
            return s
        # (y & -y).bit_length() - 1 is matched in `expr` via this method: x.bit_length()
        if isinstance(f, ast.Attribute) and f.attr == 'bit_length' and not args:
            v = f.value
            if (isinstance(v, ast.BinOp) and isinstance(v.op, ast.BitAnd) and isinstance(v.right, ast.UnaryOp)
                    and isinstance(v.right.op, ast.USub) and ast.dump(v.left) == ast.dump(v.right.operand)):
                e, t = self.expr(v.left, env, guards, binds, ctx)
                self.want(t, INT, node)
                return f'((NumTh.tz ({e}).toNat : Nat) : Int) + 1', INT      # caller subtracts 1
            e, t = self.expr(v, env, guards, binds, ctx)
            self.want(t, INT, node)
            return f'((NumTh.bitLength {e} : Nat) : Int)', INT
        if isinstance(f, ast.Attribute) and isinstance(f.value, ast.Name) and f.value.id == 'math':
            if f.attr == 'isqrt':
                v = self.newvar('v')
                binds.append((v, f'NumTh.isqrt {a(0)}', ctx))
                return v, INT
            if f.attr == 'gcd':
                return f'((Int.gcd {a(0)} {a(1)} : Nat) : Int)', INT
            raise Unsupported(f'math.{f.attr}')
        if not isinstance(f, ast.Name):
            raise Unsupported('call of a non-name')
        fn = f.id
        if fn == 'abs':
            return f'(pyAbs {a(0)})', INT
        if fn == 'int':
            return a(0), INT
        if fn in ('max', 'min') and len(args) == 2:
            return f'({fn} {a(0)} {a(1)})', INT
        if fn == 'divmod':
            x, y = a(0), a(1)
            guards.append(((f'({ctx}) ∧ ' if ctx else '') + f'{y} = 0', '.zeroDivisionError'))
            return f'(Int.fdiv {x} {y}, Int.fmod {x} {y})', (INT, INT)
        if fn == 'is_prime':
            if not self.needs_isp:
                raise Unsupported('is_prime in a function without oracle parameter')
            return f'(isP {a(0)})', BOOL
        if fn in FUNCS:
            if ctx:
                raise Unsupported(f'call of {fn} inside a conditional expression')
            params, rets, isp, _ = FUNCS[fn]
            if len(args) != len(params):
                raise Unsupported(f'{fn} called with {len(args)} arguments')
            if isp and not self.needs_isp:
                raise Unsupported(f'{fn} needs the primality oracle')
            argstr = ' '.join(a(i) for i in range(len(args)))
            names = [self.newvar('v') for _ in rets]
            binds.append((tuple_pat(names), f'{fn}{" isP" if isp else ""} {argstr}', ctx))
            if len(rets) == 1:
                return names[0], rets[0]
            return '(' + ', '.join(names) + ')', tuple(rets)
        raise Unsupported(f'call of {fn}')

    def newvar(self, base):
        self.fresh += 1
        return f'{base}{self.fresh}'

    def cond(self, node, env, guards, binds, ctx=None):
        """-> Lean proposition (decidable)"""
        if isinstance(node, ast.BoolOp):
            sep = ' ∧ ' if isinstance(node.op, ast.And) else ' ∨ '
            parts = []
            cur = ctx
            for v in node.values:      # short circuit: later operands are evaluated conditionally
                c = self.cond(v, env, guards, binds, cur)
                parts.append(c)
                nxt = c if isinstance(node.op, ast.And) else f'¬ ({c})'
                cur = f'({cur}) ∧ ({nxt})' if cur else nxt
            return '(' + sep.join(parts) + ')'
        if isinstance(node, ast.UnaryOp) and isinstance(node.op, ast.Not):
            return f'¬ ({self.cond(node.operand, env, guards, binds, ctx)})'
        if isinstance(node, ast.Compare):
            if len(node.ops) == 1 and isinstance(node.ops[0], (ast.Is, ast.IsNot)):
                if isinstance(node.comparators[0], ast.Constant) and node.comparators[0].value is None \
                        and isinstance(node.left, ast.Name):
                    isnone = env.get(node.left.id, (None, None))[1] == 'None'
                    return 'True' if isnone == isinstance(node.ops[0], ast.Is) else 'False'
                raise Unsupported('is / is not')
            parts = []
            left = node.left
            for op, right in zip(node.ops, node.comparators):
                if isinstance(op, (ast.In, ast.NotIn)):
                    if not isinstance(right, ast.Tuple):
                        raise Unsupported('in / not in something that is not a tuple literal')
                    l, tl = self.expr(left, env, guards, binds, ctx)
                    self.want(tl, INT, node)
                    alts = ' ∨ '.join(f'{l} = {self.expr(e, env, guards, binds, ctx)[0]}' for e in right.elts)
                    parts.append(f'({alts})' if isinstance(op, ast.In) else f'¬ ({alts})')
                else:
                    l, tl = self.expr(left, env, guards, binds, ctx)
                    r, tr = self.expr(right, env, guards, binds, ctx)
                    self.want(tl, INT, node)
                    self.want(tr, INT, node)
                    sym = {ast.Eq: '=', ast.NotEq: '≠', ast.Lt: '<', ast.LtE: '≤', ast.Gt: '>', ast.GtE: '≥'}.get(type(op))
                    if sym is None:
                        raise Unsupported('comparison operator')
                    parts.append(f'{l} {sym} {r}')
                left = right
            return parts[0] if len(parts) == 1 else '(' + ' ∧ '.join(parts) + ')'
        # truthiness
        e, t = self.expr(node, env, guards, binds, ctx)
        if t == BOOL:
            return f'{e} = true'
        if t == INT:
            return f'{e} ≠ 0'
        raise Unsupported('truth value of a tuple')

    # ---------------- statements ----------------
    @staticmethod
    def wrap(guards, binds, body):
        """raise the guards, evaluate the hoisted calls, then `body`"""
        out = body
        for pat, callstr, _ctx in reversed(binds):
            out = f'match {callstr} with\n| .error exc_ => .error exc_\n| .ok {pat} =>\n{ind(out, 2)}'
        for cnd, err in reversed(guards):
            out = f'if {cnd} then .error {err} else\n{out}'
        return out

    def assigned(self, stmts):
        """names assigned anywhere in the statements, in order of first appearance"""
        out = []

        def tgt(t):
            if isinstance(t, ast.Name):
                if t.id not in out:
                    out.append(t.id)
            elif isinstance(t, (ast.Tuple, ast.List)):
                for e in t.elts:
                    tgt(e)
            else:
                raise Unsupported('assignment target')

        def walk(ss):
            for s in ss:
                if isinstance(s, ast.Assign):
                    for t in s.targets:
                        tgt(t)
                elif isinstance(s, ast.AugAssign):
                    tgt(s.target)
                elif isinstance(s, ast.If):
                    walk(s.body)
                    walk(s.orelse)
                elif isinstance(s, (ast.While, ast.For)):
                    if isinstance(s, ast.For):
                        tgt(s.target)
                    walk(s.body)
                    walk(s.orelse)
        walk(stmts)
        return out

    @staticmethod
    def falls_through(stmts):
        if not stmts:
            return True
        s = stmts[-1]
        if isinstance(s, (ast.Return, ast.Raise, ast.Break, ast.Continue)):
            return False
        if isinstance(s, ast.If) and s.orelse:
            return Fn.falls_through(s.body) or Fn.falls_through(s.orelse)
        return True

    @staticmethod
    def has(stmts, kinds):
        return any(isinstance(n, kinds) for s in stmts for n in ast.walk(s))

    def pattern(self, target, ty, env):
        """Lean pattern for an assignment target, binding the names with the component types of `ty`"""
        if isinstance(target, ast.Name):
            if isinstance(ty, tuple):
                raise Unsupported('tuple assigned to a single name')
            env[target.id] = (lname(target.id), ty)
            return lname(target.id)
        if isinstance(target, (ast.Tuple, ast.List)):
            if not isinstance(ty, tuple) or len(ty) != len(target.elts):
                raise Unsupported('tuple assignment of different shape')
            return '(' + ', '.join(self.pattern(t, c, env) for t, c in zip(target.elts, ty)) + ')'
        raise Unsupported('assignment target')

    def block(self, stmts, env, k, inloop):
        """CPS translation: Lean term for `stmts` followed by continuation k(env)"""
        if not stmts:
            return k(env)
        s, rest = stmts[0], stmts[1:]
        env = dict(env)
        if isinstance(s, ast.Expr) and isinstance(s.value, ast.Constant) and isinstance(s.value.value, str):
            return self.block(rest, env, k, inloop)                      # docstring
        if isinstance(s, ast.Pass):
            return self.block(rest, env, k, inloop)
        if isinstance(s, (ast.Assign, ast.AugAssign)):
            guards, binds = [], []
            if isinstance(s, ast.AugAssign):
                value = ast.BinOp(left=ast.Name(id=s.target.id, ctx=ast.Load()), op=s.op, right=s.value)
                target = s.target
            else:
                if len(s.targets) != 1:
                    raise Unsupported('chained assignment')
                value, target = s.value, s.targets[0]
            e, ty = self.expr(value, env, guards, binds)
            pat = self.pattern(target, ty, env)
            if isinstance(target, ast.Name) and (fix_tz(e + ')').startswith('(((NumTh.tz ') or e.startswith('((NumTh.bitLength ')):
                env[target.id] = (lname(target.id), ty, True)     # known to be non-negative (shift guards)
            body = f'let {pat} := {e}\n' + self.block(rest, env, k, inloop)
            return self.wrap(guards, binds, body)
        if isinstance(s, ast.Return):
            guards, binds = [], []
            if s.value is None:
                raise Unsupported('return without value')
            e, ty = self.expr(s.value, env, guards, binds)
            want = self.rets[0] if len(self.rets) == 1 else tuple(self.rets)
            self.want(ty, want, s)
            return self.wrap(guards, binds, f'.ok (.ret {e})' if inloop else f'.ok ({e})')
        if isinstance(s, ast.Raise):
            exc = s.exc
            nm = exc.func.id if isinstance(exc, ast.Call) and isinstance(exc.func, ast.Name) else \
                (exc.id if isinstance(exc, ast.Name) else None)
            if nm not in ERRORS:
                raise Unsupported('raise of an unknown exception')
            return f'.error {ERRORS[nm]}'
        if isinstance(s, ast.Break):
            if not inloop:
                raise Unsupported('break outside a loop')
            return inloop['brk'](env)
        if isinstance(s, ast.Continue):
            if not inloop:
                raise Unsupported('continue outside a loop')
            return inloop['next'](env)
        if isinstance(s, ast.If):
            return self.if_stmt(s, rest, env, k, inloop)
        if isinstance(s, (ast.While, ast.For)):
            return self.loop_stmt(s, rest, env, k, inloop)
        raise Unsupported(f'statement {type(s).__name__} (line {s.lineno})')

    def if_stmt(self, s, rest, env, k, inloop):
        guards, binds = [], []
        c = self.cond(s.test, env, guards, binds)
        if c in ('True', 'False'):                       # `X is None` decided statically
            return self.block((s.body if c == 'True' else s.orelse) + rest, env, k, inloop)
        ft_then, ft_else = self.falls_through(s.body), self.falls_through(s.orelse)
        small_rest = len(rest) <= 1 and all(isinstance(r, (ast.Return, ast.Raise)) for r in rest)
        if not (ft_then and ft_else) or small_rest or not rest:
            # at most one branch continues (or the continuation is a single return): plain if-then-else
            a = self.block(s.body + rest, env, k, inloop)
            b = self.block(s.orelse + rest, env, k, inloop)
            return self.wrap(guards, binds, f'if {c} then\n{ind(a, 2)}\nelse\n{ind(b, 2)}')
        # both branches fall through: join on the tuple of variables they assign
        if self.has(s.body + s.orelse, (ast.Return, ast.Break, ast.Continue)):
            a = self.block(s.body + rest, env, k, inloop)       # rare: duplicate the continuation
            b = self.block(s.orelse + rest, env, k, inloop)
            return self.wrap(guards, binds, f'if {c} then\n{ind(a, 2)}\nelse\n{ind(b, 2)}')
        inthen, inelse = self.assigned(s.body), self.assigned(s.orelse)
        vars_ = [v for v in self.assigned(s.body + s.orelse) if v in env or (v in inthen and v in inelse)]
        if not vars_:
            raise Unsupported('if statement without effect')
        results = {}

        def kk(e2):
            for v in vars_:
                results.setdefault(v, e2[v][1])
            return 'JOIN(' + ', '.join(e2[v][0] for v in vars_) + ')'
        a = self.block(s.body, env, kk, None if not inloop else inloop)
        b = self.block(s.orelse, env, kk, None if not inloop else inloop)
        pure = not any(w in a + b for w in ('.error', 'match ', '.ok'))
        tup = lambda t: t.replace('JOIN(', '(' if pure else '.ok (')  # noqa: E731
        env2 = dict(env)
        for v in vars_:
            env2[v] = (lname(v), results[v])
        pat = tuple_pat([lname(v) for v in vars_])
        cont = self.block(rest, env2, k, inloop)
        ite = f'if {c} then\n{ind(tup(a), 2)}\nelse\n{ind(tup(b), 2)}'
        if pure:
            return self.wrap(guards, binds, f'let {pat} :=\n{ind(ite, 2)}\n{cont}')
        ty = tuple_ty([results[v] for v in vars_])
        return self.wrap(guards, binds,
                         f'match (show Except Err ({ty}) from\n{ind(ite, 2)}) with\n| .error exc_ => .error exc_\n| .ok {pat} =>\n{ind(cont, 2)}')

    def loop_stmt(self, s, rest, env, k, inloop):
        if s.orelse:
            raise Unsupported('loop with else clause')
        if self.loop_idx >= len(self.fuels):
            raise Unsupported('no fuel annotation for this loop')
        fuel = self.fuels[self.loop_idx]
        self.loop_idx += 1
        pre = ''
        body = list(s.body)
        if isinstance(s, ast.For):
            it = s.iter
            if not (isinstance(s.target, ast.Name) and isinstance(it, ast.Call) and isinstance(it.func, ast.Name)
                    and it.func.id == 'range' and 1 <= len(it.args) <= 3):
                raise Unsupported('for loop that is not over range(...)')
            v = s.target.id
            start = it.args[0] if len(it.args) > 1 else ast.Constant(value=0)
            stop = it.args[1] if len(it.args) > 1 else it.args[0]
            step = it.args[2] if len(it.args) == 3 else ast.Constant(value=1)
            stepv = ast.literal_eval(step) if not isinstance(step, ast.Constant) else step.value
            if not isinstance(stepv, int) or stepv == 0:
                raise Unsupported('range with a non-literal step')
            guards, binds = [], []
            e0, t0 = self.expr(start, env, guards, binds)
            e1, t1 = self.expr(stop, env, guards, binds)
            if guards or binds:
                raise Unsupported('range bounds with division or calls')
            sv = self.newvar('stop')
            pre = f'let {sv} := {e1}\nlet {lname(v)} := {e0}\n'
            env = dict(env)
            env[sv] = (sv, INT)
            env[v] = (lname(v), INT)
            test = ast.Compare(left=ast.Name(id=v, ctx=ast.Load()), ops=[ast.Lt() if stepv > 0 else ast.Gt()],
                               comparators=[ast.Name(id=sv, ctx=ast.Load())])
            incr = ast.AugAssign(target=ast.Name(id=v, ctx=ast.Store()), op=ast.Add(), value=ast.Constant(value=stepv))
            if self.has(body, (ast.Continue,)):
                raise Unsupported('continue in a for loop')
            body = body + [incr]
        else:
            test = s.test
        state = [v for v in self.assigned(body) if v in env]
        if not state:
            raise Unsupported('loop without loop-carried variable')
        has_ret = self.has(body, (ast.Return,))
        sty = tuple_ty([env[v][1] for v in state])
        rty = tuple_ty(self.rets) if has_ret else 'Empty'
        pat = tuple_pat([lname(v) for v in state])

        def st(e2):
            return tuple_pat([e2[v][0] for v in state])
        ctl = {'next': lambda e2: f'.ok (.next {st(e2)})', 'brk': lambda e2: f'.ok (.brk {st(e2)})'}
        guards, binds = [], []
        is_true = isinstance(test, ast.Constant) and test.value is True
        c = None if is_true else self.cond(test, env, guards, binds)
        inner = self.block(body, env, ctl['next'], ctl)
        if c is not None:
            inner = self.wrap(guards, binds, f'if {c} then\n{ind(inner, 2)}\nelse\n  .ok (.brk {st(env)})')
        after_env = dict(env)
        cont = self.block(rest, after_env, k, inloop)
        retarm = ('.ok (.ret r)' if inloop else '.ok r') if has_ret else 'nomatch r'
        return (f'{pre}onLoop (loop (σ := {sty}) (ρ := {rty}) Err.fuel (fun st => match st with\n'
                f'    | {pat} =>\n{ind(inner, 6)}) ({fuel}) {st(env)})\n'
                f'  (fun r => {retarm})\n  (fun st => match st with\n    | {pat} =>\n{ind(cont, 6)})')

    # ---------------- function ----------------
    def translate(self):
        env = {}
        lets = []
        for (p, ty) in self.params:
            if ty == 'Option Int':
                env[p] = (lname(p), 'None' if self.nonepat[p] else INT)
            else:
                env[p] = (lname(p), ty)
            if env[p][1] != 'None' and any((lname(p) + '₀') in f for f in self.fuels):
                env[p + '₀'] = (lname(p) + '₀', env[p][1])
                lets.append(f'let {lname(p)}₀ := {lname(p)}')

        def k(_env):
            raise Unsupported('function can end without return')
        body = self.block(self.node.body, env, k, None)
        return '\n'.join(lets + [body])


def fix_tz(text):
    """`((NumTh.tz (e).toNat : Nat) : Int) + 1 - 1`  (from `(y & -y).bit_length() - 1`)  ->  the tz term"""
    return text.replace(' : Nat) : Int) + 1 - 1)', ' : Nat) : Int))')


def lean_sig(name, nonepat=None):
    params, rets, isp, _ = FUNCS[name]
    ps = ['(isP : Int → Bool)'] if isp else []
    for p, ty in params:
        if ty == 'Option Int':
            if nonepat is None:
                ps.append(f'({lname(p)} : Option Int)')
            elif not nonepat[p]:
                ps.append(f'({lname(p)} : Int)')
        else:
            ps.append(f'({lname(p)} : {ty})')
    return ' '.join(ps), tuple_ty(rets)


def translate_function(name, node):
    """-> Lean source of the definition(s) for one Python function"""
    params = FUNCS[name][0]
    opt = [p for p, ty in params if ty == 'Option Int']
    if not opt:
        body = fix_tz(Fn(name, node).translate())
        sig, ret = lean_sig(name)
        return f'def {name} {sig} : Except Err ({ret}) :=\n{ind(body, 2)}\n'
    # one specialisation per None pattern, plus the dispatcher
    out = []
    pats = []
    for mask in range(1 << len(opt)):
        pat = {p: bool(mask >> i & 1) for i, p in enumerate(opt)}
        tag = ''.join('N' if pat[p] else 'S' for p in opt)
        body = fix_tz(Fn(name, node, pat).translate())
        sig, ret = lean_sig(name, pat)
        out.append(f'/-- `{name}` with ' + ', '.join(f'{p} {"is None" if pat[p] else "an int"}' for p in opt) +
                   f' -/\ndef {name}_{tag} {sig} : Except Err ({ret}) :=\n{ind(body, 2)}\n')
        pats.append((pat, tag))
    sig, ret = lean_sig(name)
    arms = []
    for pat, tag in pats:
        lhs = ', '.join('none' if pat[p] else f'some {lname(p)}' for p in opt)
        args = ' '.join(lname(p) for p, ty in params if ty != 'Option Int' or not pat[p])
        arms.append(f'  | {lhs} => {name}_{tag} {args}')
    out.append(f'def {name} {sig} : Except Err ({ret}) :=\n  match ' + ', '.join(lname(p) for p in opt) + ' with\n' +
               '\n'.join(arms) + '\n')
    return '\n'.join(out)


def find_functions(tree):
    found = {}
    for node in ast.walk(tree):
        if isinstance(node, ast.FunctionDef) and node.name in FUNCS:
            found.setdefault(node.name, []).append(node)
    return found


HEADER = '''/- GENERATED by harness/py2lean.py from {src} — do not edit.
Pure-Python gmpy2 stubs translated statement by statement (rules: see the docstring of harness/py2lean.py). -/
import MpycV.Model.NumTh
import MpycV.Model.PyLoop
namespace MpycV.GmpySrc
open MpycV.NumTh MpycV.PyLoop
set_option linter.unusedVariables false

'''


def translate_source(text, srcname='mpyc/gmpy.py'):
    """-> (lean file text, {function: error message} for the functions that could not be translated)"""
    out = [HEADER.format(src=srcname)]
    problems = {}
    try:
        tree = ast.parse(text)
        found = find_functions(tree)
    except SyntaxError as exc:
        found = {}
        problems['*'] = f'syntax error: {exc}'
    for name in ORDER:
        try:
            if name not in found:
                raise Unsupported('function not found in the source')
            if len(found[name]) != 1:
                raise Unsupported(f'{len(found[name])} definitions found')
            out.append(f'-- ≙ gmpy.py:{found[name][0].lineno} `{name}`')
            out.append(translate_function(name, found[name][0]))
        except Unsupported as exc:
            problems[name] = str(exc)
        except Exception as exc:   # never crash the checker
            problems[name] = f'translator error {type(exc).__name__}: {exc}'
        if name in problems:
            if out[-1].startswith('-- ≙'):
                out.pop()
            msg = problems[name].replace('"', "'")
            out.append(f'/-- NOT TRANSLATED: {msg} -/\ndef {name}.untranslated : String := "py2lean: {name}: {msg}"\n')
    out.append('end MpycV.GmpySrc\n')
    return '\n'.join(out), problems


def main():
    sys.path.insert(0, HERE)
    import repo_path
    src = os.path.join(repo_path.REPO, 'mpyc', 'gmpy.py')
    text, problems = translate_source(open(src).read())
    dst = sys.argv[1] if len(sys.argv) > 1 else os.path.join(os.path.dirname(HERE), 'lean', 'MpycV', 'Generated', 'GmpySrc.lean')
    old = open(dst).read() if os.path.exists(dst) else None
    if old != text:
        with open(dst, 'w') as f:
            f.write(text)
    for k, v in problems.items():
        print(f'py2lean: {k}: {v}')
    return 0


if __name__ == '__main__':
    sys.exit(main())
