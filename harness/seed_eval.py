#!/venv/bin/python
"""Evaluate a seeded breaking change: seed_eval.py [--inplace] <seeded-dir> [check ids...]

Default mode works on a scratch worktree of /repo (VERIF_REPO points the checks at it), so that other work on
/repo is not disturbed; --inplace applies the patch to /repo itself (git apply ... git checkout -- .).

<seeded-dir> holds patch.diff and a demonstration (demo.py or test_*.py).  Steps:
  1. on the clean /repo: the demonstration must pass
  2. git -C /repo apply patch.diff ; baseline test suite must still pass ; the demonstration must FAIL
  3. run the listed checks (quick) against the patched tree, record exit codes and verdict lines
  4. git -C /repo checkout -- .  (always)
Results are written to <seeded-dir>/meta.json (merged with what is there).
"""
import json, os, subprocess, sys, time, re

args = sys.argv[1:]
INPLACE = '--inplace' in args
args = [a for a in args if a != '--inplace']
d = os.path.abspath(args[0])
checks = args[1:]
TREE = '/repo' if INPLACE else f'/tmp/seedeval_{os.path.basename(d)}_{os.getpid()}'

VERIF = os.path.dirname(os.path.dirname(os.path.abspath(__file__)))
demo = next((f for f in ('demo.py', 'test_demo.py') if os.path.exists(os.path.join(d, f))), None)


def sh(cmd, timeout=3000, cwd=None, env=None):
    try:
        p = subprocess.run(cmd, shell=True, cwd=cwd, capture_output=True, text=True, timeout=timeout, env=env)
        return p.returncode, (p.stdout + p.stderr)
    except subprocess.TimeoutExpired:
        return 124, 'TIMEOUT'


def run_demo():
    env = dict(os.environ, PYTHONPATH=TREE + (':' + os.path.join(VERIF, '.deps') if os.environ.get('SEED_NUMPY') == '1' else ''))
    return sh(f'timeout 900 /venv/bin/python {demo}', cwd=d, env=env, timeout=1000)


if INPLACE:
    assert sh('git -C /repo status --porcelain')[1].strip() == '', '/repo not clean'
else:
    rc, out = sh(f'git -C /repo worktree add -q --detach {TREE} HEAD')
    assert rc == 0, out
res = {'mode': 'inplace' if INPLACE else 'scratch-worktree+VERIF_REPO', 'evaluated_at': time.strftime('%Y-%m-%dT%H:%M:%SZ', time.gmtime()), 'repo_head': sh('git -C /repo rev-parse --short HEAD')[1].strip()}
rc, out = run_demo()
res['demo_on_clean_tree'] = {'rc': rc, 'tail': out[-300:]}
rc, out = sh(f'git -C {TREE} apply {d}/patch.diff')
if rc != 0:
    rc, out = sh(f'git -C {TREE} apply --3way {d}/patch.diff')
res['patch_applies'] = rc == 0
try:
    if rc == 0:
        rc, out = sh(f'cd {TREE} && PYTHONPATH={TREE} /venv/bin/python -m pytest -q -p no:cacheprovider 2>&1 | tail -1')
        res['baseline_suite_with_patch'] = out.strip()[-120:]
        rc, out = run_demo()
        res['demo_with_patch'] = {'rc': rc, 'tail': out[-300:]}
        res['checks'] = {}
        for c in checks:
            t0 = time.time()
            rc, out = sh(f'cd {VERIF} && VERIF_REPO={TREE} /venv/bin/python harness/check.py {c} --tier quick', timeout=3000)
            lines = [l for l in out.split('\n') if re.search(r'VIOLATION|KNOWN-FINDING|tier=|violation:|broken obligation|correspondence:', l)]
            rep = re.search(r'replay=(\S+)', out)
            detail = None
            if rep and os.path.exists(os.path.join(VERIF, rep.group(1))):
                detail = open(os.path.join(VERIF, rep.group(1))).read()[:1500]
            res['checks'][c] = {'rc': rc, 'wall_s': round(time.time() - t0), 'lines': [l[:400] for l in lines[-6:]],
                                'replay_excerpt': detail}
finally:
    if INPLACE:
        sh('git -C /repo checkout -- . && git -C /repo clean -fdq mpyc tests')
    else:
        sh(f'git -C /repo worktree remove --force {TREE}')
res['repo_clean_after'] = sh('git -C /repo status --porcelain')[1].strip() == ''
meta_fn = os.path.join(d, 'meta.json')
meta = json.load(open(meta_fn)) if os.path.exists(meta_fn) else {}
meta.update(res)
json.dump(meta, open(meta_fn, 'w'), indent=1)
print(json.dumps(res, indent=1)[:3000])
