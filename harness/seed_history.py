#!/usr/bin/env python3
"""Append a line to the `history` of seeded/<dest>/meta.json (what the owning check missed first and what was added)."""
import json
import os
import sys

dest, text = sys.argv[1], sys.argv[2]
fn = os.path.join(os.path.dirname(os.path.dirname(os.path.abspath(__file__))), 'seeded', dest, 'meta.json')
m = json.load(open(fn))
h = m.get('history')
m['history'] = (h + ' | ' if h else '') + text
json.dump(m, open(fn, 'w'), indent=1)
print(dest, 'history:', m['history'][:200])
