"""Shared machinery of the fixed-point checks C02 / C03 (area Fxp).

* typed generator of straight-line fixed-point programs (SSA, every node a scalar secure number)
* interpreter running a program on the REAL code inside harness/simnet.py, opening every
  intermediate value (raw field element -> signed int) and recording its `.integral` attribute
* recovery of the randomness used by `Runtime.trunc` (the shares returned by `random_bits` and
  `_randoms` are logged at every party and recombined by Lagrange interpolation written here)
* translation of executed instructions into request lines of lean/Drv/Fxp.lean
* the independent oracle: exact `fractions.Fraction` reference of every operation, the bounds of
  property C02 on the actual inputs of every instruction, and a propagated error bound for whole
  programs (used by the "all flags forced False" comparison of C03).
"""
import math
import os
import sys
from fractions import Fraction as Fr

sys.path.insert(0, os.path.dirname(os.path.abspath(__file__)))
import simnet  # noqa: E402  (sets sys.argv for mpyc, installs the runtime proxy)
from simnet import SimNet, rtmod  # noqa: E402

TYPES = [(8, 4), (16, 8), (32, 16), (64, 32), (24, 6)]
CFGS_QUICK = [(1, 0, False), (3, 1, False), (3, 1, True)]
CFGS_MORE = [(1, 0, True), (5, 2, False), (5, 2, True)]
CFGS_SMALLK = [(1, 0, False, 1), (3, 1, False, 1), (3, 1, True, 2), (3, 1, False, 8)]   # (m, t, no_prss, sec_param)

EXACT_OPS = {'neg', 'pos', 'add', 'sub', 'addi', 'subi', 'rsubi', 'muli', 'lshift', 'sum', 'vadd', 'vaddi', 'vsub',
             'ifelse', 'ifswap', 'ifelsel', 'ifswapl', 'all', 'abs', 'min', 'max', 'inputl', 'fromint'}
CMP_OPS = {'lt': lambda a, b: a < b, 'le': lambda a, b: a <= b, 'eq': lambda a, b: a == b,
           'ne': lambda a, b: a != b, 'ge': lambda a, b: a >= b, 'gt': lambda a, b: a > b}
TRUNC_OPS = {'mul', 'sq', 'mulf', 'inprod', 'schur', 'smul', 'matprod', 'prod', 'pow', 'trunc'}
ORACLE_ONLY = {'div', 'divf', 'rdivf', 'sin', 'cos', 'abs', 'min', 'max', 'sgn', 'inputl', 'modf'} | set(CMP_OPS)


# ---------------------------------------------------------------------------------------------
# floats as dyadic rationals
# ---------------------------------------------------------------------------------------------
def dy(x):
    """float -> 'm@e' with x == m * 2**e exactly"""
    if x == 0:
        return '0@0'
    m, e = math.frexp(x)
    return f'{int(m * (1 << 53))}@{e - 53}'


def fhex(x):
    return float(x).hex()


def unhex(s):
    return float.fromhex(s)


# ---------------------------------------------------------------------------------------------
# trunc randomness logging (installed once per process; active only while _LOG is a dict)
# ---------------------------------------------------------------------------------------------
_LOG = None


def _install_logging():
    R = rtmod.Runtime
    if getattr(R, '_fxp_logging', False):
        return
    orig_rb, orig_rs, orig_out = R.random_bits, R._randoms, R.output

    def random_bits(self, sftype, n, signed=False):
        res = orig_rb(self, sftype, n, signed)
        if _LOG is not None and sys._getframe(1).f_code.co_name == 'trunc':
            _LOG[self.pid].append(('bits', res, id(sys._getframe(1))))
        return res

    def _randoms(self, sftype, n, bound=None):
        res = orig_rs(self, sftype, n, bound)
        if _LOG is not None and sys._getframe(1).f_code.co_name == 'trunc':
            _LOG[self.pid].append(('div', res, id(sys._getframe(1))))
        return res

    def output(self, x, *args, **kwargs):
        res = orig_out(self, x, *args, **kwargs)
        if _LOG is not None and sys._getframe(1).f_code.co_name == 'trunc':
            _LOG[self.pid].append(('open', res, id(sys._getframe(1))))
        return res

    R.random_bits, R._randoms, R.output = random_bits, _randoms, output
    R._fxp_logging = True


def _resolve(obj):
    """logged object -> list of ints (field residues) or None"""
    try:
        if hasattr(obj, 'result') and hasattr(obj, 'done'):
            if not obj.done():
                return None
            obj = obj.result()
        return [int(a.value) for a in obj]
    except Exception:
        return None


def lagrange0(p, t):
    """coefficients recombining the secret (value at 0) from the points x = 1..t+1 (textbook formula)"""
    xs = list(range(1, t + 2))
    lam = []
    for i in xs:
        num, den = 1, 1
        for j in xs:
            if j != i:
                num = num * (0 - j) % p
                den = den * (i - j) % p
        lam.append(num * pow(den, -1, p) % p)
    return lam


def recover_calls(log, t, p):
    """log: pid -> list of entries (kind, obj, frame id of the trunc call) of ONE instruction; returns the list of
    trunc calls {'bits': [...], 'div': [...], 'open': [...]} in the order party 0 started them, or None if the
    logs cannot be aligned.  Concurrent calls are matched across parties by their (public) opened values."""
    lam = lagrange0(p, t)
    per = []
    for pid in range(t + 1):
        groups, order, cur = {}, [], {}
        for ent in log[pid]:
            kind, obj, fid = ent
            v = _resolve(obj)
            if v is None:
                return None
            gen = cur.get(fid, 0)
            if (fid, gen) in groups and kind in groups[(fid, gen)]:
                if len(groups[(fid, gen)]) != 3:
                    return None
                gen += 1          # frame id reused by a later call
                cur[fid] = gen
            if (fid, gen) not in groups:
                groups[(fid, gen)] = {}
                order.append((fid, gen))
            groups[(fid, gen)][kind] = v
        gl = [groups[k] for k in order]
        if any(set(g) != {'bits', 'div', 'open'} for g in gl):
            return None
        per.append(gl)
    n = len(per[0])
    if any(len(g) != n for g in per):
        return None
    keys0 = [tuple(g['open']) for g in per[0]]
    if len(set(keys0)) != n:
        return None
    calls = []
    for g0 in per[0]:
        key = tuple(g0['open'])
        gs = [g0]
        for pid in range(1, t + 1):
            match = [g for g in per[pid] if tuple(g['open']) == key]
            if len(match) != 1:
                return None
            gs.append(match[0])
        call = {'open': g0['open']}
        for kind in ('bits', 'div'):
            cols = [g[kind] for g in gs]
            if len({len(x) for x in cols}) != 1:
                return None
            call[kind] = [sum(lam[pid] * cols[pid][j] for pid in range(t + 1)) % p for j in range(len(cols[0]))]
        calls.append(call)
    return calls


def calls_to_rnds(calls, p):
    """flatten trunc calls into per-element randomness [(bits string, rdiv)] in call/element order"""
    out = []
    for c in calls:
        n = len(c['div'])
        if n == 0:
            continue
        d = len(c['bits']) // n
        for j in range(n):
            bits = c['bits'][d * j: d * (j + 1)]
            if any(b not in (0, 1) for b in bits):
                return None
            out.append((''.join(map(str, bits)) or '-', c['div'][j]))
    return out


# ---------------------------------------------------------------------------------------------
# interpreter on the real code
# ---------------------------------------------------------------------------------------------
def _sel(nodes, a):
    if isinstance(a, list):
        return [_sel(nodes, b) for b in a]
    return nodes[a]


def _flat(a):
    if isinstance(a, list):
        return [c for b in a for c in _flat(b)]
    return [a]


def real_op(mpc, secfxp, nodes, ins, force_false):
    op, args, ex = ins
    A = _sel(nodes, args)
    if op == 'cint':
        return [secfxp(ex, integral=False) if force_false else secfxp(ex)]
    if op == 'cfloat':
        return [secfxp(unhex(ex), integral=False) if force_false else secfxp(unhex(ex))]
    if op == 'craw':   # field element with explicit flag False (any representable value)
        return [secfxp(secfxp.field(ex), integral=False)]
    if op == 'inputl':
        xs = [secfxp(unhex(v)) if isinstance(v, str) else secfxp(v) for v in ex]
        if force_false:
            for x in xs:
                x.integral = False
        return mpc.input(xs, senders=0)
    if op == 'fromint':
        secint = mpc.SecInt(secfxp.bit_length - secfxp.frac_length)
        return [mpc.convert(secint(ex), secfxp)]
    if op == 'neg':
        return [-A[0]]
    if op == 'pos':
        return [+A[0]]
    if op == 'add':
        return [A[0] + A[1]]
    if op == 'sub':
        return [A[0] - A[1]]
    if op == 'addi':
        return [A[0] + ex]
    if op == 'subi':
        return [A[0] - ex]
    if op == 'rsubi':
        return [ex - A[0]]
    if op == 'addf':
        return [A[0] + unhex(ex)]
    if op == 'mul':
        return [A[0] * A[1]]
    if op == 'sq':
        return [A[0] * A[0]]
    if op == 'muli':
        return [A[0] * ex] if ex >= 0 else [ex * A[0]]
    if op == 'mulf':
        return [A[0] * unhex(ex)]
    if op == 'lshift':
        return [A[0] << ex]
    if op in CMP_OPS:
        import operator
        return [getattr(operator, op)(A[0], A[1])]
    if op == 'sgn':
        return [mpc.sgn(A[0])]
    if op == 'modf':                    # remainder modulo a PUBLIC (possibly fractional) modulus
        return [A[0] % unhex(ex)]
    if op == 'abs':
        return [abs(A[0])]
    if op == 'min':
        return [mpc.min(A[0])]
    if op == 'max':
        return [mpc.max(A[0])]
    if op == 'ifelse':
        return [mpc.if_else(A[0], A[1], A[2])]
    if op == 'ifswap':
        return list(mpc.if_swap(A[0], A[1], A[2]))
    if op == 'pow':
        return [A[0] ** ex]
    if op == 'sum':
        return [mpc.sum(A[0])]
    if op == 'inprod':
        return [mpc.in_prod(A[0], A[0])] if ex == 'alias' else [mpc.in_prod(A[0], A[1])]
    if op == 'prod':
        return [mpc.prod(A[0])]
    if op == 'all':
        return [mpc.all(A[0])]
    if op == 'vadd':
        return mpc.vector_add(A[0], A[1])
    if op == 'vaddi':
        return mpc.vector_add(A[0], list(ex))
    if op == 'vsub':
        return mpc.vector_sub(A[0], A[1])
    if op == 'smul':
        return mpc.scalar_mul(A[0], A[1])
    if op == 'schur':
        return mpc.schur_prod(A[0], A[0]) if ex == 'alias' else mpc.schur_prod(A[0], A[1])
    if op == 'ifelsel':
        return mpc.if_else(A[0], A[1], A[2])
    if op == 'ifswapl':
        x, y = mpc.if_swap(A[0], A[1], A[2])
        return list(x) + list(y)
    if op == 'matprod':
        if ex == 'sym':
            C = mpc.matrix_prod(A[0], A[0], True)
        else:
            C = mpc.matrix_prod(A[0], A[1], bool(ex))
        return [c for r in C for c in r]
    if op == 'trunc':
        return [mpc.trunc(A[0], f=ex)]
    if op == 'div':
        return [A[0] / A[1]]
    if op == 'divf':
        return [A[0] / unhex(ex)]
    if op == 'rdivf':
        return [unhex(ex) / A[0]]
    if op == 'sin':
        return [mpc.sin(A[0])]
    if op == 'cos':
        return [mpc.cos(A[0])]
    raise KeyError(op)


def run_real(cfg, lf, prog, seed=0, force_false=False, want_rnd=True):
    """Run `prog` on the real code.  Returns dict(records=[...], p=, k=, error=None|str).

    record = {'out': [[raw, flag], ...]} | {'error': 'ValueError'}, plus 'calls' (trunc calls) when recovered."""
    global _LOG
    m, t, no_prss = cfg[:3]
    sec_param = cfg[3] if len(cfg) > 3 else None   # optional 4th component: security parameter k
    l, f = lf
    _install_logging()
    info = {}

    async def program(mpc):
        secfxp = mpc.SecFxp(l, f)
        info['p'] = int(secfxp.field.modulus)
        info['k'] = int(mpc.options.sec_param)
        nodes, recs = [], []
        log = _LOG[mpc.pid] if _LOG is not None else None
        for idx, ins in enumerate(prog):
            try:
                outs = list(real_op(mpc, secfxp, nodes, ins, force_false))
                raws = await mpc.output(list(outs), raw=True)
            except ValueError as exc:
                recs.append({'error': 'ValueError', 'msg': str(exc)[:80]})
                break
            nodes.extend(outs)
            recs.append({'out': [[int(r), bool(getattr(o, 'integral', None))] for r, o in zip(raws, outs)]})
            if log is not None:
                log.append(('mark', idx))
        return recs

    _LOG = {i: [] for i in range(m)} if want_rnd else None
    try:
        net = SimNet(m, t, no_prss=no_prss, seed=seed, sec_param=sec_param)
        res = net.run(program)
        log, _LOG = _LOG, None
    except Exception as exc:  # Deadlock / PartyError / anything raised by the real code
        _LOG = None
        return {'records': [], 'p': info.get('p'), 'k': info.get('k'), 'error': f'{type(exc).__name__}: {str(exc)[:300]}'}
    recs = res[0]
    for other in res[1:]:
        if other != recs:
            return {'records': recs, 'p': info['p'], 'k': info['k'], 'error': 'parties disagree on opened values'}
    if log is not None:
        # split per instruction
        per = {pid: [[]] for pid in log}
        for pid, ents in log.items():
            for e in ents:
                if e[0] == 'mark':
                    per[pid].append([])
                else:
                    per[pid][-1].append(e)
        for idx, rec in enumerate(recs):
            if 'out' in rec:
                sl = {pid: (per[pid][idx] if idx < len(per[pid]) else []) for pid in per}
                if sl[0]:
                    calls = recover_calls(sl, t, info['p'])
                    if calls is not None:
                        rec['calls'] = calls
    return {'records': recs, 'p': info['p'], 'k': info['k'], 'error': None}


# ---------------------------------------------------------------------------------------------
# translation into driver requests
# ---------------------------------------------------------------------------------------------
def vstr(v):
    return f'{v[0]}:{1 if v[1] else 0}'


def lstr(vs):
    return ','.join(vstr(v) for v in vs) if vs else '-'


def rstr(r):
    return f'{r[0]}/{r[1]}'


def rlstr(rs):
    return ','.join(rstr(r) for r in rs) if rs else '-'


def model_request(ins, ivals, T, rnds):
    """Driver request for one executed instruction; ivals = values (raw, flag) of the argument nodes
    (same nesting as args); rnds = list of per-element randomness or None.  Returns None if not modelled,
    ('line', str) or ('enum', nrnd, fn) for membership enumeration."""
    op, args, ex = ins
    Ts = ' '.join(map(str, T))
    r1 = rstr(rnds[0]) if rnds else '-/0'
    if op == 'cint':
        return f'ofint {Ts} {ex}'
    if op == 'cfloat':
        return f'offloat {Ts} {dy(unhex(ex))}'
    if op == 'fromint':
        return f'ofint {Ts} {ex}'
    if op in ('neg', 'pos'):
        return f'{op} {Ts} {vstr(ivals[0])}'
    if op in ('add', 'sub'):
        return f'{op} {Ts} {vstr(ivals[0])} {vstr(ivals[1])}'
    if op == 'mul':
        return f'mulss {Ts} {vstr(ivals[0])} {vstr(ivals[1])} {r1}'
    if op == 'sq':
        return f'mulss {Ts} {vstr(ivals[0])} {vstr(ivals[0])} {r1}'
    if op == 'muli':
        return f'mulint {Ts} {vstr(ivals[0])} {ex}'
    if op == 'mulf':
        return f'mulfloat {Ts} {vstr(ivals[0])} {dy(unhex(ex))} {r1}'
    if op == 'lshift':
        return f'lshift {Ts} {vstr(ivals[0])} {ex}'
    if op in ('ifelse', 'ifswap'):
        return f'{op} {Ts} {vstr(ivals[0])} {vstr(ivals[1])} {vstr(ivals[2])}'
    if op == 'sum':
        return f'sum {Ts} {lstr(ivals[0])}'
    if op == 'inprod':
        return f'inprod {Ts} {lstr(ivals[0])} {lstr(ivals[0] if ex == "alias" else ivals[1])} {r1}'
    if op in ('vadd', 'vsub'):
        return f'{op} {Ts} {lstr(ivals[0])} {lstr(ivals[1])}'
    if op == 'smul':
        return f'smul {Ts} {vstr(ivals[0])} {lstr(ivals[1])} {rlstr(rnds or [])}'
    if op == 'schur':
        return f'schur {Ts} {lstr(ivals[0])} {lstr(ivals[0] if ex == "alias" else ivals[1])} {rlstr(rnds or [])}'
    if op in ('ifelsel', 'ifswapl'):
        return f'{op} {Ts} {vstr(ivals[0])} {lstr(ivals[1])} {lstr(ivals[2])}'
    if op == 'prod':
        return f'prod {Ts} {lstr(ivals[0])} {rlstr(rnds or [])}'
    if op == 'all':
        return f'all {Ts} {lstr(ivals[0])}'
    if op == 'pow':
        return f'pow {Ts} {vstr(ivals[0])} {ex} {rlstr(rnds or [])}'
    if op == 'matprod':
        Am = ivals[0]
        Bm = ivals[0] if ex == 'sym' else ivals[1]
        tr = 1 if ex == 'sym' or ex else 0
        n1 = len(Am)
        n2 = len(Bm) if tr else len(Bm[0])
        rm = '-'
        if rnds:
            if ex == 'sym':  # lower triangle computed, mirrored
                tri = {}
                it = iter(rnds)
                for i in range(n1):
                    for j in range(i + 1):
                        tri[(i, j)] = next(it)
                full = [[tri[(i, j)] if j <= i else tri[(j, i)] for j in range(n1)] for i in range(n1)]
            else:
                full = [rnds[i * n2:(i + 1) * n2] for i in range(n1)]
            rm = ';'.join(rlstr(r) for r in full)
        return f'matprod {Ts} {tr} {";".join(lstr(r) for r in Am)} {";".join(lstr(r) for r in Bm)} {rm}'
    return None


def n_trunc_elems(ins, ivals):
    """number of truncated elements the MODEL consumes for this instruction (flags as given)"""
    op, args, ex = ins
    fl = lambda vs: all(v[1] for v in vs)
    if op in ('mul',):
        return 0 if (ivals[0][1] or ivals[1][1]) else 1
    if op == 'sq':
        return 0 if ivals[0][1] else 1
    if op == 'inprod':
        ys = ivals[0] if ex == 'alias' else ivals[1]
        return 0 if (fl(ivals[0]) or fl(ys)) else 1
    if op == 'smul':
        return 0 if ivals[0][1] else len(ivals[1])
    if op == 'schur':
        ys = ivals[0] if ex == 'alias' else ivals[1]
        return 0 if (fl(ivals[0]) or fl(ys)) else len(ivals[0])
    if op == 'matprod':
        Am = ivals[0]
        Bm = ivals[0] if ex == 'sym' else ivals[1]
        if fl(_flatv(Am)) or fl(_flatv(Bm)):
            return 0
        n1 = len(Am)
        if ex == 'sym':
            return n1 * (n1 + 1) // 2
        return n1 * (len(Bm) if ex else len(Bm[0]))
    return None   # mulf, prod, pow: depends on values / tree


def _flatv(m):
    return [v for r in m for v in r]


# ---------------------------------------------------------------------------------------------
# exact reference (oracle) -- written from the mathematical meaning of the operations
# ---------------------------------------------------------------------------------------------
class Ref:
    """reference value R (Fraction, in units of 1, not scaled) and error bound E (Fraction, in units 2^-f);
    R None = tainted (a comparison too close to call upstream)"""
    __slots__ = ('R', 'E')

    def __init__(self, R, E=Fr(0)):
        self.R, self.E = R, E


def round_half_even(q):
    """Python round() on a Fraction (documented: half to even)"""
    return round(q)


def ref_step(ins, iref, f, raw_out=None):
    """Reference of the outputs of one instruction from the references of its arguments.
    raw_out: actual opened outputs (needed for inputs: their reference IS their opened value)."""
    op, args, ex = ins
    u = Fr(1, 1 << f)
    T = None  # tainted

    def taint(n=1):
        return [Ref(None)] * n

    flat = _flat(iref)
    if any(r.R is None for r in flat):
        n = len(raw_out) if raw_out is not None else 1
        return taint(n)

    def mulb(a, b, extra=1):
        return abs(a.R) * b.E + abs(b.R) * a.E + a.E * b.E * u + extra

    if op in ('cint', 'cfloat', 'craw', 'inputl', 'fromint'):
        return [Ref(Fr(r, 1 << f)) for r in raw_out]
    a = iref[0] if iref else None
    if op == 'neg':
        return [Ref(-a.R, a.E)]
    if op == 'pos':
        return [Ref(a.R, a.E)]
    if op == 'add':
        return [Ref(a.R + iref[1].R, a.E + iref[1].E)]
    if op == 'sub':
        return [Ref(a.R - iref[1].R, a.E + iref[1].E)]
    if op == 'addi':
        return [Ref(a.R + ex, a.E)]
    if op == 'subi':
        return [Ref(a.R - ex, a.E)]
    if op == 'rsubi':
        return [Ref(ex - a.R, a.E)]
    if op == 'addf':
        return [Ref(a.R + Fr(unhex(ex)), a.E + Fr(1, 2))]
    if op == 'mul':
        return [Ref(a.R * iref[1].R, mulb(a, iref[1]))]
    if op == 'sq':
        return [Ref(a.R * a.R, mulb(a, a))]
    if op == 'muli':
        return [Ref(a.R * ex, a.E * abs(ex))]
    if op == 'mulf':
        c = Fr(unhex(ex))
        return [Ref(a.R * c, abs(c) * a.E + (abs(a.R) + a.E * u) / 2 + 1)]
    if op == 'lshift':
        return [Ref(a.R * (1 << ex), a.E * (1 << ex))]
    if op in CMP_OPS:
        b = iref[1]
        if abs(a.R - b.R) * (1 << f) <= a.E + b.E and (a.E or b.E):
            return taint()
        return [Ref(Fr(int(CMP_OPS[op](a.R, b.R))))]
    if op == 'sgn':
        if abs(a.R) * (1 << f) <= a.E and a.E:
            return taint()
        return [Ref(Fr((a.R > 0) - (a.R < 0)))]
    if op == 'modf':
        c = Fr(unhex(ex))
        if a.E or c <= 0:
            return taint()              # only exact dividends: the remainder is discontinuous
        return [Ref(a.R - c * (a.R // c))]
    if op == 'abs':
        if abs(a.R) * (1 << f) <= a.E and a.E:
            return taint()
        return [Ref(abs(a.R), a.E)]
    if op in ('min', 'max'):
        xs = iref[0]
        best = (min if op == 'min' else max)(xs, key=lambda r: r.R)
        for r in xs:
            if r is not best and abs(r.R - best.R) * (1 << f) <= r.E + best.E and (r.E or best.E):
                return taint()
        return [Ref(best.R, best.E)]
    if op == 'ifelse':
        c, x, y = iref
        if c.R not in (0, 1):
            return taint()
        s = x if c.R == 1 else y
        return [Ref(s.R, s.E)]
    if op == 'ifswap':
        c, x, y = iref
        if c.R not in (0, 1):
            return taint(2)
        return [Ref(y.R, y.E), Ref(x.R, x.E)] if c.R == 1 else [Ref(x.R, x.E), Ref(y.R, y.E)]
    if op == 'ifelsel':
        c, xs, ys = iref
        if c.R not in (0, 1):
            return taint(len(xs))
        return [Ref(s.R, s.E) for s in (xs if c.R == 1 else ys)]
    if op == 'ifswapl':
        c, xs, ys = iref
        if c.R not in (0, 1):
            return taint(2 * len(xs))
        if c.R == 1:
            xs, ys = ys, xs
        return [Ref(s.R, s.E) for s in list(xs) + list(ys)]
    if op == 'pow':
        # square-and-multiply error propagation (bound only; the reference is the exact power)
        n = ex
        d, c = a, None
        for i in range(n.bit_length() - 1):
            if (n >> i) & 1:
                c = d if c is None else Ref(c.R * d.R, mulb(c, d))
            d = Ref(d.R * d.R, mulb(d, d))
        c = d if c is None else Ref(c.R * d.R, mulb(c, d))
        return [Ref(a.R ** n, c.E)]
    if op == 'sum':
        xs = iref[0]
        return [Ref(sum(r.R for r in xs), sum(r.E for r in xs))]
    if op == 'inprod':
        xs = iref[0]
        ys = iref[0] if ex == 'alias' else iref[1]
        return [Ref(sum(x.R * y.R for x, y in zip(xs, ys)), sum(mulb(x, y, 0) for x, y in zip(xs, ys)) + 1)]
    if op == 'prod':
        xs = list(iref[0])
        while len(xs) > 1:  # bound follows a balanced pairing; any pairing order has the same reference value
            k0 = len(xs) % 2
            xs = xs[:k0] + [Ref(xs[i].R * xs[i + 1].R, mulb(xs[i], xs[i + 1])) for i in range(k0, len(xs), 2)]
        return [xs[0]]
    if op == 'all':
        xs = iref[0]
        if any(r.R not in (0, 1) for r in xs):
            return taint()
        return [Ref(Fr(int(all(r.R == 1 for r in xs))))]
    if op == 'vadd':
        return [Ref(x.R + y.R, x.E + y.E) for x, y in zip(iref[0], iref[1])]
    if op == 'vaddi':
        return [Ref(x.R + n, x.E) for x, n in zip(iref[0], ex)]
    if op == 'vsub':
        return [Ref(x.R - y.R, x.E + y.E) for x, y in zip(iref[0], iref[1])]
    if op == 'smul':
        return [Ref(a.R * x.R, mulb(a, x)) for x in iref[1]]
    if op == 'schur':
        ys = iref[0] if ex == 'alias' else iref[1]
        return [Ref(x.R * y.R, mulb(x, y)) for x, y in zip(iref[0], ys)]
    if op == 'matprod':
        Am = iref[0]
        Bm = iref[0] if ex == 'sym' else iref[1]
        tr = ex == 'sym' or bool(ex)
        n1 = len(Am)
        n2 = len(Bm) if tr else len(Bm[0])
        out = []
        for i in range(n1):
            for j in range(n2):
                col = Bm[j] if tr else [r[j] for r in Bm]
                out.append(Ref(sum(x.R * y.R for x, y in zip(Am[i], col)),
                               sum(mulb(x, y, 0) for x, y in zip(Am[i], col)) + 1))
        return out
    if op == 'trunc':
        return [Ref(a.R / (1 << ex), a.E / (1 << ex) + 1)]
    if op in ('div', 'divf', 'rdivf'):
        if op == 'div':
            x, y = a, iref[1]
        elif op == 'divf':
            x, y = a, Ref(Fr(unhex(ex)))
        else:   # public float numerator: the code rounds it to a multiple of 2^-f first (mul by a float)
            x, y = Ref(Fr(round_half_even(Fr(unhex(ex)) * (1 << f)), 1 << f)), a
        if abs(y.R) - y.E * u <= 0:
            return taint()
        q = x.R / y.R
        prop = (x.E + abs(q) * y.E) / (abs(y.R) - y.E * u)
        return [Ref(q, prop + 16 * (1 + abs(x.R) + x.E * u + abs(q) + prop * u) + 1)]
    if op in ('sin', 'cos'):
        v = math.sin(a.R) if op == 'sin' else math.cos(a.R)
        return [Ref(Fr(v), a.E + 4 + Fr(1, 4) + (abs(a.R) + a.E * u) / 16)]
    raise KeyError(op)


def exact_unit(ins, ivals, f, l):
    """C02 bounds on the ACTUAL inputs of one instruction.  ivals: (raw, flag) nested like args.
    Returns list of (exact Fraction value in units of 2^-f, allowed deviation in units, strict?) per output,
    or None if the clause is not applicable (result out of range, y = 0, ...)."""
    refs = _map_nested(ivals, lambda v: Ref(Fr(v[0], 1 << f)))
    op, args, ex = ins
    if op in ('cint', 'cfloat', 'craw', 'inputl', 'fromint'):
        return None
    outs = ref_step(ins, refs, f, raw_out=None)
    res = []
    for r in outs:
        if r.R is None:
            return None
        res.append((r.R * (1 << f), r.E))
    return res


def _map_nested(a, fn):
    """nesting = lists, values = tuples (raw, flag)"""
    if isinstance(a, tuple):
        return fn(a)
    return [_map_nested(b, fn) for b in a]


# ---------------------------------------------------------------------------------------------
# program generator
# ---------------------------------------------------------------------------------------------
FLOATS = [0.5, 0.25, 1.5, -0.75, 2.0, 3.0, -1.0, 1.0, 0.0, -0.0, 0.1, 0.3, -0.7, 1e-3, 0.125, 6.0, 2.5]
INTS = [0, 1, -1, 2, 3, -2, 5, -3, 7]


def gen_input_value(rng, l, f, small):
    """('cint', n) or ('cfloat', x): representable, magnitude limited by `small` (Fraction bound)"""
    hi = Fr(1 << (l - 1), 1 << f)          # exclusive bound of the type
    lim = min(hi, small)
    u = 2.0 ** -f
    r = rng.random()
    if r < 0.22:
        n = rng.choice([0, 1, -1, 2, -2, 3, 4, 5, -7])
        if abs(n) < lim:
            return ('cint', n)
        return ('cint', 0)
    if r < 0.32:   # integer-valued float
        n = rng.choice([0, 1, -1, 2, 3, -4])
        return ('cfloat', fhex(float(n) if abs(n) < lim else 0.0))
    if r < 0.42:   # smallest units
        return ('cfloat', fhex(rng.choice([u, -u, 2 * u, 3 * u, -5 * u, 1 + u, 1 - u, -1 + u])))
    if r < 0.50 and small >= hi:   # extremes of the type
        return ('cfloat', fhex(rng.choice([float(hi) - u, -float(hi), float(hi) / 2, -float(hi) / 2 + u])))
    if r < 0.60:   # half-way cases for round half even at input
        kk = rng.randrange(-8, 8)
        return ('cfloat', fhex((kk + 0.5) * u))
    x = rng.uniform(-1, 1) * float(lim) * rng.choice([1, 1, 0.5, 0.1, 0.01])
    if rng.random() < 0.3:
        x = round(x * 4) / 4
    if abs(Fr(x)) >= lim:
        x = 0.0
    return ('cfloat', fhex(x))


class Gen:
    """random straight-line program with exact-reference tracking to stay in range"""

    def __init__(self, rng, lf, max_depth=4, max_len=10, ops=None, allow_div=False, allow_trig=False):
        self.rng, self.l, self.f = rng, lf[0], lf[1]
        self.prog, self.ref, self.depth, self.isbit = [], [], [], []
        self.max_depth, self.max_len = max_depth, max_len
        self.hi = Fr(1 << (self.l - 1), 1 << self.f)
        self.allow_div, self.allow_trig = allow_div, allow_trig
        self.ops = ops

    def emit(self, ins, refs, depth, bit=False):
        first = len(self.ref)
        self.prog.append(ins)
        for r in refs:
            self.ref.append(r)
            self.depth.append(depth)
            self.isbit.append(bit)
        return list(range(first, len(self.ref)))

    def fits(self, refs):
        u = Fr(1, 1 << self.f)
        for r in refs:
            if r.R is None:
                return False
            if abs(r.R) + r.E * u >= self.hi:
                return False
            if r.E > (1 << 40):
                return False
        return True

    def add_input(self, small=None):
        small = self.hi if small is None else small
        kind, v = gen_input_value(self.rng, self.l, self.f, small)
        if kind == 'cint':
            R = Fr(v)
        else:
            R = Fr(round_half_even(Fr(unhex(v)) * (1 << self.f)), 1 << self.f)
        if abs(R) >= self.hi:
            kind, v, R = 'cint', 0, Fr(0)
        return self.emit([kind, [], v], [Ref(R)], 0)[0]

    def pick(self, n=1, maxd=None, distinct=False):
        maxd = self.max_depth - 1 if maxd is None else maxd
        cand = [i for i in range(len(self.ref)) if self.depth[i] <= maxd]
        while len(cand) < max(n, 3) or self.rng.random() < 0.25:
            cand.append(self.add_input(self._small()))
        if distinct:
            return self.rng.sample(cand, n)
        return [self.rng.choice(cand) for _ in range(n)]

    def _small(self):
        # magnitude budget so that products of two typical values fit
        r = self.rng.random()
        root = Fr(math.isqrt(int(self.hi * 4))) / 2
        if r < 0.6:
            return max(root, Fr(1))
        if r < 0.85:
            return max(root / 4, Fr(1, 2))
        return self.hi

    def try_ins(self, ins):
        op, args, ex = ins
        iref = _sel(self.ref, args)
        outs = ref_step(ins, iref, self.f, raw_out=None)
        if not self.fits(outs):
            return None
        d = 1 + max([self.depth[i] for i in _flat(args)] or [0])
        if d > self.max_depth:
            return None
        bit = op in CMP_OPS or op == 'all'
        return self.emit(ins, outs, d, bit)

    def bit_node(self):
        bits = [i for i in range(len(self.ref)) if self.isbit[i] and self.depth[i] < self.max_depth]
        if bits and self.rng.random() < 0.6:
            return self.rng.choice(bits)
        for _ in range(6):
            a, b = self.pick(2, maxd=self.max_depth - 2)
            r = self.try_ins([self.rng.choice(list(CMP_OPS)), [a, b], None])
            if r:
                return r[0]
        return None

    def step(self):
        rng = self.rng
        ops = self.ops or (['add', 'sub', 'neg', 'mul', 'mul', 'sq', 'muli', 'mulf', 'mulf', 'addi', 'rsubi', 'addf',
                             'lshift', 'cmp', 'cmp', 'ifelse', 'ifswap', 'sum', 'inprod', 'inprod', 'prod', 'all',
                             'vadd', 'vaddi', 'vsub', 'smul', 'smul', 'schur', 'schur', 'ifelsel', 'ifswapl',
                             'matprod', 'pow', 'abs', 'min', 'max', 'sgn', 'inputl', 'pos', 'subi', 'fromint']
                            + (['div', 'divf', 'rdivf'] if self.allow_div else [])
                            + (['sin', 'cos'] if self.allow_trig else []))
        op = rng.choice(ops)
        n = rng.choice([1, 2, 2, 3, 4])
        if op in ('add', 'sub', 'mul', 'div'):
            a, b = self.pick(2)
            return self.try_ins([op, [a, b], None])
        if op in ('neg', 'pos', 'sq', 'abs', 'sgn', 'sin', 'cos'):
            return self.try_ins([op, self.pick(1), None])
        if op in ('muli', 'addi', 'subi', 'rsubi'):
            return self.try_ins([op, self.pick(1), rng.choice(INTS)])
        if op in ('mulf', 'addf', 'divf', 'rdivf'):
            c = rng.choice(FLOATS) if rng.random() < 0.7 else rng.choice(
                [rng.uniform(-4, 4), rng.randrange(-40, 40) * 2.0 ** -rng.randrange(0, self.f + 3),
                 (rng.randrange(-8, 8) + 0.5) * 2.0 ** -self.f])
            if op in ('divf',) and c == 0:
                c = 0.5
            return self.try_ins([op, self.pick(1), fhex(c)])
        if op == 'lshift':
            return self.try_ins([op, self.pick(1), rng.choice([0, 1, 2, self.f - 1, self.f, self.f + 1])])
        if op == 'cmp':
            a, b = self.pick(2)
            return self.try_ins([rng.choice(list(CMP_OPS)), [a, b], None])
        if op in ('ifelse', 'ifswap'):
            c = self.bit_node()
            if c is None:
                return None
            x, y = self.pick(2)
            return self.try_ins([op, [c, x, y], None])
        if op in ('sum', 'prod', 'min', 'max'):
            if op in ('min', 'max'):
                n = max(n, 2)
            return self.try_ins([op, [self.pick(n)], None])
        if op == 'all':
            bits = [self.bit_node() for _ in range(n)]
            if any(b is None for b in bits):
                return None
            return self.try_ins([op, [bits], None])
        if op in ('inprod', 'schur'):
            xs = self.pick(n)
            if rng.random() < 0.15:
                return self.try_ins([op, [xs, xs], 'alias'])
            return self.try_ins([op, [xs, self.pick(n)], None])
        if op in ('vadd', 'vsub'):
            return self.try_ins([op, [self.pick(n), self.pick(n)], None])
        if op == 'vaddi':
            return self.try_ins([op, [self.pick(n)], [rng.choice(INTS) for _ in range(n)]])
        if op == 'smul':
            return self.try_ins([op, [self.pick(1)[0], self.pick(n)], None])
        if op in ('ifelsel', 'ifswapl'):
            c = self.bit_node()
            if c is None:
                return None
            return self.try_ins([op, [c, self.pick(n), self.pick(n)], None])
        if op == 'matprod':
            n1, nn, n2 = rng.choice([(1, 1, 1), (1, 2, 1), (2, 2, 2), (2, 1, 2), (1, 2, 2), (2, 3, 1)])
            Am = [self.pick(nn) for _ in range(n1)]
            if rng.random() < 0.2:
                return self.try_ins([op, [Am, Am], 'sym'])
            tr = rng.random() < 0.4
            Bm = [self.pick(nn) for _ in range(n2)] if tr else [self.pick(n2) for _ in range(nn)]
            return self.try_ins([op, [Am, Bm], 1 if tr else 0])
        if op == 'pow':
            return self.try_ins([op, self.pick(1), rng.choice([1, 2, 2, 3, 4, 5, 6])])
        if op == 'trunc':
            return self.try_ins([op, self.pick(1), rng.choice([1, 2, self.f - 1, self.f, rng.randrange(1, self.f + 1)])])
        if op == 'inputl':
            vals, refs = [], []
            for _ in range(n):
                kind, v = gen_input_value(rng, self.l, self.f, self._small())
                vals.append(v)
                R = Fr(v) if kind == 'cint' else Fr(round_half_even(Fr(unhex(v)) * (1 << self.f)), 1 << self.f)
                refs.append(Ref(R))
            if not self.fits(refs):
                return None
            return self.emit(['inputl', [], vals], refs, 0)
        if op == 'fromint':
            nn_ = rng.choice([0, 1, -1, 2, 3, -3])
            if abs(nn_) >= self.hi:
                nn_ = 0
            return self.emit(['fromint', [], nn_], [Ref(Fr(nn_))], 1)
        return None

    def build(self):
        for _ in range(self.rng.choice([1, 2, 2, 3])):
            self.add_input(self._small())
        tries = 0
        nops = 0
        target = self.rng.randrange(3, self.max_len + 1)
        while nops < target and tries < 60:
            tries += 1
            if self.step():
                nops += 1
        return self.prog


def arg_values(prog, records):
    """per instruction: values (raw, flag) of the argument nodes, nested like args; plus node table"""
    nodes = []
    out = []
    for ins, rec in zip(prog, records):
        if 'out' not in rec:
            out.append(None)
            break
        out.append(_sel_vals(nodes, ins[1]))
        nodes.extend((int(r), bool(fl)) for r, fl in rec['out'])
    return out, nodes


def _sel_vals(nodes, a):
    if isinstance(a, list):
        return [_sel_vals(nodes, b) for b in a]
    return nodes[a]


# ---------------------------------------------------------------------------------------------
# property bounds of C02 on the actual inputs of one instruction
# ---------------------------------------------------------------------------------------------
def prop_bounds(ins, ivals, lf):
    """[(exact value in units 2^-f (Fraction), allowed deviation in units, literal division bound or None)] per
    output, or None when no clause applies (inputs, tainted, division by 0, result out of range)."""
    l, f = lf
    op, args, ex = ins
    if op in ('cint', 'cfloat', 'craw', 'inputl', 'fromint'):
        return None
    refs = _map_nested(ivals, lambda v: Ref(Fr(v[0], 1 << f)))
    outs = ref_step(ins, refs, f, raw_out=None)
    hi = Fr(1 << (l - 1), 1 << f)
    res = []
    for r in outs:
        if r.R is None or abs(r.R) >= hi:
            return None
        bound, literal = r.E, None
        if op == 'mulf':
            bound = 2 * (1 + abs(refs[0].R))
        elif op == 'pow':
            bound = ex * (1 + abs(refs[0].R)) ** (ex - 1)
        elif op in ('div', 'divf', 'rdivf'):
            x = refs[0].R if op != 'rdivf' else Fr(round_half_even(Fr(unhex(ex)) * (1 << f)), 1 << f)
            y = refs[1].R if op == 'div' else (Fr(unhex(ex)) if op == 'divf' else refs[0].R)
            if abs(y) < Fr(1, 1 << f):
                return None
            bound = 16 * (1 + abs(x) + abs(r.R))
            literal = 16 * (1 + abs(x))
        elif op in ('sin', 'cos'):
            # literal clause: 4 units; the argument reduction multiplies by 1/(2 pi) rounded to f+6 fractional
            # bits, phase error ~0.049|x| units (known finding C02-sincos-large-argument): regression bound 4+|x|/16
            literal = 4 + Fr(1, 1 << 10)
            bound = literal + abs(refs[0].R) / 16
        res.append((r.R * (1 << f), bound, literal))
    return res


# ---------------------------------------------------------------------------------------------
# checks of one executed program (independent oracle)
# ---------------------------------------------------------------------------------------------
def check_program(prog, res, lf, res_ff=None, want=('flags', 'bounds', 'forced')):
    """Returns list of (kind, message, detail).  kind in {'crash','flag','bound','forced','div-small','div-wide'}"""
    l, f = lf
    viol = []
    if res['error']:
        viol.append(('crash', f"program did not complete: {res['error']}", {}))
        return viol
    recs = res['records']
    ivals, nodes = arg_values(prog, recs)
    # reference chain
    refs = []
    node_of = []
    for idx, (ins, rec) in enumerate(zip(prog, recs)):
        if 'out' not in rec:
            break
        raw = [r for r, _ in rec['out']]
        try:
            outs = ref_step(ins, _sel(refs, ins[1]), f, raw_out=raw)
        except ZeroDivisionError:
            outs = [Ref(None)] * len(raw)
        if len(outs) != len(raw):
            viol.append(('crash', f'instruction {idx} {ins[0]} returned {len(raw)} values, expected {len(outs)}', {'index': idx}))
            return viol
        refs.extend(outs)
        node_of.extend([idx] * len(outs))
    base = 0
    for idx, (ins, rec) in enumerate(zip(prog, recs)):
        if 'out' not in rec:
            break
        op = ins[0]
        outs = rec['out']
        # O1: flag => whole number
        if 'flags' in want:
            for j, (raw, fl) in enumerate(outs):
                if fl and raw % (1 << f) != 0:
                    viol.append(('flag', f'result {j} of instruction {idx} ({op}) is marked integral but its value is '
                                         f'{raw}/2^{f} = {raw / (1 << f)}', {'index': idx, 'output': j, 'raw': raw}))
        # C02 clause bounds on the actual inputs
        if 'bounds' in want:
            pb = None
            try:
                pb = prop_bounds(ins, ivals[idx], lf)
            except ZeroDivisionError:
                pb = None
            if pb is not None:
                for j, ((raw, fl), (exact, bound, literal)) in enumerate(zip(outs, pb)):
                    err = abs(raw - exact)
                    wide = l > 2 * f + 1 and op in ('div', 'divf', 'rdivf')
                    if err > bound or (op == 'trunc' and err >= 1):
                        kind = 'div-wide' if wide else 'bound'
                        viol.append((kind, f'instruction {idx} ({op}): result {raw}/2^{f} deviates {float(err):.6g} units from '
                                           f'the exact value {float(exact):.6g}/2^{f}, allowed {float(bound):.6g}',
                                     {'index': idx, 'output': j, 'raw': raw, 'exact': str(exact), 'bound': str(bound)}))
                    elif literal is not None and err > literal and op in ('sin', 'cos'):
                        viol.append(('sincos-large', f'instruction {idx} ({op}): result deviates {float(err):.6g} units from '
                                                     f'{op}({float(ivals[idx][0][0] / (1 << f)):.6g}), literal bound 4 units',
                                     {'index': idx, 'output': j, 'raw': raw, 'exact': str(exact), 'literal': str(literal)}))
                    elif literal is not None and err > literal:
                        viol.append(('div-small', f'instruction {idx} ({op}): quotient deviates {float(err):.6g} units, '
                                                  f'literal bound 16(1+|x|) = {float(literal):.6g}',
                                     {'index': idx, 'output': j, 'raw': raw, 'exact': str(exact), 'literal': str(literal)}))
        # composition: propagated bound
        if 'forced' in want:
            for j, (raw, fl) in enumerate(outs):
                r = refs[base + j]
                if r.R is not None and not (l > 2 * f + 1 and _uses_div(prog, idx)):
                    if abs(raw - r.R * (1 << f)) > r.E:
                        viol.append(('forced', f'instruction {idx} ({op}): value {raw}/2^{f} is {float(abs(raw - r.R * (1 << f))):.6g} '
                                               f'units from the exact reference of the program, propagated bound {float(r.E):.6g}',
                                     {'index': idx, 'output': j, 'raw': raw}))
        base += len(outs)
    if res_ff is not None and 'forced' in want:
        if res_ff['error']:
            viol.append(('crash', f"program with flags forced False did not complete: {res_ff['error']}", {'force_false': True}))
            return viol
        base = 0
        for idx, (ins, rec, rec2) in enumerate(zip(prog, recs, res_ff['records'])):
            if ('out' in rec) != ('out' in rec2):
                if 'out' in rec and ins[0] in ('ifelse', 'ifswap', 'ifelsel', 'ifswapl', 'all'):
                    break   # condition lost its flag: the code refuses (ValueError), allowed
                viol.append(('forced', f'instruction {idx} ({ins[0]}): error behaviour depends on the flags '
                                       f'({rec.get("error")} vs {rec2.get("error")})', {'index': idx}))
                break
            if 'out' not in rec:
                break
            for j, ((raw, fl), (raw2, fl2)) in enumerate(zip(rec['out'], rec2['out'])):
                r = refs[base + j]
                if fl2 and raw2 % (1 << f) != 0 and 'flags' in want:
                    viol.append(('flag', f'(inputs forced non-integral) result {j} of instruction {idx} ({ins[0]}) is marked '
                                         f'integral but is {raw2}/2^{f}', {'index': idx, 'output': j, 'raw': raw2, 'force_false': True}))
                if r.R is None or (l > 2 * f + 1 and _uses_div(prog, idx)):
                    continue
                if abs(raw2 - r.R * (1 << f)) > r.E or abs(raw2 - raw) > 2 * r.E:
                    viol.append(('forced', f'instruction {idx} ({ins[0]}): with all input flags forced False the value is '
                                           f'{raw2}/2^{f}, with flags {raw}/2^{f}; exact {float(r.R * (1 << f)):.6g}/2^{f}, '
                                           f'rounding bound {float(r.E):.6g} units',
                                 {'index': idx, 'output': j, 'raw': raw, 'raw_forced_false': raw2}))
            base += len(rec['out'])
    return viol


def _uses_div(prog, idx, _memo=None):
    """does instruction idx (transitively) depend on a division?"""
    dep = set()
    first = []
    n = 0
    for ins in prog:
        first.append(n)
        n += _nout(ins)
    owner = []
    for k, ins in enumerate(prog):
        owner.extend([k] * _nout(ins))
    tainted = [False] * len(prog)
    for k, ins in enumerate(prog):
        tainted[k] = ins[0] in ('div', 'divf', 'rdivf') or any(tainted[owner[a]] for a in _flat(ins[1]))
    return tainted[idx]


def _nout(ins):
    op, args, ex = ins
    if op in ('vadd', 'vsub', 'vaddi', 'schur'):
        return len(args[0])
    if op in ('smul', 'ifelsel'):
        return len(args[1])
    if op == 'ifswapl':
        return 2 * len(args[1])
    if op == 'ifswap':
        return 2
    if op == 'inputl':
        return len(ex)
    if op == 'matprod':
        Am, Bm = args[0], args[0] if ex == 'sym' else args[1]
        tr = ex == 'sym' or bool(ex)
        return len(Am) * (len(Bm) if tr else len(Bm[0]))
    return 1


# ---------------------------------------------------------------------------------------------
# correspondence of executed instructions with the Lean model
# ---------------------------------------------------------------------------------------------
def tz_of(b, f):
    if b == 0:
        return 0
    return max(0, min(f, (b & -b).bit_length() - 1))


def corr_items(prog, res, lf, force_false=False):
    """-> list of items {'req': [lines], 'impl': str, 'mode': 'exact'|'member', 'what': op}"""
    l, f = lf
    if res['error'] or res.get('p') is None:
        return []
    T = (l, f, res['k'], res['p'])
    recs = res['records']
    ivals, _ = arg_values(prog, recs)
    items = []
    for idx, (ins, rec) in enumerate(zip(prog, recs)):
        op, args, ex = ins
        if op in ORACLE_ONLY and op not in ('abs',):
            continue
        if op in ('addi', 'subi', 'rsubi', 'addf', 'vaddi', 'craw', 'trunc', 'abs'):
            # coerced constants: modelled as constructor followed by the binary op
            items.extend(_coerced_items(ins, ivals[idx], rec, T))
            continue
        if force_false and op in ('cint', 'cfloat'):
            continue
        if 'out' not in rec:
            if ivals[idx] is None:
                break
            impl = rec['error']
        else:
            impl = _impl_line(op, rec['out'], ins)
        rnds = None
        if 'calls' in rec:
            rnds = calls_to_rnds(rec['calls'], res['p'])
        iv = ivals[idx] if ivals[idx] is not None else None
        if iv is None:
            break
        need = n_trunc_elems(ins, iv)
        if op in ('mul', 'sq', 'mulf', 'inprod', 'smul', 'schur', 'matprod', 'prod', 'pow'):
            usable = rnds is not None and op != 'pow' and (need is None or len(rnds) == need)
            if op == 'mulf' and usable:
                usable = len(rnds) <= 1
            if need == 0:
                usable, rnds = True, None
            if rnds is None and 'calls' not in rec and op in ('mulf', 'prod') and need is None:
                usable = False
            if usable:
                line = model_request(ins, iv, T, rnds)
                items.append({'req': [line], 'impl': impl, 'mode': 'exact', 'what': op, 'index': idx})
            else:
                # membership: every truncation either floor (all bits 0) or ceiling (all bits 1)
                if op == 'mulf':
                    d = f - tz_of(round(unhex(ex) * 2 ** f), f)
                    nel = 1
                elif op == 'pow':
                    d, nel = f, 2 * max(1, ex.bit_length())
                elif op == 'prod':
                    d, nel = f, max(1, len(iv[0]) - 1)
                else:
                    d, nel = f, max(1, need or 1)
                if nel > 7:
                    continue
                lines = []
                for mask in range(1 << nel):
                    rr = [(('1' if (mask >> i) & 1 else '0') * d or '-', 0) for i in range(nel)]
                    lines.append(model_request(ins, iv, T, rr))
                items.append({'req': lines, 'impl': impl, 'mode': 'member', 'what': op, 'index': idx})
        else:
            line = model_request(ins, iv, T, None)
            if line is not None:
                items.append({'req': [line], 'impl': impl, 'mode': 'exact', 'what': op, 'index': idx})
    return items


def _impl_line(op, outs, ins):
    vs = [vstr(v) for v in outs]
    if op in ('ifswap',):
        return ' '.join(vs)
    if op == 'ifswapl':
        h = len(vs) // 2
        return ','.join(vs[:h]) + ' ' + ','.join(vs[h:])
    if op == 'matprod':
        n1 = len(ins[1][0])
        n2 = len(vs) // n1
        return ';'.join(','.join(vs[i * n2:(i + 1) * n2]) for i in range(n1))
    return ','.join(vs)


def _coerced_items(ins, iv, rec, T):
    """`a + 3`, `a - 3`, `3 - a`, `a + 0.3`, vector_add(x, ints): the code builds secfxp(const) and applies the
    secure operation; the request feeds the model's constructor output into the model's binary operation."""
    op, args, ex = ins
    l, f, k, p = T
    Ts = ' '.join(map(str, T))
    if 'out' not in rec or iv is None:
        return []
    items = []
    if op in ('addi', 'subi', 'rsubi', 'addf'):
        if op == 'addf':
            b = (round(unhex(ex) * 2 ** f), unhex(ex).is_integer())
            items.append({'req': [f'offloat {Ts} {dy(unhex(ex))}'], 'impl': vstr(b), 'mode': 'exact', 'what': 'addf-const'})
        else:
            b = (ex << f, True)
        a = iv[0]
        mop = 'add' if op in ('addi', 'addf') else 'sub'
        x, y = (b, a) if op == 'rsubi' else (a, b)
        items.append({'req': [f'{mop} {Ts} {vstr(x)} {vstr(y)}'], 'impl': vstr(tuple(rec['out'][0])), 'mode': 'exact', 'what': op})
    elif op == 'vaddi':
        ys = [(n << f, True) for n in ex]
        items.append({'req': [f'vadd {Ts} {lstr(iv[0])} {lstr(ys)}'], 'impl': lstr([tuple(v) for v in rec['out']]),
                      'mode': 'exact', 'what': op})
    elif op == 'abs':
        pass
    elif op == 'trunc':
        rnds = calls_to_rnds(rec['calls'], p) if 'calls' in rec else None
        if rnds is not None and len(rnds) == 1:
            c = rec['calls'][0]['open'][0]
            items.append({'req': [f'trunc {p} {ex} {l + ex} {iv[0][0]} {rnds[0][0]} {rnds[0][1]}'],
                          'impl': f'{c} {rec["out"][0][0]}', 'mode': 'exact', 'what': 'trunc'})
    return items


def run_corr(ctx, items, what):
    """send all requests through the Lean driver and compare"""
    import common
    lines = [ln for it in items for ln in it['req']]
    if not lines:
        return
    out = common.LeanDriver('Fxp').run(lines)
    if isinstance(out, common.DriverFailure):
        ctx.mismatch(f'{what}: Lean driver failure: {out.describe()}', {'kind': 'correspondence', 'driver': out.describe()})
        return
    pos = 0
    rep = 0
    for it in items:
        ans = out[pos:pos + len(it['req'])]
        pos += len(it['req'])
        ctx.corr_compared += 1
        ctx.count('corr:' + it['what'] + ':' + it['mode'])
        ok = it['impl'] == ans[0] if it['mode'] == 'exact' else it['impl'] in ans
        if not ok and rep < 4:
            rep += 1
            ctx.mismatch(f'{what}: real code and Lean model disagree on {it["what"]}',
                         {'kind': 'correspondence', 'what': it['what'], 'request': it['req'][:4], 'impl': it['impl'],
                          'model': ans[:4], 'mode': it['mode'], 'origin': it.get('origin')})


# ---------------------------------------------------------------------------------------------
# exploration: programs x configurations, in worker processes
# ---------------------------------------------------------------------------------------------
def _job(job):
    import random
    (key, cfg, lf, seed, opts) = job
    rng = random.Random(f'{seed}:{key}')
    if opts.get('prog') is not None:
        prog = opts['prog']
    else:
        g = Gen(rng, lf, max_depth=opts.get('depth', 4), max_len=opts.get('len', 9), ops=opts.get('ops'),
                allow_div=opts.get('div', False), allow_trig=opts.get('trig', False))
        prog = g.build()
    res = run_real(tuple(cfg), tuple(lf), prog, seed=rng.randrange(1 << 30))
    res_ff = None
    if opts.get('forced', True):
        res_ff = run_real(tuple(cfg), tuple(lf), prog, seed=rng.randrange(1 << 30), force_false=True)
    return _strip(key, cfg, lf, prog, res, res_ff)


def _strip(key, cfg, lf, prog, res, res_ff):
    return {'key': key, 'cfg': list(cfg), 'lf': list(lf), 'prog': prog, 'res': res, 'res_ff': res_ff}


def explore(ctx, jobs, procs=14):
    import multiprocessing as mp
    if not jobs:
        return []
    if procs <= 1 or len(jobs) < 4:
        return [_job(j) for j in jobs]
    with mp.get_context('fork').Pool(min(procs, len(jobs))) as pool:
        return pool.map(_job, jobs, chunksize=max(1, len(jobs) // (procs * 8)))


def prog_key(prog):
    return repr(prog)


# ---------------------------------------------------------------------------------------------
# product-tree sweep: mpc.prod / mpc.all over lists of EVERY length 1..10 with mixed integrality patterns
# ---------------------------------------------------------------------------------------------
PROD_FRACS = [0.3, 0.7, 1.1, -0.9, 1.3, -0.7, 0.9, 1.7, -1.1, 0.6]
PROD_INTS = [1, -1, 1, 2, 1, -1, 3, 1, 1, -2]


def prod_program(rng, lf, n, pattern):
    """pattern: n booleans (True = integral input).  Inputs chosen so that the product stays in range."""
    l, f = lf
    hi = Fr(1 << (l - 1), 1 << f)
    for attempt in range(40):
        prog, refs = [], []
        for k in range(n):
            if pattern[k]:
                v = rng.choice(PROD_INTS if attempt < 20 else [1, -1, 1])
                if rng.random() < 0.3:
                    prog.append(['cfloat', [], fhex(float(v))])     # integer-valued float: flag by is_integer
                else:
                    prog.append(['cint', [], v])
                refs.append(Ref(Fr(v)))
            else:
                x = rng.choice(PROD_FRACS) if rng.random() < 0.7 else round(rng.uniform(-1.6, 1.6), 3)
                if x == 0 or float(x).is_integer():
                    x = 0.3
                prog.append(['cfloat', [], fhex(x)])
                refs.append(Ref(Fr(round_half_even(Fr(x) * (1 << f)), 1 << f)))
        ins = ['prod', [list(range(n))], None]
        out = ref_step(ins, [refs], f)
        u = Fr(1, 1 << f)
        # every partial product of the tree must fit as well: bound by the product of magnitudes
        mag = Fr(1)
        for r in refs:
            mag *= max(abs(r.R), Fr(1))
        if out[0].R is not None and mag + out[0].E * u < hi:
            prog.append(ins)
            return prog
    return None


def all_program(rng, n):
    bits = [rng.choice([0, 1, 1, 1]) for _ in range(n)]
    if rng.random() < 0.3:
        bits = [1] * n
    prog = [['cint', [], b] for b in bits]
    prog.append(['all', [list(range(n))], None])
    return prog


def prod_sweep_jobs(ctx, tag, forced=True):
    """jobs for explore(): quick = all patterns for n <= 6 on one party + samples elsewhere; thorough = all
    patterns for n <= 7 on three configurations"""
    import itertools
    rng = ctx.subrng('prodsweep', tag)
    jobs = []
    full_n = 7 if ctx.thorough else 6
    cfgs_full = CFGS_QUICK if ctx.thorough else CFGS_QUICK[:1]
    types_full = [(16, 8), (32, 16)] if not ctx.thorough else [(16, 8), (32, 16), (64, 32)]
    k = 0
    for cfg in cfgs_full:
        for n in range(1, full_n + 1):
            for pat in itertools.product([True, False], repeat=n):
                lf = types_full[k % len(types_full)]
                k += 1
                prog = prod_program(rng, lf, n, pat)
                if prog is not None:
                    jobs.append((f'{tag}:full:{cfg}:{lf}:{n}:{k}', cfg, lf, ctx.seed, {'prog': prog, 'forced': forced}))
    for cfg in CFGS_QUICK:
        for n in range(1, 11):
            for _ in range(ctx.scale(2, 10)):
                lf = TYPES[k % len(TYPES)]
                k += 1
                pat = [rng.random() < 0.5 for _ in range(n)]
                prog = prod_program(rng, lf, n, pat)
                if prog is not None:
                    jobs.append((f'{tag}:smp:{cfg}:{lf}:{n}:{k}', cfg, lf, ctx.seed, {'prog': prog, 'forced': forced}))
            lf = [(16, 8), (64, 32), (8, 4)][n % 3]
            k += 1
            jobs.append((f'{tag}:all:{cfg}:{lf}:{n}:{k}', cfg, lf, ctx.seed, {'prog': all_program(rng, n), 'forced': False}))
    return jobs
