"""Independent reference for the number-theory helpers (C25) and prime-field generation (C26).

Written from the textbook definitions (Euler's criterion, the extension rules of the Kronecker symbol,
the GMP manual's wording of the mpz_gcdext normalisation, Wang's uniqueness condition for rational
reconstruction), NOT from mpyc/gmpy.py and not from the Lean model.  Primality comes from a sieve
(small numbers) and sympy.isprime (large numbers; sympy's test is deterministic below 2^64 and a strong
BPSW test above).

`check(fn, args, outcome)` returns None when `outcome` is acceptable for the property and a message
otherwise.  outcome = ('ok', value) | ('err', ExceptionClassName).
"""
import math
import sys

if '/verif/.deps' not in sys.path:
    sys.path.append('/verif/.deps')
import sympy  # noqa: E402

_SIEVE_N = 1_200_000
_sieve = None


def sieve():
    global _sieve
    if _sieve is None:
        s = bytearray([1]) * (_SIEVE_N + 1)
        s[0] = s[1] = 0
        for i in range(2, int(_SIEVE_N ** 0.5) + 1):
            if s[i]:
                s[i*i::i] = bytearray(len(range(i*i, _SIEVE_N + 1, i)))
        _sieve = s
    return _sieve


def is_prime(x):
    if x < 2:
        return False
    if x <= _SIEVE_N:
        return bool(sieve()[x])
    return bool(sympy.isprime(x))


def next_prime(x):
    y = max(x + 1, 2)
    while not is_prime(y):
        y += 1
    return y


def prev_prime(x):
    """largest prime < x, None if there is none"""
    y = x - 1
    while y >= 2 and not is_prime(y):
        y -= 1
    return y if y >= 2 else None


def sgn(a):
    return (a > 0) - (a < 0)


def factorint(n):
    """prime factorisation of n >= 1 as dict (trial division for small n, sympy otherwise)"""
    if n <= _SIEVE_N:
        f = {}
        d = 2
        while d * d <= n:
            while n % d == 0:
                f[d] = f.get(d, 0) + 1
                n //= d
            d += 1 if d == 2 else 2
        if n > 1:
            f[n] = f.get(n, 0) + 1
        return f
    return {int(p): int(e) for p, e in sympy.factorint(n).items()}


def legendre_euler(x, p):
    """Legendre symbol for an odd prime p by Euler's criterion"""
    r = pow(x % p, (p - 1) // 2, p)
    return -1 if r == p - 1 else r  # r in {0, 1, p-1}


def jacobi_def(x, y, factors=None):
    """Jacobi symbol (x|y), y odd > 0, as the product of Legendre symbols"""
    j = 1
    for p, e in (factors or factorint(y)).items():
        j *= legendre_euler(x, p) ** e
    return j


def kronecker_def(x, y, factors=None):
    """Kronecker symbol by its extension rules"""
    if y == 0:
        return 1 if abs(x) == 1 else 0
    k = 1
    if y < 0:
        y = -y
        if x < 0:
            k = -1
    e = 0
    while y % 2 == 0:
        y //= 2
        e += 1
    if e:
        if x % 2 == 0:
            two = 0
        elif x % 8 in (1, 7):
            two = 1
        else:
            two = -1
        k *= two ** e
    return k * jacobi_def(x, y, factors)


def gcdext_gmp_ok(a, b, g, s, t):
    """GMP manual, mpz_gcdext: g = gcd >= 0, a s + b t = g and
    'normally |s| < |b|/(2g) and |t| < |a|/(2g) ... If |a| = |b| then s = 0, t = sgn(b).
     Otherwise s = sgn(a) if b = 0 or |b| = 2g, and t = sgn(b) if a = 0 or |a| = 2g.
     In all cases s = 0 iff g = |b|.'"""
    if g != math.gcd(a, b):
        return 'g is not gcd(a, b)'
    if a * s + b * t != g:
        return 'a*s + b*t != g'
    if abs(a) == abs(b):
        if (s, t) != (0, sgn(b)):
            return '|a| = |b| requires s = 0, t = sgn(b)'
        return None
    if b == 0 or abs(b) == 2 * g:
        if s != sgn(a):
            return 'b = 0 or |b| = 2g requires s = sgn(a)'
    elif not 2 * g * abs(s) < abs(b):
        return '|s| < |b|/(2g) violated'
    if a == 0 or abs(a) == 2 * g:
        if t != sgn(b):
            return 'a = 0 or |a| = 2g requires t = sgn(b)'
    elif not 2 * g * abs(t) < abs(a):
        return '|t| < |a|/(2g) violated'
    if (s == 0) != (g == abs(b)):
        return 's = 0 iff g = |b| violated'
    return None


def ratrec_bounds(y, N, D):
    """default bounds as documented: N = D = ~sqrt(y/2); returns (N, D) or None if the call is invalid"""
    if N is None:
        if D is None:
            if (y - 1) // 2 < 0:
                return None
            D = max(1, math.isqrt((y - 1) // 2))
        if D == 0:
            return None
        N = (y - 1) // (2 * D)
    elif D is None:
        D = (y - 1) // (2 * N) if N else 1
    if N < 0 or D <= 0 or 2 * N * D >= y:
        return None
    return N, D


def ratrec_solutions(x, y, N, D, limit=200000):
    """all (n, d) with n = x d mod y, |n| <= N, 0 < d <= D, gcd(n, d) = 1 (brute force over d); None if too big"""
    if D > limit:
        return None
    sols = []
    for d in range(1, D + 1):
        n = (x * d) % y
        for nn in (n, n - y):
            if abs(nn) <= N and math.gcd(nn, d) == 1:
                sols.append((nn, d))
    return sols


def _same(outcome, expected):
    return None if outcome == expected else f'expected {expected}'


def check(fn, args, outcome, hint=None):
    kind, val = outcome
    if fn == 'is_prime':
        return _same(outcome, ('ok', is_prime(args[0])))
    if fn == 'next_prime':
        return _same(outcome, ('ok', next_prime(args[0])))
    if fn == 'prev_prime':
        p = prev_prime(args[0])
        return _same(outcome, ('ok', p) if p is not None else ('err', 'ValueError'))
    if fn == 'powmod':
        x, y, m = args
        if m == 0:
            return _same(outcome, ('err', 'ValueError'))
        if y >= 0:
            r = 1 % m           # own square-and-multiply (left to right)
            for bit in bin(y)[2:]:
                r = r * r % m
                if bit == '1':
                    r = r * x % m
            return _same(outcome, ('ok', r))
        if math.gcd(x, m) != 1:
            return _same(outcome, ('err', 'ValueError'))
        if kind != 'ok':
            return 'inverse exists but error raised'
        lo, hi = (0, m) if m > 0 else (m + 1, 1)
        if not lo <= val < hi:
            return 'result out of range'
        if (val * pow(x, -y)) % m != 1 % m:
            return 'result * x^|y| != 1 (mod m)'
        return None
    if fn == 'invert':
        x, m = args
        if m == 0 or (abs(m) != 1 and math.gcd(x, m) != 1):
            return _same(outcome, ('err', 'ZeroDivisionError'))
        if kind != 'ok':
            return 'inverse exists but error raised'
        if abs(m) == 1:
            return _same(outcome, ('ok', 0))
        if not (0 < val < abs(m) and (x * val) % abs(m) == 1):
            return 'not 0 < y < |m| with x*y = 1 (mod m)'
        return None
    if fn == 'gcdext':
        if kind != 'ok':
            return 'unexpected error'
        return gcdext_gmp_ok(args[0], args[1], *val)
    if fn in ('jacobi', 'legendre'):
        x, y = args
        if y <= 0 or y % 2 == 0:
            return _same(outcome, ('err', 'ValueError'))
        return _same(outcome, ('ok', jacobi_def(x, y, hint)))
    if fn == 'kronecker':
        return _same(outcome, ('ok', kronecker_def(args[0], args[1], hint)))
    if fn == 'isqrt':
        x, = args
        if x < 0:
            return _same(outcome, ('err', 'ValueError'))
        if kind != 'ok' or not (val >= 0 and val * val <= x < (val + 1) * (val + 1)):
            return 'not y >= 0, y^2 <= x < (y+1)^2'
        return None
    if fn == 'is_square':
        x, = args
        if hint is not None:
            exp = hint
        else:
            exp = x >= 0 and round_sqrt_exact(x)
        return _same(outcome, ('ok', exp))
    if fn == 'iroot':
        x, n = args
        if x < 0 or n <= 0:
            return _same(outcome, ('err', 'ValueError'))
        if kind != 'ok':
            return 'unexpected error'
        y, b = val
        if not (y >= 0 and y ** n <= x < (y + 1) ** n):
            return 'not y^n <= x < (y+1)^n'
        if bool(b) != (y ** n == x) or not isinstance(b, bool):
            return 'exactness flag wrong'
        return None
    if fn == 'factor_prime_power':
        x, = args
        if hint is not None:
            exp = hint           # ('ok', (p, d)) | ('err', 'ValueError'), known by construction
        elif x <= 1:
            exp = ('err', 'ValueError')
        else:
            f = factorint(x)
            exp = ('ok', next(iter(f.items()))) if len(f) == 1 else ('err', 'ValueError')
        return _same(outcome, exp)
    if fn == 'ratrec':
        x, y, N, D = args
        nd = ratrec_bounds(y, N, D)
        if nd is None:
            return None if kind == 'err' else 'invalid arguments accepted'
        N, D = nd
        if kind == 'ok':
            n, d = val
            if not ((n - x * d) % y == 0 and abs(n) <= N and 0 < d <= D and math.gcd(n, d) == 1):
                return 'result is not a valid reconstruction'
        elif val != 'ValueError':
            return f'unexpected {val}'
        sols = ratrec_solutions(x, y, N, D)
        if sols is not None:
            if len(sols) > 1:
                return f'oracle: solution not unique?! {sols[:3]}'
            if kind == 'ok' and sols != [val]:
                return f'expected {sols}'
            if kind == 'err' and sols:
                return f'reconstruction {sols[0]} exists but error raised'
        elif hint is not None:   # constructed instance: (n, d) known
            if outcome != ('ok', hint):
                return f'expected {hint}'
        return None
    raise KeyError(fn)


def round_sqrt_exact(x):
    """x >= 0 is a perfect square? (own Newton iteration, no math.isqrt)"""
    if x < 2:
        return True
    r = 1 << ((x.bit_length() + 1) // 2)
    while True:
        nr = (r + x // r) // 2
        if nr >= r:
            break
        r = nr
    return r * r == x


def order_mod(w, p, n):
    """multiplicative order of w modulo prime p equals n? (n = 1 or prime, or small)"""
    if w % p == 0:
        return False
    if pow(w, n, p) != 1:
        return False
    for q in factorint(n):
        if pow(w, n // q, p) == 1:
            return False
    return True
