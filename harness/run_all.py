#!/venv/bin/python
"""Run several property checks (in parallel) and summarise: run_all.py [--tier t] [--jobs n] [ids...]"""
import argparse, glob, os, subprocess, sys, time, re
from concurrent.futures import ThreadPoolExecutor
HERE = os.path.dirname(os.path.abspath(__file__))
ap = argparse.ArgumentParser()
ap.add_argument('ids', nargs='*')
ap.add_argument('--tier', default='quick')
ap.add_argument('--jobs', type=int, default=4)
ap.add_argument('--timeout', type=int, default=3000)
a = ap.parse_args()
ids = a.ids or sorted(os.path.basename(f)[:-3].upper() for f in glob.glob(os.path.join(HERE, 'props', 'c*.py')))
def one(pid):
    t0 = time.time()
    try:
        p = subprocess.run([sys.executable, os.path.join(HERE, 'check.py'), pid, '--tier', a.tier], cwd=os.path.dirname(HERE),
                           capture_output=True, text=True, timeout=a.timeout)
        out = p.stdout + p.stderr
        rc = p.returncode
    except subprocess.TimeoutExpired:
        out, rc = 'TIMEOUT', 2
    lines = [l for l in out.split('\n') if re.search(r'VIOLATION|KNOWN-FINDING|INFRA|tier=', l)]
    return pid, rc, round(time.time() - t0), lines
with ThreadPoolExecutor(a.jobs) as ex:
    for pid, rc, dt, lines in ex.map(one, ids):
        print(f'{pid} rc={rc} {dt}s')
        for l in lines[-6:]:
            print('    ' + l[:260])
        sys.stdout.flush()
