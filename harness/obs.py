"""Observation points on the real runtime, installed by the harness at run time (no repo edits).

Recorder patches, for the duration of a `with` block:
  Runtime._send_message / _receive_message   -> per-party event lists ('S', peer, label, nbytes) / ('R', peer, label)
  Runtime._prss_uci                          -> ('U', label)
  asyncoro._ProgramCounterWrapper            -> ('K', child_id, child_pc0, child_depth) at fork,
                                                ('B', id) / ('E', id, pc_after) around every step of a pc-carrying task
  asyncoro.mpc_coro's Task creation          -> registry of tasks and whether they carry a pc
Events are appended to `rec.ev[pid]` in execution order of that party.
"""
import asyncio
import sys
import os
sys.path.insert(0, os.path.dirname(os.path.abspath(__file__)))
import simnet
from simnet import CUR, rtmod, asyncoro


class Recorder:
    def __init__(self, m, track_pc=False, track_tasks=False):
        self.m = m
        self.ev = [[] for _ in range(m)]
        self.marks = [[] for _ in range(m)]
        self.track_pc = track_pc
        self.track_tasks = track_tasks
        self.next_id = [0] * m
        self.cur_task = [None] * m      # id of the pc-carrying task whose step is running (else None)
        self.nopc_violation = []        # pc-actions performed by tasks without own pc after their first suspension

    def mark(self, name):
        p = CUR.get()
        self.marks[p].append((name, len(self.ev[p])))

    def window(self, p, start, end):
        a = next(i for n, i in self.marks[p] if n == start)
        b = next(i for n, i in self.marks[p] if n == end)
        return self.ev[p][a:b]

    def __enter__(self):
        rec = self
        R = rtmod.Runtime
        self._orig = (R._send_message, R._receive_message, R._prss_uci, asyncoro._ProgramCounterWrapper)
        o_send, o_recv, o_uci, o_wrap = self._orig

        def origin(p):
            """who is running on the ambient counter: None inside a pc-carrying step, 'main' for the
            party's main program, otherwise the identity of the (no-pc) task or callback"""
            if rec.cur_task[p] is not None or not rec.track_pc:
                return None
            try:
                tk = asyncio.current_task()
            except RuntimeError:
                tk = None
            if tk is None:
                return 'callback'
            if getattr(tk, '_verif_main', None) is not None:
                return 'main'
            return f'task{id(tk)}'

        def _send_message(self_, peer_pid, data):
            rec.ev[self_.pid].append(('S', peer_pid, self_._program_counter[0], len(data),
                                      sys._getframe(1).f_code.co_name, origin(self_.pid)))
            return o_send(self_, peer_pid, data)

        def _receive_message(self_, peer_pid):
            rec.ev[self_.pid].append(('R', peer_pid, self_._program_counter[0],
                                      sys._getframe(1).f_code.co_name, origin(self_.pid)))
            return o_recv(self_, peer_pid)

        def _prss_uci(self_):
            r = o_uci(self_)
            rec.ev[self_.pid].append(('U', self_._program_counter[0], origin(self_.pid)))
            return r

        R._send_message = _send_message
        R._receive_message = _receive_message
        R._prss_uci = _prss_uci

        if self.track_pc:
            class Wrapper(o_wrap):
                __slots__ = ('vid',)

                def __init__(w, rt, coro):
                    o_wrap.__init__(w, rt, coro)
                    p = rt.pid
                    w.vid = rec.next_id[p]
                    rec.next_id[p] += 1
                    rec.ev[p].append(('K', w.vid, w.pc[0], w.pc[1], origin(p),
                                      getattr(getattr(coro, 'cr_code', None), 'co_name', '?')))

                def __await__(w):
                    # same logic as the original, with begin/end markers around each step
                    p = w.runtime.pid
                    gen = o_wrap.__await__(w)
                    val = None
                    first = True
                    while True:
                        rec.ev[p].append(('B', w.vid))
                        prev = rec.cur_task[p]
                        rec.cur_task[p] = w.vid
                        try:
                            val = gen.send(None) if first else gen.send(val)
                            first = False
                        except StopIteration as exc:
                            rec.ev[p].append(('E', w.vid, None))
                            return exc.value
                        finally:
                            rec.cur_task[p] = prev
                        rec.ev[p].append(('E', w.vid, w.pc[0]))
                        val = yield val
            asyncoro._ProgramCounterWrapper = Wrapper
        return self

    def __exit__(self, *exc):
        R = rtmod.Runtime
        R._send_message, R._receive_message, R._prss_uci, asyncoro._ProgramCounterWrapper = self._orig
        return False


def sends_of(events):
    return [(e[1], e[2]) for e in events if e[0] == 'S']


def recvs_of(events):
    return [(e[1], e[2]) for e in events if e[0] == 'R']


def to_steps(events):
    """Convert one party's recorded event stream into the model's step list and the expected answer.

    Returns (request_line, expected_line, wf_violations) or (None, reason, []) if the stream has a shape
    the model does not cover (nested steps)."""
    path = {}          # vid -> path tuple
    nforks = {}        # context key -> number of forks so far
    steps = []         # (ctxkey, wrapped, [acts])
    evs = {}           # ctxkey -> [event strings]
    order = []
    cur = None         # vid of the running wrapped step
    origins = {}
    wf_viol = []

    def ctx_path(key):
        if key == 'main':
            return ()
        if isinstance(key, int):
            return path[key]
        if key not in origins:
            origins[key] = (9000 + len(origins),)
        return origins[key]

    def add(key, wrapped, act, evstr, what):
        if not steps or steps[-1][0] != key or steps[-1][1] != wrapped or (wrapped and steps[-1][3]):
            steps.append([key, wrapped, [], False])
        steps[-1][2].append(act)
        if key not in evs:
            evs[key] = []
            order.append(key)
        evs[key].append(evstr)
        if not wrapped and key != 'main':
            wf_viol.append((key, what))

    for e in events:
        k = e[0]
        if k == 'B':
            if cur is not None:
                return None, 'nested step', []
            cur = e[1]
            steps.append([cur, True, [], False])
        elif k == 'E':
            if cur != e[1]:
                return None, 'unbalanced step', []
            # close the step
            for st in reversed(steps):
                if st[0] == cur and st[1]:
                    st[3] = True
                    break
            cur = None
        else:
            if cur is not None:
                key, wrapped = cur, True
            else:
                org = e[-2] if k == 'K' else e[-1]
                key, wrapped = (org or 'main'), False
            if k == 'K':
                parent = ctx_path(key)
                j = nforks.get(key, 0)
                nforks[key] = j + 1
                path[e[1]] = parent + (j,)
                add(key, wrapped, 'f', f'K{e[2]}/{e[3]}', f'fork of {e[-1]}')
            elif k == 'U':
                add(key, wrapped, 'u', f'U{e[1]}', 'uci')
            elif k == 'S':
                add(key, wrapped, f's{e[1]}', f'S{e[1]}:{e[2]}', f'send in {e[4]}')
            elif k == 'R':
                add(key, wrapped, f'r{e[1]}', f'R{e[1]}:{e[2]}', f'receive in {e[3]}')

    def ps(t):
        return '.'.join(map(str, t)) if t else '-'
    req = []
    for key, wrapped, acts, _ in steps:
        if not acts and wrapped:
            continue
        req.append(f"{ps(ctx_path(key))}:{1 if wrapped else 0}:{','.join(acts) if acts else '-'}")
    seen = []
    for key, wrapped, acts, _ in steps:
        if acts and key not in seen:
            seen.append(key)
    exp = ';'.join(f"{ps(ctx_path(key))}={','.join(evs[key])}" for key in seen)
    return 'run ' + ' '.join(req), exp + f"|wf={0 if wf_viol else 1}", wf_viol
