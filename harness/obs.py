"""Observation points on the real runtime, installed by the harness at run time (no repo edits).

Recorder patches, for the duration of a `with` block:
  Runtime._send_message / _receive_message   -> per-party event lists ('S', peer, label, nbytes) / ('R', peer, label)
  Runtime._prss_uci                          -> ('U', label)
  asyncoro._ProgramCounterWrapper            -> ('K', child_id, child_pc0, child_depth) at fork,
                                                ('B', id) / ('E', id, pc_after) around every step of a pc-carrying task
  asyncoro.mpc_coro's Task creation          -> registry of tasks and whether they carry a pc
Events are appended to `rec.ev[pid]` in execution order of that party.
"""
import asyncio
import sys
import os
sys.path.insert(0, os.path.dirname(os.path.abspath(__file__)))
import simnet
from simnet import CUR, rtmod, asyncoro


class Recorder:
    def __init__(self, m, track_pc=False, track_tasks=False):
        self.m = m
        self.ev = [[] for _ in range(m)]
        self.marks = [[] for _ in range(m)]
        self.track_pc = track_pc
        self.track_tasks = track_tasks
        self.next_id = [0] * m
        self.cur_task = [None] * m      # id of the pc-carrying task whose step is running (else None)
        self.nopc_violation = []        # pc-actions performed by tasks without own pc after their first suspension

    def mark(self, name):
        p = CUR.get()
        self.marks[p].append((name, len(self.ev[p])))

    def window(self, p, start, end):
        a = next(i for n, i in self.marks[p] if n == start)
        b = next(i for n, i in self.marks[p] if n == end)
        return self.ev[p][a:b]

    def __enter__(self):
        rec = self
        R = rtmod.Runtime
        self._orig = (R._send_message, R._receive_message, R._prss_uci, asyncoro._ProgramCounterWrapper)
        o_send, o_recv, o_uci, o_wrap = self._orig

        def _send_message(self_, peer_pid, data):
            rec.ev[self_.pid].append(('S', peer_pid, self_._program_counter[0], len(data), sys._getframe(1).f_code.co_name))
            return o_send(self_, peer_pid, data)

        def _receive_message(self_, peer_pid):
            rec.ev[self_.pid].append(('R', peer_pid, self_._program_counter[0], sys._getframe(1).f_code.co_name))
            return o_recv(self_, peer_pid)

        def _prss_uci(self_):
            r = o_uci(self_)
            rec.ev[self_.pid].append(('U', self_._program_counter[0]))
            return r

        R._send_message = _send_message
        R._receive_message = _receive_message
        R._prss_uci = _prss_uci

        if self.track_pc:
            class Wrapper(o_wrap):
                __slots__ = ('vid',)

                def __init__(w, rt, coro):
                    o_wrap.__init__(w, rt, coro)
                    p = rt.pid
                    w.vid = rec.next_id[p]
                    rec.next_id[p] += 1
                    rec.ev[p].append(('K', w.vid, w.pc[0], w.pc[1]))

                def __await__(w):
                    # same logic as the original, with begin/end markers around each step
                    p = w.runtime.pid
                    gen = o_wrap.__await__(w)
                    val = None
                    first = True
                    while True:
                        rec.ev[p].append(('B', w.vid))
                        prev = rec.cur_task[p]
                        rec.cur_task[p] = w.vid
                        try:
                            val = gen.send(None) if first else gen.send(val)
                            first = False
                        except StopIteration as exc:
                            rec.ev[p].append(('E', w.vid, None))
                            return exc.value
                        finally:
                            rec.cur_task[p] = prev
                        rec.ev[p].append(('E', w.vid, w.pc[0]))
                        val = yield val
            asyncoro._ProgramCounterWrapper = Wrapper
        return self

    def __exit__(self, *exc):
        R = rtmod.Runtime
        R._send_message, R._receive_message, R._prss_uci, asyncoro._ProgramCounterWrapper = self._orig
        return False


def sends_of(events):
    return [(e[1], e[2]) for e in events if e[0] == 'S']


def recvs_of(events):
    return [(e[1], e[2]) for e in events if e[0] == 'R']
