"""Source translator for the generic list code of mpyc/gfpx.py (class `Polynomial`, static/class methods on coefficient
lists): Python AST -> Lean 4 definitions.  Extension of harness/py2lean.py / py2lean_thresha.py (both unchanged; only
small helpers are imported), stdlib `ast` only.

    python harness/py2lean_gfpx.py [out.lean]        (reads $VERIF_REPO/mpyc/gfpx.py, default /repo)

Output: lean/MpycV/Generated/GfpxSrc.lean (namespace MpycV.GfpxSrc).  lean/MpycV/PropsGen/C23Src.lean / C24Src.lean prove
the generated definitions equal to the hand-written model MpycV.Model.GFpX (mirror + bridge lemmas), so that an edit of
gfpx.py that really changes a translated method breaks a proof obligation of C23 / C24.

Translated methods of `Polynomial`: _degree, _to_int, _from_int, _monic (two specialisations: lc_pinv False / True), _add,
_sub, _mul, _sq, _mod (two specialisations: modulus None / a list), _divmod, _powmod (modulus None / a list), _gcd, _gcdext,
_invert, _is_irreducible, _next_irreducible.

Translation rules (the trusted part of the tie; everything else is checked by Lean):
* Python int -> `Int`; a coefficient list -> `List Int`; `cls.p` -> the parameter `p : Int` (`p = cls.p` is dropped);
  `cls._f(...)` -> the translated `f p ...`.  `e % p`, `e // p`, `divmod(e, p)` with the divisor syntactically `p` -> Lean
  `%`, `/` (`Int.emod/ediv`, equal to Python's floor operations for the positive modulus p; GFpX(p) only exists for primes).
* lists are VALUES: `c = a[:]` -> `c := a`; an in-place update `c[i] = v`, `c[i] op= v`, `c.append(v)`, and the idiom
  `while c and not c[-1]: del c[-1]` (-> `c := pyStrip c`, strip trailing zeros) rebind the variable.  This is sound when the
  updated list object is not reachable through another name; the translator enforces a syntactic sufficient condition (the
  variable was bound in this function to a fresh list: literal, copy `x[:]`, `+`, `*`, slice, or the result of
  _add/_sub/_mul/_sq/_from_int, possibly moved by a tuple assignment that rebinds the source) and refuses otherwise.
* `l[i]` reads / writes: Python index semantics (`pyIdxOk` guard -> IndexError, negative indices wrap: `pyGet`, `pySet`);
  `l[k:]` -> `pySliceFrom`; `[0] * k` -> `List.replicate k.toNat 0`; `+` on lists -> `++`; `len` -> `.length`; a list in a
  boolean context -> `≠ []`; `==` / `!=` between lists -> `=` / `≠`; `[]` is a `List Int`.
* `for x in enumerate(l) | l | reversed(l) | range(..)` without break/continue/return in the body -> ONE call of
  `PyList.pyFor` on the tuple of loop-carried variables (`range(a, b, -1)` -> `pyRangeDown a b`); a `for .. in range(..)`
  with a `return` in the body and every `while` -> ONE call of `PyLoop.loop` (fuel: trip count + 1 for range loops, the
  hand-written annotation in SPECS for while loops; `_next_irreducible` has an explicit `fuel` parameter = maximal number of
  passes of its `while True`).  In a `while True:` loop the statements after the loop are executed at the `break` sites.
* `int(gmpy2.invert(x, m))` -> `invertE x m` = the model `NumTh.invert` of the gmpy stub (tied to ITS source by C25).
* `a is b` (identity of the two operands of `_mul`) -> the Bool parameter `same` of `mul`; internal calls pass `false`
  (PropsGen proves that the result for `same = true` on equal operands equals the result for `false`).
  `X is None`, keyword flags with a literal value (`lc_pinv`) and `cls._intern(<int literal>)` (-> `from_int`) are decided
  statically per specialisation.  `n.bit_length()` -> `NumTh.bitLength`; `x << k`, `x >> k`, `x ** k` -> `pyShl`, `pyShr`,
  `pyPow` (a non-literal shift count first raises ValueError if negative); `x & 1` -> `x % 2`.
* class `BinaryPolynomial` (static methods on non-negative ints, names `b_*`): `x ^ y`, `x | y` -> `pyXor`, `pyOr` (bitwise
  operations on the natural numbers `x.toNat`, `y.toNat`: the bitmasks are non-negative), `a is b or a == b` -> `a = b`
  (identity of ints implies equality).  Its inherited `_powmod` is not translated.
* exceptions -> `Except TErr`.  An unsupported construct never crashes: the function is emitted as `f.untranslated`.
"""
import ast
import os
import sys

HERE = os.path.dirname(os.path.abspath(__file__))
if HERE not in sys.path:
    sys.path.insert(0, HERE)
from py2lean import Unsupported, ind, lname as _lname, tuple_pat  # noqa: E402

I, B, NONE = 'I', 'B', 'NONE'
LI = ('L', 'I')


def T(*ts):
    return ('T',) + tuple(ts)


def lname(v):
    if v == '_':
        return 'i_'
    if v.startswith('_'):
        v = 'u' + v
    return _lname(v)


def lty(t):
    if t == I:
        return 'Int'
    if t == B:
        return 'Bool'
    if t == LI:
        return 'List Int'
    if isinstance(t, tuple) and t[0] == 'T':
        return '(' + ' × '.join(lty(x) for x in t[1:]) + ')'
    raise Unsupported(f'type {t}')


# lean name, python name, parameters [(name, type)] after cls; `static`: keyword/flag parameters with a fixed value in this
# specialisation; `none`: parameters that are None in this specialisation; fuels: per while loop in source order
SPECS = [
    dict(lean='degree', py='_degree', params=[('a', LI)], ret=I, nocls=True),
    dict(lean='to_int', py='_to_int', params=[('a', LI)], ret=I),
    dict(lean='from_int', py='_from_int', params=[('a', I)], ret=LI, fuels=['a.natAbs + 1'], fresh=True),
    dict(lean='monic', py='_monic', params=[('a', LI)], static={'lc_pinv': False}, ret=LI),
    dict(lean='monic_lc', py='_monic', params=[('a', LI)], static={'lc_pinv': True}, ret=T(LI, I)),
    dict(lean='add', py='_add', params=[('a', LI), ('b', LI)], ret=LI, fresh=True),
    dict(lean='sub', py='_sub', params=[('a', LI), ('b', LI)], ret=LI, fresh=True),
    dict(lean='sq', py='_sq', params=[('a', LI)], ret=LI, fresh=True),
    dict(lean='mul', py='_mul', params=[('a', LI), ('b', LI)], ret=LI, same=('a', 'b'), fresh=True),
    dict(lean='mod_N', py='_mod', params=[('a', LI)], none=['b'], ret=LI),
    dict(lean='mod', py='_mod', params=[('a', LI), ('b', LI)], ret=LI),
    dict(lean='divmod', py='_divmod', params=[('a', LI), ('b', LI)], ret=T(LI, LI)),
    dict(lean='gcd', py='_gcd', params=[('a', LI), ('b', LI)], ret=LI, fuels=['b.length + 1']),
    dict(lean='gcdext', py='_gcdext', params=[('a', LI), ('b', LI)], ret=T(LI, LI, LI), fuels=['b.length + 1']),
    dict(lean='invert', py='_invert', params=[('a', LI), ('b', LI)], ret=LI, fuels=['b.length + 1']),
    dict(lean='powmod_N', py='_powmod', params=[('a', LI), ('n', I)], none=['modulus'], ret=LI),
    dict(lean='powmod', py='_powmod', params=[('a', LI), ('n', I), ('modulus', LI)], ret=LI),
    dict(lean='is_irreducible', py='_is_irreducible', params=[('a', LI)], ret=B),
    dict(lean='next_irreducible', py='_next_irreducible', params=[('a', LI)], ret=LI, fuels=['fuel'], fuelparam=True),
]
# BinaryPolynomial: static methods on non-negative ints (bitmasks); same translator, everything is an `Int`
BIN = 'BinaryPolynomial'
SPECS += [
    dict(lean='b_degree', py='_degree', klass=BIN, nocls=True, params=[('a', I)], ret=I),
    dict(lean='b_sq', py='_sq', klass=BIN, nocls=True, params=[('a', I)], ret=I, fuels=['a.toNat + 1']),
    dict(lean='b_mul', py='_mul', klass=BIN, nocls=True, params=[('a', I), ('b', I)], ret=I, fuels=['b.toNat + 1']),
    dict(lean='b_mod', py='_mod', klass=BIN, nocls=True, params=[('a', I), ('b', I)], ret=I),
    dict(lean='b_divmod', py='_divmod', klass=BIN, nocls=True, params=[('a', I), ('b', I)], ret=T(I, I)),
    dict(lean='b_gcd', py='_gcd', klass=BIN, nocls=True, params=[('a', I), ('b', I)], ret=I,
         fuels=['NumTh.bitLength b + 1']),
    dict(lean='b_gcdext', py='_gcdext', klass=BIN, nocls=True, params=[('a', I), ('b', I)], ret=T(I, I, I),
         fuels=['NumTh.bitLength b + 1']),
    dict(lean='b_invert', py='_invert', klass=BIN, nocls=True, params=[('a', I), ('b', I)], ret=I,
         fuels=['NumTh.bitLength b + 1']),
    dict(lean='b_is_irreducible', py='_is_irreducible', klass=BIN, nocls=True, params=[('a', I)], ret=B),
    dict(lean='b_next_irreducible', py='_next_irreducible', klass=BIN, nocls=True, params=[('a', I)], ret=I,
         fuels=['fuel'], fuelparam=True),
]
ORDER = [s['lean'] for s in SPECS]
ERRORS = {'ValueError': '.valueError', 'ZeroDivisionError': '.zeroDivisionError', 'IndexError': '.indexError'}


def py_params(spec):
    """the Python parameter names (after cls) this specialisation accounts for, in source order is checked separately"""
    return [n for n, _ in spec['params']] + list(spec.get('none', [])) + list(spec.get('static', {}))


class GFn:
    def __init__(self, spec, node):
        self.spec = spec
        self.node = node
        self.fresh = 0
        self.loop_idx = 0

    def newvar(self, base='v'):
        self.fresh += 1
        return f'{base}{self.fresh}'

    # ------------------------------------------------------------------ expressions
    @staticmethod
    def g(pre, ctx, cond, err):
        pre.append(('g', f'({ctx}) ∧ {cond}' if ctx else cond, err))

    def is_p(self, node, env):
        return isinstance(node, ast.Name) and node.id == 'p' and env.get('p', (None,))[0] == 'p'

    def ex(self, node, env, pre, ctx=None, want=None):
        """-> (lean string, type); `pre` collects, in evaluation order, ('g', cond, err) guards and ('b', pat, call) binds;
        ctx: condition under which this sub-expression is evaluated; want: expected type (for `[]`)"""
        if isinstance(node, ast.Constant):
            if isinstance(node.value, bool):
                return ('true' if node.value else 'false'), B
            if isinstance(node.value, int):
                return (str(node.value) if node.value >= 0 else f'({node.value})'), I
            raise Unsupported(f'constant {node.value!r}')
        if isinstance(node, ast.Name):
            if node.id not in env:
                raise Unsupported(f'name {node.id} is not bound here (line {node.lineno})')
            if env[node.id][1] == NONE:
                raise Unsupported(f'{node.id} is None here')
            return env[node.id][0], env[node.id][1]
        if isinstance(node, ast.Attribute):
            if isinstance(node.value, ast.Name) and node.value.id == 'cls' and node.attr == 'p':
                return 'p', I
            raise Unsupported(f'attribute .{node.attr}')
        if isinstance(node, ast.UnaryOp) and isinstance(node.op, ast.USub):
            a, t = self.ex(node.operand, env, pre, ctx)
            if t != I:
                raise Unsupported('unary minus on a non-int')
            return f'(-{a})', I
        if isinstance(node, (ast.Compare, ast.BoolOp)) or (isinstance(node, ast.UnaryOp) and isinstance(node.op, ast.Not)):
            return f'decide ({self.cond(node, env, pre, ctx)})', B
        if isinstance(node, ast.IfExp):
            c = self.cond(node.test, env, pre, ctx)
            cc = f'({ctx}) ∧ ({c})' if ctx else c
            nc = f'({ctx}) ∧ ¬ ({c})' if ctx else f'¬ ({c})'
            a, ta = self.ex(node.body, env, pre, cc, want)
            b, tb = self.ex(node.orelse, env, pre, nc, want)
            if ta != tb:
                raise Unsupported('conditional expression with branches of different types')
            return f'(if {c} then {a} else {b})', ta
        if isinstance(node, ast.BinOp):
            return self.binop(node, env, pre, ctx)
        if isinstance(node, ast.Subscript):
            a, ta = self.ex(node.value, env, pre, ctx)
            if ta != LI:
                raise Unsupported('subscript of a non-list')
            if isinstance(node.slice, ast.Slice):
                sl = node.slice
                if sl.step is not None or sl.upper is not None:
                    raise Unsupported('slice with an upper bound or a step')
                if sl.lower is None:
                    return a, LI                       # a[:] : a copy, lists are values
                i, ti = self.ex(sl.lower, env, pre, ctx)
                if ti != I:
                    raise Unsupported('slice bound that is not an int')
                return f'(pySliceFrom {a} {i})', LI
            i, ti = self.ex(node.slice, env, pre, ctx)
            if ti != I:
                raise Unsupported('index that is not an int')
            self.g(pre, ctx, f'pyIdxOk {a}.length {i} = false', '.indexError')
            return f'(pyGet {a} {i})', I
        if isinstance(node, ast.Tuple):
            parts = []
            for k, e in enumerate(node.elts):
                w = want[k + 1] if isinstance(want, tuple) and want[0] == 'T' and len(want) == len(node.elts) + 1 else None
                parts.append(self.ex(e, env, pre, ctx, w))
            return '(' + ', '.join(p for p, _ in parts) + ')', T(*[t for _, t in parts])
        if isinstance(node, ast.List):
            parts = [self.ex(e, env, pre, ctx) for e in node.elts]
            if any(t != I for _, t in parts):
                raise Unsupported('list literal with non-int elements')
            if not parts:
                return '([] : List Int)', LI
            return '([' + ', '.join(p for p, _ in parts) + '] : List Int)', LI
        if isinstance(node, ast.Call):
            return self.call(node, env, pre, ctx)
        raise Unsupported(f'expression {type(node).__name__} (line {getattr(node, "lineno", "?")})')

    def binop(self, node, env, pre, ctx):
        op = node.op
        if isinstance(op, ast.BitAnd) and isinstance(node.right, ast.Constant) and node.right.value == 1:
            a, ta = self.ex(node.left, env, pre, ctx)
            if ta != I:
                raise Unsupported('& on a non-int')
            return f'({a} % 2)', I
        a, ta = self.ex(node.left, env, pre, ctx)
        b, tb = self.ex(node.right, env, pre, ctx)
        if ta == LI and tb == LI and isinstance(op, ast.Add):
            return f'({a} ++ {b})', LI
        if ta == LI and tb == I and isinstance(op, ast.Mult):
            if not (isinstance(node.left, ast.List) and len(node.left.elts) == 1):
                raise Unsupported('list repetition of something that is not a one-element literal')
            return f'(List.replicate ({b}).toNat ({self.ex(node.left.elts[0], env, [], ctx)[0]} : Int))', LI
        if ta != I or tb != I:
            raise Unsupported(f'operator {type(op).__name__} on {ta}, {tb}')
        if isinstance(op, ast.BitXor):
            return f'(pyXor {a} {b})', I
        if isinstance(op, ast.BitOr):
            return f'(pyOr {a} {b})', I
        sym = {ast.Add: '+', ast.Sub: '-', ast.Mult: '*'}.get(type(op))
        if sym:
            return f'({a} {sym} {b})', I
        lit = isinstance(node.right, ast.Constant) and isinstance(node.right.value, int)
        if isinstance(op, (ast.FloorDiv, ast.Mod)):
            if self.is_p(node.right, env) or (lit and node.right.value > 0):
                return (f'({a} / {b})' if isinstance(op, ast.FloorDiv) else f'({a} % {b})'), I
            raise Unsupported('// or % by something that is not p or a positive literal')
        if isinstance(op, ast.Pow):
            return f'(pyPow {a} {b})', I
        if isinstance(op, (ast.LShift, ast.RShift)):
            if not (lit and node.right.value >= 0):
                self.g(pre, ctx, f'{b} < 0', '.valueError')
            return (f'(pyShl {a} {b})' if isinstance(op, ast.LShift) else f'(pyShr {a} {b})'), I
        raise Unsupported(f'binary operator {type(op).__name__}')

    def call(self, node, env, pre, ctx):
        f, args = node.func, node.args
        kws = {k.arg: k.value for k in node.keywords}
        if None in kws:
            raise Unsupported('**kwargs')
        if isinstance(f, ast.Name) and f.id == 'len' and len(args) == 1 and not kws:
            e, t = self.ex(args[0], env, pre, ctx)
            if t != LI:
                raise Unsupported('len of a non-list')
            return f'({e}.length : Int)', I
        if isinstance(f, ast.Name) and f.id == 'int' and len(args) == 1 and not kws:
            e, t = self.ex(args[0], env, pre, ctx)
            if t != I:
                raise Unsupported('int() of a non-int')
            return e, I
        if isinstance(f, ast.Name) and f.id == 'divmod' and len(args) == 2 and not kws:
            x, tx = self.ex(args[0], env, pre, ctx)
            y, ty = self.ex(args[1], env, pre, ctx)
            if tx != I or ty != I or not self.is_p(args[1], env):
                raise Unsupported('divmod by something that is not p')
            return f'({x} / {y}, {x} % {y})', T(I, I)
        if isinstance(f, ast.Attribute) and f.attr == 'bit_length' and not args and not kws:
            e, t = self.ex(f.value, env, pre, ctx)
            if t != I:
                raise Unsupported('bit_length of a non-int')
            return f'((NumTh.bitLength {e} : Nat) : Int)', I
        if isinstance(f, ast.Attribute) and isinstance(f.value, ast.Name) and f.value.id == 'gmpy2' and f.attr == 'invert' \
                and len(args) == 2 and not kws:
            if ctx:
                raise Unsupported('gmpy2.invert inside a conditional expression')
            x, tx = self.ex(args[0], env, pre, ctx)
            m, tm = self.ex(args[1], env, pre, ctx)
            if tx != I or tm != I:
                raise Unsupported('gmpy2.invert of non-ints')
            v = self.newvar()
            pre.append(('b', v, f'invertE {x} {m}'))
            return v, I
        if isinstance(f, ast.Attribute) and isinstance(f.value, ast.Name) and f.value.id in ('cls', BIN):
            if ctx:
                raise Unsupported(f'call of {f.value.id}.{f.attr} inside a conditional expression')
            if (f.value.id == BIN) != (self.spec.get('klass') == BIN):
                raise Unsupported(f'call of {f.value.id}.{f.attr} from the other class')
            return self.call_method(f.attr, args, kws, env, pre)
        raise Unsupported(f'call of {ast.unparse(f)[:40]}')

    def call_method(self, pyname, args, kws, env, pre):
        if pyname == '_intern' and self.spec.get('klass') != BIN and len(args) == 1 and not kws and isinstance(args[0], ast.Constant) \
                and isinstance(args[0].value, int) and not isinstance(args[0].value, bool):
            v = self.newvar()
            pre.append(('b', v, f'from_int p {args[0].value}'))
            return v, LI
        cands = [s for s in SPECS if s['py'] == pyname and s.get('klass') == self.spec.get('klass')]
        if not cands:
            raise Unsupported(f'call of cls.{pyname} (not a translated method)')
        # the Python parameter list of the callee, from its AST
        callee = self.methods.get(pyname)
        if callee is None:
            raise Unsupported(f'cls.{pyname} not found in the source')
        pnames = [a.arg for a in callee.args.args][1:] if not cands[0].get('nocls') else [a.arg for a in callee.args.args]
        if len(args) > len(pnames) or any(k not in pnames for k in kws):
            raise Unsupported(f'call of cls.{pyname} with unexpected arguments')
        given = dict(zip(pnames, args))
        for k, v in kws.items():
            if k in given:
                raise Unsupported('argument given twice')
            given[k] = v
        ndef = len(callee.args.defaults)
        defaults = dict(zip(pnames[len(pnames) - ndef:], callee.args.defaults)) if ndef else {}
        for pn in pnames:
            if pn not in given:
                if pn not in defaults:
                    raise Unsupported(f'call of cls.{pyname}: argument {pn} missing')
                given[pn] = defaults[pn]

        def is_none(e):
            return (isinstance(e, ast.Constant) and e.value is None) or \
                (isinstance(e, ast.Name) and e.id in env and env[e.id][1] == NONE)
        for spec in cands:
            ok = True
            for pn in spec.get('none', []):
                ok = ok and is_none(given[pn])
            for pn, val in spec.get('static', {}).items():
                ok = ok and isinstance(given[pn], ast.Constant) and given[pn].value is val
            for pn, _t in spec['params']:
                ok = ok and not is_none(given[pn])
            if ok:
                break
        else:
            raise Unsupported(f'no specialisation of cls.{pyname} for this call')
        argv = []
        for pn, pt in spec['params']:
            e, t = self.ex(given[pn], env, pre)
            if t != pt:
                raise Unsupported(f'call of cls.{pyname}: argument {pn} has type {t}, expected {pt}')
            argv.append(e)
        if spec.get('fuelparam'):
            raise Unsupported(f'call of cls.{pyname}, which has an explicit fuel')
        head = spec['lean'] + ('' if spec.get('nocls') else ' p') + (' false' if spec.get('same') else '')
        if spec.get('pure'):
            return f'({head} ' + ' '.join(argv) + ')', spec['ret']
        ret = spec['ret']
        if isinstance(ret, tuple) and ret[0] == 'T':
            names = [self.newvar() for _ in ret[1:]]
            pre.append(('b', '(' + ', '.join(names) + ')', f'{head} ' + ' '.join(argv)))
            return '(' + ', '.join(names) + ')', ret
        v = self.newvar()
        pre.append(('b', v, f'{head} ' + ' '.join(argv)))
        return v, ret

    def cond(self, node, env, pre, ctx=None):
        """-> decidable Lean proposition, or 'True' / 'False' for statically decided tests"""
        if isinstance(node, ast.BoolOp) and isinstance(node.op, ast.Or) and len(node.values) == 2 \
                and all(isinstance(v, ast.Compare) and len(v.ops) == 1 for v in node.values) \
                and isinstance(node.values[0].ops[0], ast.Is) and isinstance(node.values[1].ops[0], ast.Eq) \
                and ast.unparse(node.values[0].left) == ast.unparse(node.values[1].left) \
                and ast.unparse(node.values[0].comparators[0]) == ast.unparse(node.values[1].comparators[0]):
            l_, tl = self.ex(node.values[1].left, env, pre, ctx)
            r_, tr = self.ex(node.values[1].comparators[0], env, pre, ctx)
            if tl == I and tr == I:          # `a is b or a == b` on ints: identity implies equality
                return f'{l_} = {r_}'
        if isinstance(node, ast.BoolOp):
            parts = []
            cur = ctx
            for v in node.values:           # short circuit: later operands are evaluated conditionally
                c = self.cond(v, env, pre, cur)
                if c in ('True', 'False'):
                    raise Unsupported('static test inside and/or')
                parts.append(c)
                nxt = c if isinstance(node.op, ast.And) else f'¬ ({c})'
                cur = f'({cur}) ∧ ({nxt})' if cur else nxt
            return '(' + (' ∧ ' if isinstance(node.op, ast.And) else ' ∨ ').join(parts) + ')'
        if isinstance(node, ast.UnaryOp) and isinstance(node.op, ast.Not):
            c = self.cond(node.operand, env, pre, ctx)
            if c in ('True', 'False'):
                return 'False' if c == 'True' else 'True'
            return f'¬ ({c})'
        if isinstance(node, ast.Compare) and len(node.ops) == 1 and isinstance(node.ops[0], (ast.Is, ast.IsNot)):
            left, right = node.left, node.comparators[0]
            if isinstance(right, ast.Constant) and right.value is None and isinstance(left, ast.Name) and left.id in env:
                isnone = env[left.id][1] == NONE
                return 'True' if isnone == isinstance(node.ops[0], ast.Is) else 'False'
            same = self.spec.get('same')
            if same and isinstance(left, ast.Name) and isinstance(right, ast.Name) and {left.id, right.id} == set(same) \
                    and env[left.id][0] == lname(left.id) and env[right.id][0] == lname(right.id) \
                    and not env[left.id][3] and not env[right.id][3]:
                return 'same = true' if isinstance(node.ops[0], ast.Is) else 'same = false'
            raise Unsupported('is / is not')
        if isinstance(node, ast.Compare):
            parts = []
            left = node.left
            for op, right in zip(node.ops, node.comparators):
                l_, tl = self.ex(left, env, pre, ctx)
                r_, tr = self.ex(right, env, pre, ctx)
                if tl != tr or tl not in (I, LI):
                    raise Unsupported('comparison of values of different / unsupported types')
                if tl == LI and not isinstance(op, (ast.Eq, ast.NotEq)):
                    raise Unsupported('order comparison of lists')
                sym = {ast.Eq: '=', ast.NotEq: '≠', ast.Lt: '<', ast.LtE: '≤', ast.Gt: '>', ast.GtE: '≥'}.get(type(op))
                if sym is None:
                    raise Unsupported('comparison operator')
                parts.append(f'{l_} {sym} {r_}')
                left = right
            return parts[0] if len(parts) == 1 else '(' + ' ∧ '.join(parts) + ')'
        if isinstance(node, ast.Name) and node.id in env and env[node.id][1] == 'STATIC':
            return 'True' if env[node.id][0] else 'False'
        e, t = self.ex(node, env, pre, ctx)
        if t == B:
            return f'{e} = true'
        if t == I:
            return f'{e} ≠ 0'
        if t == LI:
            return f'{e} ≠ []'
        raise Unsupported('truth value of a tuple')

    # ------------------------------------------------------------------ statements
    @staticmethod
    def wrap(pre, body):
        out = body
        for item in reversed(pre):
            if item[0] == 'g':
                out = f'if {item[1]} then .error {item[2]} else\n{out}'
            else:
                out = f'match {item[2]} with\n| .error exc_ => .error exc_\n| .ok {item[1]} =>\n{ind(out, 2)}'
        return out

    @staticmethod
    def strip_idiom(s):
        """`while X and not X[-1]: del X[-1]` -> X"""
        if not (isinstance(s, ast.While) and not s.orelse and isinstance(s.test, ast.BoolOp) and isinstance(s.test.op, ast.And)
                and len(s.test.values) == 2 and isinstance(s.test.values[0], ast.Name) and len(s.body) == 1
                and isinstance(s.body[0], ast.Delete) and len(s.body[0].targets) == 1):
            return None
        x = s.test.values[0].id
        last = f"{x}[-1]"
        v1 = s.test.values[1]
        if isinstance(v1, ast.UnaryOp) and isinstance(v1.op, ast.Not) and ast.unparse(v1.operand) == last \
                and ast.unparse(s.body[0].targets[0]) == last:
            return x
        return None

    def assigned(self, stmts):
        out = []

        def add(v):
            if v not in out:
                out.append(v)

        def tgt(t):
            if isinstance(t, ast.Name):
                add(t.id)
            elif isinstance(t, (ast.Tuple, ast.List)):
                for e in t.elts:
                    tgt(e)
            elif isinstance(t, ast.Subscript) and isinstance(t.value, ast.Name):
                add(t.value.id)
            else:
                raise Unsupported('assignment target')

        def walk(ss):
            for s in ss:
                if isinstance(s, ast.Assign):
                    if self.is_p_assign(s):
                        continue
                    for t in s.targets:
                        tgt(t)
                elif isinstance(s, ast.AugAssign):
                    tgt(s.target)
                elif isinstance(s, ast.Expr) and isinstance(s.value, ast.Call) and isinstance(s.value.func, ast.Attribute) \
                        and s.value.func.attr == 'append' and isinstance(s.value.func.value, ast.Name):
                    add(s.value.func.value.id)
                elif isinstance(s, ast.If):
                    walk(s.body)
                    walk(s.orelse)
                elif isinstance(s, ast.For):
                    tgt(s.target)
                    walk(s.body)
                elif isinstance(s, ast.While):
                    x = self.strip_idiom(s)
                    if x:
                        add(x)
                    else:
                        walk(s.body)
        walk(stmts)
        return out

    @staticmethod
    def is_p_assign(s):
        return (isinstance(s, ast.Assign) and len(s.targets) == 1 and isinstance(s.targets[0], ast.Name)
                and s.targets[0].id == 'p' and ast.unparse(s.value) == 'cls.p')

    @staticmethod
    def falls_through(stmts):
        if not stmts:
            return True
        s = stmts[-1]
        if isinstance(s, (ast.Return, ast.Raise, ast.Break, ast.Continue)):
            return False
        if isinstance(s, ast.If) and s.orelse:
            return GFn.falls_through(s.body) or GFn.falls_through(s.orelse)
        return True

    @staticmethod
    def has(stmts, kinds):
        return any(isinstance(n, kinds) for s in stmts for n in ast.walk(s))

    def is_fresh_value(self, value, env, rebound):
        """is the value of this expression a list object no other name refers to"""
        if isinstance(value, (ast.List, ast.ListComp)):
            return True
        if isinstance(value, ast.BinOp):
            return True
        if isinstance(value, ast.Subscript) and isinstance(value.slice, ast.Slice):
            return True
        if isinstance(value, ast.Name):
            return value.id in env and env[value.id][2] and value.id in rebound
        if isinstance(value, ast.Call) and isinstance(value.func, ast.Attribute) and isinstance(value.func.value, ast.Name) \
                and value.func.value.id == 'cls':
            return any(s['py'] == value.func.attr and s.get('fresh') for s in SPECS)
        return False

    def need_fresh(self, name, env, what):
        if not env[name][2]:
            raise Unsupported(f'{what} of the possibly aliased list {name}')

    def bind(self, target, ty, env, fresh, lines, value_str):
        """pattern for a Name / (nested) tuple target; binds names in env; `fresh`: bool or tuple structure"""
        if isinstance(target, ast.Name):
            if isinstance(ty, tuple) and ty[0] == 'T':
                raise Unsupported('tuple assigned to a single name')
            env[target.id] = (lname(target.id), ty, bool(fresh) if not isinstance(fresh, (list, tuple)) else False,
                              env.get(target.id, (0, 0, 0, False))[3] or target.id in self.param_names)
            return lname(target.id)
        if isinstance(target, (ast.Tuple, ast.List)) and isinstance(ty, tuple) and ty[0] == 'T' \
                and len(ty) - 1 == len(target.elts):
            fr = fresh if isinstance(fresh, (list, tuple)) and len(fresh) == len(target.elts) else [False] * len(target.elts)
            return '(' + ', '.join(self.bind(t, c, env, f, lines, None) for t, c, f in zip(target.elts, ty[1:], fr)) + ')'
        raise Unsupported('assignment target')

    def fresh_struct(self, value, env, rebound):
        if isinstance(value, ast.Tuple):
            return [self.fresh_struct(e, env, rebound) for e in value.elts]
        return self.is_fresh_value(value, env, rebound)

    def target_names(self, t):
        if isinstance(t, ast.Name):
            return [t.id]
        if isinstance(t, (ast.Tuple, ast.List)):
            return [n for e in t.elts for n in self.target_names(e)]
        if isinstance(t, ast.Subscript) and isinstance(t.value, ast.Name):
            return []
        raise Unsupported('assignment target')

    def store_sub(self, target, value_str, env, pre):
        """`x[i] = v` -> let line"""
        if not (isinstance(target, ast.Subscript) and isinstance(target.value, ast.Name)
                and not isinstance(target.slice, ast.Slice)):
            raise Unsupported('assignment target')
        nm = target.value.id
        a, ta = self.ex(target.value, env, pre)
        if ta != LI:
            raise Unsupported('element assignment to a non-list')
        self.need_fresh(nm, env, 'in-place update')
        i, ti = self.ex(target.slice, env, pre)
        if ti != I:
            raise Unsupported('index that is not an int')
        pre.append(('g', f'pyIdxOk {a}.length {i} = false', '.indexError'))
        return f'let {a} := pySet {a} {i} {value_str}'

    def block(self, stmts, env, k, inloop):
        if not stmts:
            return k(env)
        s, rest = stmts[0], stmts[1:]
        env = dict(env)
        if isinstance(s, ast.Expr) and isinstance(s.value, ast.Constant) and isinstance(s.value.value, str):
            return self.block(rest, env, k, inloop)
        if isinstance(s, ast.Pass) or self.is_p_assign(s):
            return self.block(rest, env, k, inloop)
        if isinstance(s, ast.Assign):
            pre = []
            names = [n for t in s.targets for n in self.target_names(t)]
            want = None
            if len(s.targets) == 1 and isinstance(s.targets[0], ast.Name) and s.targets[0].id in env:
                want = env[s.targets[0].id][1]
            e, t = self.ex(s.value, env, pre, None, want)
            fresh = self.fresh_struct(s.value, env, names)
            lines = []
            if len(s.targets) > 1 or isinstance(s.targets[0], ast.Subscript):
                # chained assignment `x[i] = y = e` / element assignment: evaluate once, assign left to right
                if t != I:
                    raise Unsupported('chained / element assignment of a non-int')
                v = e
                if len(s.targets) > 1:
                    v = self.newvar('w')
                    lines.append(f'let {v} := {e}')
                for tg in s.targets:
                    if isinstance(tg, ast.Subscript):
                        pre2 = []
                        line = self.store_sub(tg, v, env, pre2)
                        lines.append(self.wrap(pre2, line))
                    else:
                        lines.append(f'let {self.bind(tg, t, env, False, lines, v)} := {v}')
                body = '\n'.join(lines) + '\n' + self.block(rest, env, k, inloop)
                return self.wrap(pre, body)
            pat = self.bind(s.targets[0], t, env, fresh, lines, e)
            return self.wrap(pre, f'let {pat} := {e}\n' + self.block(rest, env, k, inloop))
        if isinstance(s, ast.AugAssign):
            pre = []
            load = ast.parse(ast.unparse(s.target), mode='eval').body
            value = ast.BinOp(left=load, op=s.op, right=s.value)
            ast.copy_location(value, s)
            ast.fix_missing_locations(value)
            e, t = self.ex(value, env, pre)
            if isinstance(s.target, ast.Subscript):
                if t != I:
                    raise Unsupported('augmented element assignment of a non-int')
                pre2 = []                # the index guard of the read is that of the write
                line = self.store_sub(s.target, e, env, pre2)
            elif isinstance(s.target, ast.Name):
                line = f'let {self.bind(s.target, t, env, True, [], e)} := {e}'
            else:
                raise Unsupported('augmented assignment target')
            return self.wrap(pre, line + '\n' + self.block(rest, env, k, inloop))
        if isinstance(s, ast.Expr) and isinstance(s.value, ast.Call) and isinstance(s.value.func, ast.Attribute) \
                and s.value.func.attr == 'append' and isinstance(s.value.func.value, ast.Name) and len(s.value.args) == 1 \
                and not s.value.keywords:
            pre = []
            nm = s.value.func.value.id
            a, ta = self.ex(s.value.func.value, env, pre)
            e, t = self.ex(s.value.args[0], env, pre)
            if ta != LI or t != I:
                raise Unsupported('append to a non-list / of a non-int')
            self.need_fresh(nm, env, 'append')
            return self.wrap(pre, f'let {a} := {a} ++ [{e}]\n' + self.block(rest, env, k, inloop))
        if isinstance(s, ast.Return):
            if s.value is None:
                raise Unsupported('return without value')
            pre = []
            e, t = self.ex(s.value, env, pre, None, self.spec['ret'])
            if t != self.spec['ret']:
                raise Unsupported(f'return type {t}, expected {self.spec["ret"]}')
            return self.wrap(pre, f'.ok (.ret {e})' if inloop else f'.ok ({e})')
        if isinstance(s, ast.Raise):
            exc = s.exc
            nm = exc.func.id if isinstance(exc, ast.Call) and isinstance(exc.func, ast.Name) else \
                (exc.id if isinstance(exc, ast.Name) else None)
            if nm not in ERRORS:
                raise Unsupported('raise of an unknown exception')
            return f'.error {ERRORS[nm]}'
        if isinstance(s, ast.Break):
            if not inloop:
                raise Unsupported('break outside a loop')
            return inloop['brk'](env)
        if isinstance(s, ast.Continue):
            if not inloop:
                raise Unsupported('continue outside a loop')
            return inloop['next'](env)
        if isinstance(s, ast.If):
            return self.if_stmt(s, rest, env, k, inloop)
        if isinstance(s, ast.While):
            x = self.strip_idiom(s)
            if x is not None:
                if x not in env or env[x][1] != LI:
                    raise Unsupported('strip idiom on a non-list')
                self.need_fresh(x, env, 'in-place strip')
                return f'let {env[x][0]} := pyStrip {env[x][0]}\n' + self.block(rest, env, k, inloop)
            return self.while_stmt(s, rest, env, k, inloop)
        if isinstance(s, ast.For):
            return self.for_stmt(s, rest, env, k, inloop)
        raise Unsupported(f'statement {type(s).__name__} (line {s.lineno})')

    def if_stmt(self, s, rest, env, k, inloop):
        pre = []
        c = self.cond(s.test, env, pre)
        if c in ('True', 'False'):
            return self.wrap(pre, self.block((s.body if c == 'True' else s.orelse) + rest, env, k, inloop))
        ft_then, ft_else = self.falls_through(s.body), self.falls_through(s.orelse)
        if not (ft_then and ft_else) or not rest or self.has(s.body + s.orelse, (ast.Return, ast.Break, ast.Continue, ast.Raise)):
            a = self.block(s.body + rest, env, k, inloop)
            b = self.block(s.orelse + rest, env, k, inloop)
            return self.wrap(pre, f'if {c} then\n{ind(a, 2)}\nelse\n{ind(b, 2)}')
        inthen, inelse = self.assigned(s.body), self.assigned(s.orelse)
        vars_ = [v for v in self.assigned(s.body + s.orelse) if v in env or (v in inthen and v in inelse)]
        if not vars_:
            raise Unsupported('if statement without effect')
        results = {}

        def kk(e2):
            for v in vars_:
                if v in results and results[v][1] != e2[v][1]:
                    raise Unsupported(f'branches give {v} different types')
                prev = results.get(v)
                results[v] = (e2[v][0], e2[v][1], e2[v][2] and (prev[2] if prev else True), e2[v][3])
            return 'JOIN(' + ', '.join(e2[v][0] for v in vars_) + ')'
        a = self.block(s.body, env, kk, None)
        b = self.block(s.orelse, env, kk, None)
        pure = not any(w in a + b for w in ('.error', 'match ', '.ok'))
        conv = (lambda t: t.replace('JOIN(', '(')) if pure else (lambda t: t.replace('JOIN(', '.ok ('))
        env2 = dict(env)
        for v in vars_:
            env2[v] = (lname(v), results[v][1], results[v][2], results[v][3] or v in self.param_names)
        pat = tuple_pat([lname(v) for v in vars_])
        cont = self.block(rest, env2, k, inloop)
        ite = f'if {c} then\n{ind(conv(a), 2)}\nelse\n{ind(conv(b), 2)}'
        if pure:
            return self.wrap(pre, f'let {pat} :=\n{ind(ite, 2)}\n{cont}')
        ty = ' × '.join(lty(results[v][1]) for v in vars_)
        return self.wrap(pre, f'match (show Except TErr ({ty}) from\n{ind(ite, 2)}) with\n'
                              f'| .error exc_ => .error exc_\n| .ok {pat} =>\n{ind(cont, 2)}')

    # ---- loops through PyLoop.loop (while; for-range with return/break in the body)
    def loop_core(self, test, body, rest, env, k, inloop, fuel, pre_lines=''):
        state = [v for v in self.assigned(body) if v in env]
        if not state:
            raise Unsupported('loop without loop-carried variable')
        has_ret = self.has(body, (ast.Return,))
        is_true = isinstance(test, ast.Constant) and test.value is True
        sty = ' × '.join(lty(env[v][1]) for v in state)
        rty = lty(self.spec['ret']) if (has_ret or is_true) else 'Empty'
        pat = tuple_pat([env[v][0] for v in state])

        def st(e2):
            for v in state:
                if e2[v][1] != env[v][1]:
                    raise Unsupported(f'loop changes the type of {v}')
            return tuple_pat([e2[v][0] for v in state])

        def retwrap(term):
            return f'match (show Except TErr ({lty(self.spec["ret"])}) from\n{ind(term, 2)}) with\n' \
                   f'| .error exc_ => .error exc_\n| .ok r_ => .ok (.ret r_)'
        if is_true:
            # the loop only ends through break / return: the statements after the loop run at the break sites
            if inloop:
                raise Unsupported('nested `while True` loop')
            ctl = {'next': lambda e2: f'.ok (.next {st(e2)})',
                   'brk': lambda e2: retwrap(self.block(rest, e2, k, None))}
        else:
            ctl = {'next': lambda e2: f'.ok (.next {st(e2)})', 'brk': lambda e2: f'.ok (.brk {st(e2)})'}
        pre = []
        c = None if is_true else self.cond(test, env, pre)
        env_b = dict(env)
        for v in state:          # inside the loop the state variables are bound by the pattern
            env_b[v] = (env[v][0], env[v][1], env[v][2], env[v][3])
        inner = self.block(body, env_b, ctl['next'], ctl)
        if c is not None:
            inner = self.wrap(pre, f'if {c} then\n{ind(inner, 2)}\nelse\n  .ok (.brk {st(env)})')
        if is_true:
            return (f'{pre_lines}onLoop (loop (σ := {sty}) (ρ := {rty}) TErr.fuel (fun st_ => match st_ with\n'
                    f'    | {pat} =>\n{ind(inner, 6)}) ({fuel}) {st(env)})\n'
                    f'  (fun r_ => .ok r_)\n  (fun _ => .error TErr.fuel)')
        cont = self.block(rest, env, k, inloop)
        retarm = ('.ok (.ret r_)' if inloop else '.ok r_') if has_ret else 'nomatch r_'
        return (f'{pre_lines}onLoop (loop (σ := {sty}) (ρ := {rty}) TErr.fuel (fun st_ => match st_ with\n'
                f'    | {pat} =>\n{ind(inner, 6)}) ({fuel}) {st(env)})\n'
                f'  (fun r_ => {retarm})\n  (fun st_ => match st_ with\n    | {pat} =>\n{ind(cont, 6)})')

    def while_stmt(self, s, rest, env, k, inloop):
        if s.orelse:
            raise Unsupported('while loop with else clause')
        fuels = self.spec.get('fuels', [])
        if self.loop_idx >= len(fuels):
            raise Unsupported('no fuel annotation for this while loop')
        fuel = fuels[self.loop_idx]
        self.loop_idx += 1
        return self.loop_core(s.test, list(s.body), rest, env, k, inloop, fuel)

    def range_args(self, it, env, pre):
        if not (isinstance(it, ast.Call) and isinstance(it.func, ast.Name) and it.func.id == 'range' and not it.keywords
                and 1 <= len(it.args) <= 3):
            return None
        start = it.args[0] if len(it.args) > 1 else ast.Constant(value=0)
        stop = it.args[1] if len(it.args) > 1 else it.args[0]
        step = 1
        if len(it.args) == 3:
            try:
                step = ast.literal_eval(it.args[2])
            except Exception:
                raise Unsupported('range with a non-literal step')
            if step not in (1, -1):
                raise Unsupported('range with a step other than 1 / -1')
        a, ta = self.ex(start, env, pre)
        b, tb = self.ex(stop, env, pre)
        if ta != I or tb != I:
            raise Unsupported('range over non-ints')
        return a, b, step

    def iterable(self, it, env, pre):
        """-> (lean list expression, element type)"""
        r = self.range_args(it, env, pre)
        if r is not None:
            a, b, step = r
            return (f'(pyRange {a} {b})' if step == 1 else f'(pyRangeDown {a} {b})'), I
        if isinstance(it, ast.Call) and isinstance(it.func, ast.Name) and it.func.id in ('enumerate', 'reversed') \
                and len(it.args) == 1 and not it.keywords:
            e, t = self.ex(it.args[0], env, pre)
            if t != LI:
                raise Unsupported(f'{it.func.id} of a non-list')
            return (f'(pyEnum {e})', T(I, I)) if it.func.id == 'enumerate' else (f'(List.reverse {e})', I)
        e, t = self.ex(it, env, pre)
        if t != LI:
            raise Unsupported('iteration over a non-list')
        return e, I

    def for_stmt(self, s, rest, env, k, inloop):
        if s.orelse:
            raise Unsupported('for loop with else clause')
        pre = []
        if self.has(s.body, (ast.Return, ast.Break, ast.Continue)):
            # for v in range(a, b[, ±1]) as the while loop  v = a; while v < b: ...; v += 1
            r = self.range_args(s.iter, env, pre)
            if r is None or not isinstance(s.target, ast.Name) or self.has(s.body, (ast.Continue,)):
                raise Unsupported('for loop with break/continue/return that is not a plain range loop')
            a, b, step = r
            v = s.target.id
            sv = self.newvar('stop')
            iv = lname(v) if v != '_' else 'i_'
            env = dict(env)
            env[sv] = (sv, I, False, False)
            env[v] = (iv, I, False, False)
            test = ast.Compare(left=ast.Name(id=v, ctx=ast.Load()), ops=[ast.Lt() if step > 0 else ast.Gt()],
                               comparators=[ast.Name(id=sv, ctx=ast.Load())])
            incr = ast.AugAssign(target=ast.Name(id=v, ctx=ast.Store()), op=ast.Add(), value=ast.Constant(value=step))
            for n in (test, incr):
                ast.fix_missing_locations(n)
            fuel = f'({sv} - {iv}).toNat + 1' if step > 0 else f'({iv} - {sv}).toNat + 1'
            lines = f'let {sv} := {b}\nlet {iv} := {a}\n'
            return self.wrap(pre, self.loop_core(test, list(s.body) + [incr], rest, env, k, inloop, fuel, lines))
        xs, et = self.iterable(s.iter, env, pre)
        env_b = dict(env)
        tnames = self.target_names(s.target)
        if et == I:
            if not isinstance(s.target, ast.Name):
                raise Unsupported('loop target')
            ipat = lname(s.target.id) if s.target.id != '_' else 'i_'
            env_b[s.target.id] = (ipat, I, False, False)
        else:
            if not (isinstance(s.target, ast.Tuple) and len(s.target.elts) == 2
                    and all(isinstance(e, ast.Name) for e in s.target.elts)):
                raise Unsupported('loop target')
            for e in s.target.elts:
                env_b[e.id] = (lname(e.id), I, False, False)
            ipat = '(' + ', '.join(lname(e.id) for e in s.target.elts) + ')'
        state = [v for v in self.assigned(s.body) if v in env and v not in tnames]
        if not state:
            raise Unsupported('for loop without loop-carried variable')
        sty = ' × '.join(lty(env[v][1]) for v in state)
        spat = tuple_pat([env[v][0] for v in state])

        def kb(e2):
            for v in state:
                if e2[v][1] != env[v][1]:
                    raise Unsupported(f'loop changes the type of {v}')
            return '.ok ' + ('(' + ', '.join(e2[v][0] for v in state) + ')' if len(state) > 1 else e2[state[0]][0])
        inner = self.block(s.body, env_b, kb, None)
        cont = self.block(rest, env, k, inloop)
        return self.wrap(pre, f'match pyFor (ε := TErr) (σ := {sty}) {xs} {spat} (fun it_ st_ => match it_, st_ with\n'
                              f'    | {ipat}, {spat} =>\n{ind(inner, 6)}) with\n'
                              f'| .error exc_ => .error exc_\n| .ok {spat} =>\n{ind(cont, 2)}')

    def translate(self, methods):
        self.methods = methods
        spec = self.spec
        args = [a.arg for a in self.node.args.args]
        want = ([] if spec.get('nocls') else ['cls'])
        have = args[len(want):]
        if args[:len(want)] != want or sorted(have) != sorted(py_params(spec)) or self.node.args.vararg \
                or self.node.args.kwarg or self.node.args.kwonlyargs:
            raise Unsupported(f'parameters {args}, expected {want + py_params(spec)} (in some order)')
        env = {'p': ('p', I, False, False)}
        self.param_names = set(have)
        # env entry: (lean name, type, fresh list object?, rebound since entry? (for `a is b`))
        for n, t in spec['params']:
            env[n] = (lname(n), t, False, False)
        for n in spec.get('none', []):
            env[n] = (lname(n), NONE, False, False)
        for n, val in spec.get('static', {}).items():
            env[n] = (val, 'STATIC', False, False)

        def k(_env):
            raise Unsupported('function can end without return')
        return self.block(self.node.body, env, k, None)


def lean_sig(spec):
    ps = [] if spec.get('nocls') else ['(p : Int)']
    if spec.get('fuelparam'):
        ps.append('(fuel : Nat)')
    if spec.get('same'):
        ps.append('(same : Bool)')
    for n, t in spec['params']:
        ps.append(f'({lname(n)} : {lty(t)})')
    return ' '.join(ps), lty(spec['ret'])


HEADER = '''/- GENERATED by harness/py2lean_gfpx.py from {src} — do not edit.
The list methods of class Polynomial of mpyc/gfpx.py, translated statement by statement (rules: docstring of the translator). -/
import MpycV.Model.PyPoly
namespace {ns}
open MpycV MpycV.PyList MpycV.PyLoop MpycV.PyPoly
set_option linter.unusedVariables false

'''


def find_methods(tree, klass='Polynomial'):
    """methods of the given class"""
    found = {}
    for node in tree.body:
        if isinstance(node, ast.ClassDef) and node.name == klass:
            for m in node.body:
                if isinstance(m, ast.FunctionDef):
                    found.setdefault(m.name, []).append(m)
    return found


def translate_source(text, srcname='mpyc/gfpx.py', ns='MpycV.GfpxSrc'):
    """-> (lean file text, {lean function name: error message} for what could not be translated)"""
    out = [HEADER.format(src=srcname, ns=ns)]
    problems = {}
    try:
        tree = ast.parse(text)
        founds = {None: find_methods(tree), BIN: find_methods(tree, BIN)}
    except SyntaxError as exc:
        founds = {None: {}, BIN: {}}
        problems['*'] = f'syntax error: {exc}'
    for spec in SPECS:
        name = spec['lean']
        found = founds[spec.get('klass')]
        methods = {k: v[0] for k, v in found.items() if len(v) == 1}
        try:
            nodes = found.get(spec['py'], [])
            if len(nodes) != 1:
                raise Unsupported(f'{len(nodes)} definitions of {spec["py"]} found')
            body = GFn(spec, nodes[0]).translate(methods)
            sig, ret = lean_sig(spec)
            out.append(f'-- ≙ gfpx.py:{nodes[0].lineno} `{spec["py"]}`')
            out.append(f'def {name} {sig} : Except TErr ({ret}) :=\n{ind(body, 2)}\n')
        except Unsupported as exc:
            problems[name] = str(exc)
        except RecursionError:
            problems[name] = 'translator recursion limit'
        except Exception as exc:   # never crash the checker
            problems[name] = f'translator error {type(exc).__name__}: {exc}'
        if name in problems:
            msg = problems[name].replace('"', "'").replace('\n', ' ')
            out.append(f'/-- NOT TRANSLATED: {msg} -/\ndef {name}.untranslated : String := "py2lean_gfpx: {name}: {msg}"\n')
    out.append(f'end {ns}\n')
    return '\n'.join(out), problems


def main():
    import repo_path
    src = os.path.join(repo_path.REPO, 'mpyc', 'gfpx.py')
    text, problems = translate_source(open(src).read())
    dst = sys.argv[1] if len(sys.argv) > 1 else os.path.join(os.path.dirname(HERE), 'lean', 'MpycV', 'Generated',
                                                             'GfpxSrc.lean')
    old = open(dst).read() if os.path.exists(dst) else None
    if old != text:
        tmp = dst + f'.tmp{os.getpid()}'
        with open(tmp, 'w') as f:
            f.write(text)
        os.replace(tmp, dst)
    for k, v in problems.items():
        print(f'py2lean_gfpx: {k}: {v}')
    return 0


if __name__ == '__main__':
    sys.exit(main())
