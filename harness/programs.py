"""Corpus of MPC programs (async def prog(mpc) -> result) shared by the runtime-level checks
(C08, C09, C11, C14, C18, C35, C36).  Every program is deterministic in its outputs (random values
are only used internally or reduced to deterministic facts) so that outputs can be compared across
schedules and parties.  Each entry: name -> (factory(params) -> program, tags).
"""
import asyncio


def p_arith(mpc_params=None):
    async def prog(mpc):
        secint = mpc.SecInt(16)
        x = mpc.input(secint(mpc.pid + 7))
        s = mpc.sum(x)
        p = mpc.prod(x[:3])
        lt = x[0] < x[-1]
        mx = mpc.max(x)
        md = x[-1] % 3
        q = (s * s + 5) // 7
        return await mpc.output([s, p, lt, mx, md, q, abs(x[0] - x[-1]), mpc.if_else(lt, s, p)])
    return prog


def p_f1(_=None):
    """the F1 shape: await an already-completed transfer between a no-pc style call and an output"""
    async def prog(mpc):
        secint = mpc.SecInt(16)
        m = len(mpc.parties)
        x = mpc.input(secint(mpc.pid + 7))
        y = mpc.transfer(mpc.pid, senders=0)
        a = await mpc.output(x[1 % m])
        c = x[2 % m] % 3
        z = await y
        d = await mpc.output(c)
        e = await mpc.output(x[0] % 2)
        return a, z, d, e
    return prog


def p_mixed_await(_=None):
    """awaits on results that may or may not be done; user coroutine nested; transfer in the middle"""
    async def prog(mpc):
        secint = mpc.SecInt(32)
        secfld = mpc.SecFld(101)

        @mpc.coroutine
        async def triple(a):
            await mpc.returnType(type(a))
            b = a * a
            c = b * a + 1
            return c

        x = mpc.input(secint(3 + mpc.pid))
        t0 = mpc.transfer(('hello', mpc.pid))
        y = [triple(a) for a in x]
        f = mpc.input(secfld(5 + mpc.pid), senders=0)
        g = f * f + f
        r0 = await mpc.output(y[0])
        ts = await t0
        h = mpc.in_prod(y, x)
        r1 = await mpc.output(g)
        r2 = await mpc.output([h] + y)
        return r0, [t[1] for t in ts], int(r1), r2
    return prog


def p_fxp(_=None):
    async def prog(mpc):
        secfxp = mpc.SecFxp(32, 16)
        x = mpc.input(secfxp(1.5 + mpc.pid))
        a = x[0] * x[-1]
        b = mpc.sum(x) / 4
        c = x[0] < x[-1]
        v = mpc.vector_add(x, [secfxp(2)] * len(x))
        w = mpc.schur_prod(v, x)
        out = await mpc.output([a, c] + w)
        bb = await mpc.output(b)
        return [round(o * 64) for o in out], round(bb * 16)
    return prog


def p_bits_sort(_=None):
    async def prog(mpc):
        secint = mpc.SecInt(8)
        x = mpc.input(secint(11 * mpc.pid % 7 - 3))
        bits = mpc.to_bits(x[0] + 5)
        srt = mpc.sorted(x + [secint(2), secint(-1)])
        am, mn = mpc.argmin(x)
        u = mpc.unit_vector(secint(2), 4)
        return await mpc.output(bits + srt + [am, mn] + u + [mpc.lsb(x[-1] + 8), mpc.from_bits(bits)])
    return prog


def p_seclist_random(_=None):
    async def prog(mpc):
        secint = mpc.SecInt(16)
        x = mpc.input(secint(mpc.pid + 2))
        s = mpc.seclist(x + [secint(9), secint(4)], secint)
        i = mpc.input(secint(1), senders=0)
        s[i] = s[i] + 10
        s.append(secint(3))
        del s[0]
        r = mpc.random.randrange(secint, 5)
        perm = mpc.random.random_permutation(secint, 4)
        chk = mpc.sum(perm) + (r < 5) - (r < 0)     # deterministic: 6 + 1 - 0
        cnt = s.count(3)
        return await mpc.output(list(s) + [chk, cnt])
    return prog


def p_fld_conv(_=None):
    async def prog(mpc):
        secint = mpc.SecInt(16)
        secfld = mpc.SecFld(2**8)
        secp = mpc.SecFld(257)
        a = mpc.input(secfld(0x53 + mpc.pid), senders=0)
        b = a * a / (a + 1)
        bits = mpc.to_bits(a)
        c = mpc.input(secp(200 + mpc.pid))
        d = mpc.prod(c) + 1 / c[0]
        e = mpc.convert(mpc.input(secint(-5), senders=0), mpc.SecInt(32))
        z = mpc.is_zero(c[0] - c[0])
        return [int(v) for v in await mpc.output([b] + bits)], [int(v) for v in await mpc.output([d, z])], \
            await mpc.output(e), await mpc.is_zero_public(c[0] - 200)
    return prog


def p_stats_gcd(_=None):
    async def prog(mpc):
        secint = mpc.SecInt(8)
        x = mpc.input(secint(6 * (mpc.pid + 1)))
        data = x[:3] + [secint(9), secint(6)]
        mean = mpc.statistics.mean(data)
        med = mpc.statistics.median(data)
        mode = mpc.statistics.mode(data)
        return await mpc.output([mean, med, mode, x[0] * x[0]])
    return prog


def p_barrier(_=None):
    async def prog(mpc):
        secint = mpc.SecInt(16)
        x = mpc.input(secint(mpc.pid + 1))
        y = [a * a for a in x]
        await mpc.barrier('one')
        z = mpc.prod(y)
        await mpc.throttler(0.6)
        w = mpc.sum(y)
        await mpc.throttler(0.6)
        r = await mpc.output([z, w])
        await mpc.barrier()
        return r
    return prog


def p_output_subset(_=None):
    async def prog(mpc):
        secint = mpc.SecInt(16)
        m = len(mpc.parties)
        x = mpc.input([secint(mpc.pid), secint(-mpc.pid)])
        tot = mpc.sum([a for r in x for a in r])
        r0 = await mpc.output(x[0][0] + 5, receivers=0)
        r1 = await mpc.output(tot + 1, receivers=[m - 1])
        ex = await mpc.transfer(mpc.pid * 10, senders=[m - 1], receivers=range(m))
        return r0, r1, ex
    return prog


def p_secflt(_=None):
    async def prog(mpc):
        secflt = mpc.SecFlt(16)
        x = mpc.input(secflt(1.25 + mpc.pid), senders=0)
        y = x * x + secflt(0.5)
        c = y > x
        o = await mpc.output(y)
        oc = await mpc.output(c)

        @mpc.coroutine
        async def less(a, b) -> secflt:          # user coroutine returning a secure float (placeholder handed out at once)
            return a < b

        c2 = less(x, y)
        probe = mpc.output(c2)                   # every party schedules this opening ...
        if mpc.pid == 0:
            await probe                          # ... but only party 0 waits for it (awaiting is a local decision): c2 is
        z = c2 * y + c2                          # consumed after less() has finished at party 0 and before it elsewhere
        oz = await mpc.output(z)
        return round(o * 8), oc, round(oz * 8), await probe
    return prog


def p_secgrp(_=None):
    async def prog(mpc):
        import mpyc.fingroups as fg
        G = fg.QuadraticResidues(l=16)
        secgrp = mpc.SecGrp(G)
        secfld = mpc.SecFld(G.order)
        g = G.generator
        h = g ^ 3
        x = mpc.input(secfld(3 + mpc.pid))              # exponents from every party: available at different times
        a = secgrp.repeat_public(g, x[0])                # two public-output exponentiations in flight at once
        b = secgrp.repeat_public(h, x[-1])
        c = secgrp.repeat(g, x[0]) @ secgrp(h)           # secret output, then a secure group operation
        d = mpc.output(c)
        return int((await a).value), int((await b).value), int((await d).value)
    return prog


class InjectedFault(Exception):
    pass


def p_fault(_=None):
    """a coroutine without return value raises at every party after its first await (the runtime swallows the exception);
    the program continues with more forks, a barrier and further operations"""
    async def prog(mpc):
        secint = mpc.SecInt(16)

        @mpc.coroutine
        async def audit(x) -> None:
            v = await mpc.output(x)
            if v != 0:
                raise InjectedFault(f'audit failed: {v}')

        x = mpc.input(secint(5 + mpc.pid))
        s = mpc.sum(x)
        audit(s)                                # dies inside its task, at a schedule-dependent moment
        y = s * s
        # no barrier: the main program resumes (on a message from ONE party; the sender itself at once) before or after
        # the death of audit (which needs shares from ALL parties), differently at different parties
        await mpc.transfer(7, senders=len(mpc.parties) - 1)
        r0 = await mpc.output(y)
        z = [a * a + 1 for a in x]
        r1 = await mpc.output(mpc.prod(z))
        w = mpc.max(z)
        r2 = await mpc.output(w)
        await mpc.barrier()
        r3 = await mpc.output(w * s)
        return [int(v) for v in (r0, r1, r2, r3)]
    prog.expected_exc = (InjectedFault,)
    return prog


def p_np(_=None):
    async def prog(mpc):
        import numpy as np
        secint = mpc.SecInt(16)
        a = mpc.input(secint.array(np.array([[1, 2], [3, 4 + mpc.pid]])), senders=0)
        b = a @ a + 1
        c = mpc.np_less(a, b)
        d = mpc.np_sum(a * a, axis=0)
        v = mpc.input(secint.array(np.array([1, 2, 3, 4, 5])), senders=0)
        k = mpc.input(secint(2), senders=m - 1 if (m := len(mpc.parties)) else 0)
        e = mpc.np_roll(v, k)                    # secret shift: convolution with a secret unit vector + resharing
        g = e * e
        return ((await mpc.output(b)).tolist(), (await mpc.output(c)).tolist(), (await mpc.output(d)).tolist(),
                (await mpc.output(e)).tolist(), (await mpc.output(g)).tolist())
    return prog


def p_smallfld(_=None):
    """a field with no more elements than parties (q = largest prime <= m): lifted to an extension field when t > 0, so that
    the evaluation points 1..m stay distinct and non-zero"""
    async def prog(mpc):
        m = len(mpc.parties)
        q = max(p for p in (2, 3, 5, 7, 11, 13) if p <= max(m, 2))
        S = mpc.SecFld(q)
        x = mpc.input(S((mpc.pid + 1) % q))
        y = x[0] * x[-1] + x[0]
        z = mpc.prod(x)
        return int(await mpc.output(y)), int(await mpc.output(z)), [int(v) for v in await mpc.output(x)]
    return prog


def p_tswitch(_=None):
    """the program lowers the threshold for its final, public phase (demos/parallelsort.py runs with threshold 0) while
    an opening is still pending: at every party the pending operation has to finish with the threshold it started with
    (Runtime.input/output read it in their first step, before any share is awaited), whatever the timing of the shares"""
    async def prog(mpc):
        import asyncio
        secint = mpc.SecInt(16)
        m = len(mpc.parties)
        x = mpc.input(secint(42 + mpc.pid), senders=0)
        y = mpc.output(x, receivers=[m - 1])          # scheduled, awaited below
        z = mpc.output(x)
        for _ in range(4):                            # unrelated local work: every operation called so far takes its
            await asyncio.sleep(0)                    # first step(s); shares from party 0 have arrived or not
        mpc.threshold = 0
        r0 = await y
        r1 = await z
        v = mpc.input(secint(mpc.pid + 1))
        r2 = await mpc.output(mpc.sum(v))
        return r0, r1, r2
    return prog


PROGRAMS = {
    'arith': (p_arith, {'int'}),
    'f1': (p_f1, {'int', 'transfer'}),
    'mixed_await': (p_mixed_await, {'int', 'fld', 'transfer', 'usercoro'}),
    'fxp': (p_fxp, {'fxp'}),
    'bits_sort': (p_bits_sort, {'int', 'bits'}),
    'seclist_random': (p_seclist_random, {'int', 'list', 'random'}),
    'fld_conv': (p_fld_conv, {'fld', 'convert'}),
    'stats_gcd': (p_stats_gcd, {'int', 'stats'}),
    'barrier': (p_barrier, {'int', 'barrier'}),
    'output_subset': (p_output_subset, {'int', 'subset'}),
    'secflt': (p_secflt, {'flt'}),
    'np': (p_np, {'np'}),
    'secgrp': (p_secgrp, {'grp'}),
    'fault': (p_fault, {'int', 'fault'}),
    'tswitch': (p_tswitch, {'int', 'threshold'}),
    'smallfld': (p_smallfld, {'fld', 'lifted'}),
}
