"""Independent reference implementations for the finite groups of mpyc.fingroups (C27, C28).

Written from the textbook definitions with plain Python ints; nothing here is copied from
/repo/mpyc/fingroups.py or from the Lean model:

  * Fp / Fp2 field helpers (Fp2 = Fp[i]/(i^2+1), used by BN256_twist)
  * permutations as functions (composition, inverse by argsort, naive powers)
  * quadratic residues (Euler criterion), order-q subgroups of GF(p)*
  * short Weierstrass curves: chord-and-tangent law on affine points (None = point at infinity),
    conversions from projective / Jacobian coordinates, on-curve test, scalar multiplication by a
    right-to-left binary method (the code under test uses a left-to-right one)
  * (twisted) Edwards curves: the addition law of Bernstein-Lange in affine form, conversions from
    projective / extended coordinates
  * binary quadratic forms: validity, reduction, Dirichlet/Gauss composition (Cohen Alg. 5.4.7)
  * Mumford representations of divisors on y^2 = f(x): validity test and brute-force enumeration of
    the whole Jacobian for tiny p (independent class number)
"""
import math
from itertools import product


# ------------------------------------------------------------------------------------------------
# fields
# ------------------------------------------------------------------------------------------------
class Fp:
    def __init__(self, p):
        self.p = p
        self.zero = 0
        self.one = 1 % p

    def el(self, v):
        return v % self.p

    def add(self, a, b):
        return (a + b) % self.p

    def sub(self, a, b):
        return (a - b) % self.p

    def mul(self, a, b):
        return a * b % self.p

    def neg(self, a):
        return -a % self.p

    def inv(self, a):
        if a % self.p == 0:
            raise ZeroDivisionError
        return pow(a, -1, self.p)

    def smul(self, k, a):
        return k * a % self.p

    def is_zero(self, a):
        return a % self.p == 0


class Fp2:
    """Fp[i]/(i^2 + 1), elements (c0, c1) = c0 + c1 i; requires p = 3 mod 4."""

    def __init__(self, p):
        assert p % 4 == 3
        self.p = p
        self.zero = (0, 0)
        self.one = (1, 0)

    def el(self, v):
        if isinstance(v, int):
            return (v % self.p, 0)
        return (v[0] % self.p, v[1] % self.p)

    def add(self, a, b):
        return ((a[0] + b[0]) % self.p, (a[1] + b[1]) % self.p)

    def sub(self, a, b):
        return ((a[0] - b[0]) % self.p, (a[1] - b[1]) % self.p)

    def mul(self, a, b):
        p = self.p
        return ((a[0] * b[0] - a[1] * b[1]) % p, (a[0] * b[1] + a[1] * b[0]) % p)

    def neg(self, a):
        return (-a[0] % self.p, -a[1] % self.p)

    def inv(self, a):
        n = (a[0] * a[0] + a[1] * a[1]) % self.p
        if n == 0:
            raise ZeroDivisionError
        ni = pow(n, -1, self.p)
        return (a[0] * ni % self.p, -a[1] * ni % self.p)

    def smul(self, k, a):
        return (k * a[0] % self.p, k * a[1] % self.p)

    def is_zero(self, a):
        return a[0] % self.p == 0 and a[1] % self.p == 0


# ------------------------------------------------------------------------------------------------
# generic
# ------------------------------------------------------------------------------------------------
def naive_power(op, inv, identity, a, n):
    """a^n by |n| successive applications (only for small |n|)."""
    if n < 0:
        a, n = inv(a), -n
    c = identity
    for _ in range(n):
        c = op(c, a)
    return c


def rtl_power(op, inv, identity, a, n):
    """a^n by the right-to-left binary method (independent of the left-to-right ladder)."""
    if n < 0:
        a, n = inv(a), -n
    c = identity
    b = a
    while n:
        if n & 1:
            c = op(c, b)
        n >>= 1
        if n:
            b = op(b, b)
    return c


# ------------------------------------------------------------------------------------------------
# permutations: p is the map i -> p[i]; "first p then q"
# ------------------------------------------------------------------------------------------------
def perm_is_valid(n, p):
    return len(p) == n and sorted(p) == list(range(n))


def perm_compose(p, q):
    """The map i -> q(p(i))."""
    return tuple(q[p[i]] for i in range(len(p)))


def perm_inverse(p):
    return tuple(sorted(range(len(p)), key=lambda i: p[i]))


# ------------------------------------------------------------------------------------------------
# multiplicative groups mod p
# ------------------------------------------------------------------------------------------------
def is_qr(a, p):
    a %= p
    return a != 0 and pow(a, (p - 1) // 2, p) == 1


def is_prime_small(n):
    if n < 2:
        return False
    if n % 2 == 0:
        return n == 2
    r = math.isqrt(n)
    return all(n % k for k in range(3, r + 1, 2))


def is_probable_prime(n):
    """Deterministic Miller-Rabin for n < 3.3e24, probabilistic-strength beyond (fixed bases)."""
    if n < 2:
        return False
    small = [2, 3, 5, 7, 11, 13, 17, 19, 23, 29, 31, 37, 41]
    for q in small:
        if n % q == 0:
            return n == q
    d, s = n - 1, 0
    while d % 2 == 0:
        d //= 2
        s += 1
    for a in small:
        x = pow(a, d, n)
        if x in (1, n - 1):
            continue
        for _ in range(s - 1):
            x = x * x % n
            if x == n - 1:
                break
        else:
            return False
    return True


# ------------------------------------------------------------------------------------------------
# short Weierstrass curves y^2 = x^3 + a x + b, affine points (x, y) or None
# ------------------------------------------------------------------------------------------------
def w_on_curve(F, a, b, P):
    if P is None:
        return True
    x, y = P
    lhs = F.mul(y, y)
    rhs = F.add(F.add(F.mul(F.mul(x, x), x), F.mul(a, x)), b)
    return F.is_zero(F.sub(lhs, rhs))


def w_neg(F, P):
    if P is None:
        return None
    return (P[0], F.neg(P[1]))


def w_add(F, a, P, Q):
    """Chord-and-tangent law."""
    if P is None:
        return Q
    if Q is None:
        return P
    x1, y1 = P
    x2, y2 = Q
    if F.is_zero(F.sub(x1, x2)):
        if F.is_zero(F.add(y1, y2)):
            return None  # P = -Q (includes 2-torsion)
        lam = F.mul(F.add(F.smul(3, F.mul(x1, x1)), a), F.inv(F.smul(2, y1)))
    else:
        lam = F.mul(F.sub(y2, y1), F.inv(F.sub(x2, x1)))
    x3 = F.sub(F.sub(F.mul(lam, lam), x1), x2)
    y3 = F.sub(F.mul(lam, F.sub(x1, x3)), y1)
    return (x3, y3)


def w_from_projective(F, P):
    x, y, z = P
    if F.is_zero(z):
        return None
    zi = F.inv(z)
    return (F.mul(x, zi), F.mul(y, zi))


def w_from_jacobian(F, P):
    x, y, z = P
    if F.is_zero(z):
        return None
    zi = F.inv(z)
    zi2 = F.mul(zi, zi)
    return (F.mul(x, zi2), F.mul(y, F.mul(zi, zi2)))


def w_mul(F, a, P, n):
    return rtl_power(lambda X, Y: w_add(F, a, X, Y), lambda X: w_neg(F, X), None, P, n)


def w_all_points(F, a, b):
    """All affine points of a curve over a tiny prime field (plus None)."""
    p = F.p
    pts = [None]
    for x in range(p):
        rhs = (x * x * x + a * x + b) % p
        for y in range(p):
            if y * y % p == rhs:
                pts.append((x, y))
    return pts


# ------------------------------------------------------------------------------------------------
# twisted Edwards curves a x^2 + y^2 = 1 + d x^2 y^2, affine points (x, y); identity (0, 1)
# ------------------------------------------------------------------------------------------------
def ed_on_curve(F, a, d, P):
    x, y = P
    x2, y2 = F.mul(x, x), F.mul(y, y)
    lhs = F.add(F.mul(a, x2), y2)
    rhs = F.add(F.one, F.mul(d, F.mul(x2, y2)))
    return F.is_zero(F.sub(lhs, rhs))


def ed_neg(F, P):
    return (F.neg(P[0]), P[1])


def ed_add(F, a, d, P, Q):
    """Bernstein-Lange addition law; raises ZeroDivisionError when a denominator vanishes."""
    x1, y1 = P
    x2, y2 = Q
    t = F.mul(d, F.mul(F.mul(x1, x2), F.mul(y1, y2)))
    x3 = F.mul(F.add(F.mul(x1, y2), F.mul(y1, x2)), F.inv(F.add(F.one, t)))
    y3 = F.mul(F.sub(F.mul(y1, y2), F.mul(a, F.mul(x1, x2))), F.inv(F.sub(F.one, t)))
    return (x3, y3)


def ed_from_projective(F, P):
    """Projective (x, y, z) or extended (x, y, z, t): affine point; checks t z = x y if t is given."""
    x, y, z = P[:3]
    zi = F.inv(z)
    if len(P) == 4:
        if not F.is_zero(F.sub(F.mul(P[3], z), F.mul(x, y))):
            raise ValueError('inconsistent extended coordinate')
    return (F.mul(x, zi), F.mul(y, zi))


def ed_mul(F, a, d, P, n):
    return rtl_power(lambda X, Y: ed_add(F, a, d, X, Y), lambda X: ed_neg(F, X),
                     (F.zero, F.one), P, n)


def ed_all_points(F, a, d):
    p = F.p
    return [(x, y) for x in range(p) for y in range(p)
            if (a * x * x + y * y - 1 - d * x * x * y * y) % p == 0]


# ------------------------------------------------------------------------------------------------
# binary quadratic forms (a, b, c) of discriminant D < 0
# ------------------------------------------------------------------------------------------------
def form_is_valid(D, f):
    """Primitive, positive definite, reduced, discriminant D."""
    a, b, c = f
    if b * b - 4 * a * c != D or a <= 0:
        return False
    if math.gcd(math.gcd(a, b), c) != 1:
        return False
    if not (abs(b) <= a <= c):
        return False
    if (abs(b) == a or a == c) and b < 0:
        return False
    return True


def form_reduce(f):
    """Classical reduction by the SL2(Z) generators S and T^k."""
    a, b, c = f
    while True:
        if a > c or (a == c and b < 0 and abs(b) <= a and False):
            a, b, c = c, -b, a
            continue
        if not (-a < b <= a):
            # translate x -> x + k y to bring b into (-a, a]
            k = (a - b) // (2 * a)
            b, c = b + 2 * k * a, a * k * k + b * k + c
            continue
        if a > c:
            continue
        if a == c and b < 0:
            b = -b
        return (a, b, c)


def form_compose(D, f1, f2):
    """Dirichlet composition of two primitive forms of the same discriminant, then reduction."""
    a1, b1, c1 = f1
    a2, b2, c2 = f2
    s = (b1 + b2) // 2
    # e = gcd(a1, a2, s) = u a1 + v a2 + w s
    g, x1, y1 = _egcd(a1, a2)
    e, x2, w = _egcd(g, s)
    u, v = x2 * x1, x2 * y1
    a3 = a1 * a2 // (e * e)
    # b3 = (u a1 b2 + v a2 b1 + w (b1 b2 + D)/2) / e   mod 2 a3
    b3 = (u * a1 * b2 + v * a2 * b1 + w * ((b1 * b2 + D) // 2)) // e
    b3 %= 2 * a3
    c3, r = divmod(b3 * b3 - D, 4 * a3)
    assert r == 0
    return form_reduce((a3, b3, c3))


def form_identity(D):
    k = D % 2
    return (1, k, (k * k - D) // 4)


def form_inverse(f):
    return form_reduce((f[0], -f[1], f[2]))


def _egcd(a, b):
    """g, x, y with a x + b y = g = gcd(a, b) >= 0."""
    x0, y0, x1, y1 = 1, 0, 0, 1
    while b:
        q = a // b
        a, b = b, a - q * b
        x0, x1 = x1, x0 - q * x1
        y0, y1 = y1, y0 - q * y1
    if a < 0:
        a, x0, y0 = -a, -x0, -y0
    return a, x0, y0


def class_number_bruteforce(D):
    """Number of reduced primitive forms of discriminant D (D < 0)."""
    h = 0
    a = 1
    while 3 * a * a <= -D:
        for b in range(-a + 1, a + 1):
            if (b * b - D) % (4 * a) == 0:
                c = (b * b - D) // (4 * a)
                if c >= a and math.gcd(math.gcd(a, b), c) == 1 and not (a == c and b < 0):
                    h += 1
        a += 1
    return h


# ------------------------------------------------------------------------------------------------
# polynomials over GF(p) as coefficient lists (lowest degree first, no trailing zeros)
# ------------------------------------------------------------------------------------------------
def p_norm(a, p):
    a = [c % p for c in a]
    while a and a[-1] == 0:
        a.pop()
    return a


def p_sub(a, b, p):
    n = max(len(a), len(b))
    a = a + [0] * (n - len(a))
    b = b + [0] * (n - len(b))
    return p_norm([x - y for x, y in zip(a, b)], p)


def p_mul(a, b, p):
    if not a or not b:
        return []
    r = [0] * (len(a) + len(b) - 1)
    for i, x in enumerate(a):
        for j, y in enumerate(b):
            r[i + j] += x * y
    return p_norm(r, p)


def p_mod(a, b, p):
    a = p_norm(a, p)
    b = p_norm(b, p)
    if not b:
        raise ZeroDivisionError
    bi = pow(b[-1], -1, p)
    while len(a) >= len(b):
        k = a[-1] * bi % p
        s = len(a) - len(b)
        for i, y in enumerate(b):
            a[s + i] = (a[s + i] - k * y) % p
        a = p_norm(a, p)
    return a


def mumford_is_valid(f, genus, p, u, v):
    """(u, v) reduced Mumford representation on y^2 = f(x): u monic, deg v < deg u <= genus, u | f - v^2."""
    u = p_norm(list(u), p)
    v = p_norm(list(v), p)
    if not u or u[-1] != 1 or len(u) - 1 > genus:
        return False
    if len(v) >= len(u):
        return False
    return p_mod(p_sub(p_norm(list(f), p), p_mul(v, v, p), p), u, p) == []


def jacobian_bruteforce(f, genus, p):
    """All reduced Mumford pairs over a tiny field (as (tuple(u), tuple(v)))."""
    els = []
    for du in range(genus + 1):
        for lo in product(range(p), repeat=du):
            u = list(lo) + [1]
            for vc in product(range(p), repeat=du):
                v = p_norm(list(vc), p)
                if mumford_is_valid(f, genus, p, u, v):
                    els.append((tuple(u), tuple(v)))
    return els
